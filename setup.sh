#!/bin/sh
# Build the framework from files on disk only (offline): Lean model + theorems + driver, Rust harness.
set -e
cd "$(dirname "$0")"
export CARGO_NET_OFFLINE=true
(cd lean && lake build)
(cd harness && cargo build --offline)
echo "setup ok"
