#!/bin/sh
# Build the framework from files on disk only (offline): Lean model + theorems + driver, Rust harness.
set -e
cd "$(dirname "$0")"
export CARGO_NET_OFFLINE=true
(cd lean && lake build)
(cd harness && cargo build --offline)
# second build configuration used by the C12/C16 runs (the crate's optional `chrono` feature)
(cd harness && CARGO_TARGET_DIR=target-chrono cargo build --offline --features chrono)
echo "setup ok"
