//! Family `typed` (C16 and the non-song half of C12): typed response decoders other than song
//! listings, and typed command lists.
//!
//! ops (byte strings hex, `-` = empty, `_` = nothing)
//!   typed.<kind> <params> <fields> <binary>        arbitrary frame => canonical result
//!   typed.<kind>.rec <params> <record> <seed>      abstract reply  => <fields used>;<canonical result>
//!   typed.cmdlist <vec|tup>:<n> <frame>/<frame>/…  typed command list => ok:[r|r|…] | terr
//! `<fields>` = `k=v,k=v,…`; `<binary>` = `none` or hex. Every frame is obtained by pushing wire bytes
//! (`key: value\n`…, optional binary section, `OK\n`) through the real `mpd_protocol` parser; the
//! real `Command::response` of the command for `<kind>` is called on it and every public accessor
//! and iterator of the result is walked. Canonical forms are documented in lean/Driver/Typed.lean.

use std::collections::HashMap;
use std::io::Read;
use std::panic::{catch_unwind, AssertUnwindSafe};
use std::time::Duration;

use mpd_client::commands::{self as cmds, Command, CommandList, SongId};
use mpd_client::filter::Filter;
use mpd_client::responses as res;
use mpd_client::tag::Tag;
use mpd_protocol::response::Frame;
use mpd_protocol::Connection;

use crate::tags::{named_tags, tag_ident, tag_name, MPD_TAG_NAMES};
use crate::util::{gen_text, gen_word, hex, unhex, Rng};
use crate::Cfg;

type Fields = Vec<(Vec<u8>, Vec<u8>)>;

/// second build configuration: with `--features chrono` a `Timestamp` also carries a parsed
/// `DateTime` and an unparsable `Last-Modified` is an error. chrono's parser is outside the model:
/// the playlist kind is then called `playlistsc` and only totality and `raw()` are compared.
#[cfg(feature = "chrono")]
pub const CHRONO: bool = true;
#[cfg(not(feature = "chrono"))]
pub const CHRONO: bool = false;

fn pl_kind() -> &'static str {
    if CHRONO {
        "playlistsc"
    } else {
        "playlists"
    }
}

pub const KINDS: &[&str] = &[
    "status", "stats", "rg", "count", "countg", "list", "listg", "playlists", "stget", "stlist", "stfind",
    "messages", "channels", "tagtypes", "update", "addid", "unit", "art",
];

// ---------------------------------------------------------------------------------------------
// frames through the real parser

/// serves the greeting in one read and the rest afterwards (`connect` drops what it read past the
/// greeting)
struct Chunks {
    parts: Vec<Vec<u8>>,
    idx: usize,
    off: usize,
}

impl Read for Chunks {
    fn read(&mut self, buf: &mut [u8]) -> std::io::Result<usize> {
        while self.idx < self.parts.len() && self.off == self.parts[self.idx].len() {
            self.idx += 1;
            self.off = 0;
        }
        if self.idx >= self.parts.len() {
            return Ok(0);
        }
        let p = &self.parts[self.idx];
        let n = buf.len().min(p.len() - self.off);
        buf[..n].copy_from_slice(&p[self.off..self.off + n]);
        self.off += n;
        Ok(n)
    }
}

fn wire_fields(out: &mut Vec<u8>, fields: &Fields, bin: &Option<Vec<u8>>) {
    for (k, v) in fields {
        out.extend_from_slice(k);
        out.extend_from_slice(b": ");
        out.extend_from_slice(v);
        out.push(b'\n');
    }
    if let Some(b) = bin {
        out.extend_from_slice(format!("binary: {}\n", b.len()).as_bytes());
        out.extend_from_slice(b);
        out.push(b'\n');
    }
}

fn receive_frames(wire: Vec<u8>) -> Option<Vec<Frame>> {
    let io = Chunks { parts: vec![b"OK MPD 0.23.5\n".to_vec(), wire], idx: 0, off: 0 };
    let mut conn = Connection::connect(io).ok()?;
    let resp = conn.receive().ok()??;
    let mut out = Vec::new();
    for f in resp {
        out.push(f.ok()?);
    }
    Some(out)
}

/// field names the protocol parser must reject (the typed layer relies on it: `Tag::try_from(..)
/// .unwrap()` in the song and list decoders); the model side decides which they are
pub const ALIEN_KEYS: &[&str] = &[
    "R128_TRACK_GAIN", "mp3gain", "Title2", "1", "x.y", "Ti tle", "Artist1", "a:b", "Täg", "disc#", "0Album", "Track9",
    // names all of whose BYTES are letters when read as Latin-1 code points (a byte-to-char slip)
    "ê", "µ", "ª", "º", "õ", "ú", "Ī", "к", "Titlê", "Artistª",
];

/// whether the *real* parser carries these fields as they are is decided by the real parser (below);
/// the model side decides it with its own definition (`Driver.Typed.parseable`)
fn single_frame(fields: &Fields, bin: &Option<Vec<u8>>) -> Option<Frame> {
    let mut wire = Vec::new();
    wire_fields(&mut wire, fields, bin);
    wire.extend_from_slice(b"OK\n");
    let mut fs = receive_frames(wire)?;
    if fs.len() != 1 {
        return None;
    }
    let f = fs.pop()?;
    // the parser must hand back exactly what was sent
    let got: Fields = f.fields().map(|(k, v)| (k.as_bytes().to_vec(), v.as_bytes().to_vec())).collect();
    if &got != fields || f.binary().map(|b| b.to_vec()) != *bin {
        return None;
    }
    Some(f)
}

fn list_frames(frames: &[Fields]) -> Option<Vec<Frame>> {
    if frames.is_empty() {
        return Some(Vec::new());
    }
    let mut wire = Vec::new();
    for f in frames {
        wire_fields(&mut wire, f, &None);
        wire.extend_from_slice(b"list_OK\n");
    }
    wire.extend_from_slice(b"OK\n");
    let fs = receive_frames(wire)?;
    if fs.len() != frames.len() {
        return None;
    }
    // the parser must hand back exactly what was sent
    for (f, want) in fs.iter().zip(frames) {
        let got: Fields = f.fields().map(|(k, v)| (k.as_bytes().to_vec(), v.as_bytes().to_vec())).collect();
        if &got != want {
            return None;
        }
    }
    Some(fs)
}

// ---------------------------------------------------------------------------------------------
// op argument syntax

fn parse_fields(s: &str) -> Fields {
    if s == "_" {
        return Vec::new();
    }
    s.split(',')
        .map(|p| {
            let (k, v) = p.split_once('=').expect("field syntax");
            (unhex(k), unhex(v))
        })
        .collect()
}

fn fmt_fields(f: &Fields) -> String {
    if f.is_empty() {
        return "_".into();
    }
    f.iter().map(|(k, v)| format!("{}={}", hex(k), hex(v))).collect::<Vec<_>>().join(",")
}

fn parse_bin(s: &str) -> Option<Vec<u8>> {
    if s == "none" {
        None
    } else {
        Some(unhex(s))
    }
}

fn mk_tag(spec: &str) -> Option<Tag> {
    if spec.is_empty() {
        return None;
    }
    let (k, rest) = spec.split_at(1);
    match k {
        "V" => named_tags().into_iter().nth(rest.parse().ok()?),
        "O" => Some(Tag::Other(String::from_utf8(unhex(rest)).ok()?.into_boxed_str())),
        "T" => Tag::try_from(std::str::from_utf8(&unhex(rest)).ok()?).ok(),
        _ => None,
    }
}

// ---------------------------------------------------------------------------------------------
// canonical printers

fn opt_s<T>(o: Option<T>, f: impl Fn(T) -> String) -> String {
    match o {
        None => "none".into(),
        Some(v) => format!("some:{}", f(v)),
    }
}

fn dur(d: Duration) -> String {
    format!("{}.{}", d.as_secs(), d.subsec_nanos())
}

fn seq(items: Vec<String>) -> String {
    format!("[{}]", items.join("|"))
}

fn hs(s: &str) -> String {
    hex(s.as_bytes())
}

fn fmt_tag(t: &Tag) -> String {
    format!("{}/{}", tag_ident(t), hex(&tag_name(t)))
}

fn fmt_map(m: &HashMap<String, String>) -> String {
    let mut e: Vec<(&String, &String)> = m.iter().collect();
    e.sort_by(|a, b| a.0.as_bytes().cmp(b.0.as_bytes()));
    format!("{{{}}}", e.iter().map(|(k, v)| format!("{}={}", hs(k), hs(v))).collect::<Vec<_>>().join("|"))
}

fn fmt_status(s: &res::Status) -> String {
    let pair = |p: (cmds::SongPosition, SongId)| format!("{}/{}", p.0 .0, p.1 .0);
    format!(
        "vol={},st={},rep={},rnd={},con={},sgl={},plv={},pll={},cur={},nxt={},el={},dur={},br={},xf={},uj={},err={},part={}",
        s.volume,
        match s.state {
            res::PlayState::Playing => "play",
            res::PlayState::Paused => "pause",
            res::PlayState::Stopped => "stop",
        },
        s.repeat as u8,
        s.random as u8,
        s.consume as u8,
        match s.single {
            cmds::SingleMode::Disabled => "0",
            cmds::SingleMode::Enabled => "1",
            cmds::SingleMode::Oneshot => "oneshot",
        },
        s.playlist_version,
        s.playlist_length,
        opt_s(s.current_song, pair),
        opt_s(s.next_song, pair),
        opt_s(s.elapsed, dur),
        opt_s(s.duration, dur),
        opt_s(s.bitrate, |b| b.to_string()),
        dur(s.crossfade),
        opt_s(s.update_job, |b| b.to_string()),
        opt_s(s.error.as_deref(), hs),
        opt_s(s.partition.as_deref(), hs),
    )
}

fn fmt_stats(s: &res::Stats) -> String {
    format!(
        "art={},alb={},songs={},up={},play={},dbp={},dbu={}",
        s.artists,
        s.albums,
        s.songs,
        dur(s.uptime),
        dur(s.playtime),
        dur(s.db_playtime),
        s.db_last_update
    )
}

fn fmt_count(c: &res::Count) -> String {
    format!("{}/{}", c.songs, dur(c.playtime))
}

fn fmt_list_common<const N: usize>(l: res::List<N>) -> String {
    let gv: Vec<String> = l
        .grouped_values()
        .map(|(v, gs)| format!("{}:{}", hs(v), gs.iter().map(|g| hs(g)).collect::<Vec<_>>().join(";")))
        .collect();
    // the iterator is Clone: a clone taken half-way must continue identically
    let mut it = l.grouped_values();
    let _ = it.next();
    let rest_a: Vec<String> = it.clone().map(|(v, _)| v.to_string()).collect();
    let rest_b: Vec<String> = it.map(|(v, _)| v.to_string()).collect();
    let by = seq(l.grouped_by().iter().map(fmt_tag).collect());
    let raw = seq(l.clone().into_raw_values().iter().map(|(t, v)| format!("{}/{}", fmt_tag(t), hs(v))).collect());
    if rest_a != rest_b {
        return "MISMATCH-clone".into();
    }
    format!("gv={},by={},raw={}", seq(gv), by, raw)
}

fn fmt_list_plain(l: res::List<0>) -> String {
    let vals: Vec<String> = l.values().map(|s| s.to_string()).collect();
    let vals2: Vec<String> = (&l).into_iter().map(|s| s.to_string()).collect();
    let vals3: Vec<String> = l.clone().into_iter().collect();
    if vals != vals2 || vals != vals3 {
        return "MISMATCH-values".into();
    }
    let len = l.values().len();
    if l.values().count() != len
        || l.values().size_hint() != (len, Some(len))
        || l.clone().into_iter().len() != len
        || l.clone().into_iter().count() != len
        || l.clone().into_iter().size_hint() != (len, Some(len))
    {
        return "MISMATCH-len".into();
    }
    let last = l.values().last().map(|s| s.to_string());
    if l.clone().into_iter().last() != last {
        return "MISMATCH-last".into();
    }
    let rev: Vec<String> = l.values().rev().map(|s| s.to_string()).collect();
    let rev2: Vec<String> = l.clone().into_iter().rev().collect();
    if rev != rev2 {
        return "MISMATCH-rev".into();
    }
    let nth1 = l.values().nth(1).map(|s| s.to_string());
    let nthb1 = l.values().nth_back(1).map(|s| s.to_string());
    if l.clone().into_iter().nth(1) != nth1 || l.clone().into_iter().nth_back(1) != nthb1 {
        return "MISMATCH-nth".into();
    }
    format!(
        "vals={},len={},last={},rev={},nth1={},nthb1={},{}",
        seq(vals.iter().map(|s| hs(s)).collect()),
        len,
        opt_s(last.as_deref(), hs),
        seq(rev.iter().map(|s| hs(s)).collect()),
        opt_s(nth1.as_deref(), hs),
        opt_s(nthb1.as_deref(), hs),
        fmt_list_common(l)
    )
}

fn outcome<T>(r: Result<T, res::TypedResponseError>, f: impl FnOnce(T) -> String) -> String {
    match r {
        Ok(v) => format!("ok:{}", f(v)),
        Err(e) => {
            // the error must be printable and expose its source without panicking
            let _ = format!("{e} {e:?} {:?}", std::error::Error::source(&e).map(|s| s.to_string()));
            "terr".into()
        }
    }
}

fn same(a: String, b: String) -> String {
    if a == b {
        a
    } else {
        format!("MISMATCH({a})({b})")
    }
}

/// run the real decoder of `kind` on `frame` and walk the result
fn decode(kind: &str, params: &str, frame: Frame) -> String {
    let kind = if kind == "playlistsc" { "playlists" } else { kind };
    match kind {
        "status" => outcome(cmds::Status.response(frame), |s| fmt_status(&s)),
        "stats" => outcome(cmds::Stats.response(frame), |s| fmt_stats(&s)),
        "rg" => outcome(cmds::ReplayGainStatus.response(frame), |s| {
            match s.mode {
                cmds::ReplayGainMode::Off => "off",
                cmds::ReplayGainMode::Track => "track",
                cmds::ReplayGainMode::Album => "album",
                cmds::ReplayGainMode::Auto => "auto",
            }
            .to_string()
        }),
        "count" => outcome(cmds::Count::new(Filter::tag(Tag::Artist, "x")).response(frame), |c| fmt_count(&c)),
        "countg" => {
            let Some(t) = mk_tag(params) else { return "badinput".into() };
            let a = outcome(cmds::CountGrouped::new(t.clone()).response(frame.clone()), |l| {
                seq(l.iter().map(|(v, c)| format!("{}/{}", hs(v), fmt_count(c))).collect())
            });
            let b = outcome(cmds::Count::new(Filter::tag(Tag::Artist, "x")).group_by(t).response(frame), |l| {
                seq(l.iter().map(|(v, c)| format!("{}/{}", hs(v), fmt_count(c))).collect())
            });
            same(a, b)
        }
        "list" => {
            let Some(t) = mk_tag(params) else { return "badinput".into() };
            outcome(cmds::List::new(t).response(frame), fmt_list_plain)
        }
        "listg" => {
            let ts: Option<Vec<Tag>> = params.split('/').map(mk_tag).collect();
            let Some(ts) = ts else { return "badinput".into() };
            let t = ts[0].clone();
            match ts.len() {
                2 => outcome(cmds::List::new(t).group_by([ts[1].clone()]).response(frame), fmt_list_common),
                3 => outcome(cmds::List::new(t).group_by([ts[1].clone(), ts[2].clone()]).response(frame), fmt_list_common),
                4 => outcome(
                    cmds::List::new(t).group_by([ts[1].clone(), ts[2].clone(), ts[3].clone()]).response(frame),
                    fmt_list_common,
                ),
                _ => "badinput".into(),
            }
        }
        "playlists" => outcome(cmds::GetPlaylists.response(frame), |l| {
            for p in &l {
                // every accessor / comparison of Timestamp
                let t = &p.last_modified;
                let _ = (t == t, t.cmp(t), t.partial_cmp(t), t.clone(), format!("{t:?}"));
                #[cfg(feature = "chrono")]
                {
                    let c = t.chrono_datetime();
                    let _ = (*t == c, t.partial_cmp(&c));
                }
            }
            seq(l.iter().map(|p| format!("{}/{}", hs(&p.name), hs(p.last_modified.raw()))).collect())
        }),
        "stget" => outcome(cmds::StickerGet::new("u", "n").response(frame), |s| {
            let v = hs(&s.value);
            let conv: String = s.into();
            same(v, hs(&conv))
        }),
        "stlist" => outcome(cmds::StickerList::new("u").response(frame), |s| {
            let a = fmt_map(&s.value);
            let m: HashMap<String, String> = s.into();
            same(a, fmt_map(&m))
        }),
        "stfind" => outcome(cmds::StickerFind::new("u", "n").response(frame), |s| fmt_map(&s.value)),
        "messages" => outcome(cmds::ReadChannelMessages.response(frame), |l| {
            seq(l.iter().map(|(c, m)| format!("{}/{}", hs(c), hs(m))).collect())
        }),
        "channels" => outcome(cmds::ListChannels.response(frame), |l| seq(l.iter().map(|c| hs(c)).collect())),
        "tagtypes" => outcome(cmds::GetEnabledTagTypes.response(frame), |l| seq(l.iter().map(fmt_tag).collect())),
        "update" => same(
            outcome(cmds::Update::new().response(frame.clone()), |v| v.to_string()),
            outcome(cmds::Rescan::new().uri("x").response(frame), |v| v.to_string()),
        ),
        "addid" => outcome(cmds::Add::uri("x").response(frame), |v| v.0.to_string()),
        "unit" => {
            let u = |r: Result<(), res::TypedResponseError>| outcome(r, |_| "unit".to_string());
            let all = [
                u(cmds::Ping.response(frame.clone())),
                u(cmds::ClearQueue.response(frame.clone())),
                u(cmds::Next.response(frame.clone())),
                u(cmds::Previous.response(frame.clone())),
                u(cmds::Stop.response(frame.clone())),
                u(cmds::SetVolume(1).response(frame.clone())),
                u(cmds::SetPause(true).response(frame.clone())),
                u(cmds::SetRandom(true).response(frame.clone())),
                u(cmds::SetRepeat(true).response(frame.clone())),
                u(cmds::SetConsume(true).response(frame.clone())),
                u(cmds::SetSingle(cmds::SingleMode::Oneshot).response(frame.clone())),
                u(cmds::SetReplayGainMode(cmds::ReplayGainMode::Auto).response(frame.clone())),
                u(cmds::Crossfade(Duration::from_secs(1)).response(frame.clone())),
                u(cmds::ClearPlaylist("p").response(frame.clone())),
                u(cmds::DeletePlaylist("p").response(frame.clone())),
                u(cmds::SaveQueueAsPlaylist("p").response(frame.clone())),
                u(cmds::SubscribeToChannel("c").response(frame.clone())),
                u(cmds::UnsubscribeFromChannel("c").response(frame.clone())),
                u(cmds::SendChannelMessage::new("c", "m").response(frame.clone())),
                u(cmds::TagTypes::enable_all().response(frame.clone())),
                u(cmds::TagTypes::disable_all().response(frame.clone())),
                u(cmds::StickerSet::new("u", "n", "v").response(frame.clone())),
                u(cmds::StickerDelete::new("u", "n").response(frame.clone())),
                u(cmds::SetBinaryLimit(1).response(frame.clone())),
                u(cmds::RenamePlaylist::new("a", "b").response(frame.clone())),
                u(cmds::LoadPlaylist::name("a").response(frame.clone())),
                u(cmds::Play::current().response(frame.clone())),
                u(cmds::Shuffle::all().response(frame.clone())),
                u(cmds::Delete::id(SongId(1)).response(frame.clone())),
                u(cmds::Seek(cmds::SeekMode::Forward(Duration::from_secs(1))).response(frame)),
            ];
            if all.iter().all(|x| x == "ok:unit") {
                "ok:unit".into()
            } else {
                format!("MISMATCH({})", all.join(";"))
            }
        }
        "art" => {
            let p = |o: Option<res::AlbumArt>| match o {
                None => "none".to_string(),
                Some(a) => format!(
                    "some:size={},mime={},data={}",
                    a.size,
                    opt_s(a.mime.as_deref(), hs),
                    hex(&a.data)
                ),
            };
            same(
                outcome(cmds::AlbumArt::new("x").response(frame.clone()), p),
                outcome(cmds::AlbumArtEmbedded::new("x").offset(3).response(frame), p),
            )
        }
        _ => "badop".into(),
    }
}

// ---------------------------------------------------------------------------------------------
// typed command lists

trait Canon {
    fn canon(&self) -> String;
}
impl Canon for u64 {
    fn canon(&self) -> String {
        self.to_string()
    }
}
impl Canon for SongId {
    fn canon(&self) -> String {
        self.0.to_string()
    }
}
impl Canon for () {
    fn canon(&self) -> String {
        "unit".into()
    }
}

fn upd() -> cmds::Update<'static> {
    cmds::Update::new()
}
fn add() -> cmds::Add<'static> {
    cmds::Add::uri("x")
}

macro_rules! tup {
    ($frames:expr, ($($c:expr),+), ($($i:tt),+)) => {
        match ($($c,)+).responses($frames) {
            Ok(r) => format!("ok:{}", seq(vec![$(r.$i.canon()),+])),
            Err(_) => "terr".to_string(),
        }
    };
}

fn exec_cmdlist(shape: &str, frames: &str) -> String {
    let (sh, n) = shape.split_once(':').expect("shape");
    let n: usize = n.parse().expect("arity");
    let fl: Vec<Fields> = if frames == "_" {
        Vec::new()
    } else {
        frames.split('/').map(|p| if p == "-" { Vec::new() } else { parse_fields(p) }).collect()
    };
    let Some(fs) = list_frames(&fl) else { return "noparse".into() };
    match (sh, n) {
        ("vec", _) => {
            let cs: Vec<cmds::Update<'static>> = (0..n).map(|_| upd()).collect();
            match cs.responses(fs) {
                Ok(r) => format!("ok:{}", seq(r.iter().map(|v| v.canon()).collect())),
                Err(_) => "terr".into(),
            }
        }
        ("tup", 1) => tup!(fs, (upd()), (0)),
        ("tup", 2) => tup!(fs, (upd(), add()), (0, 1)),
        ("tup", 3) => tup!(fs, (upd(), add(), cmds::Ping), (0, 1, 2)),
        ("tup", 4) => tup!(fs, (upd(), add(), cmds::Ping, upd()), (0, 1, 2, 3)),
        ("tup", 5) => tup!(fs, (upd(), add(), cmds::Ping, upd(), add()), (0, 1, 2, 3, 4)),
        ("tup", 6) => tup!(fs, (upd(), add(), cmds::Ping, upd(), add(), cmds::Ping), (0, 1, 2, 3, 4, 5)),
        ("tup", 7) => tup!(fs, (upd(), add(), cmds::Ping, upd(), add(), cmds::Ping, upd()), (0, 1, 2, 3, 4, 5, 6)),
        ("tup", 8) => {
            tup!(fs, (upd(), add(), cmds::Ping, upd(), add(), cmds::Ping, upd(), add()), (0, 1, 2, 3, 4, 5, 6, 7))
        }
        _ => "badop".into(),
    }
}

// ---------------------------------------------------------------------------------------------
// abstract records (the harness's own port of how MPD prints a reply)

fn fmt3(ms: u64) -> String {
    format!("{}.{:03}", ms / 1000, ms % 1000)
}

fn kvs(s: &str) -> Vec<(String, String)> {
    if s == "_" {
        return Vec::new();
    }
    s.split(',')
        .filter_map(|p| p.split_once('=').map(|(a, b)| (a.to_string(), b.to_string())))
        .collect()
}

fn lk<'a>(l: &'a [(String, String)], k: &str) -> Option<&'a str> {
    l.iter().find(|(a, _)| a == k).map(|(_, b)| b.as_str())
}

fn rows(s: &str) -> Vec<&str> {
    if s == "_" {
        Vec::new()
    } else {
        s.split('|').collect()
    }
}

fn semi(s: &str) -> Vec<&str> {
    if s == "_" {
        Vec::new()
    } else {
        s.split(';').collect()
    }
}

fn line(k: &str, v: impl AsRef<[u8]>) -> (Vec<u8>, Vec<u8>) {
    (k.as_bytes().to_vec(), v.as_ref().to_vec())
}

/// lines MPD prints for the abstract reply, in MPD's order; `true` if the order is not fixed by
/// the protocol (distinct keys)
fn encode_record(kind: &str, params: &str, record: &str) -> Option<(Fields, bool)> {
    let kind = if kind == "playlistsc" { "playlists" } else { kind };
    let mut out: Fields = Vec::new();
    match kind {
        "status" => {
            let l = kvs(record);
            let num = |out: &mut Fields, name: &str| {
                if let Some(v) = lk(&l, name) {
                    out.push(line(name, v.parse::<u64>().unwrap().to_string()));
                }
            };
            let raw = |out: &mut Fields, name: &str| {
                if let Some(v) = lk(&l, name) {
                    out.push(line(name, unhex(v)));
                }
            };
            let b = |out: &mut Fields, name: &str| out.push(line(name, if lk(&l, name) == Some("1") { "1" } else { "0" }));
            let ms = |out: &mut Fields, name: &str| {
                if let Some(v) = lk(&l, name) {
                    out.push(line(name, fmt3(v.parse().unwrap())));
                }
            };
            let pair = |out: &mut Fields, name: &str, idname: &str, second: bool| {
                if let Some(v) = lk(&l, name) {
                    let (p, i) = v.split_once('/').unwrap();
                    if second {
                        out.push(line(idname, i));
                    } else {
                        out.push(line(name, p));
                    }
                }
            };
            num(&mut out, "volume");
            b(&mut out, "repeat");
            b(&mut out, "random");
            if let Some(v) = lk(&l, "single") {
                out.push(line("single", match v {
                    "off" => "0",
                    "on" => "1",
                    _ => "oneshot",
                }));
            }
            b(&mut out, "consume");
            raw(&mut out, "partition");
            num(&mut out, "playlist");
            num(&mut out, "playlistlength");
            raw(&mut out, "mixrampdb");
            out.push(line("state", lk(&l, "state")?));
            num(&mut out, "xfade");
            raw(&mut out, "mixrampdelay");
            pair(&mut out, "song", "songid", false);
            pair(&mut out, "song", "songid", true);
            raw(&mut out, "time");
            ms(&mut out, "elapsed");
            num(&mut out, "bitrate");
            ms(&mut out, "duration");
            raw(&mut out, "audio");
            num(&mut out, "updating_db");
            raw(&mut out, "error");
            pair(&mut out, "nextsong", "nextsongid", false);
            pair(&mut out, "nextsong", "nextsongid", true);
            Some((out, true))
        }
        "stats" => {
            let l = kvs(record);
            for k in ["uptime", "playtime", "artists", "albums", "songs", "db_playtime", "db_update"] {
                out.push(line(k, lk(&l, k)?.parse::<u64>().ok()?.to_string()));
            }
            Some((out, true))
        }
        "count" => {
            let l = kvs(record);
            for k in ["songs", "playtime"] {
                out.push(line(k, lk(&l, k)?.parse::<u64>().ok()?.to_string()));
            }
            Some((out, true))
        }
        "update" => {
            out.push(line("updating_db", lk(&kvs(record), "job")?.parse::<u64>().ok()?.to_string()));
            Some((out, true))
        }
        "rg" => {
            out.push(line("replay_gain_mode", lk(&kvs(record), "mode")?));
            Some((out, true))
        }
        "countg" => {
            let t = tag_name(&mk_tag(params)?);
            for r in rows(record) {
                let c: Vec<&str> = r.split('/').collect();
                out.push((t.clone(), unhex(c[0])));
                let songs = line("songs", c[1].parse::<u64>().ok()?.to_string());
                let playtime = line("playtime", c[2].parse::<u64>().ok()?.to_string());
                if c[3] == "1" {
                    out.push(playtime);
                    out.push(songs);
                } else {
                    out.push(songs);
                    out.push(playtime);
                }
            }
            Some((out, false))
        }
        "list" => {
            let t = tag_name(&mk_tag(params)?);
            for r in rows(record) {
                out.push((t.clone(), unhex(r)));
            }
            Some((out, false))
        }
        "listg" => {
            let ts: Vec<Vec<u8>> = params.split('/').map(|s| mk_tag(s).map(|t| tag_name(&t))).collect::<Option<_>>()?;
            for r in rows(record) {
                let c: Vec<&str> = r.split('/').collect();
                let groups: Vec<Vec<u8>> = semi(c[1]).into_iter().map(unhex).collect();
                for e in semi(c[2]) {
                    let i: usize = e.parse().ok()?;
                    out.push((ts.get(i + 1)?.clone(), groups.get(i)?.clone()));
                }
                out.push((ts[0].clone(), unhex(c[0])));
            }
            Some((out, false))
        }
        "playlists" | "messages" | "stfind" => {
            let (ka, kb) = match kind {
                "playlists" => ("playlist", "Last-Modified"),
                "messages" => ("channel", "message"),
                _ => ("file", "sticker"),
            };
            for r in rows(record) {
                let (a, b) = r.split_once('/')?;
                out.push(line(ka, unhex(a)));
                if kind == "stfind" {
                    let mut v = unhex(params);
                    v.push(b'=');
                    v.extend(unhex(b));
                    out.push(line(kb, v));
                } else {
                    out.push(line(kb, unhex(b)));
                }
            }
            Some((out, false))
        }
        "stget" | "stlist" => {
            for r in rows(record) {
                let (a, b) = r.split_once('/')?;
                let mut v = unhex(a);
                v.push(b'=');
                v.extend(unhex(b));
                out.push(line("sticker", v));
            }
            Some((out, false))
        }
        "channels" | "tagtypes" => {
            for r in rows(record) {
                out.push(line(if kind == "channels" { "channel" } else { "tagtype" }, unhex(r)));
            }
            Some((out, false))
        }
        _ => None,
    }
}

fn shuffle<T>(r: &mut Rng, v: &mut [T]) {
    for i in (1..v.len()).rev() {
        let j = r.below(i + 1);
        v.swap(i, j);
    }
}

// ---------------------------------------------------------------------------------------------
// exec

pub fn exec(op: &[&str]) -> String {
    if op[0] == "typed.cmdlist" {
        return exec_cmdlist(op[1], op[2]);
    }
    let parts: Vec<&str> = op[0].split('.').collect();
    match parts.as_slice() {
        ["typed", kind] => {
            let fields = parse_fields(op[2]);
            let bin = parse_bin(op[3]);
            let Some(frame) = single_frame(&fields, &bin) else { return "noparse".into() };
            decode(kind, op[1], frame)
        }
        ["typed", kind, "rec"] => {
            let Some((mut lines, permutable)) = encode_record(kind, op[1], op[2]) else { return "badinput".into() };
            let seed: u64 = op[3].parse().expect("seed");
            if permutable && seed != 0 {
                shuffle(&mut Rng::new(seed), &mut lines);
            }
            let Some(frame) = single_frame(&lines, &None) else { return format!("{};noparse", fmt_fields(&lines)) };
            let params = op[1].to_string();
            let kind = kind.to_string();
            let res = catch_unwind(AssertUnwindSafe(|| decode(&kind, &params, frame))).unwrap_or_else(|_| "PANIC".to_string());
            format!("{};{}", fmt_fields(&lines), res)
        }
        _ => "badop".into(),
    }
}

// ---------------------------------------------------------------------------------------------
// generators

const U8S: &[u64] = &[0, 1, 7, 100, 255];
const U32S: &[u64] = &[0, 1, 42, 65535, 4294967295];
const U64S: &[u64] = &[0, 1, 9, 10, 255, 256, 4294967295, 4294967296, 9007199254740992, 18446744073709551615];
/// times in thousandths below 2^23 s
const MSS: &[u64] = &[0, 1, 9, 10, 99, 100, 999, 1000, 1500, 123456, 59999, 3600000, 8388607999, 8388607001, 4194304000];
/// whole seconds below 2^53
const SECS: &[u64] = &[0, 1, 5, 59, 3600, 86400, 8388608, 4294967296, 9007199254740991];

/// values thrown at every field: boundary numbers, enum spellings and near-misses, durations,
/// sticker shapes, timestamps, tags, text
/// a long value made of multi-byte characters at every alignment: whatever fixed byte position code
/// might cut a value at (64, 100, 128, 255, 256, 1024, 4096 ...) falls inside a character for some of these
pub fn long_value(r: &mut Rng) -> String {
    let unit = *r.pick(&["é", "日", "🎵", "ß", "‰"]);
    let total = *r.pick(&[65usize, 101, 130, 260, 520, 1030, 4100]);
    let mut v = "x".repeat(r.below(4));
    while v.len() < total {
        v.push_str(unit);
    }
    if r.chance(1, 2) {
        v.push_str(*r.pick(&["1", " ", "=", ":", "-"]));
    }
    v
}

pub const SOUP_VALUES: &[&str] = &[
    "0", "1", "2", "255", "256", "4294967295", "4294967296", "18446744073709551615", "18446744073709551616",
    "99999999999999999999999999", "+5", "+0", "+", "007", "00", "-1", "-0", "", " 1", "1 ", "0.000", "1.500",
    "123.456", "1e3", "1E3", "1e+3", "inf", "Inf", "infinity", "nan", "NaN", "-inf", "-nan", "1e400", "1e-400",
    "-1e-400", "-0.0", "-0.0000000001", "-0.0000000004", "-0.0000000006", "0.0000000005", "0.0000000015",
    "0.0000000025", "1.0000000005", "1.9999999995", "0.9999999995", "18446744073709551615.5",
    "18446744073709551615.999999999", "1.8446744073709552e19", "1.8446744073709551e19", "18446744073709550591",
    "18446744073709550592", "18446744073709550593", "9007199254740993", "4503599627370496.5", ".5", "5.", ".", "e5",
    "1e", "1e+", "1.5.5", "0x10", "1_000", "١", "play", "pause", "stop", "Play", "paused", "playing", "oneshot",
    "Oneshot", "off", "track", "album", "auto", "Auto", "on", "true", "a=b", "a==b", "=", "=b", "a=", "a=b=c",
    "abc", "rating=5", "12:34", "12:34.5", ":5", "5:", "1:2:3", "0:0", "3:inf", "7:18446744073709551616", "é",
    "日本", "two words", "2024-01-01T00:00:00Z", "2024-13-01T00:00:00Z", "2024-01-01 00:00:00", "1970-01-01T00:00:00+01:00",
    "Album", "album", "ALBUM", "Artist", "AlbumArtist", "x-custom", "bad tag", "Title", "MUSICBRAINZ_TRACKID",
    "image/png", "channel", "message",
];

pub const KNOWN_KEYS: &[&str] = &[
    "volume", "repeat", "random", "single", "consume", "partition", "playlist", "playlistlength", "mixrampdb", "state",
    "xfade", "mixrampdelay", "song", "songid", "time", "Time", "elapsed", "bitrate", "duration", "audio", "updating_db",
    "update_job", "error", "nextsong", "nextsongid", "artists", "albums", "songs", "uptime", "playtime", "db_playtime",
    "db_update", "replay_gain_mode", "size", "type", "Id", "Last-Modified", "sticker", "file", "channel", "message",
    "tagtype", "Album", "Artist", "AlbumArtist", "Title", "Genre", "Date", "album", "ARTIST", "x-custom", "Volume",
    "State", "SONGS", "Playtime", "OK", "ACK", "list_OK", "changed", "directory",
];

fn hx(s: impl AsRef<str>) -> String {
    hex(s.as_ref().as_bytes())
}

fn pick_u(r: &mut Rng, pool: &[u64], max: u64) -> u64 {
    if r.chance(2, 3) {
        *r.pick(pool)
    } else if max == u64::MAX {
        r.next() >> r.below(64)
    } else {
        r.next() % (max + 1)
    }
}

fn gen_value_text(r: &mut Rng) -> String {
    match r.below(5) {
        0 => String::new(),
        1 => r.pick(SOUP_VALUES).to_string(),
        _ => gen_text(r, 10).replace('\n', " "),
    }
}

/// abstract status record with the given optional fields present (bit i of `mask` = i-th entry
/// of STATUS_OPT)
const STATUS_OPT: &[&str] = &[
    "volume", "single", "partition", "playlist", "playlistlength", "xfade", "song", "elapsed", "bitrate", "duration",
    "updating_db", "error", "nextsong", "mixrampdb", "mixrampdelay", "time", "audio",
];

fn gen_status_rec(r: &mut Rng, mask: u32) -> String {
    let mut p: Vec<String> = Vec::new();
    p.push(format!("state={}", r.pick(&["play", "pause", "stop"])));
    for k in ["repeat", "random", "consume"] {
        p.push(format!("{k}={}", r.below(2)));
    }
    for (i, k) in STATUS_OPT.iter().enumerate() {
        if mask & (1 << i) == 0 {
            continue;
        }
        let v = match *k {
            "volume" => pick_u(r, U8S, 255).to_string(),
            "single" => r.pick(&["off", "on", "oneshot"]).to_string(),
            "playlist" => pick_u(r, U32S, 4294967295).to_string(),
            "playlistlength" | "bitrate" | "updating_db" => pick_u(r, U64S, u64::MAX).to_string(),
            "xfade" => pick_u(r, SECS, (1 << 53) - 1).to_string(),
            "song" | "nextsong" => format!("{}/{}", pick_u(r, U64S, u64::MAX), pick_u(r, U64S, u64::MAX)),
            "elapsed" | "duration" => pick_u(r, MSS, (1u64 << 23) * 1000 - 1).to_string(),
            "time" => hx(&format!("{}:{}", r.below(500), r.below(500))),
            "audio" => hx(r.pick(&["44100:16:2", "48000:24:2", "dsd64:2", "*:*:*"])),
            "mixrampdb" => hx(r.pick(&["0.000000", "-17.000000"])),
            "mixrampdelay" => hx(r.pick(&["nan", "2.000000"])),
            _ => hx(&gen_value_text(r)),
        };
        p.push(format!("{k}={v}"));
    }
    shuffle(r, &mut p); // order inside the serialisation is irrelevant
    p.join(",")
}

fn tag_specs(r: &mut Rng) -> Vec<String> {
    // producible tags: named variants and try_from results (known names in any case, unknown names)
    let mut v: Vec<String> = (0..named_tags().len()).map(|i| format!("V{i}")).collect();
    for n in MPD_TAG_NAMES {
        v.push(format!("T{}", hx(n)));
        v.push(format!("T{}", hx(&n.to_ascii_lowercase())));
    }
    for _ in 0..6 {
        v.push(format!("T{}", hx(&gen_word(r, 1, 8))));
    }
    v.retain(|s| mk_tag(s).is_some());
    v
}

fn distinct_tags(r: &mut Rng, specs: &[String], n: usize) -> Vec<String> {
    let mut out: Vec<String> = Vec::new();
    let mut names: Vec<Vec<u8>> = Vec::new();
    while out.len() < n {
        let s = r.pick(specs).clone();
        let name = tag_name(&mk_tag(&s).unwrap());
        if !names.contains(&name) {
            names.push(name);
            out.push(s);
        }
    }
    out
}

fn small_value(r: &mut Rng) -> String {
    match r.below(8) {
        0 => String::new(),
        1 => "a=b".into(),
        2 => "Ünïcode 日本".into(),
        3 => gen_text(r, 6).replace('\n', " "),
        _ => format!("{}{}", r.pick(&["A", "B", "C", "x", "The Band", "1999"]), r.below(3)),
    }
}

/// rows of a grouped list reply over `n` grouping tags, nested the way MPD prints them
fn gen_list_rows(r: &mut Rng, n: usize) -> String {
    let nrows = r.below(9);
    let mut prev: Vec<String> = vec![String::new(); n];
    let mut out = Vec::new();
    for _ in 0..nrows {
        // MPD nests: the LAST grouping tag is the outermost. Pick the outermost level that changes.
        let mut groups = prev.clone();
        let change_from = r.below(n + 1); // levels change_from..n keep their value
        for g in groups.iter_mut().take(change_from) {
            *g = small_value(r);
        }
        let mut emit: Vec<usize> = Vec::new();
        for i in (0..n).rev() {
            let changed = groups[i] != prev[i];
            // MPD re-prints every level inside a changed one; an unchanged one may be repeated
            if changed || i < change_from || r.chance(1, 5) {
                emit.push(i);
            }
        }
        if r.chance(1, 6) {
            shuffle(r, &mut emit);
        }
        if r.chance(1, 10) && !emit.is_empty() {
            let e = *r.pick(&emit);
            emit.push(e); // printed twice
        }
        out.push(format!(
            "{}/{}/{}",
            hx(&small_value(r)),
            if n == 0 { "_".to_string() } else { groups.iter().map(|g| hx(g)).collect::<Vec<_>>().join(";") },
            if emit.is_empty() { "_".to_string() } else { emit.iter().map(|e| e.to_string()).collect::<Vec<_>>().join(";") }
        ));
        prev = groups;
    }
    if out.is_empty() {
        "_".into()
    } else {
        out.join("|")
    }
}

fn gen_pairs(r: &mut Rng, distinct_first: bool, no_eq_first: bool) -> String {
    let n = r.below(6);
    let mut seen: Vec<String> = Vec::new();
    let mut out = Vec::new();
    for _ in 0..n {
        let mut a = small_value(r);
        if no_eq_first {
            a = a.replace('=', "_");
        }
        if distinct_first {
            if seen.contains(&a) {
                continue;
            }
            seen.push(a.clone());
        }
        let b = match r.below(5) {
            0 => String::new(),
            1 => "x=y".into(),
            2 => "==".into(),
            _ => small_value(r),
        };
        out.push(format!("{}/{}", hx(&a), hx(&b)));
    }
    if out.is_empty() {
        "_".into()
    } else {
        out.join("|")
    }
}

/// one `.rec` op of the given kind
fn gen_rec(r: &mut Rng, kind: &str, specs: &[String]) -> String {
    let seed = if r.chance(1, 8) { 0 } else { r.next() % 1_000_000 + 1 };
    match kind {
        "status" => {
            let mask = (r.next() & 0x1ffff) as u32;
            format!("typed.status.rec _ {} {seed}", gen_status_rec(r, mask))
        }
        "stats" => format!(
            "typed.stats.rec _ uptime={},playtime={},artists={},albums={},songs={},db_playtime={},db_update={} {seed}",
            pick_u(r, SECS, (1 << 53) - 1),
            pick_u(r, SECS, (1 << 53) - 1),
            pick_u(r, U64S, u64::MAX),
            pick_u(r, U64S, u64::MAX),
            pick_u(r, U64S, u64::MAX),
            pick_u(r, SECS, (1 << 53) - 1),
            pick_u(r, U64S, u64::MAX)
        ),
        "count" => format!(
            "typed.count.rec _ songs={},playtime={} {seed}",
            pick_u(r, U64S, u64::MAX),
            pick_u(r, SECS, (1 << 53) - 1)
        ),
        "update" => format!("typed.update.rec _ job={} {seed}", pick_u(r, U64S, u64::MAX)),
        "rg" => format!("typed.rg.rec _ mode={} {seed}", r.pick(&["off", "track", "album", "auto"])),
        "countg" => {
            let t = r.pick(specs).clone();
            let n = r.below(6);
            let rows: Vec<String> = (0..n)
                .map(|_| {
                    format!(
                        "{}/{}/{}/{}",
                        hx(&small_value(r)),
                        pick_u(r, U64S, u64::MAX),
                        pick_u(r, SECS, (1 << 53) - 1),
                        r.below(2)
                    )
                })
                .collect();
            format!("typed.countg.rec {t} {} 0", if rows.is_empty() { "_".into() } else { rows.join("|") })
        }
        "list" => {
            let t = r.pick(specs).clone();
            let n = r.below(7);
            let rows: Vec<String> = (0..n).map(|_| hx(&small_value(r))).collect();
            format!("typed.list.rec {t} {} 0", if rows.is_empty() { "_".into() } else { rows.join("|") })
        }
        "listg" => {
            let n = r.range(1, 3);
            let ts = distinct_tags(r, specs, n + 1);
            format!("typed.listg.rec {} {} 0", ts.join("/"), gen_list_rows(r, n))
        }
        "playlists" => {
            // MPD prints Last-Modified as ISO 8601 UTC; without chrono any text is carried verbatim
            let n = r.below(6);
            let rows: Vec<String> = (0..n)
                .map(|_| {
                    let ts = if !CHRONO && r.chance(1, 4) {
                        small_value(r)
                    } else {
                        // calendar corner cases: leap days (also of the century years divisible by 400), month ends
                        let (y, mo, d) = if r.chance(1, 8) {
                            *r.pick(&[(2000usize, 2usize, 29usize), (2400, 2, 29), (2024, 2, 29), (1972, 2, 29), (2023, 12, 31), (1999, 1, 31), (2096, 2, 29)])
                        } else {
                            (r.range(1970, 2100), r.range(1, 12), r.range(1, 28))
                        };
                        let base = format!("{:04}-{:02}-{:02}T{:02}:{:02}:{:02}", y, mo, d, r.below(24), r.below(60), r.below(60));
                        // valid RFC 3339 in other spellings than MPD's: the value must be kept as sent
                        match r.below(9) {
                            0 => format!("{base}+02:00"),
                            1 => format!("{base}-13:00"),
                            2 => format!("{base}.5Z"),
                            3 => format!("{base}.123456+00:00"),
                            4 => format!("{}z", base.replace('T', "t")),
                            _ => format!("{base}Z"),
                        }
                    };
                    format!("{}/{}", hx(&small_value(r)), hx(&ts))
                })
                .collect();
            format!("typed.playlists.rec _ {} 0", if rows.is_empty() { "_".into() } else { rows.join("|") })
        }
        "messages" => format!("typed.messages.rec _ {} 0", gen_pairs(r, false, false)),
        "stget" => {
            let name = small_value(r).replace('=', "_");
            let v = r.pick(&["", "5", "a=b", "=", "==x", "日本"]).to_string();
            format!("typed.stget.rec _ {}/{} 0", hx(&name), hx(&v))
        }
        "stlist" => format!("typed.stlist.rec _ {} 0", gen_pairs(r, true, true)),
        "stfind" => {
            let name = small_value(r).replace('=', "_");
            format!("typed.stfind.rec {} {} 0", hx(&name), gen_pairs(r, true, false))
        }
        "channels" => {
            let n = r.below(5);
            let rows: Vec<String> = (0..n).map(|_| hx(&small_value(r))).collect();
            format!("typed.channels.rec _ {} 0", if rows.is_empty() { "_".into() } else { rows.join("|") })
        }
        "tagtypes" => {
            let n = r.below(8);
            let rows: Vec<String> = (0..n)
                .map(|_| if r.chance(3, 4) { hx(r.pick(MPD_TAG_NAMES)) } else { hx(&gen_word(r, 1, 8)) })
                .collect();
            format!("typed.tagtypes.rec _ {} 0", if rows.is_empty() { "_".into() } else { rows.join("|") })
        }
        _ => unreachable!(),
    }
}

const REC_KINDS: &[&str] = &[
    "status", "status", "status", "stats", "count", "update", "rg", "countg", "countg", "list", "listg", "listg",
    "playlists", "messages", "stget", "stlist", "stfind", "channels", "tagtypes",
];

fn params_for(r: &mut Rng, kind: &str, specs: &[String], fields: &Fields) -> String {
    let any_spec = |r: &mut Rng| {
        if r.chance(1, 8) {
            format!("O{}", hx(r.pick(&["album", "Album", "x", "songs", "Artist"])))
        } else if r.chance(1, 2) && !fields.is_empty() {
            // a tag matching one of the keys present
            let k = &fields[r.below(fields.len())].0;
            let s = format!("T{}", hex(k));
            if mk_tag(&s).is_some() {
                s
            } else {
                r.pick(specs).clone()
            }
        } else {
            r.pick(specs).clone()
        }
    };
    match kind {
        "countg" | "list" => any_spec(r),
        "listg" => {
            let n = r.range(2, 4);
            (0..n).map(|_| any_spec(r)).collect::<Vec<_>>().join("/")
        }
        "stfind" => "6e".into(),
        _ => "_".into(),
    }
}

fn soup_frame(r: &mut Rng) -> (Fields, Option<Vec<u8>>) {
    let n = match r.below(6) {
        0 => 0,
        1 => 1,
        2 => 2,
        _ => r.range(3, 14),
    };
    let mut f: Fields = Vec::new();
    for _ in 0..n {
        let k = if r.chance(1, 6) && !f.is_empty() {
            f[r.below(f.len())].0.clone() // duplicate key
        } else if r.chance(1, 10) {
            gen_word(r, 1, 10).into_bytes()
        } else if r.chance(1, 40) {
            r.pick(ALIEN_KEYS).as_bytes().to_vec()
        } else {
            r.pick(KNOWN_KEYS).as_bytes().to_vec()
        };
        let v = if r.chance(1, 30) {
            long_value(r)
        } else if r.chance(5, 6) {
            r.pick(SOUP_VALUES).to_string()
        } else {
            gen_text(r, 12).replace('\n', " ")
        };
        f.push((k, v.into_bytes()));
    }
    let bin = match r.below(5) {
        0 => Some(Vec::new()),
        1 => Some((0..r.below(20)).map(|_| (r.next() & 0xff) as u8).collect()),
        _ => None,
    };
    (f, bin)
}

/// mutate a valid frame of `kind`: substitute a boundary value, drop, duplicate, swap, re-case a key,
/// insert a foreign line
fn mutate(r: &mut Rng, f: &mut Fields) {
    let nm = r.range(1, 2);
    for _ in 0..nm {
        if f.is_empty() {
            f.push((r.pick(KNOWN_KEYS).as_bytes().to_vec(), r.pick(SOUP_VALUES).as_bytes().to_vec()));
            continue;
        }
        let p = r.below(f.len());
        if r.chance(1, 40) {
            // a field name outside the parser's alphabet: the frame must not reach the typed layer
            let q = r.below(f.len() + 1);
            f.insert(q, (r.pick(ALIEN_KEYS).as_bytes().to_vec(), r.pick(SOUP_VALUES).as_bytes().to_vec()));
            continue;
        }
        if r.chance(1, 25) {
            f[p].1 = long_value(r).into_bytes();
            continue;
        }
        match r.below(8) {
            0 | 1 | 2 => f[p].1 = r.pick(SOUP_VALUES).as_bytes().to_vec(),
            3 => {
                f.remove(p);
            }
            4 => {
                let mut d = f[p].clone();
                if r.chance(1, 2) {
                    d.1 = r.pick(SOUP_VALUES).as_bytes().to_vec();
                }
                let q = r.below(f.len() + 1);
                f.insert(q, d);
            }
            5 => {
                let q = r.below(f.len());
                f.swap(p, q);
            }
            6 => {
                let k = &mut f[p].0;
                if !k.is_empty() {
                    let i = r.below(k.len());
                    k[i] ^= 0x20;
                    if !(k[i].is_ascii_alphabetic()) {
                        k[i] = b'x';
                    }
                }
            }
            _ => {
                let q = r.below(f.len() + 1);
                f.insert(q, (r.pick(KNOWN_KEYS).as_bytes().to_vec(), r.pick(SOUP_VALUES).as_bytes().to_vec()));
            }
        }
    }
}

fn soup_op(kind: &str, params: &str, f: &Fields, bin: &Option<Vec<u8>>) -> String {
    format!(
        "typed.{kind} {params} {} {}",
        fmt_fields(f),
        match bin {
            None => "none".to_string(),
            Some(b) => hex(b),
        }
    )
}

fn good_frame(r: &mut Rng, i: usize) -> Fields {
    let mut f = vec![
        line("updating_db", (100 + i as u64).to_string()),
        line("Id", (200 + i as u64).to_string()),
    ];
    if r.chance(1, 3) {
        f.swap(0, 1);
    }
    f
}

fn gen_cmdlists(r: &mut Rng, ops: &mut Vec<String>, extra: usize) {
    let fr = |fs: &Vec<Fields>| {
        if fs.is_empty() {
            "_".to_string()
        } else {
            fs.iter().map(|f| if f.is_empty() { "-".to_string() } else { fmt_fields(f) }).collect::<Vec<_>>().join("/")
        }
    };
    // every arity 0..=8 (tuples 1..=8) against every frame count 0..=10, all frames good
    for sh in ["vec", "tup"] {
        for n in 0..=9usize {
            if sh == "tup" && !(1..=8).contains(&n) {
                continue;
            }
            for m in 0..=10usize {
                let fs: Vec<Fields> = (0..m).map(|i| good_frame(r, i)).collect();
                ops.push(format!("typed.cmdlist {sh}:{n} {}", fr(&fs)));
            }
        }
    }
    // huge frame counts
    for (sh, n, m) in [("tup", 3, 1000), ("vec", 2, 1000), ("vec", 1000, 1000), ("vec", 1000, 999), ("tup", 8, 500)] {
        let fs: Vec<Fields> = (0..m).map(|i| good_frame(r, i)).collect();
        ops.push(format!("typed.cmdlist {sh}:{n} {}", fr(&fs)));
    }
    // random: some frames empty / invalid
    for _ in 0..extra {
        let sh = *r.pick(&["vec", "tup"]);
        let n = if sh == "vec" { r.below(10) } else { r.range(1, 8) };
        let m = match r.below(4) {
            0 => n,
            1 => n.saturating_sub(r.range(1, 2)),
            2 => n + r.range(1, 3),
            _ => r.below(11),
        };
        let fs: Vec<Fields> = (0..m)
            .map(|i| match r.below(6) {
                0 => Vec::new(),
                1 => vec![line("updating_db", *r.pick(SOUP_VALUES)), line("Id", *r.pick(SOUP_VALUES))],
                2 => vec![line("Id", "5")],
                _ => good_frame(r, i),
            })
            .collect();
        ops.push(format!("typed.cmdlist {sh}:{n} {}", fr(&fs)));
    }
}

pub fn gen(cfg: &Cfg) -> Vec<String> {
    let mut r = Rng::new(cfg.seed);
    let mut ops: Vec<String> = Vec::new();
    let specs = tag_specs(&mut r);
    let scale = if cfg.thorough { 20 } else { 1 };

    // (a) abstract replies ------------------------------------------------------------------
    // status: every subset of the 13 fields the crate represents optionally (thorough),
    // every single field and every "all but one" (always)
    let nrel = 13u32;
    if cfg.thorough {
        for mask in 0..(1u32 << nrel) {
            let extra = ((r.next() & 0xf) as u32) << nrel;
            let seed = r.next() % 1_000_000 + 1;
            ops.push(format!("typed.status.rec _ {} {seed}", gen_status_rec(&mut r, mask | extra)));
        }
    }
    for i in 0..STATUS_OPT.len() as u32 {
        for mask in [1u32 << i, 0x1ffff & !(1u32 << i)] {
            let seed = r.next() % 1_000_000 + 1;
            ops.push(format!("typed.status.rec _ {} {seed}", gen_status_rec(&mut r, mask)));
        }
    }
    ops.push(format!("typed.status.rec _ {} 0", gen_status_rec(&mut r, 0)));
    ops.push(format!("typed.status.rec _ {} 0", gen_status_rec(&mut r, 0x1ffff)));
    let n_rec = cfg.n.unwrap_or(3500 * scale);
    for _ in 0..n_rec {
        let kind = *r.pick(REC_KINDS);
        ops.push(gen_rec(&mut r, kind, &specs));
    }

    // (b) near-valid frames: a valid reply with one or two edits, decoded as its own kind ------
    let n_near = cfg.n.unwrap_or(2500 * scale);
    for _ in 0..n_near {
        let kind = *r.pick(REC_KINDS);
        let op = gen_rec(&mut r, kind, &specs);
        let t: Vec<&str> = op.split(' ').collect();
        let Some((mut lines, _)) = encode_record(kind, t[1], t[2]) else { continue };
        mutate(&mut r, &mut lines);
        let bin = if r.chance(1, 12) { Some(vec![1, 2, 3]) } else { None };
        let params = if t[1] == "_" { params_for(&mut r, kind, &specs, &lines) } else { t[1].to_string() };
        ops.push(soup_op(kind, &params, &lines, &bin));
    }
    // album art replies (valid and edited)
    for _ in 0..(60 * scale) {
        let mut f: Fields = vec![line("size", pick_u(&mut r, U64S, u64::MAX).to_string())];
        if r.chance(1, 2) {
            f.push(line("type", *r.pick(&["image/png", "image/jpeg", ""])));
        }
        if r.chance(1, 3) {
            mutate(&mut r, &mut f);
        }
        let bin = if r.chance(4, 5) { Some((0..r.below(12)).map(|_| (r.next() & 0xff) as u8).collect()) } else { None };
        ops.push(soup_op("art", "_", &f, &bin));
        ops.push(soup_op("addid", "_", &vec![line("Id", *r.pick(SOUP_VALUES))], &None));
    }

    // (c) field soup, every frame fed to every kind ---------------------------------------------
    let n_soup = cfg.n.unwrap_or(180 * scale);
    for _ in 0..n_soup {
        let (f, bin) = soup_frame(&mut r);
        for kind in KINDS {
            let params = params_for(&mut r, kind, &specs, &f);
            ops.push(soup_op(kind, &params, &f, &bin));
        }
    }

    // (d) typed command lists -------------------------------------------------------------------
    gen_cmdlists(&mut r, &mut ops, 150 * scale);
    if CHRONO {
        // chrono build: the playlist kind is compared for totality and raw() only
        for op in ops.iter_mut() {
            if op.starts_with("typed.playlists ") || op.starts_with("typed.playlists.rec ") {
                *op = op.replacen("typed.playlists", "typed.playlistsc", 1);
            }
        }
    }
    ops
}
