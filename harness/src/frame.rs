//! Family `frame` (C19): `Frame` as an ordered multimap, `Fields` / `IntoIter`, `FramesRef` / `Frames`.
//!
//! ops
//!   frame.ops <fields> <binary> <ops>   => <out>;<out>;…            (`_` when there are no ops)
//!   resp.ops  <nframes> <haserr> <pat>  => sf:<n>,e:<0|1>,single:<item>;ref:<hint>,<item>@<hint>,…;own:<hint>,<item>@<hint>,…
//!
//! `<fields>` = `k=v,k=v,…` (hex, `-` = empty string; `_` = no fields), `<binary>` = hex | `-` | `none`.
//! `<ops>` = comma separated (`_` = none):
//!   f:<hexkey>   frame.find(key)            -> hex value | none
//!   g:<hexkey>   frame.get(key)             -> hex value | none
//!   tb           frame.take_binary()        -> hex | none
//!   bin          frame.binary()             -> hex | none
//!   len          frame.fields_len()         -> decimal
//!   empty        frame.is_empty()           -> 0 | 1
//!   hasbin       frame.has_binary()         -> 0 | 1
//!   all          frame.fields().collect()   -> k=v,k=v,… | _
//!   rev          frame.fields().rev().collect()
//!   it:<pat>     let mut it = frame.fields(); per char of <pat>: n = it.next(), b = it.next_back()
//!                                           -> per call k=v | none, comma separated (`_` for the empty pattern)
//!   into:<pat>   let mut it = frame.into_iter(); n / b as above, t = it.take_binary() -> b:<hex> | b:none
//!                (moves the frame: must be the last op)
//!
//! The frame is always obtained from the REAL parser: wire bytes `key: value\n`…, optional
//! `binary: N\n<bytes>\n`, `OK\n` through `Connection::connect` + `receive` + `into_single_frame`.
//!
//! resp.ops: a command-list response of n frames (frame i = one field `i: <i>`, `list_OK` after each)
//! ended by `OK` or by `ACK [5@n] {} boom`; `<item>` = ok:<i> (ok:e for a frame without field `i`) |
//! err:<code>.<index> | none; `<hint>` = lo/hi of size_hint() (hi = x for None); `<pat>` over n / b
//! (`_` = empty) drives `Response::frames()` (ref) and `Response::into_iter()` (own).

use std::io::Read;

use mpd_protocol::response::{Error, Frame, Response};
use mpd_protocol::Connection;

use crate::util::{hex, unhex, Rng};
use crate::Cfg;

const GREETING: &[u8] = b"OK MPD 0.23.5\n";

/// Push wire bytes through the real parser. The greeting is served by a separate `read` call
/// (`connect` drops whatever else arrives in the read that completes the greeting).
fn receive(wire: &[u8]) -> Response {
    let io = GREETING.chain(wire);
    let mut conn = Connection::connect(io).expect("connect");
    conn.receive().expect("receive").expect("response")
}

fn frame_wire(fields: &[(Vec<u8>, Vec<u8>)], binary: Option<&[u8]>) -> Vec<u8> {
    let mut w = Vec::new();
    for (k, v) in fields {
        w.extend_from_slice(k);
        w.extend_from_slice(b": ");
        w.extend_from_slice(v);
        w.push(b'\n');
    }
    if let Some(b) = binary {
        w.extend_from_slice(format!("binary: {}\n", b.len()).as_bytes());
        w.extend_from_slice(b);
        w.push(b'\n');
    }
    w.extend_from_slice(b"OK\n");
    w
}

fn parse_fields(s: &str) -> Vec<(Vec<u8>, Vec<u8>)> {
    if s == "_" {
        return Vec::new();
    }
    s.split(',')
        .map(|p| {
            let (k, v) = p.split_once('=').expect("k=v");
            (unhex(k), unhex(v))
        })
        .collect()
}

fn opt_hex(o: Option<&[u8]>) -> String {
    match o {
        Some(b) => hex(b),
        None => "none".into(),
    }
}

fn kv(k: &str, v: &str) -> String {
    format!("{}={}", hex(k.as_bytes()), hex(v.as_bytes()))
}

fn join(items: Vec<String>) -> String {
    if items.is_empty() {
        "_".into()
    } else {
        items.join(",")
    }
}

fn exec_frame(op: &[&str]) -> String {
    let fields = parse_fields(op[1]);
    let binary = if op[2] == "none" { None } else { Some(unhex(op[2])) };
    let resp = receive(&frame_wire(&fields, binary.as_deref()));
    let mut frame = match resp.into_single_frame() {
        Ok(f) => Some(f),
        Err(_) => return "error-frame".into(),
    };
    let mut outs: Vec<String> = Vec::new();
    if op[3] != "_" {
        for o in op[3].split(',') {
            let (name, arg) = match o.split_once(':') {
                Some((n, a)) => (n, a),
                None => (o, ""),
            };
            let Some(f) = frame.as_mut() else { return "badop:after-into".into() };
            let out = match name {
                "f" | "g" => {
                    let key = unhex(arg);
                    let Ok(key) = String::from_utf8(key) else { return "badinput".into() };
                    if name == "f" {
                        opt_hex(f.find(&key).map(str::as_bytes))
                    } else {
                        opt_hex(f.get(&key).as_deref().map(str::as_bytes))
                    }
                }
                "tb" => opt_hex(f.take_binary().as_deref()),
                "bin" => opt_hex(f.binary()),
                "len" => f.fields_len().to_string(),
                "empty" => (f.is_empty() as u8).to_string(),
                "hasbin" => (f.has_binary() as u8).to_string(),
                "all" => join(f.fields().map(|(k, v)| kv(k, v)).collect()),
                "rev" => join(f.fields().rev().map(|(k, v)| kv(k, v)).collect()),
                "it" => {
                    let mut it = f.fields();
                    let mut items = Vec::new();
                    for c in arg.chars() {
                        let x = match c {
                            'n' => it.next(),
                            'b' => it.next_back(),
                            _ => return "badop:pattern".into(),
                        };
                        items.push(match x {
                            Some((k, v)) => kv(k, v),
                            None => "none".into(),
                        });
                    }
                    join(items)
                }
                "into" => {
                    let mut it = frame.take().unwrap().into_iter();
                    let mut items = Vec::new();
                    for c in arg.chars() {
                        match c {
                            'n' | 'b' => {
                                let x = if c == 'n' { it.next() } else { it.next_back() };
                                items.push(match x {
                                    Some((k, v)) => kv(&k, &v),
                                    None => "none".into(),
                                });
                            }
                            't' => items.push(format!("b:{}", opt_hex(it.take_binary().as_deref()))),
                            _ => return "badop:pattern".into(),
                        }
                    }
                    join(items)
                }
                _ => return "badop".into(),
            };
            outs.push(out);
        }
    }
    if outs.is_empty() {
        "_".into()
    } else {
        outs.join(";")
    }
}

fn item_ref(x: Option<Result<&Frame, &Error>>) -> String {
    match x {
        None => "none".into(),
        Some(Ok(f)) => match f.find("i") {
            Some(i) => format!("ok:{i}"),
            None => "ok:e".into(),
        },
        Some(Err(e)) => format!("err:{}.{}", e.code, e.command_index),
    }
}

fn item_own(x: Option<Result<Frame, Error>>) -> String {
    match &x {
        None => item_ref(None),
        Some(Ok(f)) => item_ref(Some(Ok(f))),
        Some(Err(e)) => item_ref(Some(Err(e))),
    }
}

fn hint(h: (usize, Option<usize>)) -> String {
    match h.1 {
        Some(hi) => format!("{}/{}", h.0, hi),
        None => format!("{}/x", h.0),
    }
}

/// `frame.adapt <fields> <binary> <getkeys>`: after the `get`s (which leave holes), every iterator
/// adaptor that an implementation may override (`nth`, `nth_back`, `skip`, `step_by`, `count`,
/// `last`, `rev`) must agree with plain `next()` / `next_back()` loops — which are
/// what the `it:` / `into:` ops compare with the model. Output `ok` or the first inconsistency.
fn exec_adapt(op: &[&str]) -> String {
    let fields = parse_fields(op[1]);
    let binary = if op[2] == "none" { None } else { Some(unhex(op[2])) };
    let resp = receive(&frame_wire(&fields, binary.as_deref()));
    let mut frame = match resp.into_single_frame() {
        Ok(f) => f,
        Err(_) => return "noframe".into(),
    };
    if op[3] != "_" {
        for k in op[3].split(',') {
            let key = String::from_utf8(unhex(k)).unwrap();
            let _ = frame.get(&key);
        }
    }
    let pairs = |f: &Frame| -> Vec<(String, String)> {
        let mut it = f.fields();
        let mut v = Vec::new();
        while let Some((k, x)) = it.next() {
            v.push((k.to_string(), x.to_string()));
        }
        v
    };
    let base = pairs(&frame);
    let n = base.len();
    let own = |x: Option<(&str, &str)>| x.map(|(a, b)| (a.to_string(), b.to_string()));
    for k in 0..=n + 1 {
        if own(frame.fields().nth(k)) != base.get(k).cloned() {
            return format!("diff:fields.nth({k})");
        }
        if own(frame.fields().nth_back(k)) != base.iter().rev().nth(k).cloned() {
            return format!("diff:fields.nth_back({k})");
        }
        let sk: Vec<_> = frame.fields().skip(k).map(|(a, b)| (a.to_string(), b.to_string())).collect();
        if sk != base.iter().skip(k).cloned().collect::<Vec<_>>() {
            return format!("diff:fields.skip({k})");
        }
        // nth leaves the iterator positioned after the k-th pair
        let mut it = frame.fields();
        let _ = it.nth(k);
        let rest: Vec<_> = it.map(|(a, b)| (a.to_string(), b.to_string())).collect();
        if rest != base.iter().skip(k + 1).cloned().collect::<Vec<_>>() {
            return format!("diff:fields.after-nth({k})");
        }
        let mut it = frame.clone().into_iter();
        let got = it.nth(k).map(|(a, b)| (a.to_string(), b));
        if got != base.get(k).cloned() {
            return format!("diff:into_iter.nth({k})");
        }
        let rest: Vec<_> = it.map(|(a, b)| (a.to_string(), b)).collect();
        if rest != base.iter().skip(k + 1).cloned().collect::<Vec<_>>() {
            return format!("diff:into_iter.after-nth({k})");
        }
        let got = frame.clone().into_iter().nth_back(k).map(|(a, b)| (a.to_string(), b));
        if got != base.iter().rev().nth(k).cloned() {
            return format!("diff:into_iter.nth_back({k})");
        }
    }
    for st in 1..=3usize {
        let sb: Vec<_> = frame.fields().step_by(st).map(|(a, b)| (a.to_string(), b.to_string())).collect();
        if sb != base.iter().step_by(st).cloned().collect::<Vec<_>>() {
            return format!("diff:fields.step_by({st})");
        }
        let sb: Vec<_> = frame.clone().into_iter().step_by(st).map(|(a, b)| (a.to_string(), b)).collect();
        if sb != base.iter().step_by(st).cloned().collect::<Vec<_>>() {
            return format!("diff:into_iter.step_by({st})");
        }
    }
    if frame.fields().count() != n || frame.clone().into_iter().count() != n {
        return "diff:count".into();
    }
    if own(frame.fields().last()) != base.last().cloned() {
        return "diff:fields.last".into();
    }
    if frame.clone().into_iter().last().map(|(a, b)| (a.to_string(), b)) != base.last().cloned() {
        return "diff:into_iter.last".into();
    }
    let rv: Vec<_> = frame.fields().rev().map(|(a, b)| (a.to_string(), b.to_string())).collect();
    if rv != base.iter().rev().cloned().collect::<Vec<_>>() {
        return "diff:fields.rev".into();
    }
    // (the field iterators promise no exact size_hint — only that it is a valid bound)
    let (lo, hi) = frame.fields().size_hint();
    if lo > n || hi.map_or(false, |h| h < n) {
        return "diff:size_hint-not-a-bound".into();
    }
    if frame.fields_len() != n {
        return "diff:fields_len".into();
    }
    // ... and stays one while the iterator is stepped from both ends, in every front/back pattern of up
    // to 6 steps and in the pure patterns up to exhaustion; items come out as in the plain walk
    let valid = |h: (usize, Option<usize>), left: usize| h.0 <= left && h.1.map_or(true, |x| x >= left);
    let steps = n.min(6);
    let mut patterns: Vec<Vec<bool>> = (0..(1u32 << steps)).map(|m| (0..steps).map(|i| m >> i & 1 == 1).collect()).collect();
    patterns.push(vec![true; n + 1]);
    patterns.push(vec![false; n + 1]);
    for pat in &patterns {
        let mut b = frame.fields();
        let mut o = frame.clone().into_iter();
        let (mut lo_i, mut hi_i) = (0usize, n);
        for (step, back) in pat.iter().enumerate() {
            let expect = if lo_i < hi_i {
                let e = if *back { hi_i -= 1; base[hi_i].clone() } else { lo_i += 1; base[lo_i - 1].clone() };
                Some(e)
            } else {
                None
            };
            let gb = own(if *back { b.next_back() } else { b.next() });
            let go = (if *back { o.next_back() } else { o.next() }).map(|(a, x)| (a.to_string(), x));
            if gb != expect {
                return format!("diff:fields.mixed-step({step})");
            }
            if go != expect {
                return format!("diff:into_iter.mixed-step({step})");
            }
            let left = hi_i - lo_i;
            if !valid(b.size_hint(), left) {
                return format!("diff:fields.size_hint-after-mixed-steps:{:?}-for-{left}", b.size_hint());
            }
            if !valid(o.size_hint(), left) {
                return format!("diff:into_iter.size_hint-after-mixed-steps:{:?}-for-{left}", o.size_hint());
            }
        }
    }
    "ok".into()
}

fn exec_resp(op: &[&str]) -> String {
    let n: usize = op[1].parse().expect("nframes");
    let haserr = op[2] == "1";
    let pat = if op[3] == "_" { "" } else { op[3] };
    // 5th argument `p`: the failing command printed a field before its ACK (partial output)
    let partial = op.len() == 5 && op[4] == "p";
    let mut w = Vec::new();
    for i in 0..n {
        w.extend_from_slice(format!("i: {i}\nlist_OK\n").as_bytes());
    }
    if partial && haserr {
        w.extend_from_slice(b"p: x\n");
    }
    if haserr {
        w.extend_from_slice(format!("ACK [5@{n}] {{}} boom\n").as_bytes());
    } else {
        w.extend_from_slice(b"OK\n");
    }
    let resp = receive(&w);
    // internal iteration and the adaptors an implementation may override (`fold`, `rfold`, `for_each`,
    // `last`, `count`, `nth`, `nth_back`, through `rev()` too) agree with the stepwise walks
    {
        let fwd_ref = |skip: usize| -> Vec<String> {
            let mut it = resp.frames();
            for _ in 0..skip {
                it.next();
            }
            let mut v = Vec::new();
            while let Some(x) = it.next() {
                v.push(item_ref(Some(x)));
            }
            v
        };
        let bwd_ref = |skip: usize| -> Vec<String> {
            let mut it = resp.frames();
            for _ in 0..skip {
                it.next();
            }
            let mut v = Vec::new();
            while let Some(x) = it.next_back() {
                v.push(item_ref(Some(x)));
            }
            v
        };
        for skip in 0..=1usize {
            let f = fwd_ref(skip);
            let b = bwd_ref(skip);
            let start = || {
                let mut it = resp.frames();
                for _ in 0..skip {
                    it.next();
                }
                it
            };
            let start_own = || {
                let mut it = resp.clone().into_iter();
                for _ in 0..skip {
                    it.next();
                }
                it
            };
            let checks: Vec<(&str, Vec<String>, &Vec<String>)> = vec![
                ("frames.fold", start().fold(Vec::new(), |mut v, x| { v.push(item_ref(Some(x))); v }), &f),
                ("frames.rfold", start().rfold(Vec::new(), |mut v, x| { v.push(item_ref(Some(x))); v }), &b),
                ("frames.rev.fold", start().rev().fold(Vec::new(), |mut v, x| { v.push(item_ref(Some(x))); v }), &b),
                ("frames.rev.collect", start().rev().map(|x| item_ref(Some(x))).collect(), &b),
                ("frames.collect", start().map(|x| item_ref(Some(x))).collect(), &f),
                ("into_iter.fold", start_own().fold(Vec::new(), |mut v, x| { v.push(item_own(Some(x))); v }), &f),
                ("into_iter.rfold", start_own().rfold(Vec::new(), |mut v, x| { v.push(item_own(Some(x))); v }), &b),
                ("into_iter.rev.fold", start_own().rev().fold(Vec::new(), |mut v, x| { v.push(item_own(Some(x))); v }), &b),
                ("into_iter.rev.collect", start_own().rev().map(|x| item_own(Some(x))).collect(), &b),
            ];
            for (what, got, want) in checks {
                if &got != want {
                    return format!("diff:{what}-after-{skip}");
                }
            }
            let mut v = Vec::new();
            start().rev().for_each(|x| v.push(item_ref(Some(x))));
            if v != b {
                return format!("diff:frames.rev.for_each-after-{skip}");
            }
            let mut v = Vec::new();
            start_own().rev().for_each(|x| v.push(item_own(Some(x))));
            if v != b {
                return format!("diff:into_iter.rev.for_each-after-{skip}");
            }
            let mut v = Vec::new();
            start().for_each(|x| v.push(item_ref(Some(x))));
            if v != f {
                return format!("diff:frames.for_each-after-{skip}");
            }
            if start().last().map(|x| item_ref(Some(x))) != f.last().cloned() || start().rev().last().map(|x| item_ref(Some(x))) != f.first().cloned() {
                return format!("diff:frames.last-after-{skip}");
            }
            if start_own().last().map(|x| item_own(Some(x))) != f.last().cloned() || start_own().rev().last().map(|x| item_own(Some(x))) != f.first().cloned() {
                return format!("diff:into_iter.last-after-{skip}");
            }
            if start().count() != f.len() || start_own().count() != f.len() || start().rev().count() != f.len() {
                return format!("diff:count-after-{skip}");
            }
            // `ExactSizeIterator::len` (what `rev().enumerate()`, `rposition`, `with_capacity(it.len())` use)
            if start().len() != f.len() || start_own().len() != f.len() || start().rev().len() != f.len() {
                return format!("diff:len-after-{skip}");
            }
            for k in 0..=f.len() + 1 {
                if start().nth(k).map(|x| item_ref(Some(x))) != f.get(k).cloned() || start().nth_back(k).map(|x| item_ref(Some(x))) != b.get(k).cloned() {
                    return format!("diff:frames.nth({k})-after-{skip}");
                }
                if start_own().nth(k).map(|x| item_own(Some(x))) != f.get(k).cloned() || start_own().nth_back(k).map(|x| item_own(Some(x))) != b.get(k).cloned() {
                    return format!("diff:into_iter.nth({k})-after-{skip}");
                }
            }
        }
    }
    let head = format!(
        "sf:{},e:{},single:{}",
        resp.successful_frames(),
        resp.is_error() as u8,
        item_own(Some(resp.clone().into_single_frame()))
    );
    let mut r = vec![format!("ref:{}", hint(resp.frames().size_hint()))];
    {
        let mut it = resp.frames();
        for c in pat.chars() {
            let x = if c == 'n' { it.next() } else { it.next_back() };
            r.push(format!("{}@{}", item_ref(x), hint(it.size_hint())));
        }
    }
    let mut it = resp.into_iter();
    let mut o = vec![format!("own:{}", hint(it.size_hint()))];
    for c in pat.chars() {
        let x = if c == 'n' { it.next() } else { it.next_back() };
        o.push(format!("{}@{}", item_own(x), hint(it.size_hint())));
    }
    format!("{};{};{}", head, r.join(","), o.join(","))
}

pub fn exec(op: &[&str]) -> String {
    match op[0] {
        "frame.ops" if op.len() == 4 => exec_frame(op),
        "resp.ops" if op.len() == 4 || op.len() == 5 => exec_resp(op),
        "frame.adapt" if op.len() == 4 => exec_adapt(op),
        _ => "badop".into(),
    }
}

// ---------------------------------------------------------------------------------------------
// generators

/// small key alphabet: duplicates and case variants are frequent
const KEYS: &[&str] = &["a", "A", "b", "file", "Title", "title", "Last-Modified", "x_y"];

const VALUES: &[&str] = &[
    "", "1", "v", "Ünï", "日本", "a: b", " lead", "trail ", "OK", "list_OK", "binary: 3", "ACK [5@0] {} x", "\u{0}",
    "🎵 song", "\t", "a\rb", "0123456789abcdefghijklmnopqrstuvwxyz",
];

fn gen_fields(r: &mut Rng, max: usize) -> Vec<(String, String)> {
    let n = r.below(max + 1);
    // sometimes restrict to 2-3 keys so that most fields collide
    let pool: Vec<&str> = match r.below(3) {
        0 => vec!["a", "A"],
        1 => vec!["a", "A", "b", "title", "Title"],
        _ => KEYS.to_vec(),
    };
    (0..n)
        .map(|i| {
            let k = r.pick(&pool).to_string();
            let v = match r.below(4) {
                0 => format!("{i}"),
                1 => crate::util::gen_text(r, 6),
                _ => r.pick(VALUES).to_string(),
            };
            (k, v)
        })
        .collect()
}

fn gen_binary(r: &mut Rng) -> Option<Vec<u8>> {
    match r.below(5) {
        0 | 1 => None,
        2 => Some(Vec::new()),
        3 => Some(b"OK\nfoo: bar\n".to_vec()),
        _ => {
            let n = r.range(1, 12);
            Some((0..n).map(|_| r.next() as u8).collect())
        }
    }
}

fn gen_key(r: &mut Rng, fields: &[(String, String)]) -> String {
    match r.below(10) {
        // a key of the frame
        0..=4 if !fields.is_empty() => r.pick(fields).0.clone(),
        // the same with one letter's case flipped
        5 | 6 if !fields.is_empty() => {
            let mut b = r.pick(fields).0.clone().into_bytes();
            let p = r.below(b.len());
            if b[p].is_ascii_alphabetic() {
                b[p] ^= 0x20;
            }
            String::from_utf8(b).unwrap()
        }
        7 => r.pick(&["", " a", "a ", "a:", "é", "binary", "fil", "files"]).to_string(),
        _ => r.pick(KEYS).to_string(),
    }
}

fn gen_pattern(r: &mut Rng, max: usize, with_t: bool) -> String {
    let n = r.below(max + 1);
    let mode = r.below(4);
    (0..n)
        .map(|_| {
            if with_t && r.chance(1, 6) {
                't'
            } else {
                match mode {
                    0 => 'n',
                    1 => 'b',
                    _ => *r.pick(&['n', 'b']),
                }
            }
        })
        .collect()
}

fn fields_str(fields: &[(String, String)]) -> String {
    if fields.is_empty() {
        "_".into()
    } else {
        fields.iter().map(|(k, v)| kv(k, v)).collect::<Vec<_>>().join(",")
    }
}

fn bin_str(b: &Option<Vec<u8>>) -> String {
    match b {
        None => "none".into(),
        Some(b) => hex(b),
    }
}

fn ops_str(ops: &[String]) -> String {
    if ops.is_empty() {
        "_".into()
    } else {
        ops.join(",")
    }
}

fn gen_ops(r: &mut Rng, fields: &[(String, String)]) -> Vec<String> {
    let n = r.below(31);
    // how eager this sequence is to take values out (holes)
    let get_weight = *r.pick(&[1usize, 3, 6]);
    let mut ops = Vec::new();
    for _ in 0..n {
        let c = r.below(12 + get_weight);
        let op = match c {
            0 | 1 => format!("f:{}", hex(gen_key(r, fields).as_bytes())),
            2 => "tb".to_string(),
            3 => "len".to_string(),
            4 => "empty".to_string(),
            5 => "hasbin".to_string(),
            6 => "bin".to_string(),
            7 | 8 => format!("it:{}", gen_pattern(r, 14, false)),
            9 => "all".to_string(),
            10 => "rev".to_string(),
            11 => format!("it:{}", gen_pattern(r, 4, false)),
            _ => format!("g:{}", hex(gen_key(r, fields).as_bytes())),
        };
        ops.push(op);
    }
    if r.chance(1, 3) {
        ops.push(format!("into:{}", gen_pattern(r, 14, true)));
    }
    ops
}

/// all n/b strings of length ≤ max
fn all_patterns(max: usize) -> Vec<String> {
    let mut out = vec![String::new()];
    let mut last = vec![String::new()];
    for _ in 0..max {
        let mut next = Vec::new();
        for p in &last {
            next.push(format!("{p}n"));
            next.push(format!("{p}b"));
        }
        out.extend(next.iter().cloned());
        last = next;
    }
    out
}

pub fn gen(cfg: &Cfg) -> Vec<String> {
    let mut r = Rng::new(cfg.seed ^ 0xC19);
    let mut ops = Vec::new();

    // boundary cases
    for l in [
        "frame.ops _ none _",
        "frame.ops _ none len,empty,hasbin,bin,tb,all,rev,it:nbnb,f:61,g:61,into:nbt",
        "frame.ops _ - empty,hasbin,bin,tb,tb,empty,hasbin,bin,into:tt",
        "frame.ops 61=31,41=32,61=33 0102 f:61,g:61,it:bn,g:61,g:61,f:41,len,rev,into:btn",
        "frame.ops 61=31,61=32,61=33 none g:61,it:b,it:bb,it:bbb,g:61,it:nb,all,g:61,it:nb,empty",
        "frame.ops 61=31,62=32,63=33 none g:63,it:b,rev,g:62,it:bb,it:nbn,into:bn",
        "frame.ops 61=31,62=32,63=33 none g:61,it:n,all,g:62,it:nn,it:bnb,into:nb",
        "frame.ops 7469746c65=31,5469746c65=32 none f:5449544c45,f:5469746c65,g:7469746c65,f:7469746c65,f:5469746c65",
    ] {
        ops.push(l.to_string());
    }

    // exhaustive small scope: all frames over keys {a, A} with ≤ K fields × all n/b patterns of length ≤ P,
    // after every possible single `get` (none, a, A); borrowed and owned iteration
    let (kmax, pmax) = if cfg.thorough { (5, 6) } else { (4, 5) };
    let pats = all_patterns(pmax);
    for k in 0..=kmax {
        for mask in 0..(1u32 << k) {
            let fields: Vec<(String, String)> = (0..k)
                .map(|i| ((if mask >> i & 1 == 1 { "A" } else { "a" }).to_string(), format!("v{i}")))
                .collect();
            let fs = fields_str(&fields);
            for g in ["", "g:61,", "g:41,"] {
                for p in &pats {
                    ops.push(format!("frame.ops {fs} none {g}it:{p}"));
                    ops.push(format!("frame.ops {fs} 00 {g}into:{p}"));
                }
            }
        }
    }

    // random frames × random call sequences
    let n_rand = cfg.n.unwrap_or(if cfg.thorough { 200_000 } else { 10_000 });
    for _ in 0..n_rand {
        let fields = gen_fields(&mut r, 10);
        let binary = gen_binary(&mut r);
        let o = gen_ops(&mut r, &fields);
        ops.push(format!("frame.ops {} {} {}", fields_str(&fields), bin_str(&binary), ops_str(&o)));
        // iterator adaptors after some `get`s
        let ng = r.below(4);
        let keys: Vec<String> = (0..ng).map(|_| hex(gen_key(&mut r, &fields).as_bytes())).collect();
        ops.push(format!("frame.adapt {} {} {}", fields_str(&fields), bin_str(&binary), if keys.is_empty() { "_".to_string() } else { keys.join(",") }));
    }

    // responses: every (n, haserr) × every pattern up to a length beyond the item count
    let (nmax, pmax) = if cfg.thorough { (8, 11) } else { (5, 7) };
    let pats = all_patterns(pmax);
    for n in 0..=nmax {
        for e in 0..2 {
            for p in &pats {
                ops.push(format!("resp.ops {n} {e} {}", if p.is_empty() { "_" } else { p }));
            }
        }
    }
    for _ in 0..(if cfg.thorough { 5000 } else { 500 }) {
        let n = r.below(12);
        let e = r.below(2);
        let p = gen_pattern(&mut r, 16, false);
        ops.push(format!("resp.ops {n} {e} {}", if p.is_empty() { "_".to_string() } else { p }));
    }
    // an error after partial output of the failing command (single command: n = 0, or inside a list)
    for n in 0..=nmax {
        for p in pats.iter().filter(|p| p.len() <= 4) {
            ops.push(format!("resp.ops {n} 1 {} p", if p.is_empty() { "_" } else { p }));
        }
    }
    ops
}
