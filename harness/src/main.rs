//! `mpdverif <family> [--seed N] [--tier quick|thorough] [--prop Cxx] [--replay FILE]`
//!
//! Prints one operation per line: `<op> <args…> => <implementation's canonical result>`.
//! Operations are first generated (corpus / replay file first, then from one PRNG seed) as plain
//! op lines, then executed one by one against the real crates under `catch_unwind`.

mod client;
mod proto;
mod frame;
mod cmd;
mod song;
mod filter;
mod commands;
mod tags;
mod typed;
mod util;

use std::io::{BufRead, Write};
use std::panic::{catch_unwind, AssertUnwindSafe};

pub struct Cfg {
    pub seed: u64,
    pub thorough: bool,
    pub prop: String,
    pub n: Option<usize>,
}

struct Family {
    name: &'static str,
    gen: fn(&Cfg) -> Vec<String>,
    exec: fn(&[&str]) -> String,
}

const FAMILIES: &[Family] = &[
    Family { name: "tags", gen: tags::gen, exec: tags::exec },
    Family { name: "proto", gen: proto::gen, exec: proto::exec },
    Family { name: "loop", gen: client::gen, exec: client::exec },
    Family { name: "frame", gen: frame::gen, exec: frame::exec },
    Family { name: "cmd", gen: cmd::gen, exec: cmd::exec },
    Family { name: "song", gen: song::gen, exec: song::exec },
    Family { name: "filter", gen: filter::gen, exec: filter::exec },
    Family { name: "typed", gen: typed::gen, exec: typed::exec },
    Family { name: "commands", gen: commands::gen, exec: commands::exec },
];

/// A subscriber that enables every span and event and throws them away: with it installed every
/// `trace!`/`debug!` call site in the crates is ENABLED, so the expressions in their field lists
/// are evaluated (with no subscriber they are skipped, and a panic in one of them would only show
/// up in an application that logs).
struct Sink;

impl tracing::Subscriber for Sink {
    fn enabled(&self, _: &tracing::Metadata<'_>) -> bool {
        true
    }
    fn new_span(&self, _: &tracing::span::Attributes<'_>) -> tracing::span::Id {
        tracing::span::Id::from_u64(1)
    }
    fn record(&self, _: &tracing::span::Id, _: &tracing::span::Record<'_>) {}
    fn record_follows_from(&self, _: &tracing::span::Id, _: &tracing::span::Id) {}
    fn event(&self, e: &tracing::Event<'_>) {
        // format every field, as a logging subscriber would
        struct V;
        impl tracing::field::Visit for V {
            fn record_debug(&mut self, _: &tracing::field::Field, v: &dyn std::fmt::Debug) {
                let _ = format!("{v:?}");
            }
        }
        e.record(&mut V);
    }
    fn enter(&self, _: &tracing::span::Id) {}
    fn exit(&self, _: &tracing::span::Id) {}
}

fn main() {
    let args: Vec<String> = std::env::args().collect();
    if args.len() < 2 {
        eprintln!("usage: mpdverif <family> [--seed N] [--tier quick|thorough] [--prop Cxx] [--n N] [--replay FILE]");
        std::process::exit(2);
    }
    let fam = FAMILIES.iter().find(|f| f.name == args[1]).unwrap_or_else(|| {
        eprintln!("unknown family {}", args[1]);
        std::process::exit(2)
    });
    let mut cfg = Cfg { seed: 1, thorough: false, prop: String::new(), n: None };
    let _ = tracing::subscriber::set_global_default(Sink);
    let mut replay: Vec<String> = Vec::new();
    let mut only_replay = false;
    let mut i = 2;
    while i < args.len() {
        match args[i].as_str() {
            "--seed" => {
                cfg.seed = args[i + 1].parse().expect("seed");
                i += 2;
            }
            "--tier" => {
                cfg.thorough = args[i + 1] == "thorough";
                i += 2;
            }
            "--prop" => {
                cfg.prop = args[i + 1].clone();
                i += 2;
            }
            "--n" => {
                cfg.n = Some(args[i + 1].parse().expect("n"));
                i += 2;
            }
            "--corpus" | "--replay" => {
                if args[i] == "--replay" {
                    only_replay = true;
                }
                let f = std::fs::File::open(&args[i + 1]).expect("open replay/corpus file");
                for l in std::io::BufReader::new(f).lines() {
                    let l = l.unwrap();
                    let l = l.trim();
                    if l.is_empty() || l.starts_with('#') {
                        continue;
                    }
                    // strip a recorded result, keep the operation
                    let op = match l.find(" => ") {
                        Some(p) => &l[..p],
                        None => l,
                    };
                    replay.push(op.to_string());
                }
                i += 2;
            }
            other => {
                eprintln!("unknown argument {other}");
                std::process::exit(2);
            }
        }
    }
    // quiet panics: they are outcomes, printed as PANIC
    if std::env::var("MPDVERIF_LOUD").is_err() {
        std::panic::set_hook(Box::new(|_| {}));
    }

    let mut ops = replay;
    if !only_replay {
        ops.extend((fam.gen)(&cfg));
    }
    let out = std::io::stdout();
    let mut out = std::io::BufWriter::new(out.lock());
    // sidecar: the operation being executed, so that a crash that cannot be caught (abort, stack
    // overflow, allocation failure) can still be attributed to its input by the orchestrator
    let current = std::env::var("MPDVERIF_CURRENT").ok();
    for op in ops {
        if let Some(p) = &current {
            let _ = std::fs::write(p, &op);
        }
        let toks: Vec<&str> = op.split(' ').collect();
        let res = catch_unwind(AssertUnwindSafe(|| (fam.exec)(&toks))).unwrap_or_else(|_| "PANIC".to_string());
        writeln!(out, "{op} => {res}").unwrap();
    }
}
