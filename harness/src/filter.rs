//! Family `filter` (C11): filter expressions built through the public API of `mpd_client::filter`,
//! sent as the argument of a `find` command through `Command::build` + `add_argument` +
//! `Connection::send` into a capturing writer.
//!
//! op   filter.find <tree>     => ok:<hex of the bytes written> | rejected | PANIC
//! <tree> (prefix form, no blanks):
//!   T(<tag>,<opidx>,<hex value>)  Filter::new(tag, op, value)      opidx: 0 == 1 != 2 contains 3 =~ 4 !~
//!   Q(<tag>,<hex value>)          Filter::tag(tag, value)
//!   E(<tag>) / X(<tag>)           Filter::tag_exists / Filter::tag_absent
//!   N(<tree>) / M(<tree>)         filter.negate() / !filter
//!   A(<tree>;<tree>)              a.and(b)
//! <tag>: V<idx> named variant (declaration order), O<hex> Tag::Other (Tag::any() = O616e79),
//!        T<hex> Tag::try_from

use std::io::{Cursor, Read, Write};

use mpd_client::filter::{Filter, Operator};
use mpd_client::tag::Tag;
use mpd_protocol::command::Command;
use mpd_protocol::Connection;

use crate::tags::named_tags;
use crate::util::{gen_text, gen_word, hex, unhex, Rng};
use crate::Cfg;

const OPS: [Operator; 5] =
    [Operator::Equal, Operator::NotEqual, Operator::Contain, Operator::Match, Operator::NotMatch];

pub(crate) struct Cap {
    pub(crate) input: Cursor<Vec<u8>>,
    pub(crate) out: Vec<u8>,
}

impl Read for Cap {
    fn read(&mut self, buf: &mut [u8]) -> std::io::Result<usize> {
        self.input.read(buf)
    }
}

impl Write for Cap {
    fn write(&mut self, buf: &[u8]) -> std::io::Result<usize> {
        self.out.extend_from_slice(buf);
        Ok(buf.len())
    }
    fn flush(&mut self) -> std::io::Result<()> {
        Ok(())
    }
}

pub(crate) fn mk_tag(spec: &str) -> Option<Tag> {
    if spec.is_empty() {
        return None;
    }
    let (k, rest) = spec.split_at(1);
    match k {
        "V" => named_tags().into_iter().nth(rest.parse().ok()?),
        "O" => {
            let raw = String::from_utf8(unhex(rest)).ok()?;
            // exercise the public constructor where it exists
            Some(if raw == "any" { Tag::any() } else { Tag::Other(raw.into_boxed_str()) })
        }
        "T" => Tag::try_from(std::str::from_utf8(&unhex(rest)).ok()?).ok(),
        _ => None,
    }
}

/// text up to (not including) the first `stop`, advancing `*p` past the text
fn up_to<'a>(s: &'a str, p: &mut usize, stop: char) -> &'a str {
    let start = *p;
    let end = s[start..].find(stop).map(|i| start + i).unwrap_or(s.len());
    *p = end;
    &s[start..end]
}

fn eat(s: &str, p: &mut usize, c: char) -> Option<()> {
    if s[*p..].starts_with(c) {
        *p += c.len_utf8();
        Some(())
    } else {
        None
    }
}

fn value(h: &str) -> Option<String> {
    String::from_utf8(unhex(h)).ok()
}

/// history that must be irrelevant: render a CLONE of a sub-filter (as sending a command with it
/// would) before the sub-filter is negated / combined. Done for every other op line (by the length of
/// the tree text), so that both the used and the unused state are exercised.
fn touch(s: &str, f: &Filter) {
    match s.len() % 4 {
        0 => {
            if let Ok(mut c) = Command::build("find") {
                let _ = c.add_argument(f.clone());
            }
        }
        // rendered by reference: the value that is negated afterwards has itself been rendered
        2 => {
            if let Ok(mut c) = Command::build("find") {
                let _ = c.add_argument(f);
            }
        }
        _ => {}
    }
}

pub(crate) fn parse_tree(s: &str, p: &mut usize) -> Option<Filter> {
    parse_tree_opt(s, p, false)
}

/// `shadow`: a filter of the SAME SHAPE with every operator, every value and every exists/absent
/// exchanged for another one — the value a `clone_from` overwrites (see `exec`)
fn parse_tree_opt(s: &str, p: &mut usize, shadow: bool) -> Option<Filter> {
    let kind = s[*p..].chars().next()?;
    *p += 1;
    eat(s, p, '(')?;
    let f = match kind {
        'T' => {
            let t = mk_tag(up_to(s, p, ','))?;
            eat(s, p, ',')?;
            let idx = up_to(s, p, ',').parse::<usize>().ok()?;
            let op = *OPS.get(idx)?;
            eat(s, p, ',')?;
            let v = value(up_to(s, p, ')'))?;
            if shadow {
                Filter::new(t, OPS[(idx + 1) % OPS.len()], "shadow \\ value")
            } else {
                Filter::new(t, op, v)
            }
        }
        'Q' => {
            let t = mk_tag(up_to(s, p, ','))?;
            eat(s, p, ',')?;
            let v = value(up_to(s, p, ')'))?;
            if shadow {
                Filter::new(t, Operator::Contain, "shadow")
            } else {
                Filter::tag(t, v)
            }
        }
        'E' if shadow => Filter::tag_absent(mk_tag(up_to(s, p, ')'))?),
        'X' if shadow => Filter::tag_exists(mk_tag(up_to(s, p, ')'))?),
        'E' => Filter::tag_exists(mk_tag(up_to(s, p, ')'))?),
        'X' => Filter::tag_absent(mk_tag(up_to(s, p, ')'))?),
        'N' => {
            let g = parse_tree_opt(s, p, shadow)?;
            if !shadow {
                touch(s, &g);
            }
            g.negate()
        }
        'M' => {
            let g = parse_tree_opt(s, p, shadow)?;
            if !shadow {
                touch(s, &g);
            }
            !g
        }
        'A' => {
            let a = parse_tree_opt(s, p, shadow)?;
            eat(s, p, ';')?;
            let b = parse_tree_opt(s, p, shadow)?;
            if !shadow {
                touch(s, &a);
                touch(s, &b);
            }
            a.and(b)
        }
        _ => return None,
    };
    eat(s, p, ')')?;
    Some(f)
}

pub fn exec(op: &[&str]) -> String {
    match op[0] {
        "filter.find" => {
            if op.len() != 2 {
                return "badop".into();
            }
            let mut p = 0;
            let Some(f) = parse_tree(op[1], &mut p) else { return "badinput".into() };
            if p != op[1].len() {
                return "badinput".into();
            }
            // history that must be irrelevant: the filter that is sent OVERWRITES, via `Clone::clone_from`
            // (directly, or as the element of a `Vec`), a filter of the same shape with other operators and
            // values — for every third op line (by the length of the tree text)
            let f = match op[1].len() % 6 {
                1 => {
                    let mut q = 0;
                    let mut g = parse_tree_opt(op[1], &mut q, true).expect("shadow");
                    g.clone_from(&f);
                    g
                }
                4 => {
                    let mut q = 0;
                    let mut v = vec![parse_tree_opt(op[1], &mut q, true).expect("shadow")];
                    v.clone_from(&vec![f]);
                    v.pop().unwrap()
                }
                _ => f,
            };
            let mut cmd = Command::build("find").expect("find");
            if cmd.add_argument(f).is_err() {
                return "rejected".into();
            }
            let io = Cap { input: Cursor::new(b"OK MPD 0.23.5\n".to_vec()), out: Vec::new() };
            let mut conn = Connection::connect(io).expect("connect");
            conn.send(cmd).expect("send");
            format!("ok:{}", hex(&conn.into_inner().out))
        }
        "filter.via" => {
            // the filter inside the typed commands that carry one, on every builder path
            if op.len() != 3 {
                return "badop".into();
            }
            let mut p = 0;
            let Some(f) = parse_tree(op[2], &mut p) else { return "badinput".into() };
            if p != op[2].len() {
                return "badinput".into();
            }
            use mpd_client::commands::{self as c, Command as _};
            let raw = match op[1] {
                "find" => c::Find::new(f).command(),
                "findw" => c::Find::new(f).sort(Tag::Title).window(2..9).command(),
                "list" => c::List::new(Tag::Album).filter(f).command(),
                "listg" => c::List::new(Tag::Album).filter(f).group_by([Tag::Artist, Tag::Date]).command(),
                "count" => c::Count::new(f).command(),
                "countg1" => c::Count::new(f).group_by(Tag::Album).command(),
                "countg2" => c::CountGrouped::new(Tag::Album).filter(f).command(),
                // a filter set twice: the documented behaviour is that the last call wins
                "list2" => c::List::new(Tag::Album).filter(Filter::tag(Tag::Genre, "overwritten")).filter(f).command(),
                "listg2" => c::List::new(Tag::Album)
                    .filter(Filter::tag(Tag::Genre, "overwritten"))
                    .group_by([Tag::Artist])
                    .filter(f)
                    .command(),
                "countg3" => c::CountGrouped::new(Tag::Album).filter(Filter::tag(Tag::Genre, "overwritten")).filter(f).command(),
                "countg4" => c::Count::new(Filter::tag(Tag::Genre, "overwritten")).group_by(Tag::Album).filter(f).command(),
                _ => return "badop".into(),
            };
            let io = Cap { input: Cursor::new(b"OK MPD 0.23.5\n".to_vec()), out: Vec::new() };
            let mut conn = Connection::connect(io).expect("connect");
            conn.send(raw).expect("send");
            format!("ok:{}", hex(&conn.into_inner().out))
        }
        _ => "badop".into(),
    }
}

// ---------------------------------------------------------------------------------------------
// generators

#[derive(Clone, Copy)]
struct Mode {
    quotes: bool,    // values may contain `"` (class K2)
    forbidden: bool, // values may contain LF / NUL
    bad_tags: bool,  // tag names MPD's ExpectWord does not read as a tag
}

fn gen_tag(r: &mut Rng, m: Mode) -> String {
    if m.bad_tags && r.chance(1, 3) {
        let bad: [&str; 12] = [
            "base", "BASE", "modified-since", "added-since", "AudioFormat", "audioformat", "prio", "_foo", "-x", "foo bar",
            "a\"b", "x1",
        ];
        let n = *r.pick(&bad);
        return if r.chance(1, 2) && Tag::try_from(n).is_ok() { format!("T{}", hex(n.as_bytes())) } else { format!("O{}", hex(n.as_bytes())) };
    }
    match r.below(10) {
        0..=4 => format!("V{}", r.below(31)),
        5 => "O616e79".into(),                       // any
        6 => format!("O{}", hex(b"file")),
        7 => {
            // valid Other name: letter, then letters / '_' / '-'
            let mut w = String::new();
            w.push((if r.chance(1, 2) { b'a' } else { b'A' } + r.below(26) as u8) as char);
            w.push_str(&gen_word(r, 0, 10));
            if r.chance(1, 3) {
                w = w.replace('_', "-");
            }
            format!("O{}", hex(w.as_bytes()))
        }
        8 => {
            // through try_from: a known name in some letter case, or a word
            let n = if r.chance(1, 2) {
                // (the whole table: also the words that are selectors or keywords elsewhere in MPD's filter
                // syntax — `base`, `modified-since`, `added-since`, `any`, `file`, `AudioFormat`, `prio`)
                let t = &crate::tags::MPD_TAG_NAMES[r.below(crate::tags::MPD_TAG_NAMES.len())];
                if r.chance(1, 2) { t.to_ascii_lowercase() } else { t.to_string() }
            } else {
                let mut w = String::from("x");
                w.push_str(&gen_word(r, 0, 8));
                w
            };
            format!("T{}", hex(n.as_bytes()))
        }
        _ => format!("V{}", r.below(31)),
    }
}

const PIECES: &[&str] = &[
    "", " ", "  ", "\t", "'", "\\", "\\\\", "\\'", "\\ ", "(", ")", "()", "(x)", ")(", " AND ", "AND", ") AND (", "!", "!(", "==", "!=",
    "=~", "!~", "contains ", "é", "ß", "日本", "🎵", "\u{1}", "\u{1f}", "\u{7f}", "\r", "\u{b}", "foo", "Bar", "42", "x", "(Artist == 'x')",
    "\\\\\\", "a\\b", "it's", "a b", " lead", "trail ", "~", "\u{80}", "\u{ff}",
];
const QUOTE_PIECES: &[&str] = &["\"", "\\\"", "\"\"", "\" ", " \"", "foo\"bar", "\\\\\"", "(Artist == \"x\")", "\") AND (Album == \"y", "\"x\"", "a \"b\" c"];

fn gen_value(r: &mut Rng, m: Mode) -> String {
    let mut s = String::new();
    let n = match r.below(10) {
        0 => 0,
        1..=5 => 1,
        6..=8 => 2,
        _ => r.range(3, 5),
    };
    for _ in 0..n {
        match r.below(12) {
            0..=5 => s.push_str(*r.pick::<&str>(PIECES)),
            6 | 7 => s.push_str(&gen_word(r, 1, 8)),
            8 => {
                let t = gen_text(r, 8);
                s.push_str(&if m.quotes { t } else { t.replace('"', "'") });
            }
            9 | 10 => {
                if m.quotes {
                    s.push_str(*r.pick::<&str>(QUOTE_PIECES))
                } else {
                    s.push_str(*r.pick::<&str>(PIECES))
                }
            }
            _ => {
                if m.forbidden {
                    s.push(if r.chance(1, 2) { '\n' } else { '\0' })
                } else {
                    s.push('\\')
                }
            }
        }
    }
    s
}

fn gen_leaf(r: &mut Rng, m: Mode) -> String {
    match r.below(12) {
        0 => format!("E({})", gen_tag(r, m)),
        1 => format!("X({})", gen_tag(r, m)),
        2 | 3 => format!("Q({},{})", gen_tag(r, m), hex(gen_value(r, m).as_bytes())),
        _ => format!("T({},{},{})", gen_tag(r, m), r.below(5), hex(gen_value(r, m).as_bytes())),
    }
}

/// random binary bracketing of `a1 AND … AND an` (left chains, right chains and mixtures)
fn bracket(r: &mut Rng, mut xs: Vec<String>) -> String {
    let style = r.below(3);
    while xs.len() > 1 {
        let i = match style {
            0 => 0,
            1 => xs.len() - 2,
            _ => r.below(xs.len() - 1),
        };
        let b = xs.remove(i + 1);
        let a = std::mem::take(&mut xs[i]);
        xs[i] = format!("A({a};{b})");
    }
    xs.pop().unwrap()
}

/// logical tree of nesting depth ≤ `depth`, AND width ≤ 6; `budget` bounds the number of leaves
fn gen_tree(r: &mut Rng, depth: usize, budget: &mut isize, m: Mode) -> String {
    if depth == 0 || *budget <= 1 || r.chance(1, 4) {
        *budget -= 1;
        return gen_leaf(r, m);
    }
    match r.below(10) {
        0..=3 => {
            let c = gen_tree(r, depth - 1, budget, m);
            if r.chance(1, 2) { format!("N({c})") } else { format!("M({c})") }
        }
        _ => {
            let w = match r.below(6) {
                0..=2 => 2,
                3 => 3,
                _ => r.range(4, 6),
            };
            // operands: mostly leaves and NOTs (an AND operand is flattened into this AND by the API)
            let xs: Vec<String> = (0..w)
                .map(|_| match r.below(10) {
                    0..=4 => {
                        *budget -= 1;
                        gen_leaf(r, m)
                    }
                    5..=7 => {
                        let c = gen_tree(r, depth - 1, budget, m);
                        if r.chance(1, 2) { format!("N({c})") } else { format!("M({c})") }
                    }
                    _ => gen_tree(r, depth - 1, budget, m),
                })
                .collect();
            // a conjunction may hold the same condition more than once (`a AND a`, `a AND b AND a`): every
            // operand is a clause of its own, duplicates included — one time in five an operand is repeated
            let mut xs = xs;
            if r.chance(1, 5) {
                let k = r.below(xs.len());
                let dup = xs[k].clone();
                let at = r.below(xs.len() + 1);
                xs.insert(at, dup);
            }
            bracket(r, xs)
        }
    }
}

/// every string over `alphabet` of length ≤ n
fn all_strings(alphabet: &[&str], n: usize) -> Vec<String> {
    let mut out = vec![String::new()];
    let mut last = vec![String::new()];
    for _ in 0..n {
        let mut next = Vec::new();
        for s in &last {
            for a in alphabet {
                next.push(format!("{s}{a}"));
            }
        }
        out.extend(next.iter().cloned());
        last = next;
    }
    out
}

pub fn gen(cfg: &Cfg) -> Vec<String> {
    let mut r = Rng::new(cfg.seed ^ 0xC11);
    let mut ops = Vec::new();
    let plain = Mode { quotes: false, forbidden: false, bad_tags: false };

    // every named variant / any / file with every operator and both shorthands
    let mut tags: Vec<String> = (0..31).map(|i| format!("V{i}")).collect();
    tags.push("O616e79".into());
    tags.push(format!("O{}", hex(b"file")));
    for t in &tags {
        for o in 0..5 {
            ops.push(format!("filter.find T({t},{o},{})", hex(b"foo")));
        }
        ops.push(format!("filter.find E({t})"));
        ops.push(format!("filter.find X({t})"));
        ops.push(format!("filter.find Q({t},{})", hex("mep mep".as_bytes())));
    }
    // every value piece on its own, with every operator
    for (k, p) in PIECES.iter().chain(QUOTE_PIECES.iter()).enumerate() {
        ops.push(format!("filter.find T(V4,{},{})", k % 5, hex(p.as_bytes())));
        ops.push(format!("filter.find N(T(V0,{},{}))", (k + 1) % 5, hex(p.as_bytes())));
        ops.push(format!("filter.find A(T(V28,{},{});Q(V13,{}))", (k + 2) % 5, hex(p.as_bytes()), hex(p.as_bytes())));
    }
    // exhaustive small scope: all values over the critical alphabet up to a length
    let alphabet = ["a", "\"", "\\", "'", " ", "(", ")", "é"];
    let n = if cfg.thorough { 5 } else { 3 };
    for (k, v) in all_strings(&alphabet, n).iter().enumerate() {
        ops.push(format!("filter.find T(V4,{},{})", k % 5, hex(v.as_bytes())));
    }
    // AND shapes: every bracketing style for widths 2..6, AND of ANDs, NOT of AND, AND of NOTs
    for w in 2..=6usize {
        for style in 0..6 {
            let xs: Vec<String> = (0..w).map(|i| format!("T(V{},{},{})", i, i % 5, hex(format!("v{i}").as_bytes()))).collect();
            let mut rr = Rng::new(style as u64 * 31 + w as u64);
            let t = bracket(&mut rr, xs);
            ops.push(format!("filter.find {t}"));
            ops.push(format!("filter.find N({t})"));
            ops.push(format!("filter.find A(M({t});{t})"));
        }
    }
    // random trees
    let n_rand = cfg.n.unwrap_or(if cfg.thorough { 200_000 } else { 10_000 });
    for _ in 0..n_rand {
        let m = match r.below(100) {
            0..=69 => plain,
            70..=92 => Mode { quotes: true, ..plain },
            93..=95 => Mode { forbidden: true, ..plain },
            96..=98 => Mode { bad_tags: true, ..plain },
            _ => Mode { quotes: true, forbidden: true, bad_tags: true },
        };
        let depth = match r.below(10) {
            0 => 0,
            1 | 2 => 1,
            3..=5 => 2,
            6 | 7 => 3,
            8 => r.range(4, 5),
            _ => 6,
        };
        let mut budget: isize = r.range(2, 40) as isize;
        let t = gen_tree(&mut r, depth, &mut budget, m);
        ops.push(format!("filter.find {t}"));
        // the same filter inside one of the typed commands that carry one
        let path = *r.pick(&["find", "findw", "list", "listg", "count", "countg1", "countg2", "list2", "listg2", "countg3", "countg4"]);
        ops.push(format!("filter.via {path} {t}"));
    }
    ops
}
