//! Family `loop` (C01, C04, C05, C08, C13 pairing, C17, C18 password): the real `Client` and its
//! run loop over a scripted transport, on a paused tokio clock, driven by a literal schedule.
//!
//! op     loop.run <pw hex|~> <action>,<action>,…
//! actions (see lean/Mpd/Client.lean `Action` and lean/Driver/Loop.lean)
//!   d<hex>                 bytes become readable
//!   s<hexname>             GHOST: server-side change of a subsystem (no effect on the client)
//!   q<rid>:<cmds>          raw_command_list; <cmds> = commands joined by `+`, command = namehex[~arghex]*
//!   a<rid>:<urihex>        Client::album_art
//!   y<rid>:<v|t>:<names>   typed command_list of echo commands (Vec / tuple), names hex joined by `+`
//!   k<rid>:<cmd>           Client::raw_command (ONE command, the single-frame entry point)
//!   m<rid>:<namehex>       Client::command of one echo command (the typed single-command entry point)
//!   b<rid>:<cmds>:<hex>    enqueue + make bytes readable before the task runs (both select! branches ready)
//!   t<ms>                  advance the clock
//!   c<rid>                 drop the caller's future
//!   x                      drop the main Client handle
//!   e | r<k> | w<k>        persistent EOF / read fault / write fault
//! result: segments joined by `!`, parts of a segment joined by `&`:
//!   conn=…  w=<hex>  res<rid>=<final>  ev=<hexname>  cl=<proto:…|invresp>  evend  closed  dropped
//! and a last part `pend=<rids>` listing caller futures that never resolved.

use std::collections::{BTreeMap, VecDeque};
use std::future::Future;
use std::io;
use std::pin::Pin;
use std::sync::{Arc, Mutex};
use std::task::{Context, Poll, Waker};
use std::time::Duration;

use mpd_client::client::{CommandError, ConnectWithPasswordError, ConnectionError, ConnectionEvent, ConnectionEvents};
use mpd_client::commands::Command as TypedCommand;
use mpd_client::responses::TypedResponseError;
use mpd_client::Client;
use mpd_protocol::command::{Command as RawCommand, CommandList as RawList};
use mpd_protocol::response::Frame;
use tokio::io::{AsyncRead, AsyncWrite, ReadBuf};

use crate::proto::{fmt_frame, fmt_perr, IO_KINDS};
use crate::util::{hex, unhex, Rng};
use crate::Cfg;

#[derive(Default)]
pub struct Shared {
    pub avail: VecDeque<u8>,
    pub eof: bool,
    pub rerr: Option<usize>,
    pub werr: Option<usize>,
    pub written: Vec<u8>,
    pub waker: Option<Waker>,
    pub dropped: bool,
    /// how many bytes one `poll_write` accepts (0: all of them)
    pub wcap: usize,
    /// write back-pressure: `Some(k)` = the transport accepts k more bytes and then returns Pending
    /// until unblocked (action `U`); `None` = no back-pressure
    pub wblock: Option<usize>,
    pub wwaker: Option<Waker>,
    /// the client wrote more than `WRITE_BUDGET` bytes in one schedule: a write loop that does not end
    pub runaway: bool,
    /// number of `poll_write` calls so far (a loop that keeps calling without making progress)
    pub wcalls: usize,
    /// vectored writes: 0 = the transport does not advertise them; 1 = it does and takes the first
    /// non-empty slice per call (what the default `poll_write_vectored` does — every such write ends
    /// exactly on a slice boundary); 2 = it does and gathers across slices up to `wcap` bytes
    pub wvec: u8,
}

/// no schedule makes the client write anywhere near this much (requests are a few hundred bytes);
/// beyond it the transport fails every write and the schedule's outcome is `RUNAWAY`
const WRITE_BUDGET: usize = 8 << 20;
/// … and none calls `poll_write` this often (the largest list, 10 KB at one byte per call, needs 10 000)
const WRITE_CALL_BUDGET: usize = 300_000;

/// the transport's write acceptance is part of the schedule: it is derived from the schedule's seed
/// and so is its support for vectored writes
pub fn wvec_of(seed: u64) -> u8 {
    ((seed / 16) % 3) as u8
}

pub fn wcap_of(seed: u64) -> usize {
    match seed % 8 {
        0 => 1,
        1 => 7,
        2 => 100,
        _ => 0,
    }
}

pub struct SimIo(pub Arc<Mutex<Shared>>);

impl Drop for SimIo {
    fn drop(&mut self) {
        self.0.lock().unwrap().dropped = true;
    }
}

impl AsyncRead for SimIo {
    fn poll_read(self: Pin<&mut Self>, cx: &mut Context<'_>, buf: &mut ReadBuf<'_>) -> Poll<io::Result<()>> {
        let mut s = self.0.lock().unwrap();
        if let Some(k) = s.rerr {
            return Poll::Ready(Err(io::Error::new(IO_KINDS[k], "scripted read fault")));
        }
        if s.avail.is_empty() {
            if s.eof {
                return Poll::Ready(Ok(()));
            }
            s.waker = Some(cx.waker().clone());
            return Poll::Pending;
        }
        let n = s.avail.len().min(buf.remaining());
        let v: Vec<u8> = s.avail.drain(..n).collect();
        buf.put_slice(&v);
        Poll::Ready(Ok(()))
    }
}

impl AsyncWrite for SimIo {
    fn poll_write(self: Pin<&mut Self>, cx: &mut Context<'_>, b: &[u8]) -> Poll<io::Result<usize>> {
        let mut s = self.0.lock().unwrap();
        if let Some(k) = s.werr {
            return Poll::Ready(Err(io::Error::new(IO_KINDS[k], "scripted write fault")));
        }
        s.wcalls += 1;
        if s.written.len() > WRITE_BUDGET || s.wcalls > WRITE_CALL_BUDGET {
            s.runaway = true;
            return Poll::Ready(Err(io::Error::new(io::ErrorKind::Other, "write budget exceeded")));
        }
        let mut n = if s.wcap == 0 { b.len() } else { b.len().min(s.wcap) };
        if let Some(left) = s.wblock {
            if left == 0 && !b.is_empty() {
                s.wwaker = Some(cx.waker().clone());
                return Poll::Pending;
            }
            n = n.min(left);
            s.wblock = Some(left - n);
        }
        s.written.extend_from_slice(&b[..n]);
        Poll::Ready(Ok(n))
    }
    fn poll_write_vectored(self: Pin<&mut Self>, cx: &mut Context<'_>, bufs: &[io::IoSlice<'_>]) -> Poll<io::Result<usize>> {
        let mode = self.0.lock().unwrap().wvec;
        if mode == 2 {
            let all: Vec<u8> = bufs.iter().flat_map(|b| b.iter().copied()).collect();
            return self.poll_write(cx, &all);
        }
        let first: &[u8] = bufs.iter().find(|b| !b.is_empty()).map_or(&[][..], |b| &**b);
        self.poll_write(cx, first)
    }
    fn is_write_vectored(&self) -> bool {
        self.0.lock().unwrap().wvec != 0
    }
    fn poll_flush(self: Pin<&mut Self>, _: &mut Context<'_>) -> Poll<io::Result<()>> {
        Poll::Ready(Ok(()))
    }
    fn poll_shutdown(self: Pin<&mut Self>, _: &mut Context<'_>) -> Poll<io::Result<()>> {
        // a transport whose orderly shutdown never completes (a TLS close_notify to a stalled peer): legal,
        // and nothing about the client may depend on it
        if self.0.lock().unwrap().wvec == 1 {
            return Poll::Pending;
        }
        Poll::Ready(Ok(()))
    }
}

/// harness-defined typed command whose reply identifies the command it was paired with
struct Echo(String);

impl TypedCommand for Echo {
    type Response = String;
    fn command(&self) -> RawCommand {
        RawCommand::new("echo").argument(self.0.as_str())
    }
    fn response(self, frame: Frame) -> Result<String, TypedResponseError> {
        Ok(format!("{}<{}", self.0, frame.find("line").unwrap_or("?")))
    }
}

fn fmt_cmd_err(e: &CommandError) -> String {
    match e {
        CommandError::ConnectionClosed => "closed".into(),
        CommandError::Protocol(e) => format!("proto:{}", fmt_perr(e)),
        CommandError::ErrorResponse { error, succesful_frames } => format!(
            "ack:{}:{}:{}:{}:{}",
            error.code,
            error.command_index,
            error.current_command.as_ref().map(|c| hex(c.as_bytes())).unwrap_or("~".into()),
            hex(error.message.as_bytes()),
            succesful_frames.iter().map(fmt_frame).collect::<Vec<_>>().join("/")
        ),
        CommandError::InvalidTypedResponse(_) => "terr".into(),
    }
}

fn build_cmd(c: &str) -> RawCommand {
    let mut parts = c.split('~');
    let name = String::from_utf8(unhex(parts.next().unwrap())).unwrap();
    let mut cmd = RawCommand::new(&name);
    for a in parts {
        cmd = cmd.argument(String::from_utf8(unhex(a)).unwrap());
    }
    cmd
}

fn build_list(spec: &str) -> RawList {
    let mut cmds = spec.split('+').map(build_cmd);
    let mut l = RawList::new(cmds.next().unwrap());
    for c in cmds {
        l.add(c);
    }
    l
}

type CallerFut = Pin<Box<dyn Future<Output = String>>>;

fn raw_caller(client: Client, spec: String) -> CallerFut {
    Box::pin(async move {
        let l = build_list(&spec);
        match client.raw_command_list(l).await {
            Ok(fs) => format!("ok:{}", fs.iter().map(fmt_frame).collect::<Vec<_>>().join("/")),
            Err(e) => fmt_cmd_err(&e),
        }
    })
}

/// `Client::raw_command`: one command, the reply as its single frame
fn single_caller(client: Client, spec: String) -> CallerFut {
    Box::pin(async move {
        match client.raw_command(build_cmd(&spec)).await {
            Ok(f) => format!("one:{}", fmt_frame(&f)),
            Err(e) => fmt_cmd_err(&e),
        }
    })
}

/// `Client::command` with one harness-defined echo command
fn typed1_caller(client: Client, name: String) -> CallerFut {
    Box::pin(async move {
        match client.command(Echo(name)).await {
            Ok(item) => format!("typed:{}", hex(item.as_bytes())),
            Err(e) => fmt_cmd_err(&e),
        }
    })
}

fn art_caller(client: Client, uri: String) -> CallerFut {
    Box::pin(async move {
        match client.album_art(&uri).await {
            Ok(None) => "art:none".into(),
            Ok(Some((data, mime))) => format!("art:{}:{}", hex(&data), mime.map(|m| hex(m.as_bytes())).unwrap_or("~".into())),
            Err(e) => fmt_cmd_err(&e),
        }
    })
}

fn typed_caller(client: Client, is_vec: bool, names: Vec<String>) -> CallerFut {
    Box::pin(async move {
        let fmt = |items: Vec<String>| format!("typed:{}", items.iter().map(|s| hex(s.as_bytes())).collect::<Vec<_>>().join("+"));
        let e = |n: usize| Echo(names[n].clone());
        let r: Result<Vec<String>, CommandError> = if is_vec {
            client.command_list(names.iter().map(|n| Echo(n.clone())).collect::<Vec<_>>()).await
        } else {
            match names.len() {
                1 => client.command_list((e(0),)).await.map(|r| vec![r.0]),
                2 => client.command_list((e(0), e(1))).await.map(|r| vec![r.0, r.1]),
                3 => client.command_list((e(0), e(1), e(2))).await.map(|r| vec![r.0, r.1, r.2]),
                4 => client.command_list((e(0), e(1), e(2), e(3))).await.map(|r| vec![r.0, r.1, r.2, r.3]),
                5 => client.command_list((e(0), e(1), e(2), e(3), e(4))).await.map(|r| vec![r.0, r.1, r.2, r.3, r.4]),
                6 => client
                    .command_list((e(0), e(1), e(2), e(3), e(4), e(5)))
                    .await
                    .map(|r| vec![r.0, r.1, r.2, r.3, r.4, r.5]),
                7 => client
                    .command_list((e(0), e(1), e(2), e(3), e(4), e(5), e(6)))
                    .await
                    .map(|r| vec![r.0, r.1, r.2, r.3, r.4, r.5, r.6]),
                8 => client
                    .command_list((e(0), e(1), e(2), e(3), e(4), e(5), e(6), e(7)))
                    .await
                    .map(|r| vec![r.0, r.1, r.2, r.3, r.4, r.5, r.6, r.7]),
                _ => return "badarity".into(),
            }
        };
        match r {
            Ok(items) => fmt(items),
            Err(e) => fmt_cmd_err(&e),
        }
    })
}

async fn settle() {
    for _ in 0..40 {
        tokio::task::yield_now().await;
    }
}

fn poll_once<F: Future + ?Sized>(f: &mut Pin<Box<F>>) -> Poll<F::Output> {
    let mut cx = Context::from_waker(Waker::noop());
    f.as_mut().poll(&mut cx)
}

type ConnFut = Pin<Box<dyn Future<Output = Result<(Client, ConnectionEvents), ConnectWithPasswordError>>>>;

/// the live system a schedule is executed against
pub struct World {
    pub sh: Arc<Mutex<Shared>>,
    conn: Option<ConnFut>,
    client: Option<Client>,
    events: Option<ConnectionEvents>,
    /// the application does not poll its event stream for a while (events pile up in the channel)
    ev_paused: bool,
    callers: BTreeMap<usize, CallerFut>,
    closed_seen: bool,
    evend_seen: bool,
    dropped_seen: bool,
}

fn wake(sh: &Arc<Mutex<Shared>>) {
    let w = sh.lock().unwrap().waker.take();
    if let Some(w) = w {
        w.wake();
    }
}

impl World {
    pub fn new(password: Option<String>, seed: u64) -> World {
        let sh = Arc::new(Mutex::new(Shared { wcap: wcap_of(seed), wvec: wvec_of(seed), ..Shared::default() }));
        let io = SimIo(sh.clone());
        // all three entry points: `connect`, `connect_with_password`, `connect_with_password_opt`
        // (which one is part of the schedule: derived from its seed)
        let conn: ConnFut = Box::pin(async move {
            match (password, (seed / 8) % 2) {
                (None, 0) => Client::connect(io).await.map_err(ConnectWithPasswordError::ProtocolError),
                (Some(p), 0) => Client::connect_with_password(io, &p).await,
                (p, _) => Client::connect_with_password_opt(io, p.as_deref()).await,
            }
        });
        World {
            sh,
            conn: Some(conn),
            client: None,
            events: None,
            ev_paused: false,
            callers: BTreeMap::new(),
            closed_seen: false,
            evend_seen: false,
            dropped_seen: false,
        }
    }

    pub fn connected(&self) -> bool {
        self.client.is_some() || self.events.is_some()
    }

    /// apply one action, run to quiescence, return the observation segment
    pub async fn act(&mut self, a: &str) -> String {
        let mut parts: Vec<String> = Vec::new();
        let (kind, rest) = a.split_at(1);
        match kind {
            "d" => {
                let b = unhex(rest);
                let mut s = self.sh.lock().unwrap();
                if s.rerr.is_none() {
                    s.avail.extend(b);
                }
                drop(s);
                wake(&self.sh);
            }
            "s" | "Z" => {}
            // wall-clock time passes (the tokio clock is paused and does not move)
            "W" => std::thread::sleep(std::time::Duration::from_millis(rest.parse().unwrap())),
            "q" | "b" | "a" | "y" | "k" | "m" => {
                let f: Vec<&str> = rest.splitn(3, ':').collect();
                let rid: usize = f[0].parse().unwrap();
                if let Some(c) = &self.client {
                    let c = c.clone();
                    let mut fut = match kind {
                        "q" | "b" => raw_caller(c, f[1].to_string()),
                        "k" => single_caller(c, f[1].to_string()),
                        "m" => typed1_caller(c, String::from_utf8(unhex(f[1])).unwrap()),
                        "a" => art_caller(c, String::from_utf8(unhex(f[1])).unwrap()),
                        _ => {
                            let names: Vec<String> = if f.len() < 3 || f[2].is_empty() {
                                vec![]
                            } else {
                                f[2].split('+').map(|n| String::from_utf8(unhex(n)).unwrap()).collect()
                            };
                            typed_caller(c, f[1] == "v", names)
                        }
                    };
                    // first poll = the request is put on the queue now
                    match poll_once(&mut fut) {
                        Poll::Ready(r) => parts.push(format!("res{rid}={r}")),
                        Poll::Pending => {
                            self.callers.insert(rid, fut);
                        }
                    }
                    if kind == "b" {
                        let b = unhex(f[2]);
                        let mut s = self.sh.lock().unwrap();
                        if s.rerr.is_none() {
                            s.avail.extend(b);
                        }
                        drop(s);
                        wake(&self.sh);
                    }
                }
            }
            "t" => {
                tokio::time::advance(Duration::from_millis(rest.parse().unwrap())).await;
            }
            "c" => {
                let rid: usize = rest.parse().unwrap();
                self.callers.remove(&rid);
            }
            "x" => {
                self.client = None;
            }
            "e" => {
                self.sh.lock().unwrap().eof = true;
                wake(&self.sh);
            }
            "r" => {
                let mut s = self.sh.lock().unwrap();
                s.rerr = Some(rest.parse().unwrap());
                s.avail.clear();
                drop(s);
                wake(&self.sh);
            }
            "w" => {
                self.sh.lock().unwrap().werr = Some(rest.parse().unwrap());
            }
            // the application drops its ConnectionEvents receiver (allowed by the API)
            "E" => {
                self.events = None;
            }
            // the application stops / resumes polling its event stream
            "P" => {
                self.ev_paused = true;
            }
            "R" => {
                self.ev_paused = false;
            }
            // write back-pressure: B<k> = accept k more bytes, then Pending; U = unblock
            "B" => {
                self.sh.lock().unwrap().wblock = Some(rest.parse().unwrap());
            }
            "U" => {
                let w = {
                    let mut s = self.sh.lock().unwrap();
                    s.wblock = None;
                    s.wwaker.take()
                };
                if let Some(w) = w {
                    w.wake();
                }
            }
            _ => panic!("bad action {a}"),
        }
        // quiesce
        let mut conn_part: Option<String> = None;
        let mut results: Vec<(usize, String)> = Vec::new();
        // quiescent = two rounds in a row without progress (a round in which the task only FAILED a
        // write, or exited, changes nothing the harness can see, yet it may have answered a caller)
        let mut idle_rounds = 0;
        for _round in 0..400 {
            let w0 = self.sh.lock().unwrap().written.len();
            settle().await;
            let mut progress = false;
            if let Some(cf) = &mut self.conn {
                if let Poll::Ready(r) = poll_once(cf) {
                    progress = true;
                    self.conn = None;
                    conn_part = Some(match r {
                        Ok((c, ev)) => {
                            let v = c.protocol_version().to_string();
                            self.client = Some(c);
                            self.events = Some(ev);
                            format!("conn=ok:{}", hex(v.as_bytes()))
                        }
                        Err(ConnectWithPasswordError::IncorrectPassword) => "conn=badpw".into(),
                        Err(ConnectWithPasswordError::ProtocolError(e)) => format!("conn=proto:{}", fmt_perr(&e)),
                    });
                }
            }
            let rids: Vec<usize> = self.callers.keys().cloned().collect();
            for rid in rids {
                let fut = self.callers.get_mut(&rid).unwrap();
                if let Poll::Ready(r) = poll_once(fut) {
                    self.callers.remove(&rid);
                    results.push((rid, r));
                    progress = true;
                }
            }
            // a polled caller may have queued its next request: let the task see it
            settle().await;
            if self.sh.lock().unwrap().written.len() != w0 {
                progress = true;
            }
            if progress {
                idle_rounds = 0;
            } else {
                idle_rounds += 1;
                if idle_rounds >= 2 {
                    break;
                }
            }
        }
        if let Some(c) = conn_part {
            parts.insert(0, c);
        }
        let w = std::mem::take(&mut self.sh.lock().unwrap().written);
        if !w.is_empty() {
            parts.push(format!("w={}", hex(&w)));
        }
        results.sort();
        for (rid, r) in results {
            parts.push(format!("res{rid}={r}"));
        }
        // events
        let mut closing = Vec::new();
        if let Some(ev) = self.events.as_mut().filter(|_| !self.ev_paused) {
            loop {
                let mut f = Box::pin(ev.next());
                match poll_once(&mut f) {
                    Poll::Ready(Some(ConnectionEvent::SubsystemChange(s))) => parts.push(format!("ev={}", hex(s.as_str().as_bytes()))),
                    Poll::Ready(Some(ConnectionEvent::ConnectionClosed(e))) => closing.push(match e {
                        ConnectionError::InvalidResponse => "cl=invresp".to_string(),
                        ConnectionError::Protocol(e) => format!("cl=proto:{}", fmt_perr(&e)),
                    }),
                    Poll::Ready(None) => {
                        if !self.evend_seen {
                            self.evend_seen = true;
                            closing.push("evend".into());
                        }
                        break;
                    }
                    Poll::Pending => break,
                }
            }
        }
        parts.extend(closing);
        if let Some(c) = &self.client {
            if c.is_connection_closed() && !self.closed_seen {
                self.closed_seen = true;
                parts.push("closed".into());
            }
        }
        if self.sh.lock().unwrap().dropped && !self.dropped_seen {
            self.dropped_seen = true;
            parts.push("dropped".into());
        }
        if parts.is_empty() {
            "-".into()
        } else {
            parts.join("&")
        }
    }

    pub fn pending(&self) -> String {
        format!("pend={}", self.callers.keys().map(|k| k.to_string()).collect::<Vec<_>>().join("."))
    }
}

fn runtime(seed: u64) -> tokio::runtime::Runtime {
    tokio::runtime::Builder::new_current_thread()
        .enable_time()
        .start_paused(true)
        .rng_seed(tokio::runtime::RngSeed::from_bytes(&seed.to_le_bytes()))
        .build()
        .unwrap()
}

pub fn run_schedule(pw: Option<String>, actions: &[String], seed: u64) -> String {
    let rt = runtime(seed);
    rt.block_on(async {
        let mut w = World::new(pw, seed);
        let mut segs = Vec::new();
        for a in actions {
            segs.push(w.act(a).await);
        }
        segs.push(w.pending());
        if w.sh.lock().unwrap().runaway {
            return "RUNAWAY".to_string();
        }
        segs.join("!")
    })
}

pub fn exec(op: &[&str]) -> String {
    match op[0] {
        o if o.starts_with("loop.") || o.starts_with("loopx.") => {
            let pwt = op[1].strip_prefix('L').unwrap_or(op[1]);
            let pw = if pwt == "~" { None } else { Some(String::from_utf8(unhex(pwt)).unwrap()) };
            let actions: Vec<String> = if op.len() < 3 || op[2] == "-" { vec![] } else { op[2].split(',').map(|s| s.to_string()).collect() };
            // op name: loop.<Cxx>.<select seed>
            let seed: u64 = op[0].split('.').nth(2).and_then(|s| s.parse().ok()).unwrap_or(0);
            run_schedule(pw, &actions, seed)
        }
        _ => "badop".into(),
    }
}

// -------------------------------------------------------------------------------------------------
// simulated MPD server, used ONLY by the generator to produce realistic deliveries
// (the oracle is the Lean specification server in lean/MpdSpec/Server.lean)

#[derive(Default)]
pub struct SimServer {
    inbuf: Vec<u8>,
    pub out: VecDeque<u8>,
    idle: bool,
    pend: Vec<String>,
    list: Option<Vec<String>>,
    pub locked: bool,
    bin_limit: Option<usize>,
    /// toggled by the ghost action `Z`: `idle` is answered with an ACK (no permission, a proxy without it)
    pub no_idle: bool,
}

/// deterministic picture bytes (contain protocol look-alikes)
pub fn picture_byte(i: usize) -> u8 {
    const PAT: &[u8] = b"OK\nlist_OK\nACK [5@0] {} x\nbinary: 3\n\x00\xff";
    if i % 3 == 0 {
        PAT[(i / 3) % PAT.len()]
    } else {
        (i.wrapping_mul(31).wrapping_add(7) % 251) as u8
    }
}

/// MPD's tokenizer, reduced to what the generator's commands need (no quotes inside arguments)
fn tokens(line: &str) -> Vec<String> {
    let mut out = Vec::new();
    let b = line.as_bytes();
    let mut i = 0;
    while i < b.len() {
        while i < b.len() && b[i] <= b' ' {
            i += 1;
        }
        if i >= b.len() {
            break;
        }
        let mut t = Vec::new();
        if b[i] == b'"' {
            i += 1;
            while i < b.len() && b[i] != b'"' {
                if b[i] == b'\\' {
                    i += 1;
                }
                if i < b.len() {
                    t.push(b[i]);
                    i += 1;
                }
            }
            i += 1;
        } else {
            while i < b.len() && b[i] > b' ' {
                t.push(b[i]);
                i += 1;
            }
        }
        out.push(String::from_utf8_lossy(&t).into_owned());
    }
    out
}

impl SimServer {
    /// reply body of one command; Err = (code, command name, message, output written before failing)
    fn exec_one(&mut self, line: &str) -> Result<Vec<u8>, (u64, String, String, Vec<u8>)> {
        let t = tokens(line);
        let name = t.first().cloned().unwrap_or_default();
        let mut o = Vec::new();
        match name.as_str() {
            "ping" => {}
            "echo" => o.extend(format!("line: {}\n", t.get(1).cloned().unwrap_or_default()).as_bytes()),
            "x" => o.extend(format!("line: {}\n", line).as_bytes()),
            "fail" => return Err((50, "fail".into(), format!("failed {}", t.get(1).cloned().unwrap_or_default()), vec![])),
            // a server (or proxy) that does not track the position inside a list: the ACK always says @0
            "failz" => return Err((50, "failz".into(), format!("failed {}", t.get(1).cloned().unwrap_or_default()), vec![])),
            "pfail" => {
                let a = t.get(1).cloned().unwrap_or_default();
                return Err((50, "pfail".into(), format!("failed late {a}"), format!("line: partial {a}\nmore: output\n").into_bytes()));
            }
            "binarylimit" => {
                if let Some(n) = t.get(1).and_then(|s| s.parse::<usize>().ok()) {
                    if n >= 1 {
                        self.bin_limit = Some(n);
                    }
                }
            }
            "bin" => {
                let n: usize = t.get(1).and_then(|s| s.parse().ok()).unwrap_or(0);
                o.extend(format!("line: {}\nbinary: {}\n", line, n).as_bytes());
                o.extend((0..n).map(picture_byte));
                o.push(b'\n');
            }
            "big" => {
                let n: usize = t.get(1).and_then(|s| s.parse().ok()).unwrap_or(0);
                o.extend(b"line: ");
                o.extend(std::iter::repeat(b'x').take(n));
                o.push(b'\n');
            }
            "readpicture" | "albumart" => {
                // uri = art_<size>_<limit>_<emb>_<file>_<mime>
                let uri = t.get(1).cloned().unwrap_or_default();
                let off: usize = t.get(2).and_then(|s| s.parse().ok()).unwrap_or(0);
                let f: Vec<&str> = uri.split('_').collect();
                if f.len() < 6 || f[0] != "art" {
                    return Err((50, name.clone(), "No such song".into(), vec![]));
                }
                let size: usize = f[1].parse().unwrap_or(0);
                let limit: usize = self.bin_limit.unwrap_or(f[2].parse().unwrap_or(1));
                let src = if name == "readpicture" { f[3] } else { f[4] };
                match src {
                    "y" => {
                        let n = limit.min(size.saturating_sub(off));
                        // keys are looked up by name: `type` before `size`, unknown keys in between or after
                        let size_l = format!("size: {}\n", size);
                        let type_l = "type: image/x-test\n";
                        if name == "readpicture" && matches!(f[5], "1" | "2" | "3" | "4") {
                            match f[5] {
                                "2" => o.extend(format!("{type_l}{size_l}").as_bytes()),
                                "3" => o.extend(format!("{size_l}description: Cover (front)\n{type_l}").as_bytes()),
                                "4" => o.extend(format!("{size_l}{type_l}comment: x\n").as_bytes()),
                                _ => o.extend(format!("{size_l}{type_l}").as_bytes()),
                            }
                        } else {
                            o.extend(size_l.as_bytes());
                        }
                        o.extend(format!("binary: {}\n", n).as_bytes());
                        o.extend((off..off + n).map(picture_byte));
                        o.push(b'\n');
                    }
                    "n" => {}
                    code => {
                        let c: u64 = code.parse().unwrap_or(50);
                        let msg = if c == 5 { format!("unknown command \"{}\"", name) } else { "No file exists".to_string() };
                        return Err((c, if c == 5 { String::new() } else { name.clone() }, msg, vec![]));
                    }
                }
            }
            other => return Err((5, String::new(), format!("unknown command \"{}\"", other), vec![])),
        }
        Ok(o)
    }

    fn flush_idle(&mut self) {
        let p = std::mem::take(&mut self.pend);
        for s in &p {
            self.out.extend(format!("changed: {}\n", s).as_bytes());
        }
        self.out.extend(b"OK\n");
        self.idle = false;
    }

    pub fn change(&mut self, s: &str) {
        if !self.pend.iter().any(|x| x == s) {
            self.pend.push(s.into());
        }
        if self.idle {
            self.flush_idle();
        }
    }

    pub fn feed(&mut self, b: &[u8]) {
        self.inbuf.extend_from_slice(b);
        while let Some(p) = self.inbuf.iter().position(|&c| c == b'\n') {
            let line: Vec<u8> = self.inbuf.drain(..=p).collect();
            let line = String::from_utf8_lossy(&line[..line.len() - 1]).trim_end().to_string();
            self.line(&line);
        }
    }

    fn ack(&mut self, code: u64, idx: usize, cmd: &str, msg: &str) {
        self.out.extend(format!("ACK [{}@{}] {{{}}} {}\n", code, idx, cmd, msg).as_bytes());
    }

    fn line(&mut self, l: &str) {
        if l == "noidle" {
            if self.idle {
                self.flush_idle();
            }
            return;
        }
        if self.idle {
            // protocol violation: a real MPD closes the connection; the generator just ignores the line
            return;
        }
        if self.locked {
            let t = tokens(l);
            if t.first().map(|s| s.as_str()) == Some("password") {
                if t.get(1).map(|s| s.as_str()) == Some("secret") {
                    self.locked = false;
                    self.out.extend(b"OK\n");
                } else {
                    self.ack(3, 0, "password", "incorrect password");
                }
            } else {
                self.ack(4, 0, t.first().map(|s| s.as_str()).unwrap_or(""), "you don't have permission");
            }
            return;
        }
        if self.list.is_some() {
            if l == "command_list_end" {
                let cmds = self.list.take().unwrap();
                let mut o = Vec::new();
                for (i, c) in cmds.iter().enumerate() {
                    match self.exec_one(c) {
                        Ok(b) => {
                            o.extend(b);
                            o.extend(b"list_OK\n");
                        }
                        Err((code, cmd, msg, pre)) => {
                            self.out.extend(o);
                            self.out.extend(pre);
                            self.ack(code, if cmd == "failz" { 0 } else { i }, &cmd, &msg);
                            return;
                        }
                    }
                }
                o.extend(b"OK\n");
                self.out.extend(o);
            } else {
                self.list.as_mut().unwrap().push(l.into());
            }
            return;
        }
        if l == "command_list_ok_begin" {
            self.list = Some(vec![]);
            return;
        }
        if l == "idle" {
            if self.no_idle {
                // a server (or proxy, or permission set) that refuses `idle`
                self.ack(4, 0, "idle", "you don't have permission for \"idle\"");
                return;
            }
            if self.pend.is_empty() {
                self.idle = true;
            } else {
                self.flush_idle();
            }
            return;
        }
        let t = tokens(l);
        if t.first().map(|s| s.as_str()) == Some("password") {
            if t.get(1).map(|s| s.as_str()) == Some("secret") {
                self.out.extend(b"OK\n");
            } else {
                self.ack(3, 0, "password", "incorrect password");
            }
            return;
        }
        match self.exec_one(l) {
            Ok(b) => {
                self.out.extend(b);
                self.out.extend(b"OK\n");
            }
            Err((code, cmd, msg, pre)) => {
                self.out.extend(pre);
                self.ack(code, 0, &cmd, &msg)
            }
        }
    }
}

// -------------------------------------------------------------------------------------------------
// generator: runs the real client online against the simulated server and records a literal schedule

const SUBS: &[&str] = &[
    "database", "update", "stored_playlist", "playlist", "player", "mixer", "output", "options", "partition", "sticker",
    "subscription", "message", "neighbor", "mount", "zzz_unknown", "Player",
    // names a lenient lookup (case folding, aliases of the Rust variant names) would take for known ones
    "queue", "PLAYLIST", "Stored_Playlist", "storedplaylist",
    // names the parser passes through and the client must carry unchanged: empty, blanks, a CR
    "", "player ", " mixer", "options\r",
];

fn cmd_spec(name: &str, args: &[String]) -> String {
    let mut s = hex(name.as_bytes());
    for a in args {
        s.push('~');
        s.push_str(&hex(a.as_bytes()));
    }
    s
}

fn gen_request(r: &mut Rng, big: bool) -> String {
    let n = match r.below(6) {
        0 | 1 | 2 => 1,
        3 => 2,
        _ => r.range(2, 5),
    };
    (0..n)
        .map(|i| match r.below(12) {
            0 => {
                if r.chance(1, 2) {
                    // (every third failing command is one whose ACK reports index 0 wherever it stands)
                    cmd_spec(if i % 3 == 2 { "failz" } else { "fail" }, &[format!("f{i}")])
                } else {
                    cmd_spec("pfail", &[format!("p{i}")])
                }
            }
            1 => cmd_spec("bin", &[format!("{}", r.pick(&[0usize, 1, 7, 40]))]),
            // (`big n` is answered with n + 10 bytes: 4086 and 8182 make replies of exactly 4096 and 8192 bytes)
            2 if big => cmd_spec("big", &[format!("{}", r.pick(&[100usize, 4090, 5000, 9000, 4086, 4085, 4087, 8182]))]),
            3 => cmd_spec("echo", &[format!("hello world {}", r.below(100))]),
            4 => cmd_spec("ping", &[]),
            5 => cmd_spec("nosuch", &[]),
            _ => cmd_spec("x", &[format!("c{}", r.below(1000))]),
        })
        .collect::<Vec<_>>()
        .join("+")
}

pub struct GenCfg {
    pub faults: bool,
    pub password: bool,
    pub art: bool,
    pub typed: bool,
    pub changes: bool,
    pub bytewise: bool,
    /// inject only write faults, rarely (the read side stays intact)
    pub wfaults: bool,
    /// the application may drop its ConnectionEvents receiver
    pub drop_events: bool,
}

/// C04 with a lagging consumer: the application does not poll its event stream while `n` changes are
/// reported one after the other, then it catches up. Every change must still be delivered, in order
/// (oracle-only op `loopx`: the model emits events at once and knows nothing about the consumer).
pub fn gen_burst(r: &mut Rng, n: usize) -> String {
    gen_burst_for(r, n, "C04")
}

/// the same burst for C08: while the consumer lags behind, the connection ends (garbage, EOF inside a
/// reply, a read error) and a request is issued — it must still resolve, and so must a later one
pub fn gen_burst_for(r: &mut Rng, n: usize, prop: &str) -> String {
    let sel_seed = r.next() % 1_000_000;
    let rt = runtime(sel_seed);
    rt.block_on(async {
        let mut w = World::new(None, sel_seed);
        let mut sv = SimServer::default();
        let mut actions: Vec<String> = Vec::new();
        async fn act(w: &mut World, sv: &mut SimServer, actions: &mut Vec<String>, a: String) {
            let seg = w.act(&a).await;
            actions.push(a);
            for p in seg.split('&') {
                if let Some(h) = p.strip_prefix("w=") {
                    sv.feed(&unhex(h));
                }
            }
        }
        act(&mut w, &mut sv, &mut actions, format!("d{}", hex(b"OK MPD 0.23.5\n"))).await;
        act(&mut w, &mut sv, &mut actions, "P".to_string()).await;
        const NAMES: &[&str] = &["player", "mixer", "database", "zzz_unknown", "options", "playlist"];
        for k in 0..n {
            let s = NAMES[(k + r.below(2)) % NAMES.len()];
            sv.change(s);
            act(&mut w, &mut sv, &mut actions, format!("s{}", hex(s.as_bytes()))).await;
            if !sv.out.is_empty() {
                let v: Vec<u8> = sv.out.drain(..).collect();
                act(&mut w, &mut sv, &mut actions, format!("d{}", hex(&v))).await;
            }
        }
        if prop == "C08" {
            // the connection ends while the events are still unread
            let a = match r.below(4) {
                0 => "e".to_string(),
                1 => format!("r{}", r.below(IO_KINDS.len())),
                2 => format!("d{}", hex(b"@@garbage\n")),
                _ => format!("d{}", hex(b"changed: player\n")),
            };
            let cut = a.starts_with("d6368");
            act(&mut w, &mut sv, &mut actions, a).await;
            if cut {
                act(&mut w, &mut sv, &mut actions, "e".to_string()).await;
            }
            act(&mut w, &mut sv, &mut actions, format!("q1:{}", cmd_spec("x", &["late".to_string()]))).await;
            act(&mut w, &mut sv, &mut actions, "t100".to_string()).await;
            act(&mut w, &mut sv, &mut actions, "t30000".to_string()).await;
            act(&mut w, &mut sv, &mut actions, format!("q2:{}", cmd_spec("x", &["later".to_string()]))).await;
            act(&mut w, &mut sv, &mut actions, "t100".to_string()).await;
        }
        // C08: the application never catches up — whether requests resolve must not depend on it
        if prop != "C08" {
            act(&mut w, &mut sv, &mut actions, "R".to_string()).await;
        }
        for _ in 0..3 {
            if !sv.out.is_empty() && prop != "C08" {
                let v: Vec<u8> = sv.out.drain(..).collect();
                act(&mut w, &mut sv, &mut actions, format!("d{}", hex(&v))).await;
            }
            act(&mut w, &mut sv, &mut actions, "t100".to_string()).await;
        }
        format!("loopx.{}.{} ~ {}", prop, sel_seed, actions.join(","))
    })
}

/// C01 with many outstanding requests: `n` callers issue their request before the server answers
/// anything (the first `noidle` is still unanswered), then everything is delivered. Every caller must
/// get the reply to its own request, in order. An ordinary `loop` op: the model has an unbounded queue
/// like the code.
pub fn gen_request_burst(r: &mut Rng, n: usize) -> String {
    let sel_seed = r.next() % 1_000_000;
    let rt = runtime(sel_seed);
    rt.block_on(async {
        let mut w = World::new(None, sel_seed);
        let mut sv = SimServer::default();
        let mut actions: Vec<String> = Vec::new();
        async fn act(w: &mut World, sv: &mut SimServer, actions: &mut Vec<String>, a: String) {
            let seg = w.act(&a).await;
            actions.push(a);
            for p in seg.split('&') {
                if let Some(h) = p.strip_prefix("w=") {
                    sv.feed(&unhex(h));
                }
            }
        }
        act(&mut w, &mut sv, &mut actions, format!("d{}", hex(b"OK MPD 0.23.5\n"))).await;
        for rid in 1..=n {
            act(&mut w, &mut sv, &mut actions, format!("q{}:{}", rid, cmd_spec("x", &[format!("burst{rid}")]))).await;
        }
        for _ in 0..(2 * n + 10) {
            if sv.out.is_empty() {
                act(&mut w, &mut sv, &mut actions, "t100".to_string()).await;
                if sv.out.is_empty() {
                    break;
                }
            }
            let v: Vec<u8> = sv.out.drain(..).collect();
            act(&mut w, &mut sv, &mut actions, format!("d{}", hex(&v))).await;
        }
        format!("loop.C01.{} ~ {}", sel_seed, actions.join(","))
    })
}

/// a request issued inside the 100 ms window after a reply whose WRITE is still blocked by back-pressure
/// when the window closes, then the transport drains: the request must arrive whole, exactly once, and
/// be answered (oracle-only op `loopx`: the model's writes are atomic)
pub fn gen_blocked_window(r: &mut Rng, prop: &str, k: usize, typed: bool) -> String {
    let sel_seed = r.next() % 1_000_000;
    let rt = runtime(sel_seed);
    rt.block_on(async {
        let mut w = World::new(None, sel_seed);
        let mut sv = SimServer::default();
        let mut actions: Vec<String> = Vec::new();
        async fn act(w: &mut World, sv: &mut SimServer, actions: &mut Vec<String>, a: String) {
            let seg = w.act(&a).await;
            actions.push(a);
            for p in seg.split('&') {
                if let Some(h) = p.strip_prefix("w=") {
                    sv.feed(&unhex(h));
                }
            }
        }
        async fn drain(w: &mut World, sv: &mut SimServer, actions: &mut Vec<String>) {
            for _ in 0..4 {
                if sv.out.is_empty() {
                    break;
                }
                let v: Vec<u8> = sv.out.drain(..).collect();
                act(w, sv, actions, format!("d{}", hex(&v))).await;
            }
        }
        act(&mut w, &mut sv, &mut actions, format!("d{}", hex(b"OK MPD 0.23.5\n"))).await;
        act(&mut w, &mut sv, &mut actions, format!("q1:{}", cmd_spec("x", &["first".to_string()]))).await;
        drain(&mut w, &mut sv, &mut actions).await;
        // inside the window: the transport accepts k more bytes, then blocks
        act(&mut w, &mut sv, &mut actions, format!("B{k}")).await;
        if typed {
            let names: Vec<String> = (0..5).map(|i| format!("Various Artists/Compilation/{i:02} - Song.flac")).collect();
            act(&mut w, &mut sv, &mut actions, format!("y2:v:{}", names.iter().map(|n| hex(n.as_bytes())).collect::<Vec<_>>().join("+"))).await;
        } else {
            let spec: Vec<String> = (0..3).map(|j| cmd_spec("x", &[format!("blocked {j}")])).collect();
            act(&mut w, &mut sv, &mut actions, format!("q2:{}", spec.join("+"))).await;
        }
        act(&mut w, &mut sv, &mut actions, format!("t{}", r.pick(&[100usize, 101, 150, 5000]))).await;
        act(&mut w, &mut sv, &mut actions, "U".to_string()).await;
        for _ in 0..4 {
            drain(&mut w, &mut sv, &mut actions).await;
            act(&mut w, &mut sv, &mut actions, "t100".to_string()).await;
        }
        act(&mut w, &mut sv, &mut actions, format!("q3:{}", cmd_spec("x", &["after".to_string()]))).await;
        for _ in 0..3 {
            drain(&mut w, &mut sv, &mut actions).await;
            act(&mut w, &mut sv, &mut actions, "t100".to_string()).await;
        }
        format!("loopx.{}.{} ~ {}", prop, sel_seed, actions.join(","))
    })
}

/// C04: the first idle reply has exactly `total` bytes (one change with a long unknown name)
pub fn gen_sized_idle_reply(r: &mut Rng, total: usize) -> String {
    let sel_seed = r.next() % 1_000_000;
    let rt = runtime(sel_seed);
    rt.block_on(async {
        let mut w = World::new(None, sel_seed);
        let mut sv = SimServer::default();
        let mut actions: Vec<String> = Vec::new();
        async fn act(w: &mut World, sv: &mut SimServer, actions: &mut Vec<String>, a: String) {
            let seg = w.act(&a).await;
            actions.push(a);
            for p in seg.split('&') {
                if let Some(h) = p.strip_prefix("w=") {
                    sv.feed(&unhex(h));
                }
            }
        }
        act(&mut w, &mut sv, &mut actions, format!("d{}", hex(b"OK MPD 0.23.5\n"))).await;
        // "changed: " + name + "\n" + "OK\n" = total
        let name: String = (0..total - 13).map(|i| (b'a' + (i % 26) as u8) as char).collect();
        sv.change(&name);
        act(&mut w, &mut sv, &mut actions, format!("s{}", hex(name.as_bytes()))).await;
        let v: Vec<u8> = sv.out.drain(..).collect();
        act(&mut w, &mut sv, &mut actions, format!("d{}", hex(&v))).await;
        act(&mut w, &mut sv, &mut actions, "t100".to_string()).await;
        act(&mut w, &mut sv, &mut actions, format!("q1:{}", cmd_spec("x", &["after".to_string()]))).await;
        for _ in 0..3 {
            if !sv.out.is_empty() {
                let v: Vec<u8> = sv.out.drain(..).collect();
                act(&mut w, &mut sv, &mut actions, format!("d{}", hex(&v))).await;
            }
            act(&mut w, &mut sv, &mut actions, "t100".to_string()).await;
        }
        format!("loop.C04.{} ~ {}", sel_seed, actions.join(","))
    })
}

/// C13 at scale: ONE typed list of some 10 KB over a transport that advertises vectored writes and takes
/// 100 bytes (gathered across slices) or one slice per call — whatever strategy writes the list, short
/// writes end inside lines and on line boundaries, and the block must still arrive intact
pub fn gen_big_list(r: &mut Rng, gather: bool) -> String {
    let mut sel_seed = r.next() % 1_000_000;
    while !(wcap_of(sel_seed) == 100 && wvec_of(sel_seed) == if gather { 2 } else { 1 }) {
        sel_seed += 1;
    }
    let rt = runtime(sel_seed);
    rt.block_on(async {
        let mut w = World::new(None, sel_seed);
        let mut sv = SimServer::default();
        let mut actions: Vec<String> = Vec::new();
        async fn act(w: &mut World, sv: &mut SimServer, actions: &mut Vec<String>, a: String) {
            let seg = w.act(&a).await;
            actions.push(a);
            for p in seg.split('&') {
                if let Some(h) = p.strip_prefix("w=") {
                    sv.feed(&unhex(h));
                }
            }
        }
        act(&mut w, &mut sv, &mut actions, format!("d{}", hex(b"OK MPD 0.23.5\n"))).await;
        let names: Vec<String> = (0..300).map(|i| format!("Artist {i}/Album/{:02} - Track.flac", i % 17)).collect();
        act(&mut w, &mut sv, &mut actions, format!("y1:v:{}", names.iter().map(|n| hex(n.as_bytes())).collect::<Vec<_>>().join("+"))).await;
        for _ in 0..6 {
            if !sv.out.is_empty() {
                let v: Vec<u8> = sv.out.drain(..).collect();
                act(&mut w, &mut sv, &mut actions, format!("d{}", hex(&v))).await;
            }
            act(&mut w, &mut sv, &mut actions, "t100".to_string()).await;
        }
        act(&mut w, &mut sv, &mut actions, format!("q2:{}", cmd_spec("x", &["after".to_string()]))).await;
        for _ in 0..3 {
            if !sv.out.is_empty() {
                let v: Vec<u8> = sv.out.drain(..).collect();
                act(&mut w, &mut sv, &mut actions, format!("d{}", hex(&v))).await;
            }
            act(&mut w, &mut sv, &mut actions, "t100".to_string()).await;
        }
        format!("loop.C13.{} ~ {}", sel_seed, actions.join(","))
    })
}

/// a reply that takes longer than the 100 ms re-idle window in WALL-CLOCK time (`W<ms>` really sleeps:
/// code that measures with `std::time::Instant` does not see the paused tokio clock), then notifications
/// and a further request: the client must idle again and carry on
pub fn gen_slow_reply(r: &mut Rng, prop: &str) -> String {
    let sel_seed = r.next() % 1_000_000;
    let rt = runtime(sel_seed);
    rt.block_on(async {
        let mut w = World::new(None, sel_seed);
        let mut sv = SimServer::default();
        let mut actions: Vec<String> = Vec::new();
        async fn act(w: &mut World, sv: &mut SimServer, actions: &mut Vec<String>, a: String) {
            let seg = w.act(&a).await;
            actions.push(a);
            for p in seg.split('&') {
                if let Some(h) = p.strip_prefix("w=") {
                    sv.feed(&unhex(h));
                }
            }
        }
        async fn deliver(w: &mut World, sv: &mut SimServer, actions: &mut Vec<String>) {
            if !sv.out.is_empty() {
                let v: Vec<u8> = sv.out.drain(..).collect();
                act(w, sv, actions, format!("d{}", hex(&v))).await;
            }
        }
        act(&mut w, &mut sv, &mut actions, format!("d{}", hex(b"OK MPD 0.23.5\n"))).await;
        act(&mut w, &mut sv, &mut actions, "t50".to_string()).await;
        act(&mut w, &mut sv, &mut actions, format!("q1:{}", cmd_spec("x", &[format!("slow{}", r.below(100))]))).await;
        deliver(&mut w, &mut sv, &mut actions).await; // reply to noidle
        act(&mut w, &mut sv, &mut actions, "t10".to_string()).await;
        // the request is on the wire; the server takes its time
        act(&mut w, &mut sv, &mut actions, format!("W{}", 130 + r.below(40))).await;
        deliver(&mut w, &mut sv, &mut actions).await;
        act(&mut w, &mut sv, &mut actions, "t100".to_string()).await;
        act(&mut w, &mut sv, &mut actions, "t100".to_string()).await;
        sv.change("player");
        act(&mut w, &mut sv, &mut actions, format!("s{}", hex(b"player"))).await;
        deliver(&mut w, &mut sv, &mut actions).await;
        act(&mut w, &mut sv, &mut actions, "t100".to_string()).await;
        act(&mut w, &mut sv, &mut actions, format!("q2:{}", cmd_spec("x", &["after".to_string()]))).await;
        for _ in 0..6 {
            deliver(&mut w, &mut sv, &mut actions).await;
            act(&mut w, &mut sv, &mut actions, "t100".to_string()).await;
        }
        format!("loop.{}.{} ~ {}", prop, sel_seed, actions.join(","))
    })
}

/// one schedule, generated online; returns the op line
pub fn gen_schedule(r: &mut Rng, g: &GenCfg, steps: usize, prop: &str, backpressure: bool) -> String {
    let sel_seed = r.next() % 1_000_000;
    let rt = runtime(sel_seed);
    rt.block_on(async {
        let pw = if g.password {
            // passwords are arguments like any other (C06): trailing blanks, tabs, no-break spaces and quotes
            // must reach the server verbatim
            Some(if r.chance(1, 2) { "secret".to_string() } else { r.pick(&["wrong", "sec ret", "", "secret ", "secret\t", " secret", "se\"cr'et \u{a0}", "pass\\word \u{3000}", " ", "secret\r", "k\x01\x7f9\x1bZq\r\r", "\r"]).to_string() })
        } else {
            None
        };
        let mut w = World::new(pw.clone(), sel_seed);
        let mut sv = SimServer::default();
        sv.locked = g.password && r.chance(1, 2);
        let locked0 = sv.locked;
        let mut actions: Vec<String> = Vec::new();
        let mut rid = 0usize;
        let mut live: Vec<usize> = Vec::new();
        let mut faulted = false;
        let mut main_alive = true;

        // the harness's act() drains `written`; the generator needs the bytes too: use a tee
        // (act() returns the segment, from which the w= part is recovered)
        async fn do_act(w: &mut World, sv: &mut SimServer, actions: &mut Vec<String>, a: String) -> String {
            let seg = w.act(&a).await;
            actions.push(a);
            for p in seg.split('&') {
                if let Some(h) = p.strip_prefix("w=") {
                    sv.feed(&unhex(h));
                }
            }
            seg
        }
        let _ = &mut live;
        if matches!(prop, "C01" | "C05" | "C08") && !backpressure && r.chance(1, 50) {
            sv.no_idle = true;
            do_act(&mut w, &mut sv, &mut actions, "Z".to_string()).await;
        }
        // greeting
        let greeting: Vec<u8> = match r.below(12) {
            0 if g.faults => b"OK MPD \n".to_vec(),
            1 if g.faults => b"NOPE\n".to_vec(),
            // a peer that is not MPD, sends no line end and keeps the connection open (a telnet negotiation,
            // another protocol's banner): the first bytes already decide, nothing more will come
            2 if g.faults && prop == "C18" => r.pick(&[&b"\xff\xfb\x01\xff\xfb\x03"[..], b"220 ProFTPD Server ready", b"OK MPX"]).to_vec(),
            _ => format!("OK MPD 0.{}.{}\n", r.below(30), r.below(20)).into_bytes(),
        };
        if g.password && r.chance(1, 8) {
            // a peer that talks before it is asked: bytes arriving in the same read as the greeting
            // cannot be the verdict on a password that has not been sent yet
            let mut v = greeting.clone();
            v.extend_from_slice(*r.pick(&[&b"OK\n"[..], b"ACK [3@0] {password} incorrect password\n", b"foo: bar\nOK\n", b"ACK [5@0] {} unknown command \"password\"\n"]));
            do_act(&mut w, &mut sv, &mut actions, format!("d{}", hex(&v))).await;
        } else if r.chance(1, 3) && greeting.len() > 3 {
            let p = r.range(1, greeting.len() - 1);
            // a slow start (a socket-activated server still loading its database): nothing in the
            // handshake may depend on how long the greeting takes
            let slow = prop == "C18" && r.chance(1, 3);
            if slow {
                do_act(&mut w, &mut sv, &mut actions, format!("t{}", r.pick(&[25_000usize, 31_000, 120_000]))).await;
            }
            do_act(&mut w, &mut sv, &mut actions, format!("d{}", hex(&greeting[..p]))).await;
            if slow {
                do_act(&mut w, &mut sv, &mut actions, format!("t{}", r.pick(&[25_000usize, 31_000, 600_000]))).await;
            }
            do_act(&mut w, &mut sv, &mut actions, format!("d{}", hex(&greeting[p..]))).await;
        } else {
            do_act(&mut w, &mut sv, &mut actions, format!("d{}", hex(&greeting))).await;
        }
        if g.password && r.chance(1, 6) {
            // a peer whose verdict has an unusual but grammatical shape: frames or list_OK before
            // the ACK / the OK. Any ACK is a rejection, a complete reply without one an acceptance.
            let v: &[u8] = *r.pick(&[
                // every ACK is a rejection, whatever its code (5 = unknown command, 4 = permission, 2 = argument)
                &b"ACK [5@0] {} unknown command \"password\"\n"[..],
                b"ACK [4@0] {password} you don't have permission for \"password\"\n",
                b"ACK [2@0] {password} wrong number of arguments for \"password\"\n",
                b"ACK [5@0] {password} unknown command\n",
                &b"list_OK\nACK [3@1] {password} incorrect password\n"[..],
                &b"foo: bar\nACK [3@0] {password} incorrect password\n"[..],
                &b"foo: bar\nlist_OK\nACK [3@1] {password} incorrect password\n"[..],
                &b"list_OK\nlist_OK\nACK [4@2] {} denied\n"[..],
                &b"binary: 2\nAB\nACK [3@0] {password} x\n"[..],
                &b"list_OK\nOK\n"[..],
                &b"foo: bar\nOK\n"[..],
                &b"ACK [3@0] {password} incorrect password\n"[..],
            ]);
            if r.chance(1, 2) && v.len() > 3 {
                let p = r.range(1, v.len() - 1);
                do_act(&mut w, &mut sv, &mut actions, format!("d{}", hex(&v[..p]))).await;
                do_act(&mut w, &mut sv, &mut actions, format!("d{}", hex(&v[p..]))).await;
            } else {
                do_act(&mut w, &mut sv, &mut actions, format!("d{}", hex(v))).await;
            }
            // the simulated server's own verdict is discarded: the peer above answered instead
            sv.out.clear();
        } else if g.password && r.chance(1, 4) {
            // the peer ends the stream (or fails) instead of answering the password
            let a = match r.below(4) {
                0 => "e".to_string(),
                1 => format!("r{}", r.below(IO_KINDS.len())),
                2 => "d41434b205b3340305d207b70617373776f72647d20696e636f72726563742070617373776f72640a".to_string(),
                _ => "d4f".to_string(),
            };
            faulted = a == "e" || a.starts_with('r');
            do_act(&mut w, &mut sv, &mut actions, a).await;
            if r.chance(1, 2) {
                do_act(&mut w, &mut sv, &mut actions, "e".to_string()).await;
                faulted = true;
            }
        }
        let mut blocked = false;
        let mut events_dropped = false;
        for _ in 0..steps {
            let connected = w.connected();
            // write back-pressure (schedules `loopx`, judged by the oracle only)
            if backpressure && connected && !faulted {
                if !blocked && r.chance(1, 6) {
                    blocked = true;
                    let k = *r.pick(&[0usize, 1, 2, 3, 5, 7, 12, 30]);
                    do_act(&mut w, &mut sv, &mut actions, format!("B{k}")).await;
                    continue;
                } else if blocked && r.chance(1, 3) {
                    blocked = false;
                    do_act(&mut w, &mut sv, &mut actions, "U".to_string()).await;
                    continue;
                }
            }
            // a rare protocol state: the server starts (or stops) refusing `idle` — the ACK it sends belongs to
            // the idle exchange and to nobody else, and nothing may be written as if an idle were pending
            if matches!(prop, "C01" | "C05" | "C08") && !backpressure && !faulted && r.chance(1, if sv.no_idle { 8 } else { 90 }) {
                sv.no_idle = !sv.no_idle;
                do_act(&mut w, &mut sv, &mut actions, "Z".to_string()).await;
                continue;
            }
            // the application drops its event receiver (C01, C05, C17: the loop must carry on)
            if g.drop_events && connected && !events_dropped && r.chance(1, 25) {
                events_dropped = true;
                do_act(&mut w, &mut sv, &mut actions, "E".to_string()).await;
                continue;
            }
            // back-pressure exactly in the re-idle window: a reply has just been delivered, the next
            // request's write stalls, the 100 ms timer fires meanwhile, then the transport drains
            if backpressure && connected && main_alive && !faulted && !blocked && sv.out.is_empty() && r.chance(1, 6) {
                rid += 1;
                do_act(&mut w, &mut sv, &mut actions, format!("q{}:{}", rid, cmd_spec("x", &[format!("pre{rid}")]))).await;
                for _ in 0..4 {
                    if sv.out.is_empty() {
                        break;
                    }
                    let v: Vec<u8> = sv.out.drain(..).collect();
                    do_act(&mut w, &mut sv, &mut actions, format!("d{}", hex(&v))).await;
                }
                let k = *r.pick(&[0usize, 1, 2, 3, 5, 9]);
                do_act(&mut w, &mut sv, &mut actions, format!("B{k}")).await;
                rid += 1;
                let n = r.range(1, 3);
                let spec: Vec<String> = (0..n).map(|j| cmd_spec("x", &[format!("bp{rid}_{j}")])).collect();
                do_act(&mut w, &mut sv, &mut actions, format!("q{}:{}", rid, spec.join("+"))).await;
                let ms = *r.pick(&[100usize, 101, 150, 99]);
                do_act(&mut w, &mut sv, &mut actions, format!("t{ms}")).await;
                do_act(&mut w, &mut sv, &mut actions, "U".to_string()).await;
                continue;
            }
            let a = r.below(if faulted { 9 } else if g.faults || g.wfaults || prop == "C01" { 14 } else { 12 });
            match a {
                // requests
                0 | 1 | 2 if connected && main_alive => {
                    rid += 1;
                    let pick = r.below(10);
                    if g.art && pick == 9 {
                        // a concurrent caller changes the server's chunk limit mid-download
                        let n = *r.pick(&[1usize, 2, 3, 5, 64, 4096]);
                        do_act(&mut w, &mut sv, &mut actions, format!("q{}:{}", rid, cmd_spec("binarylimit", &[n.to_string()]))).await;
                    } else if g.art && pick < 5 {
                        let size = *r.pick(&[0usize, 1, 2, 5, 6, 7, 12, 100, 4097, 9000]);
                        let limit = *r.pick(&[1usize, 2, 3, 6, 7, 50, 4096, 8192]);
                        let limit = if size / limit > 60 { size / 40 + 1 } else { limit };
                        let emb = *r.pick(&["y", "y", "n", "5", "50", "2"]);
                        let file = *r.pick(&["y", "y", "n", "50", "5", "2"]);
                        // sometimes with a free-form tail that needs quoting AND contains non-ASCII text
                        // (the URI must reach the server byte for byte in every chunk request)
                        let tail = *r.pick(&["", "", "", "_Motörhead live", "_東京 事変", "_it's é\\x", "_ü"]);
                        let uri = format!("art_{}_{}_{}_{}_{}{}", size, limit, emb, file, r.below(5), tail);
                        do_act(&mut w, &mut sv, &mut actions, format!("a{}:{}", rid, hex(uri.as_bytes()))).await;
                    } else if g.typed && pick < 8 {
                        let is_vec = r.chance(1, 2);
                        let n = if is_vec { r.below(10) } else { r.range(1, 8) };
                        let names: Vec<String> = (0..n).map(|i| format!("n{}_{}", rid, i)).collect();
                        // one command: every other time through `Client::command` instead of a list of one
                        // (decided by the request id: no random choice is consumed)
                        let a = if n == 1 && rid % 2 == 0 {
                            format!("m{}:{}", rid, hex(names[0].as_bytes()))
                        } else {
                            format!("y{}:{}:{}", rid, if is_vec { "v" } else { "t" }, names.iter().map(|n| hex(n.as_bytes())).collect::<Vec<_>>().join("+"))
                        };
                        do_act(&mut w, &mut sv, &mut actions, a).await;
                    } else if r.chance(1, 3) && !sv.out.is_empty() {
                        // both select! branches ready: request + bytes in the same poll; half of the
                        // time the bytes complete the pending reply (a request is then queued at the
                        // very moment a whole idle reply is handled)
                        let k = if r.chance(1, 2) { sv.out.len() } else { r.range(1, sv.out.len()) };
                        let v: Vec<u8> = sv.out.drain(..k).collect();
                        do_act(&mut w, &mut sv, &mut actions, format!("b{}:{}:{}", rid, gen_request(r, false), hex(&v))).await;
                    } else {
                        let big = steps > 30 && r.chance(1, 10);
                        let spec = gen_request(r, big);
                        // a request of one command: every third time through `Client::raw_command`
                        // (the single-frame entry point) instead of `raw_command_list`
                        let kind = if !spec.contains('+') && rid % 3 == 0 { "k" } else { "q" };
                        do_act(&mut w, &mut sv, &mut actions, format!("{}{}:{}", kind, rid, spec)).await;
                    }
                    live.push(rid);
                }
                // server-side change
                3 | 4 if g.changes => {
                    let s = *r.pick(SUBS);
                    sv.change(s);
                    do_act(&mut w, &mut sv, &mut actions, format!("s{}", hex(s.as_bytes()))).await;
                }
                // delivery
                5 | 6 | 7 | 3 | 4 => {
                    if !sv.out.is_empty() {
                        let k = if g.bytewise && r.chance(1, 2) {
                            r.range(1, 3.min(sv.out.len()))
                        } else if r.chance(1, 2) {
                            sv.out.len()
                        } else {
                            r.range(1, sv.out.len())
                        };
                        let v: Vec<u8> = sv.out.drain(..k).collect();
                        do_act(&mut w, &mut sv, &mut actions, format!("d{}", hex(&v))).await;
                    }
                }
                8 => {
                    // mostly around the 100 ms re-idle window; sometimes long silences (31 s, 5 min, 1 h):
                    // nothing in the loop may depend on how long a reply or a quiet period takes
                    let ms = if r.chance(1, 12) {
                        *r.pick(&[31_000usize, 300_001, 3_600_000])
                    } else {
                        *r.pick(&[100usize, 100, 100, 50, 30, 99, 101, 200])
                    };
                    do_act(&mut w, &mut sv, &mut actions, format!("t{ms}")).await;
                }
                9 if !live.is_empty() && r.chance(1, 3) => {
                    let i = r.below(live.len());
                    let c = live.remove(i);
                    do_act(&mut w, &mut sv, &mut actions, format!("c{c}")).await;
                }
                10 if main_alive && connected && r.chance(1, 8) => {
                    main_alive = false;
                    do_act(&mut w, &mut sv, &mut actions, "x".to_string()).await;
                }
                12 | 13 if !faulted && !g.faults && g.wfaults => {
                    if r.chance(1, 10) {
                        faulted = true;
                        do_act(&mut w, &mut sv, &mut actions, format!("w{}", r.below(IO_KINDS.len()))).await;
                    }
                }
                12 | 13 if !faulted && !g.faults && prop == "C01" => {
                    // C01: a line the parser rejects in the middle of a reply (a real MPD sends such keys,
                    // e.g. `MP3GAIN_MINMAX` in readcomments): that request fails, and no later request
                    // may be handed what is left of its reply
                    if r.chance(1, 5) {
                        faulted = true;
                        if !sv.out.is_empty() {
                            let lfs: Vec<usize> = sv.out.iter().enumerate().filter(|(_, b)| **b == b'\n').map(|(i, _)| i + 1).filter(|p| *p < sv.out.len()).collect();
                            if !lfs.is_empty() {
                                let k = *r.pick(&lfs);
                                let v: Vec<u8> = sv.out.drain(..k).collect();
                                do_act(&mut w, &mut sv, &mut actions, format!("d{}", hex(&v))).await;
                            }
                        }
                        let garbage: &[u8] = *r.pick(&[&b"MP3GAIN_MINMAX: 052,167\n"[..], b"foo bar: x\n", b"OK\r\n", b"Title: \xff\xfe\n", b"a: b\nREPLAYGAIN_2: x\nc: d\n"]);
                        do_act(&mut w, &mut sv, &mut actions, format!("d{}", hex(garbage))).await;
                    }
                }
                12 | 13 if !faulted && r.chance(1, 3) => {
                    faulted = true;
                    match r.below(5) {
                        0 => {
                            do_act(&mut w, &mut sv, &mut actions, "e".to_string()).await;
                        }
                        1 => {
                            do_act(&mut w, &mut sv, &mut actions, format!("r{}", r.below(IO_KINDS.len()))).await;
                        }
                        2 => {
                            do_act(&mut w, &mut sv, &mut actions, format!("w{}", r.below(IO_KINDS.len()))).await;
                        }
                        3 => {
                            // cut: deliver part of what is pending, then EOF
                            if !sv.out.is_empty() {
                                // half of the time exactly on a line boundary inside the pending output
                                // (after a field line, after a `list_OK`, after a binary chunk): there
                                // nothing is left in the buffer and only the builder knows that a
                                // response is unfinished
                                let lfs: Vec<usize> = sv.out.iter().enumerate().filter(|(_, b)| **b == b'\n').map(|(i, _)| i + 1).filter(|p| *p < sv.out.len()).collect();
                                let k = if !lfs.is_empty() && r.chance(1, 2) { *r.pick(&lfs) } else { r.range(1, sv.out.len()) };
                                let v: Vec<u8> = sv.out.drain(..k).collect();
                                do_act(&mut w, &mut sv, &mut actions, format!("d{}", hex(&v))).await;
                            }
                            sv.out.clear();
                            do_act(&mut w, &mut sv, &mut actions, "e".to_string()).await;
                        }
                        _ => {
                            let garbage: &[u8] = *r.pick(&[
                                &b"@@garbage\n"[..],
                                b"OK\n",
                                b"ACK [1@0] {} injected\n",
                                b"foo: bar\nOK\n",
                                b"\xff\xfe\n",
                                // malformed binary sections (the parser's `cut` paths)
                                b"binary: abc\n",
                                b"binary: 3\nABCD\n",
                                b"binary: 18446744073709551616\n",
                                b"foo: bar\nbinary: 2\nABC",
                                b"binary: -1\n",
                                // well-formed headers announcing more than can ever arrive (or be allocated)
                                b"binary: 9223372036854775808\n",
                                b"size: 1\nbinary: 18446744073709551615\nAB",
                            ]);
                            do_act(&mut w, &mut sv, &mut actions, format!("d{}", hex(garbage))).await;
                        }
                    }
                }
                _ => {}
            }
        }
        if blocked {
            do_act(&mut w, &mut sv, &mut actions, "U".to_string()).await;
        }
        // drain: deliver everything, let timers fire, until two rounds in a row delivered nothing,
        // so that fault-free schedules end quiescent with every request answered
        let mut empty_rounds = 0;
        for _ in 0..80 {
            if !sv.out.is_empty() {
                let v: Vec<u8> = sv.out.drain(..).collect();
                do_act(&mut w, &mut sv, &mut actions, format!("d{}", hex(&v))).await;
                empty_rounds = 0;
            } else {
                empty_rounds += 1;
            }
            do_act(&mut w, &mut sv, &mut actions, "t100".to_string()).await;
            if empty_rounds >= 2 && sv.out.is_empty() {
                break;
            }
        }
        // C13: an empty typed list writes nothing and yields an empty result — also on a connection
        // that has ended (cleanly, or with an error while a request was in flight)
        if prop == "C13" && !backpressure && main_alive && r.chance(1, 3) {
            if r.chance(1, 2) {
                rid += 1;
                do_act(&mut w, &mut sv, &mut actions, format!("q{}:{}", rid, cmd_spec("x", &[format!("c{}", r.below(1000))]))).await;
            }
            do_act(&mut w, &mut sv, &mut actions, "e".to_string()).await;
            do_act(&mut w, &mut sv, &mut actions, "t100".to_string()).await;
            rid += 1;
            do_act(&mut w, &mut sv, &mut actions, format!("y{}:v:", rid)).await;
            do_act(&mut w, &mut sv, &mut actions, "t100".to_string()).await;
        }
        format!("{}.{}.{} {} {}", if backpressure { "loopx" } else { "loop" }, prop, sel_seed, pw.map(|p| format!("{}{}", if locked0 { "L" } else { "" }, if p.is_empty() { "-".to_string() } else { hex(p.as_bytes()) })).unwrap_or("~".into()), actions.join(","))
    })
}

pub fn gen(cfg: &Cfg) -> Vec<String> {
    let mut r = Rng::new(cfg.seed);
    let scale = if cfg.thorough { 25 } else { 1 };
    let mut ops = Vec::new();
    let (n, g) = match cfg.prop.as_str() {
        "C01" => (cfg.n.unwrap_or(1200 * scale), GenCfg { faults: false, password: false, art: false, typed: false, changes: true, bytewise: true, wfaults: false, drop_events: true }),
        "C04" => (cfg.n.unwrap_or(1200 * scale), GenCfg { faults: false, password: false, art: false, typed: false, changes: true, bytewise: true, wfaults: true, drop_events: false }),
        "C05" => (cfg.n.unwrap_or(1200 * scale), GenCfg { faults: false, password: false, art: false, typed: false, changes: true, bytewise: false, wfaults: false, drop_events: true }),
        "C08" => (cfg.n.unwrap_or(1500 * scale), GenCfg { faults: true, password: false, art: true, typed: false, changes: true, bytewise: false, wfaults: false, drop_events: true }),
        "C13" => (cfg.n.unwrap_or(600 * scale), GenCfg { faults: false, password: false, art: false, typed: true, changes: true, bytewise: true, wfaults: false, drop_events: false }),
        "C17" => (cfg.n.unwrap_or(500 * scale), GenCfg { faults: false, password: false, art: true, typed: false, changes: true, bytewise: false, wfaults: false, drop_events: true }),
        // C06: the password is an argument too (the only one that does not go through a typed command)
        "C06" => (cfg.n.unwrap_or(150 * scale), GenCfg { faults: false, password: true, art: false, typed: false, changes: false, bytewise: false, wfaults: false, drop_events: false }),
        // C07: command lists over a transport that takes a few bytes per write: the framing must survive
        "C07" => (cfg.n.unwrap_or(250 * scale), GenCfg { faults: false, password: false, art: false, typed: true, changes: true, bytewise: false, wfaults: false, drop_events: false }),
        "C18" => (cfg.n.unwrap_or(600 * scale), GenCfg { faults: true, password: true, art: false, typed: false, changes: false, bytewise: true, wfaults: false, drop_events: false }),
        other => panic!("family loop does not serve property {other}"),
    };
    for i in 0..n {
        let steps = match cfg.prop.as_str() {
            "C04" => r.range(8, 50),
            "C18" | "C06" => r.range(2, 14),
            "C17" => r.range(10, 60),
            _ => {
                if i % 9 == 0 {
                    r.range(40, 70)
                } else {
                    r.range(4, 35)
                }
            }
        };
        // C06, every other schedule: no password but album art, whose URI (blanks, quotes, non-ASCII) is an
        // argument that must reach the server byte for byte in EVERY chunk request
        let g_art = GenCfg { faults: false, password: false, art: true, typed: false, changes: false, bytewise: false, wfaults: false, drop_events: false };
        let g_here = if cfg.prop == "C06" && i % 2 == 1 { &g_art } else { &g };
        let steps = if cfg.prop == "C06" && i % 2 == 1 { r.range(10, 40) } else { steps };
        ops.push(gen_schedule(&mut r, g_here, steps, &cfg.prop, false));
        if cfg.prop == "C04" && i < 2 {
            ops.push(gen_burst(&mut r, 70 + 25 * i));
        }
        // more unread events than any plausible queue bound (64, 128, 256 …)
        if cfg.prop == "C04" && i == 2 {
            ops.push(gen_burst(&mut r, 300));
        }
        // an idle reply of exactly 4096 / 8192 … bytes delivered in one piece, then silence (a read that
        // fills the buffer exactly must not make the client wait for more before it looks at what it has)
        if cfg.prop == "C04" && i < 6 {
            ops.push(gen_sized_idle_reply(&mut r, [4096usize, 4095, 4097, 8192, 1000, 12288][i]));
        }
        if cfg.prop == "C08" && i < 4 {
            ops.push(gen_burst_for(&mut r, [70, 130, 10, 300][i], "C08"));
        }
        // more unread events than the largest plausible queue bound
        if cfg.prop == "C08" && i == 4 {
            ops.push(gen_burst_for(&mut r, 1100, "C08"));
        }
        if cfg.prop == "C01" && i == 0 {
            ops.push(gen_request_burst(&mut r, 140));
        }
        if matches!(cfg.prop.as_str(), "C13" | "C07") && i < 2 {
            ops.push(gen_big_list(&mut r, i == 0));
        }
        if matches!(cfg.prop.as_str(), "C13" | "C01" | "C05") && i < 4 {
            ops.push(gen_blocked_window(&mut r, &cfg.prop, [0usize, 3, 30, 1][i], cfg.prop == "C13"));
        }
        if matches!(cfg.prop.as_str(), "C01" | "C05") && i < 2 {
            ops.push(gen_slow_reply(&mut r, &cfg.prop));
        }
        // the same kind of schedule over a transport with write back-pressure (C01, C05, C13: the
        // properties about what is written and who is answered); oracle-only, see Driver/Loop.lean
        if matches!(cfg.prop.as_str(), "C01" | "C05" | "C13") && i % 5 == 0 {
            ops.push(gen_schedule(&mut r, &g, steps, &cfg.prop, true));
        }
    }
    ops
}
