//! Family `proto` (C02, C03, C09, C10, C18-greeting): the blocking and the async connection of
//! `mpd_protocol` driven by a scripted reader whose read sizes the harness dictates.
//!
//! ops (see lean/Driver/Proto.lean for the canonical forms)
//!   proto.recv    <s|a> <stream> <seg> <term> <extra>          => <items>#<reads>
//!   proto.abs     <s|a> <responses> <seg> <cut|full> <extra>   => s:<stream>;<items>#<reads>
//!   proto.connect <s|a> <stream> <seg> <term>                  => <result>#<reads>

use std::collections::VecDeque;
use std::future::Future;
use std::io::{self, Read};
use std::pin::Pin;
use std::task::{Context, Poll, Waker};

use mpd_protocol::command::Command;
use mpd_protocol::response::{Error as RespError, Frame, Response};
use mpd_protocol::{AsyncConnection, Connection, MpdProtocolError};
use tokio::io::{AsyncRead, ReadBuf};

use crate::util::{gen_text, hex, unhex, Rng};
use crate::Cfg;

pub const GREETING: &[u8] = b"OK MPD 0.23.5\n";

pub const IO_KINDS: &[io::ErrorKind] = &[
    io::ErrorKind::ConnectionReset,
    io::ErrorKind::BrokenPipe,
    io::ErrorKind::TimedOut,
    io::ErrorKind::Other,
    io::ErrorKind::ConnectionAborted,
    // appended later (the indices are part of recorded op lines): the retryable kinds of a real socket
    io::ErrorKind::Interrupted,
    io::ErrorKind::WouldBlock,
];

#[derive(Clone)]
pub enum Term {
    Eof,
    Err(usize),
}

/// Scripted reader: each read delivers at most the head chunk.
pub struct Script {
    pub chunks: VecDeque<Vec<u8>>,
    pub term: Term,
    pub reads: usize,
    pub budget: usize,
    /// flavour `c`: after every delivered chunk the next poll_read returns Pending once, and the
    /// session DROPS the receive future there (cancellation) and starts a new one
    pub cancel_mode: bool,
    pend_next: bool,
    /// recoverable read failures in the middle of the stream: `(offset, kind)` = once `offset` bytes
    /// have been delivered, ONE read fails with that error kind and delivers nothing (a read timeout,
    /// `WouldBlock`, `Interrupted`); the transport carries on afterwards
    pub faults: VecDeque<(usize, usize)>,
    delivered: usize,
}

impl Script {
    fn new(chunks: Vec<Vec<u8>>, term: Term) -> Script {
        let chunks: VecDeque<Vec<u8>> = chunks.into_iter().filter(|c| !c.is_empty()).collect();
        let budget = chunks.iter().map(|c| c.len()).sum::<usize>() + 64;
        Script { chunks, term, reads: 0, budget, cancel_mode: false, pend_next: false, faults: VecDeque::new(), delivered: 0 }
    }
    fn do_read(&mut self, space: usize) -> io::Result<Vec<u8>> {
        self.reads += 1;
        // a receive that keeps reading after the script is exhausted is a hang: make it observable
        if self.chunks.is_empty() && self.reads > self.budget {
            panic!("read budget exceeded: receive keeps reading");
        }
        if space == 0 {
            return Ok(Vec::new());
        }
        if let Some(&(off, k)) = self.faults.front() {
            if off == self.delivered {
                self.faults.pop_front();
                return Err(io::Error::new(IO_KINDS[k], "scripted recoverable failure"));
            }
        }
        match self.chunks.pop_front() {
            Some(mut c) => {
                if c.len() > space {
                    let rest = c.split_off(space);
                    self.chunks.push_front(rest);
                }
                self.delivered += c.len();
                Ok(c)
            }
            None => match self.term {
                Term::Eof => Ok(Vec::new()),
                Term::Err(k) => Err(io::Error::new(IO_KINDS[k], "scripted failure")),
            },
        }
    }
}

impl Read for &mut Script {
    fn read(&mut self, buf: &mut [u8]) -> io::Result<usize> {
        let d = self.do_read(buf.len())?;
        buf[..d.len()].copy_from_slice(&d);
        Ok(d.len())
    }
}

/// what the connection writes goes nowhere: the sessions only look at what `receive` returns
impl io::Write for &mut Script {
    fn write(&mut self, buf: &[u8]) -> io::Result<usize> {
        Ok(buf.len())
    }
    fn flush(&mut self) -> io::Result<()> {
        Ok(())
    }
}

impl tokio::io::AsyncWrite for Script {
    fn poll_write(self: Pin<&mut Self>, _: &mut Context<'_>, b: &[u8]) -> Poll<io::Result<usize>> {
        Poll::Ready(Ok(b.len()))
    }
    fn poll_flush(self: Pin<&mut Self>, _: &mut Context<'_>) -> Poll<io::Result<()>> {
        Poll::Ready(Ok(()))
    }
    fn poll_shutdown(self: Pin<&mut Self>, _: &mut Context<'_>) -> Poll<io::Result<()>> {
        Poll::Ready(Ok(()))
    }
}

impl AsyncRead for Script {
    fn poll_read(mut self: Pin<&mut Self>, _cx: &mut Context<'_>, buf: &mut ReadBuf<'_>) -> Poll<io::Result<()>> {
        if self.cancel_mode && self.pend_next && !self.chunks.is_empty() {
            self.pend_next = false;
            return Poll::Pending;
        }
        let d = self.do_read(buf.remaining())?;
        buf.put_slice(&d);
        self.pend_next = true;
        Poll::Ready(Ok(()))
    }
}

/// The scripted transports never return Pending, so a future that is not ready after one poll is a hang.
pub fn poll_ready<F: Future>(f: F) -> Option<F::Output> {
    let mut f = std::pin::pin!(f);
    let mut cx = Context::from_waker(Waker::noop());
    for _ in 0..3 {
        if let Poll::Ready(v) = f.as_mut().poll(&mut cx) {
            return Some(v);
        }
    }
    None
}

/// set by `proto.bigbin`: binary payloads are printed as `@<length>.<checksum>` instead of in hex
static COMPACT_BINARY: std::sync::atomic::AtomicBool = std::sync::atomic::AtomicBool::new(false);

pub fn fmt_frame(f: &Frame) -> String {
    let fs: Vec<String> = f.fields().map(|(k, v)| format!("{}={}", hex(k.as_bytes()), hex(v.as_bytes()))).collect();
    let fs = if fs.is_empty() { "_".to_string() } else { fs.join(",") };
    let b = match f.binary() {
        None => "~".to_string(),
        Some(b) if COMPACT_BINARY.load(std::sync::atomic::Ordering::Relaxed) => {
            let sum = b.iter().fold(0u32, |s, x| s.wrapping_mul(31).wrapping_add(*x as u32));
            format!("@{}.{}", b.len(), sum)
        }
        Some(b) => hex(b),
    };
    format!("{fs};{b}")
}

pub fn fmt_err(e: Option<&RespError>) -> String {
    match e {
        None => "E{}".into(),
        Some(e) => format!(
            "E{{{}:{}:{}:{}}}",
            e.code,
            e.command_index,
            match &e.current_command {
                None => "~".to_string(),
                Some(c) => hex(c.as_bytes()),
            },
            hex(e.message.as_bytes())
        ),
    }
}

pub fn fmt_resp(r: &Response) -> String {
    let mut frames = Vec::new();
    let mut err = None;
    for f in r.frames() {
        match f {
            Ok(f) => frames.push(fmt_frame(f)),
            Err(e) => err = Some(e),
        }
    }
    format!("R[{}]{}", frames.join("/"), fmt_err(err))
}

pub fn fmt_perr(e: &MpdProtocolError) -> String {
    match e {
        MpdProtocolError::InvalidMessage => "invalid".into(),
        MpdProtocolError::Io(e) if e.kind() == io::ErrorKind::UnexpectedEof => "ueof".into(),
        MpdProtocolError::Io(e) => match IO_KINDS.iter().position(|k| *k == e.kind()) {
            Some(k) => format!("io{k}"),
            None => format!("io?{:?}", e.kind()),
        },
    }
}

fn fmt_item(r: &Result<Option<Response>, MpdProtocolError>) -> (String, bool) {
    match r {
        Ok(Some(r)) => (fmt_resp(r), true),
        Ok(None) => ("clean".into(), false),
        Err(e) => (fmt_perr(e), false),
    }
}

fn cut_chunks(stream: &[u8], seg: &str) -> Vec<Vec<u8>> {
    let mut out = Vec::new();
    if seg == "-" {
        return out;
    }
    let mut p = 0;
    for l in seg.split(',') {
        let n: usize = l.parse().expect("seg");
        let e = (p + n).min(stream.len());
        out.push(stream[p..e].to_vec());
        p = e;
    }
    out
}

fn parse_term(t: &str) -> Term {
    if t == "eof" {
        Term::Eof
    } else {
        Term::Err(t[3..].parse().expect("term"))
    }
}

/// Establish a connection (the greeting is delivered as its own read, so nothing is discarded),
/// then run the session: receive until something else than a response comes back, then `extra` more.
fn session(flavour: &str, chunks: Vec<Vec<u8>>, term: Term, extra: usize) -> String {
    session_f(flavour, chunks, Vec::new(), term, extra)
}

/// `seg` with fault markers: `<n>` = a chunk of n bytes, `!<k>` = one failing read of kind k here
fn cut_chunks_faults(stream: &[u8], seg: &str) -> (Vec<Vec<u8>>, Vec<(usize, usize)>) {
    let mut out = Vec::new();
    let mut faults = Vec::new();
    let mut p = 0;
    for l in seg.split(',') {
        if let Some(k) = l.strip_prefix('!') {
            faults.push((p, k.parse().expect("fault kind")));
        } else {
            let n: usize = l.parse().expect("seg");
            let e = (p + n).min(stream.len());
            out.push(stream[p..e].to_vec());
            p = e;
        }
    }
    (out, faults)
}

fn session_f(flavour: &str, chunks: Vec<Vec<u8>>, faults: Vec<(usize, usize)>, term: Term, extra: usize) -> String {
    let mut all = vec![GREETING.to_vec()];
    all.extend(chunks);
    let mut script = Script::new(all, term);
    script.faults = faults.into_iter().map(|(o, k)| (o + GREETING.len(), k)).collect();
    let max_items = script.chunks.iter().map(|c| c.len()).sum::<usize>() + 3 + extra;
    let mut items = Vec::new();
    let mut left = extra;
    // upper-case flavours: a request is SENT before every receive call (and after every cancelled
    // one): sending must not disturb what has been received and not yet returned
    let sends = flavour.chars().all(|c| c.is_ascii_uppercase());
    // `M` / `N`: every call is `command()` / `command_list()` (send + receive in one) on the blocking /
    // async connection; its "closed without a response" error stands for receive's clean end
    let via_command = flavour == "M" || flavour == "N";
    let flavour = match flavour {
        "M" => "s".to_string(),
        "N" => "a".to_string(),
        f => f.to_ascii_lowercase(),
    };
    let flavour = flavour.as_str();
    let unwrap_cmd = |r: Result<Response, MpdProtocolError>| -> Result<Option<Response>, MpdProtocolError> {
        match r {
            Ok(r) => Ok(Some(r)),
            Err(MpdProtocolError::Io(e)) if e.to_string().contains("without a response") => Ok(None),
            Err(e) => Err(e),
        }
    };
    let mut nsend = 0usize;
    if flavour == "s" {
        let mut conn = Connection::connect(&mut script).expect("connect");
        // count reads of the session only
        let reads0 = 1;
        loop {
            if sends && !via_command {
                nsend += 1;
                if nsend % 3 == 0 {
                    let l = mpd_protocol::command::CommandList::new(Command::new("ping")).command(Command::new("status"));
                    conn.send_list(l).expect("send_list");
                } else {
                    conn.send(Command::new("ping")).expect("send");
                }
            }
            let r = if via_command {
                nsend += 1;
                if nsend % 3 == 0 {
                    let l = mpd_protocol::command::CommandList::new(Command::new("ping")).command(Command::new("status"));
                    unwrap_cmd(conn.command_list(l))
                } else {
                    unwrap_cmd(conn.command(Command::new("ping")))
                }
            } else {
                conn.receive()
            };
            let (s, is_resp) = fmt_item(&r);
            items.push(s);
            if !is_resp {
                if left == 0 {
                    break;
                }
                left -= 1;
            }
            if items.len() > max_items {
                return "HANG".into();
            }
        }
        drop(conn);
        format!("{}#{}", items.join("|"), script.reads - reads0)
    } else {
        let cancel = flavour == "c";
        script.cancel_mode = cancel;
        let Some(conn) = poll_ready(AsyncConnection::connect(&mut script)) else { return "HANG".into() };
        let mut conn = conn.expect("connect");
        let reads0 = 1;
        loop {
            let r = if cancel {
                // poll each receive future ONCE; a pending future is dropped (cancelled) and a new
                // one is started: the results must be those of uninterrupted calls
                let mut tries = 0usize;
                loop {
                    if sends {
                        nsend += 1;
                        let sent = if nsend % 3 == 0 {
                            let l = mpd_protocol::command::CommandList::new(Command::new("ping")).command(Command::new("status"));
                            poll_ready(conn.send_list(l))
                        } else {
                            poll_ready(conn.send(Command::new("noidle")))
                        };
                        if sent.is_none() {
                            return "HANG".into();
                        }
                    }
                    let polled = {
                        let mut f = std::pin::pin!(conn.receive());
                        let mut cx = Context::from_waker(Waker::noop());
                        match f.as_mut().poll(&mut cx) {
                            Poll::Ready(v) => Some(v),
                            Poll::Pending => None,
                        }
                    };
                    if let Some(v) = polled {
                        break v;
                    }
                    tries += 1;
                    if tries > max_items + 8 {
                        return "HANG".into();
                    }
                }
            } else if via_command {
                nsend += 1;
                let r = if nsend % 3 == 0 {
                    let l = mpd_protocol::command::CommandList::new(Command::new("ping")).command(Command::new("status"));
                    poll_ready(conn.command_list(l))
                } else {
                    poll_ready(conn.command(Command::new("ping")))
                };
                let Some(r) = r else { return "HANG".into() };
                unwrap_cmd(r)
            } else {
                if sends {
                    nsend += 1;
                    if poll_ready(conn.send(Command::new("ping"))).is_none() {
                        return "HANG".into();
                    }
                }
                let Some(r) = poll_ready(conn.receive()) else { return "HANG".into() };
                r
            };
            let (s, is_resp) = fmt_item(&r);
            items.push(s);
            if !is_resp {
                if left == 0 {
                    break;
                }
                left -= 1;
            }
            if items.len() > max_items {
                return "HANG".into();
            }
        }
        drop(conn);
        format!("{}#{}", items.join("|"), script.reads - reads0)
    }
}

fn connect_only(flavour: &str, chunks: Vec<Vec<u8>>, term: Term) -> String {
    let mut script = Script::new(chunks, term);
    let r: Result<String, MpdProtocolError> = if flavour == "s" {
        Connection::connect(&mut script).map(|c| c.protocol_version().to_string())
    } else {
        match poll_ready(AsyncConnection::connect(&mut script)) {
            None => return "HANG".into(),
            Some(r) => r.map(|c| c.protocol_version().to_string()),
        }
    };
    let s = match r {
        Ok(v) => format!("ok:{}", hex(v.as_bytes())),
        Err(e) => fmt_perr(&e),
    };
    format!("{}#{}", s, script.reads)
}

// ---------------------------------------------------------------------------------------------
// abstract responses, their serialisation and the harness-side encoder

#[derive(Clone, Debug)]
pub struct AbsFrame {
    pub fields: Vec<(String, String)>,
    pub binary: Option<Vec<u8>>,
    pub bin_pos: usize,
}

#[derive(Clone, Debug)]
pub struct AbsErr {
    pub code: u64,
    pub index: u64,
    pub command: Option<String>,
    pub message: String,
}

#[derive(Clone, Debug)]
pub struct AbsResp {
    pub list_form: bool,
    pub frames: Vec<AbsFrame>,
    pub partial: Option<AbsFrame>,
    pub error: Option<AbsErr>,
}

fn ser_frame(f: &AbsFrame) -> String {
    let fs: Vec<String> = f.fields.iter().map(|(k, v)| format!("{}={}", hex(k.as_bytes()), hex(v.as_bytes()))).collect();
    format!(
        "{};{};{}",
        if fs.is_empty() { "_".to_string() } else { fs.join(",") },
        match &f.binary {
            None => "~".to_string(),
            Some(b) => hex(b),
        },
        f.bin_pos
    )
}

pub fn ser_resp(r: &AbsResp) -> String {
    let frames: Vec<String> = r.frames.iter().map(ser_frame).collect();
    format!(
        "{}[{}]P{{{}}}E{{{}}}",
        if r.list_form { "L" } else { "S" },
        frames.join("/"),
        r.partial.as_ref().map(ser_frame).unwrap_or_default(),
        match &r.error {
            None => String::new(),
            Some(e) => format!(
                "{}:{}:{}:{}",
                e.code,
                e.index,
                e.command.as_ref().map(|c| hex(c.as_bytes())).unwrap_or("~".into()),
                hex(e.message.as_bytes())
            ),
        }
    )
}

pub fn ser_resps(rs: &[AbsResp]) -> String {
    if rs.is_empty() {
        "_".into()
    } else {
        rs.iter().map(ser_resp).collect::<Vec<_>>().join("+")
    }
}

fn unser_frame(s: &str) -> AbsFrame {
    let p: Vec<&str> = s.split(';').collect();
    let fields = if p[0] == "_" {
        vec![]
    } else {
        p[0].split(',')
            .map(|kv| {
                let (k, v) = kv.split_once('=').unwrap();
                (String::from_utf8(unhex(k)).unwrap(), String::from_utf8(unhex(v)).unwrap())
            })
            .collect()
    };
    AbsFrame { fields, binary: if p[1] == "~" { None } else { Some(unhex(p[1])) }, bin_pos: p[2].parse().unwrap() }
}

pub fn unser_resps(s: &str) -> Vec<AbsResp> {
    if s == "_" {
        return vec![];
    }
    s.split('+')
        .map(|r| {
            let list_form = r.starts_with('L');
            let a = r.find('[').unwrap();
            let b = r.find(']').unwrap();
            let frames = if b == a + 1 { vec![] } else { r[a + 1..b].split('/').map(unser_frame).collect() };
            let rest = &r[b + 1..];
            let p1 = rest.find('{').unwrap();
            let p2 = rest.find('}').unwrap();
            let partial = if p2 == p1 + 1 { None } else { Some(unser_frame(&rest[p1 + 1..p2])) };
            let rest = &rest[p2 + 1..];
            let e1 = rest.find('{').unwrap();
            let e2 = rest.find('}').unwrap();
            let error = if e2 == e1 + 1 {
                None
            } else {
                let q: Vec<&str> = rest[e1 + 1..e2].split(':').collect();
                Some(AbsErr {
                    code: q[0].parse().unwrap(),
                    index: q[1].parse().unwrap(),
                    command: if q[2] == "~" { None } else { Some(String::from_utf8(unhex(q[2])).unwrap()) },
                    message: String::from_utf8(unhex(q[3])).unwrap(),
                })
            };
            AbsResp { list_form, frames, partial, error }
        })
        .collect()
}

fn enc_frame_body(f: &AbsFrame, out: &mut Vec<u8>) {
    let pos = f.bin_pos.min(f.fields.len());
    let line = |kv: &(String, String), out: &mut Vec<u8>| {
        out.extend_from_slice(kv.0.as_bytes());
        out.extend_from_slice(b": ");
        out.extend_from_slice(kv.1.as_bytes());
        out.push(b'\n');
    };
    for kv in &f.fields[..pos] {
        line(kv, out);
    }
    if let Some(b) = &f.binary {
        out.extend_from_slice(format!("binary: {}\n", b.len()).as_bytes());
        out.extend_from_slice(b);
        out.push(b'\n');
    }
    for kv in &f.fields[pos..] {
        line(kv, out);
    }
}

fn enc_err(e: &AbsErr, out: &mut Vec<u8>) {
    out.extend_from_slice(
        format!("ACK [{}@{}] {{{}}} {}\n", e.code, e.index, e.command.clone().unwrap_or_default(), e.message).as_bytes(),
    );
}

/// What an MPD server writes for an abstract response (harness-side encoder; the Lean spec has its
/// own `Spec.enc`, and the driver checks both produce the same bytes).
pub fn enc(r: &AbsResp) -> Vec<u8> {
    let mut out = Vec::new();
    if r.list_form {
        for f in &r.frames {
            enc_frame_body(f, &mut out);
            out.extend_from_slice(b"list_OK\n");
        }
        match &r.error {
            None => out.extend_from_slice(b"OK\n"),
            Some(e) => {
                if let Some(p) = &r.partial {
                    enc_frame_body(p, &mut out);
                }
                enc_err(e, &mut out);
            }
        }
    } else {
        match &r.error {
            None => {
                for f in &r.frames {
                    enc_frame_body(f, &mut out);
                }
                out.extend_from_slice(b"OK\n");
            }
            Some(e) => {
                if let Some(p) = &r.partial {
                    enc_frame_body(p, &mut out);
                }
                enc_err(e, &mut out);
            }
        }
    }
    out
}

pub fn enc_all(rs: &[AbsResp]) -> Vec<u8> {
    rs.iter().flat_map(enc).collect()
}

// ---------------------------------------------------------------------------------------------
// generators

const KEYS: &[&str] = &[
    "file", "Title", "Artist", "volume", "state", "OK", "ACK", "list_OK", "binar", "binaryx", "Binary", "a", "A-b", "x_y",
    "changed", "size", "type", "Last-Modified", "duration", "Time", "Id", "Pos", "directory", "playlist", "sticker",
    "MUSICBRAINZ_TRACKID", "-", "_",
    // names that differ from another name only in the case of a letter (`status` sends `time`, song
    // listings `Time`; `listneighbors` sends `name`, songs `Name`): keys are case-sensitive byte strings
    "time", "TIME", "title", "TITLE", "File", "FILE", "name", "Name", "A", "artist", "X_Y", "Changed", "ok", "Ack", "Size",
];

fn gen_value(r: &mut Rng, big: bool) -> String {
    match r.below(14) {
        0 => String::new(),
        1 => "OK".into(),
        2 => "list_OK".into(),
        3 => "ACK [5@0] {} unknown".into(),
        4 => "binary: 3".into(),
        5 => "a: b".into(),
        6 => "\0nul\0".into(),
        // control characters next to the line end; bytes that differ from LF in one bit (0x0B, 0x0E, 0x1A,
        // 0x2A, 0x4A, 0x8A inside U+010A …): whatever scans for the delimiter must find exactly LF, at
        // every alignment of the value
        7 => {
            let tail = *r.pick(&["\rcr\r", "\x0b", "\x0b\x0b", "\x0c", "\x0e", "\x1a", "*", "J", "\u{10a}", "\x7f", "\t", "\x0b\u{10a}\x0b"]);
            format!("{}{}", "abcdefghijklmnop".get(..r.below(17)).unwrap(), tail)
        }
        8 => format!("{}", r.next()),
        9 if big => {
            let n = *r.pick(&[100usize, 1000, 4090, 4096, 5000, 9000]);
            "x".repeat(n)
        }
        _ => gen_text(r, 24),
    }
}

fn gen_payload(r: &mut Rng, big: bool) -> Vec<u8> {
    match r.below(10) {
        0 => vec![],
        1 => b"OK\n".to_vec(),
        2 => b"\nOK\nlist_OK\nACK [1@0] {} x\n".to_vec(),
        3 => vec![0, 255, 10, 0, 255],
        4 => b"binary: 5\nabcde\n".to_vec(),
        5 if big => {
            let n = *r.pick(&[4095usize, 4096, 4097, 8192, 8200, 20000]);
            (0..n).map(|_| r.next() as u8).collect()
        }
        _ => {
            let n = r.below(40);
            (0..n).map(|_| r.next() as u8).collect()
        }
    }
}

fn gen_frame(r: &mut Rng, big: bool) -> AbsFrame {
    let nf = match r.below(8) {
        0 => 0,
        1 => 1,
        _ => r.below(12),
    };
    let fields: Vec<(String, String)> = (0..nf)
        .map(|_| {
            let v = if r.chance(1, 40) { crate::typed::long_value(r) } else { gen_value(r, big) };
            (r.pick(KEYS).to_string(), v)
        })
        .collect();
    let binary = if r.chance(1, 4) { Some(gen_payload(r, big)) } else { None };
    let bin_pos = if fields.is_empty() { 0 } else { r.below(fields.len() + 1) };
    AbsFrame { fields, binary, bin_pos }
}

fn gen_err(r: &mut Rng) -> AbsErr {
    AbsErr {
        code: *r.pick(&[0u64, 1, 2, 5, 50, 56, u64::MAX]),
        index: *r.pick(&[0u64, 0, 1, 2, 7, u64::MAX]),
        command: match r.below(4) {
            0 => None,
            1 => Some("play".into()),
            2 => Some("command_list_end".into()),
            _ => Some("Foo_bar".into()),
        },
        message: match r.below(7) {
            6 => crate::typed::long_value(r),
            0 => String::new(),
            1 => "unknown command \"foo\"".into(),
            2 => "OK".into(),
            3 => " leading blank".into(),
            _ => gen_text(r, 20),
        },
    }
}

pub fn gen_resp(r: &mut Rng, big: bool) -> AbsResp {
    match r.below(10) {
        // single, success
        0..=3 => AbsResp { list_form: false, frames: vec![gen_frame(r, big)], partial: None, error: None },
        // single, error (possibly after partial output)
        4 => AbsResp {
            list_form: false,
            frames: vec![],
            partial: if r.chance(1, 3) { Some(gen_frame(r, false)) } else { None },
            error: Some(gen_err(r)),
        },
        // list, success
        5..=7 => {
            let n = r.range(1, 6);
            AbsResp { list_form: true, frames: (0..n).map(|_| gen_frame(r, big)).collect(), partial: None, error: None }
        }
        // list, error
        _ => {
            let n = r.below(5);
            AbsResp {
                list_form: true,
                frames: (0..n).map(|_| gen_frame(r, big)).collect(),
                partial: if r.chance(1, 3) { Some(gen_frame(r, false)) } else { None },
                error: Some(gen_err(r)),
            }
        }
    }
}

/// chunk lengths for a stream of `n` bytes
fn gen_seg(r: &mut Rng, n: usize) -> String {
    if n == 0 {
        return "-".into();
    }
    let mut lens: Vec<usize> = Vec::new();
    match r.below(7) {
        0 => lens.push(n),
        1 => {
            // two-way
            let p = r.range(1, n.max(2) - 1).min(n);
            lens.push(p);
            if n > p {
                lens.push(n - p);
            }
        }
        2 if n <= 2048 => lens = vec![1; n],
        3 => {
            // fill-to-capacity patterns around the 4096 buffer and its doublings
            let mut left = n;
            while left > 0 {
                let c = (*r.pick(&[4095usize, 4096, 4097, 8192, 1, 2048])).min(left);
                lens.push(c);
                left -= c;
            }
        }
        _ => {
            let mut left = n;
            // tiny chunks only for streams that are not huge (the model re-parses per chunk)
            let maxc = if n > 6000 { *r.pick(&[700usize, 3000, 5000]) } else { *r.pick(&[3usize, 17, 200, 5000]) };
            while left > 0 {
                let c = r.range(1, maxc).min(left);
                lens.push(c);
                left -= c;
            }
        }
    }
    lens.iter().map(|l| l.to_string()).collect::<Vec<_>>().join(",")
}

fn mutate(r: &mut Rng, s: &mut Vec<u8>) {
    let k = r.range(1, 3);
    for _ in 0..k {
        if s.is_empty() {
            s.push(r.next() as u8);
            continue;
        }
        let p = r.below(s.len());
        match r.below(6) {
            0 => s[p] ^= 1 << r.below(8),
            1 => {
                s.remove(p);
            }
            2 => s.insert(p, *r.pick(&[b'\n', b' ', b':', 0, 0xff, 0xc3, b'9', b'O', b'K', b'a'])),
            3 => s.truncate(p),
            4 => s[p] = b'\n',
            _ => s[p] = r.next() as u8,
        }
    }
}

const NUMERIC_CORPUS: &[&[u8]] = &[
    b"binary: 18446744073709551616\n",
    b"binary: 18446744073709551615\n",
    b"binary: 99999999999999999999999999\nxx\nOK\n",
    b"binary: 4294967296\nabc\nOK\n",
    b"binary: -1\nOK\n",
    b"binary: abc\nOK\n",
    b"binary: \nOK\n",
    b"binary: 3\nabcd\nOK\n",
    b"binary: 3\nab\nOK\n",
    b"binary: 0\n\nOK\n",
    b"binary: 03\nabc\nOK\n",
    b"binary: 0003\nabc\nOK\n",
    // carriage returns around the framing line ends (only LF is a line end in this protocol)
    b"binary: 3\nabc\r\nOK\n",
    b"binary: 3\r\nabc\nOK\n",
    b"foo: bar\r\nOK\r\n",
    b"OK\r\n",
    b"a: b\nlist_OK\r\nOK\n",
    // a frame whose only component so far is an empty binary part, then the end of the stream
    b"binary: 0\n\n",
    b"a: 1\nOK\nbinary: 0\n\n",
    // what Rust's integer `FromStr` accepts beyond digits: ONE leading `+` (also for unsigned types)
    b"binary: +6\nFOOBAR\nOK\n",
    b"binary: +0\n\nOK\n",
    b"ACK [+1@0] {} x\n",
    b"ACK [1@+0] {} x\n",
    b"binary: 3 \nabc\nOK\n",
    b"ACK [99999999999999999999@0] {} x\n",
    b"ACK [0@99999999999999999999] {} x\n",
    b"ACK [18446744073709551615@18446744073709551615] {} x\n",
    b"ACK [1@0] {pl ay} x\n",
    b"ACK [1@0] {} \xff\n",
    b"ACK [1@0]{} x\n",
    b"ACK [1@0] {}x\n",
    b"ACK [1@0] {}\n",
    b"ACK [1@0] {} \n",
    b"ACK [@0] {} x\n",
    b"ACK [1@] {} x\n",
    b"ACK\n",
    b"ACK \n",
    b"foo: \xff\xfe\nOK\n",
    b"f\xc3\xa9: x\nOK\n",
    b"foo\0: x\nOK\n",
    b"foo: a\0b\nOK\n",
    b"foo:x\nOK\n",
    b"foo : x\nOK\n",
    b": x\nOK\n",
    b"foo\nOK\n",
    b"\nOK\n",
    b"OK \n",
    b"OK\r\n",
    b"ok\n",
    b"list_ok\n",
    b"list_OK\nlist_OK\nOK\n",
    b"list_OK\nfoo: bar\nOK\n",
    b"foo: \xed\xa0\x80\nOK\n",
    b"foo: \xf4\x90\x80\x80\nOK\n",
    b"foo: \xc0\xaf\nOK\n",
    b"foo: \xe0\x80\x80\nOK\n",
    b"foo: \xf0\x9f\x8e\xb5\nOK\n",
    b"a: b\nbinary: 1\nX\nbinary: 2\nYZ\nOK\n",
];

/// two pipelined responses on one connection, the first larger than twice the blocking buffer, the
/// second starting with a component larger than the buffer; one read completes the first response
/// and carries a backlog of the second whose size sits on the buffer-size boundaries
/// exhaustive small scope: EVERY sequence of up to `max` tokens of the protocol's own vocabulary (keyword
/// prefixes, separators, line ends, one-letter keys), received whole, bytewise, and with the first and
/// the last byte in a read of their own — what no random generator is needed for
fn small_scope_ops(ops: &mut Vec<String>, max: usize) {
    const TOK: &[&[u8]] = &[
        b"l", b"b", b"O", b"A", b"x", b": ", b":", b" ", b"\n", b"OK\n", b"list_OK\n", b"binary: ", b"0\n", b"2\n", b"ab", b"ACK [1@0] {} m\n",
    ];
    let mut streams: Vec<Vec<u8>> = vec![vec![]];
    let mut last: Vec<Vec<u8>> = vec![vec![]];
    for _ in 0..max {
        let mut next = Vec::new();
        for s in &last {
            for t in TOK {
                let mut v = s.clone();
                v.extend_from_slice(t);
                next.push(v);
            }
        }
        streams.extend(next.iter().cloned());
        last = next;
    }
    for (i, st) in streams.iter().enumerate() {
        if st.is_empty() {
            continue;
        }
        let h = hex(st);
        let n = st.len();
        let fl = ["s", "a", "c"][i % 3];
        ops.push(format!("proto.recv {fl} {h} {n} eof 1"));
        if n >= 2 {
            ops.push(format!("proto.recv {fl} {h} {} eof 1", vec!["1"; n].join(",")));
            ops.push(format!("proto.recv {fl} {h} 1,{} eof 0", n - 1));
            ops.push(format!("proto.recv {fl} {h} {},1 eof 0", n - 1));
        }
        // the same closed by `OK` (a complete response, if it is one), first byte in a read of its own
        let mut c = st.clone();
        c.extend_from_slice(b"OK\n");
        ops.push(format!("proto.recv {fl} {} 1,{} eof 0", hex(&c), c.len() - 1));
    }
}

fn big_pair_ops(ops: &mut Vec<String>, seed: u64) {
    big_pair_ops_sized(ops, seed, 9000 + (seed as usize % 7) * 611, false);
    // the first response beyond 64 KiB (the blocking buffer has doubled to 128 KiB when it completes)
    big_pair_ops_sized(ops, seed, 70_000 + (seed as usize % 7) * 611, true);
}

fn big_pair_ops_sized(ops: &mut Vec<String>, seed: u64, size_a: usize, few: bool) {
    let size_b = 5000 + (seed as usize % 5) * 377;
    let pa: Vec<u8> = (0..size_a).map(|i| (i * 13 + 5) as u8).collect();
    let pb: Vec<u8> = (0..size_b).map(|i| (i * 11 + 1) as u8).collect();
    let mut a = format!("file: a.flac\nbinary: {}\n", size_a).into_bytes();
    a.extend_from_slice(&pa);
    a.extend_from_slice(b"\nOK\n");
    let mut b = format!("binary: {}\n", size_b).into_bytes();
    b.extend_from_slice(&pb);
    b.extend_from_slice(b"\nfoo: bar\nOK\n");
    let end_a = a.len();
    let mut stream = a;
    stream.extend_from_slice(&b);
    stream.extend_from_slice(b"x: y\nOK\n");
    let h = hex(&stream);
    let n = stream.len();
    ops.push(format!("proto.recv s {h} {n} eof 0"));
    ops.push(format!("proto.recv a {h} {n} eof 0"));
    let backs: &[usize] = if few { &[4095, 4096, 4097, 4999] } else { &[1, 2, 4095, 4096, 4097, 4098, 8191, 8192, 8193] };
    for back in backs {
        let cut = end_a + back;
        if cut < n {
            for fl in ["s", "a"] {
                ops.push(format!("proto.recv {fl} {h} {cut},{} eof 0", n - cut));
                // the tail of the first response and the backlog arrive in ONE read
                let first = end_a - 100;
                if !few || fl == "s" {
                    ops.push(format!("proto.recv {fl} {h} {first},{},{} eof 0", cut - first, n - cut));
                }
            }
        }
    }
}

/// scale: a binary chunk far beyond every buffer size in the code (4 KiB, 64 KiB), with the start of
/// the next response (nothing / one byte / a complete response) arriving in the same read as its end,
/// then the end of the stream
fn huge_binary_ops(ops: &mut Vec<String>, seed: u64) {
    for size in [150_000usize + (seed as usize % 5) * 1000, 290_000 + (seed as usize % 3) * 1000] {
        let payload: Vec<u8> = (0..size).map(|i| (i * 7 + 3) as u8).collect();
        for follower in [&b""[..], b"v", b"volume: 1\nOK\n", b"binary: 0\n"] {
            let mut stream = format!("size: {size}\nbinary: {size}\n").into_bytes();
            stream.extend_from_slice(&payload);
            stream.extend_from_slice(b"\nOK\n");
            stream.extend_from_slice(follower);
            let n = stream.len();
            let h = hex(&stream);
            let mut pieces = Vec::new();
            let mut left = n;
            while left > 65536 {
                pieces.push("65536".to_string());
                left -= 65536;
            }
            pieces.push(left.to_string());
            for fl in ["a", "s"] {
                ops.push(format!("proto.recv {fl} {h} {n} eof 1"));
                ops.push(format!("proto.recv {fl} {h} {} eof 1", pieces.join(",")));
            }
        }
    }
}

/// well-formed streams over a transport with recoverable read failures (a read timeout, `WouldBlock`):
/// a failed read delivers nothing, so the responses must come out as if it had not happened — in
/// particular the part of a response consumed before the failure is kept
fn flaky_ops(r: &mut Rng, ops: &mut Vec<String>, n: usize) {
    for i in 0..n {
        let k = r.range(1, 3);
        let rs: Vec<AbsResp> = (0..k).map(|_| gen_resp(r, i % 11 == 0)).collect();
        let mut stream = enc_all(&rs);
        if stream.is_empty() {
            continue;
        }
        // every fourth stream ends exactly on a line boundary INSIDE a response: after the failures the
        // end must still be reported as unexpected (only the builder knows that a response is unfinished)
        if i % 4 == 1 {
            let lfs: Vec<usize> = stream.iter().enumerate().filter(|(_, b)| **b == b'\n').map(|(q, _)| q + 1).filter(|q| *q < stream.len()).collect();
            if !lfs.is_empty() {
                let q = *r.pick(&lfs);
                stream.truncate(q);
            }
        }
        let seg = if i % 3 == 0 {
            // cut on line boundaries: the failure falls after lines that were consumed completely
            let mut lens = Vec::new();
            let mut last = 0;
            for (p, b) in stream.iter().enumerate() {
                if *b == b'\n' && r.chance(1, 2) {
                    lens.push((p + 1 - last).to_string());
                    last = p + 1;
                }
            }
            if last < stream.len() {
                lens.push((stream.len() - last).to_string());
            }
            lens.join(",")
        } else {
            gen_seg(r, stream.len())
        };
        let mut parts: Vec<String> = seg.split(',').map(|s| s.to_string()).collect();
        let m = r.range(1, 3);
        for _ in 0..m {
            let at = r.below(parts.len() + 1);
            parts.insert(at, format!("!{}", r.below(IO_KINDS.len())));
        }
        let fl = ["s", "a", "c", "S", "A", "s", "a"][i % 7];
        ops.push(format!("proto.flaky {fl} {} {} eof {}", hex(&stream), parts.join(","), m + r.below(3)));
    }
}

pub fn gen(cfg: &Cfg) -> Vec<String> {
    let mut r = Rng::new(cfg.seed);
    let mut ops = Vec::new();
    let scale = if cfg.thorough { 20 } else { 1 };
    match cfg.prop.as_str() {
        // C19: a response is the ordered collection of what the server sent — also when reads failed
        // and were retried while it was being received
        "C19" => {
            flaky_ops(&mut r, &mut ops, cfg.n.unwrap_or(400 * scale));
        }
        "C02" => {
            // the shortest responses there are: a one-letter key that is a prefix of a protocol keyword
            // (`l`ist_OK, `b`inary, `O`K, `A`CK), an empty value, at every two-way split and bytewise
            for key in ["l", "b", "x", "O", "A", "li", "bi", "list_O", "binary_"] {
                let stream = format!("{key}: \nOK\n").into_bytes();
                let h = hex(&stream);
                let n = stream.len();
                for fl in ["s", "a", "c"] {
                    ops.push(format!("proto.recv {fl} {h} {n} eof 1"));
                    ops.push(format!("proto.recv {fl} {h} {} eof 1", vec!["1"; n].join(",")));
                    for p in 1..n {
                        ops.push(format!("proto.recv {fl} {h} {p},{} eof 1", n - p));
                    }
                }
            }
            // greetings longer than the blocking connection's initial buffer
            for vlen in [4088usize, 4089, 4090, 5000, 20000] {
                let mut g = b"OK MPD ".to_vec();
                g.extend((0..vlen).map(|i| b"0123456789.~gitabc"[i % 18]));
                g.push(b'\n');
                for fl in ["s", "a"] {
                    ops.push(format!("proto.connect {fl} {} {} eof", hex(&g), g.len()));
                    ops.push(format!("proto.connect {fl} {} 4096,{} eof", hex(&g), g.len() - 4096));
                    ops.push(format!("proto.connect {fl} {} 7,{} eof", hex(&g), g.len() - 7));
                }
            }
            // > 16 MiB through one connection in reads that always fill the space offered: the blocking
            // buffer doubles up to 16 MiB; what is received must not depend on that
            ops.push(format!("proto.bigbin s 1048576 17 {} eof 1", hex(b"volume: 1\nOK\n")));
            ops.push(format!("proto.bigbin a 1048576 17 {} eof 1", hex(b"v")));
            big_pair_ops(&mut ops, cfg.seed);
            flaky_ops(&mut r, &mut ops, 150 * scale);
            let n = cfg.n.unwrap_or(if cfg.thorough { 4000 } else { 600 });
            for i in 0..n {
                let big = i % 7 == 0;
                let k = r.range(1, 4);
                let rs: Vec<AbsResp> = (0..k).map(|_| gen_resp(&mut r, big)).collect();
                let mut stream = enc_all(&rs);
                match r.below(5) {
                    0 => {
                        let p = r.below(stream.len() + 1);
                        stream.truncate(p);
                    }
                    1 => mutate(&mut r, &mut stream),
                    _ => {}
                }
                let term = if r.chance(1, 5) { format!("err{}", r.below(IO_KINDS.len())) } else { "eof".into() };
                let h = hex(&stream);
                // the same stream under several segmentations and both flavours
                let nseg = if stream.len() <= 300 { 4 } else { 3 };
                for k in 0..nseg {
                    let seg = gen_seg(&mut r, stream.len());
                    // further calls after the end of the session must repeat its last verdict
                    let extra = if k == 0 { 2 } else { 0 };
                    for fl in ["s", "a", "c"] {
                        ops.push(format!("proto.recv {fl} {h} {seg} {term} {extra}"));
                    }
                    // the same with requests sent between the receive calls
                    let fl = ["S", "A", "C", "M", "N"][(i + k) % 5];
                    ops.push(format!("proto.recv {fl} {h} {seg} {term} {extra}"));
                }
                // the stream ends exactly on a line boundary inside a response, every call goes through
                // `command()` / `command_list()`, and further calls follow the failed one: what the failed
                // call leaves behind must make them repeat its verdict (only the builder knows that a
                // response is unfinished; the buffer is empty)
                if i % 6 == 1 && stream.len() <= 400 {
                    for (q, b) in stream.iter().enumerate() {
                        if *b == b'\n' && q + 1 < stream.len() {
                            let fl = if q % 2 == 0 { "N" } else { "M" };
                            ops.push(format!("proto.recv {fl} {} {} eof 2", hex(&stream[..q + 1]), q + 1));
                        }
                    }
                }
                // all two-way splits of short streams (every stream in thorough up to 4 KiB)
                let lim = if cfg.thorough { 1200 } else { 300 };
                if stream.len() >= 2 && stream.len() <= lim && i % (if cfg.thorough { 2 } else { 4 }) == 0 {
                    for p in 1..stream.len() {
                        let fl = if p % 2 == 0 { "s" } else { "a" };
                        ops.push(format!("proto.recv {fl} {h} {p},{} {term} 0", stream.len() - p));
                    }
                }
            }
        }
        "C03" => {
            // pipelined responses around the blocking buffer's sizes (a grown buffer, a backlog of exactly
            // 4095 / 4096 / 4097 … bytes of the next response)
            big_pair_ops(&mut ops, cfg.seed);
            // one binary chunk of 2 MiB (a client may raise `binarylimit`): cut by length, whatever its size
            ops.push(format!("proto.bigbin s 2097152 1 {} eof 1", hex(b"volume: 1\nOK\n")));
            ops.push(format!("proto.bigbin a 2097153 1 {} eof 1", hex(b"volume: 1\nOK\n")));
            // a huge binary response directly followed by another response, delivered in large reads
            for (k, size) in [70_000usize, 150_000, 300_000].iter().enumerate() {
                if k > 0 && !cfg.thorough && cfg.seed % 2 == 1 && k == 1 {
                    continue;
                }
                let payload: Vec<u8> = (0..*size).map(|i| (i * 7 + 3) as u8).collect();
                let rs = vec![
                    AbsResp { list_form: false, frames: vec![AbsFrame { fields: vec![("size".into(), size.to_string())], binary: Some(payload), bin_pos: 1 }], partial: None, error: None },
                    AbsResp { list_form: false, frames: vec![AbsFrame { fields: vec![("after".into(), "huge".into())], binary: None, bin_pos: 0 }], partial: None, error: None },
                ];
                let len = enc_all(&rs).len();
                let ser = ser_resps(&rs);
                for fl in ["a", "s"] {
                    ops.push(format!("proto.abs {fl} {ser} {len} full 0"));
                    ops.push(format!("proto.abs {fl} {ser} 65536,{} full 0", len - 65536));
                }
            }
            let n = cfg.n.unwrap_or(3000 * scale);
            for i in 0..n {
                let big = i % 9 == 0;
                let k = r.range(1, 5);
                let rs: Vec<AbsResp> = (0..k).map(|_| gen_resp(&mut r, big)).collect();
                let len = enc_all(&rs).len();
                let ser = ser_resps(&rs);
                if i % 4 == 0 {
                    // pipelined responses in ONE read over a transport that then fails instead of
                    // ending (a silent open socket with a read timeout): every buffered response
                    // must still be returned; and sessions with requests sent between the calls
                    let stream = enc_all(&rs);
                    let h = hex(&stream);
                    let kind = r.below(IO_KINDS.len());
                    for fl in ["s", "a", "S", "A", "C", "M", "N"] {
                        ops.push(format!("proto.recv {fl} {h} {} err{kind} 1", stream.len()));
                    }
                    let seg = gen_seg(&mut r, stream.len());
                    let fl = ["S", "A", "C"][i / 4 % 3];
                    ops.push(format!("proto.recv {fl} {h} {seg} eof 1"));
                }
                for _ in 0..3 {
                    let seg = gen_seg(&mut r, len);
                    let fl = if r.chance(1, 2) { "s" } else { "a" };
                    ops.push(format!("proto.abs {fl} {ser} {seg} full 0"));
                }
            }
        }
        "C09" => {
            small_scope_ops(&mut ops, if cfg.thorough { 4 } else { 3 });
            big_pair_ops(&mut ops, cfg.seed);
            for c in NUMERIC_CORPUS {
                for fl in ["s", "a"] {
                    ops.push(format!("proto.recv {fl} {} {} eof 2", hex(c), c.len()));
                    let ones = vec!["1"; c.len()].join(",");
                    ops.push(format!("proto.recv {fl} {} {} eof 2", hex(c), ones));
                    ops.push(format!("proto.connect {fl} {} {} eof", hex(c), c.len()));
                }
            }
            let n = cfg.n.unwrap_or(15000 * scale);
            for i in 0..n {
                let mut stream: Vec<u8> = match r.below(4) {
                    0 => {
                        let l = r.below(60);
                        (0..l)
                            .map(|_| match r.below(4) {
                                0 => *r.pick(&[b'\n', b':', b' ', b'O', b'K', b'A', b'C', b'[', b']', b'@', b'{', b'}', b'0', b'9']),
                                1 => r.next() as u8,
                                _ => b'a' + (r.below(26) as u8),
                            })
                            .collect()
                    }
                    _ => {
                        let k = r.range(1, 3);
                        let rs: Vec<AbsResp> = (0..k).map(|_| gen_resp(&mut r, i % 50 == 0)).collect();
                        enc_all(&rs)
                    }
                };
                mutate(&mut r, &mut stream);
                if r.chance(1, 6) {
                    let c = r.pick(NUMERIC_CORPUS).to_vec();
                    let p = r.below(stream.len() + 1);
                    stream.splice(p..p, c);
                }
                let seg = gen_seg(&mut r, stream.len());
                let fl = if r.chance(1, 2) { "s" } else { "a" };
                let term = if r.chance(1, 6) { format!("err{}", r.below(IO_KINDS.len())) } else { "eof".into() };
                ops.push(format!("proto.recv {fl} {} {seg} {term} {}", hex(&stream), r.below(3)));
                if r.chance(1, 5) {
                    // the same bytes as a greeting
                    let mut g = if r.chance(1, 2) { b"OK MPD ".to_vec() } else { vec![] };
                    g.extend_from_slice(&stream);
                    let seg = gen_seg(&mut r, g.len());
                    ops.push(format!("proto.connect {fl} {} {seg} {term}", hex(&g)));
                }
            }
        }
        "C10" => {
            huge_binary_ops(&mut ops, cfg.seed);
            // the end of the stream after reads that failed and were retried
            flaky_ops(&mut r, &mut ops, 200 * scale);
            let n = cfg.n.unwrap_or(if cfg.thorough { 700 } else { 120 });
            for i in 0..n {
                let k = r.range(1, 3);
                let rs: Vec<AbsResp> = (0..k).map(|_| gen_resp(&mut r, cfg.thorough && i % 40 == 0)).collect();
                let len = enc_all(&rs).len();
                if len > 3000 && !cfg.thorough {
                    continue;
                }
                let ser = ser_resps(&rs);
                for cut in 0..=len {
                    let seg = gen_seg(&mut r, cut);
                    let fl = ["s", "a", "S", "C", "a", "s", "A", "c"][(cut + i) % 8];
                    ops.push(format!("proto.abs {fl} {ser} {seg} {cut} {}", if cut % 3 == 0 { 1 + cut % 2 } else { 0 }));
                }
            }
            // greeting cut at every position
            let g = b"OK MPD 0.23.5\n";
            for cut in 0..=g.len() {
                for fl in ["s", "a"] {
                    let seg = if cut == 0 { "-".to_string() } else { gen_seg(&mut r, cut) };
                    ops.push(format!("proto.connect {fl} {} {seg} eof", hex(&g[..cut])));
                }
            }
        }
        // C17 "any server binary chunk limit": `binarylimit` may be raised up to the server's output buffer,
        // so one chunk may exceed MPD's DEFAULT output buffer of 8 MiB
        "C17" => {
            ops.push(format!("proto.bigbin a 8388609 1 {} eof 1", hex(b"volume: 1\nOK\n")));
            ops.push(format!("proto.bigbin s 9437307 1 - eof 1"));
        }
        "C18" => {
            let n = cfg.n.unwrap_or(5000 * scale);
            let fixed: &[&[u8]] = &[
                b"OK MPD 0.23.5\n", b"OK MPD 0.23.5", b"OK MPD \n", b"OK MPD x\n", b"OK MPD 0.23.5\nextra", b"OK MPD 0.23.5\r\n",
                b"foobar\n", b"OK foobar\n", b"OK MPD", b"ok mpd 0.1\n", b" OK MPD 0.1\n", b"OK MPD \xff\n", b"OK MPD \xc3\xa9\n",
                b"", b"\n", b"OK\n", b"OK MPD  \n", b"OK MPD 0.2\x003\n", b"ACK [1@0] {} x\n",
            ];
            for f in fixed {
                for fl in ["s", "a"] {
                    ops.push(format!("proto.connect {fl} {} {} eof", hex(f), if f.is_empty() { "-".to_string() } else { f.len().to_string() }));
                    if f.len() > 1 {
                        let ones = vec!["1"; f.len()].join(",");
                        ops.push(format!("proto.connect {fl} {} {ones} eof", hex(f)));
                        for p in 1..f.len() {
                            ops.push(format!("proto.connect {fl} {} {p},{} err1", hex(f), f.len() - p));
                        }
                    }
                }
            }
            for i in 0..n {
                let mut g: Vec<u8> = b"OK MPD ".to_vec();
                let ver = match r.below(6) {
                    0 => "0.21.11".to_string(),
                    1 => gen_text(&mut r, 30),
                    2 => "9".repeat(*r.pick(&[100usize, 4080, 4089, 4090, 4096, 5000, 10000])),
                    _ => format!("{}.{}.{}", r.below(3), r.below(30), r.below(20)),
                };
                g.extend_from_slice(ver.as_bytes());
                g.push(b'\n');
                if r.chance(1, 3) {
                    g.extend_from_slice(b"OK\nfoo: bar\n");
                }
                if r.chance(1, 3) {
                    mutate(&mut r, &mut g);
                }
                if r.chance(1, 8) {
                    let p = r.below(g.len() + 1);
                    g.truncate(p);
                }
                let seg = gen_seg(&mut r, g.len());
                let fl = if i % 2 == 0 { "s" } else { "a" };
                let term = if r.chance(1, 6) { format!("err{}", r.below(IO_KINDS.len())) } else { "eof".into() };
                ops.push(format!("proto.connect {fl} {} {seg} {term}", hex(&g)));
            }
        }
        "C13" => {
            // pipelined replies, the first one larger than twice the receive buffer, with a backlog of the
            // second in the read that completes the first (positional pairing across two lists)
            big_pair_ops(&mut ops, cfg.seed);
            // list replies received with interruptions: the receive future is dropped at every
            // chunk boundary (flavour c), in particular exactly after each `list_OK`
            let n = cfg.n.unwrap_or(if cfg.thorough { 4000 } else { 400 });
            for _ in 0..n {
                let k = r.range(2, 7);
                let frames: Vec<AbsFrame> = (0..k).map(|_| gen_frame(&mut r, false)).collect();
                let resp = AbsResp {
                    list_form: true,
                    frames: frames.clone(),
                    partial: None,
                    error: if r.chance(1, 5) { Some(gen_err(&mut r)) } else { None },
                };
                let follow = gen_resp(&mut r, false);
                let rs = vec![resp, follow];
                let stream = enc_all(&rs);
                // boundaries after each list_OK of the first response
                let mut cuts = Vec::new();
                let mut acc = Vec::new();
                for f in &frames {
                    let one = AbsResp { list_form: true, frames: vec![f.clone()], partial: None, error: None };
                    let e = enc_all(&[one]);
                    // enc of a one-frame list = frame lines + "list_OK\n" + "OK\n"
                    acc.extend_from_slice(&e[..e.len() - 3]);
                    cuts.push(acc.len());
                }
                let h = hex(&stream);
                if stream.starts_with(&acc) {
                    let mut lens = Vec::new();
                    let mut prev = 0;
                    for c in &cuts {
                        if *c > prev {
                            lens.push((c - prev).to_string());
                            prev = *c;
                        }
                    }
                    if stream.len() > prev {
                        lens.push((stream.len() - prev).to_string());
                    }
                    ops.push(format!("proto.recv c {h} {} eof 0", lens.join(",")));
                }
                let seg = gen_seg(&mut r, stream.len());
                ops.push(format!("proto.recv c {h} {seg} eof 0"));
                ops.push(format!("proto.recv a {h} {seg} eof 0"));
                // pipelined lists: the replies to two lists arrive in ONE read while further lists are being
                // sent between the receive calls (flavours S / A / C send a request, every third time a
                // list, before each receive): what was received and not yet returned belongs to the lists
                // already sent, positionally
                let more: Vec<AbsResp> = (0..3).map(|_| gen_resp(&mut r, false)).collect();
                let mut all = rs.clone();
                all.extend(more);
                let stream5 = enc_all(&all);
                for fl in ["S", "A", "C"] {
                    ops.push(format!("proto.recv {fl} {} {} eof 0", hex(&stream5), stream5.len()));
                }
            }
        }
        other => panic!("family proto does not serve property {other}"),
    }
    ops
}

pub fn exec(op: &[&str]) -> String {
    match op[0] {
        "proto.recv" => {
            let stream = unhex(op[2]);
            session(op[1], cut_chunks(&stream, op[3]), parse_term(op[4]), op[5].parse().unwrap())
        }
        "proto.bigbin" => {
            // scale: `count` responses of one `size`-byte binary chunk each, then `follower`, all in ONE
            // chunk, so that every read fills the space it offers (the blocking buffer doubles each time)
            let size: usize = op[2].parse().unwrap();
            let count: usize = op[3].parse().unwrap();
            let mut stream = Vec::with_capacity(count * (size + 32));
            for _ in 0..count {
                stream.extend_from_slice(format!("binary: {size}\n").as_bytes());
                stream.extend((0..size).map(|i| (i * 7 + 3) as u8));
                stream.extend_from_slice(b"\nOK\n");
            }
            if op[4] != "-" {
                stream.extend_from_slice(&unhex(op[4]));
            }
            COMPACT_BINARY.store(true, std::sync::atomic::Ordering::Relaxed);
            let r = session(op[1], vec![stream], parse_term(op[5]), op[6].parse().unwrap());
            COMPACT_BINARY.store(false, std::sync::atomic::Ordering::Relaxed);
            r
        }
        "proto.flaky" => {
            let stream = unhex(op[2]);
            let (chunks, faults) = cut_chunks_faults(&stream, op[3]);
            session_f(op[1], chunks, faults, parse_term(op[4]), op[5].parse().unwrap())
        }
        "proto.abs" => {
            let rs = unser_resps(op[2]);
            let mut stream = enc_all(&rs);
            if op[4] != "full" {
                stream.truncate(op[4].parse().unwrap());
            }
            let items = session(op[1], cut_chunks(&stream, op[3]), Term::Eof, op[5].parse().unwrap());
            format!("s:{};{}", hex(&stream), items)
        }
        "proto.connect" => {
            let stream = unhex(op[2]);
            connect_only(op[1], cut_chunks(&stream, op[3]), parse_term(op[4]))
        }
        _ => "badop".into(),
    }
}
