//! Shared helpers: hex coding, SplitMix64 PRNG, byte-string generators.

pub fn hex(b: &[u8]) -> String {
    if b.is_empty() {
        return "-".to_string();
    }
    let mut s = String::with_capacity(b.len() * 2);
    for x in b {
        s.push_str(&format!("{:02x}", x));
    }
    s
}

pub fn unhex(s: &str) -> Vec<u8> {
    if s == "-" {
        return Vec::new();
    }
    let b = s.as_bytes();
    assert!(b.len() % 2 == 0, "odd hex length: {s}");
    (0..b.len() / 2)
        .map(|i| u8::from_str_radix(std::str::from_utf8(&b[2 * i..2 * i + 2]).unwrap(), 16).unwrap())
        .collect()
}

/// SplitMix64: every random choice of the harness derives from one state seeded by VERIF_SEED.
#[derive(Clone)]
pub struct Rng(pub u64);

impl Rng {
    pub fn new(seed: u64) -> Rng {
        Rng(seed ^ 0x9E37_79B9_7F4A_7C15)
    }
    pub fn next(&mut self) -> u64 {
        self.0 = self.0.wrapping_add(0x9E37_79B9_7F4A_7C15);
        let mut z = self.0;
        z = (z ^ (z >> 30)).wrapping_mul(0xBF58_476D_1CE4_E5B9);
        z = (z ^ (z >> 27)).wrapping_mul(0x94D0_49BB_1331_11EB);
        z ^ (z >> 31)
    }
    /// uniform in 0..n (n > 0)
    pub fn below(&mut self, n: usize) -> usize {
        (self.next() % (n as u64)) as usize
    }
    pub fn range(&mut self, lo: usize, hi: usize) -> usize {
        lo + self.below(hi - lo + 1)
    }
    pub fn chance(&mut self, num: usize, den: usize) -> bool {
        self.below(den) < num
    }
    pub fn pick<'a, T>(&mut self, xs: &'a [T]) -> &'a T {
        &xs[self.below(xs.len())]
    }
    pub fn fork(&mut self) -> Rng {
        Rng(self.next())
    }
}

/// Some valid UTF-8 text of mixed classes.
pub fn gen_text(r: &mut Rng, max_chars: usize) -> String {
    let n = r.below(max_chars + 1);
    let mut s = String::new();
    for _ in 0..n {
        let c = match r.below(12) {
            0 => ' ',
            1 => *r.pick(&['"', '\'', '\\']),
            2 => *r.pick(&['é', 'ß', 'λ']),
            3 => *r.pick(&['日', '本', '€']),
            4 => *r.pick(&['🎵', '𝄞']),
            5 => *r.pick(&[':', '(', ')', '=', '!', '~', '-', '_', '.', '/']),
            6 => (b'0' + r.below(10) as u8) as char,
            7 => (b'A' + r.below(26) as u8) as char,
            _ => (b'a' + r.below(26) as u8) as char,
        };
        s.push(c);
    }
    s
}

/// An ASCII identifier-ish word.
pub fn gen_word(r: &mut Rng, min: usize, max: usize) -> String {
    let n = r.range(min, max);
    (0..n)
        .map(|_| match r.below(10) {
            0 => '_',
            1 | 2 => (b'A' + r.below(26) as u8) as char,
            _ => (b'a' + r.below(26) as u8) as char,
        })
        .collect()
}
