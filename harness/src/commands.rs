//! Family `commands` (C15): every predefined command of `mpd_client::commands`, built through its
//! public constructors / builder methods, rendered with `Command::command()` and sent through
//! `mpd_protocol::Connection::send` into a capturing writer.
//!
//! op   pc.<constructor>[.alt] <params…>   => ok:<hex of the bytes written> | PANIC
//!
//! `<constructor>` names a builder path (the constructors of `Mpd.Commands.PCmd` in the Lean
//! model); `.alt` takes an equivalent alternative path (other constructor function, other order of
//! builder calls, an overridden earlier builder call).  Parameter syntax: see
//! `lean/Driver/Commands.lean`.

use std::io::Cursor;
use std::ops::Bound;
use std::time::Duration;

use mpd_client::commands::*;
use mpd_client::filter::Filter;
use mpd_client::tag::Tag;
use mpd_protocol::Connection;

use crate::filter::{mk_tag, parse_tree, Cap};
use crate::util::{gen_text, hex, unhex, Rng};
use crate::Cfg;

type B = (Bound<usize>, Bound<usize>);
type BP = (Bound<SongPosition>, Bound<SongPosition>);

fn num(s: &str) -> Option<u64> {
    if s.is_empty() || !s.bytes().all(|b| b.is_ascii_digit()) {
        return None;
    }
    s.parse::<u64>().ok()
}

fn bound(s: &str) -> Option<Bound<usize>> {
    if s == "u" {
        return Some(Bound::Unbounded);
    }
    let (k, r) = s.split_at(1);
    let n = num(r)? as usize;
    match k {
        "i" => Some(Bound::Included(n)),
        "e" => Some(Bound::Excluded(n)),
        _ => None,
    }
}

fn range(s: &str) -> Option<B> {
    let (a, b) = s.split_once(',')?;
    Some((bound(a)?, bound(b)?))
}

fn pos_bound(b: Bound<usize>) -> Bound<SongPosition> {
    match b {
        Bound::Included(n) => Bound::Included(SongPosition(n)),
        Bound::Excluded(n) => Bound::Excluded(SongPosition(n)),
        Bound::Unbounded => Bound::Unbounded,
    }
}

fn prange(s: &str) -> Option<BP> {
    let (a, b) = range(s)?;
    Some((pos_bound(a), pos_bound(b)))
}

fn opt<T>(s: &str, f: impl Fn(&str) -> Option<T>) -> Option<Option<T>> {
    if s == "_" {
        Some(None)
    } else {
        f(s).map(Some)
    }
}

fn text(s: &str) -> Option<String> {
    String::from_utf8(unhex(s)).ok()
}

fn song(s: &str) -> Option<Song> {
    if let Some(r) = s.strip_prefix("id") {
        Some(Song::Id(SongId(num(r)?)))
    } else if let Some(r) = s.strip_prefix("pos") {
        Some(Song::Position(SongPosition(num(r)? as usize)))
    } else {
        None
    }
}

#[derive(Clone, Copy)]
enum Pos {
    Abs(usize),
    After(usize),
    Before(usize),
}

fn pos(s: &str) -> Option<Pos> {
    if s.is_empty() {
        return None;
    }
    let (k, r) = s.split_at(1);
    let n = num(r)? as usize;
    match k {
        "a" => Some(Pos::Abs(n)),
        "+" => Some(Pos::After(n)),
        "-" => Some(Pos::Before(n)),
        _ => None,
    }
}

fn dur(s: &str) -> Option<Duration> {
    let (a, b) = s.split_once('.')?;
    let n = num(b)?;
    if n >= 1_000_000_000 {
        return None;
    }
    Some(Duration::new(num(a)?, n as u32))
}

fn tags(s: &str) -> Option<Vec<Tag>> {
    if s == "_" {
        return Some(Vec::new());
    }
    s.split(',').map(mk_tag).collect()
}

fn filter(s: &str) -> Option<Filter> {
    let mut p = 0;
    let f = parse_tree(s, &mut p)?;
    if p != s.len() {
        return None;
    }
    Some(f)
}

/// `Command::command()` (may panic: documented for invalid arguments), then the real `send`
fn run<C: Command>(c: C) -> String {
    let raw = c.command();
    let io = Cap { input: Cursor::new(b"OK MPD 0.23.5\n".to_vec()), out: Vec::new() };
    let mut conn = Connection::connect(io).expect("connect");
    conn.send(raw).expect("send");
    format!("ok:{}", hex(&conn.into_inner().out))
}

fn run_list(tag: Tag, f: Option<Filter>, groups: Vec<Tag>, alt: bool) -> String {
    macro_rules! go {
        ($n:literal) => {{
            let arr: [Tag; $n] = groups.try_into().expect("group count");
            if alt {
                // group_by first, then the filter (set twice: the last call wins)
                let l = List::new(tag).group_by(arr);
                match f {
                    Some(f) => run(l.filter(Filter::tag(Tag::Album, "overwritten")).filter(f)),
                    None => run(l),
                }
            } else {
                match f {
                    Some(f) => run(List::new(tag).filter(f).group_by(arr)),
                    None => run(List::new(tag).group_by(arr)),
                }
            }
        }};
    }
    match groups.len() {
        0 => {
            if alt {
                go!(0)
            } else {
                // without calling group_by at all
                match f {
                    Some(f) => run(List::new(tag).filter(f)),
                    None => run(List::new(tag)),
                }
            }
        }
        1 => go!(1),
        2 => go!(2),
        3 => go!(3),
        4 => go!(4),
        5 => go!(5),
        6 => go!(6),
        _ => "badinput".into(),
    }
}

fn exec_inner(name: &str, alt: bool, p: &[&str]) -> Option<String> {
    Some(match (name, p) {
        ("clearQueue", []) => run(ClearQueue),
        ("next", []) => run(Next),
        ("ping", []) => run(Ping),
        ("previous", []) => run(Previous),
        ("stop", []) => run(Stop),
        ("replayGainStatus", []) => run(ReplayGainStatus),
        ("status", []) => run(Status),
        ("stats", []) => run(Stats),
        ("queueAll", []) => {
            if alt {
                run(Queue::all())
            } else {
                run(Queue)
            }
        }
        ("currentSong", []) => run(CurrentSong),
        ("getPlaylists", []) => run(GetPlaylists),
        ("getEnabledTagTypes", []) => run(GetEnabledTagTypes),
        ("readChannelMessages", []) => run(ReadChannelMessages),
        ("listChannels", []) => run(ListChannels),
        ("clearPlaylist", [s]) => run(ClearPlaylist(&text(s)?)),
        ("deletePlaylist", [s]) => run(DeletePlaylist(&text(s)?)),
        ("saveQueueAsPlaylist", [s]) => run(SaveQueueAsPlaylist(&text(s)?)),
        ("subscribeToChannel", [s]) => run(SubscribeToChannel(&text(s)?)),
        ("unsubscribeFromChannel", [s]) => run(UnsubscribeFromChannel(&text(s)?)),
        ("getPlaylist", [s]) => run(GetPlaylist(&text(s)?)),
        ("setConsume", [b]) => run(SetConsume(num(b)? == 1)),
        ("setPause", [b]) => run(SetPause(num(b)? == 1)),
        ("setRandom", [b]) => run(SetRandom(num(b)? == 1)),
        ("setRepeat", [b]) => run(SetRepeat(num(b)? == 1)),
        ("queueSong", [s]) => {
            let s = song(s)?;
            if alt {
                run(QueueRange::song(s))
            } else {
                match s {
                    // through the `Into<Song>` conversions
                    Song::Id(id) => run(Queue::song(id)),
                    Song::Position(p) => run(Queue::song(p)),
                }
            }
        }
        ("queueRange", [r]) => {
            let r = prange(r)?;
            if alt {
                run(QueueRange::range(r))
            } else {
                run(Queue::range(r))
            }
        }
        ("setVolume", [v]) => run(SetVolume(u8::try_from(num(v)?).ok()?)),
        ("setSingle", [m]) => run(SetSingle(match *m {
            "enabled" => SingleMode::Enabled,
            "disabled" => SingleMode::Disabled,
            "oneshot" => SingleMode::Oneshot,
            _ => return None,
        })),
        ("setReplayGainMode", [m]) => run(SetReplayGainMode(match *m {
            "off" => ReplayGainMode::Off,
            "track" => ReplayGainMode::Track,
            "album" => ReplayGainMode::Album,
            "auto" => ReplayGainMode::Auto,
            _ => return None,
        })),
        ("crossfade", [d]) => run(Crossfade(dur(d)?)),
        ("seekTo", [s, d]) => {
            let d = dur(d)?;
            match song(s)? {
                Song::Id(id) if alt => run(SeekTo(id.into(), d)),
                Song::Position(p) if alt => run(SeekTo(p.into(), d)),
                s => run(SeekTo(s, d)),
            }
        }
        ("seek", [m]) => {
            let (k, r) = m.split_at(1);
            let d = dur(r)?;
            run(Seek(match k {
                "f" => SeekMode::Forward(d),
                "b" => SeekMode::Backward(d),
                "a" => SeekMode::Absolute(d),
                _ => return None,
            }))
        }
        ("shuffleAll", []) => run(Shuffle::all()),
        ("shuffleRange", [r]) => run(Shuffle::range(prange(r)?)),
        ("playCurrent", []) => run(Play::current()),
        ("playSong", [s]) => match song(s)? {
            Song::Id(id) if alt => run(Play::song(id)),
            Song::Position(p) if alt => run(Play::song(p)),
            s => run(Play::song(s)),
        },
        ("add", [u, po]) => {
            let u = text(u)?;
            let a = Add::uri(&u);
            match opt(po, pos)? {
                None => run(a),
                Some(Pos::Abs(n)) => {
                    if alt {
                        run(a.before_current(9).at(SongPosition(n)))
                    } else {
                        run(a.at(n))
                    }
                }
                Some(Pos::After(n)) => {
                    if alt {
                        run(a.at(3usize).after_current(n))
                    } else {
                        run(a.after_current(n))
                    }
                }
                Some(Pos::Before(n)) => {
                    if alt {
                        run(a.after_current(1).before_current(n))
                    } else {
                        run(a.before_current(n))
                    }
                }
            }
        }
        ("deleteId", [n]) => run(Delete::id(SongId(num(n)?))),
        ("deletePosition", [n]) => run(Delete::position(SongPosition(num(n)? as usize))),
        ("deleteRange", [r]) => run(Delete::range(prange(r)?)),
        ("move", [f, t]) => {
            let t = pos(t)?;
            let b = if let Some(r) = f.strip_prefix("id") {
                Move::id(SongId(num(r)?))
            } else if let Some(r) = f.strip_prefix("pos") {
                Move::position(SongPosition(num(r)? as usize))
            } else if let Some(r) = f.strip_prefix('r') {
                Move::range(prange(r)?)
            } else {
                return None;
            };
            match t {
                Pos::Abs(n) => run(b.to_position(SongPosition(n))),
                Pos::After(n) => run(b.after_current(n)),
                Pos::Before(n) => run(b.before_current(n)),
            }
        }
        ("find", [f, s, w]) => {
            let f = filter(f)?;
            let s = opt(s, mk_tag)?;
            let w = opt(w, range)?;
            let mut c = Find::new(f);
            if alt {
                // window before sort; earlier calls are overwritten
                if let Some(w) = w {
                    c = c.window(0..1).window(w);
                }
                if let Some(s) = s {
                    c = c.sort(Tag::Date).sort(s);
                }
            } else {
                if let Some(s) = s {
                    c = c.sort(s);
                }
                if let Some(w) = w {
                    c = c.window(w);
                }
            }
            run(c)
        }
        ("list", [t, f, g]) => run_list(mk_tag(t)?, opt(f, filter)?, tags(g)?, alt),
        ("count", [f]) => run(Count::new(filter(f)?)),
        ("countGrouped", [g, f]) => {
            // a filter set twice: the documented behaviour is that the last call wins ("will overwrite
            // the filter"); for every other op line (by the length of its text) an earlier filter is set first
            let twice = (g.len() + f.len()) % 2 == 0;
            let g = mk_tag(g)?;
            match opt(f, filter)? {
                None => run(CountGrouped::new(g)),
                Some(f) => {
                    let earlier = || Filter::tag(Tag::Genre, "overwritten");
                    match (alt, twice) {
                        (true, false) => run(Count::new(f).group_by(g)),
                        (true, true) => run(Count::new(earlier()).group_by(g).filter(f)),
                        (false, false) => run(CountGrouped::new(g).filter(f)),
                        (false, true) => run(CountGrouped::new(g).filter(earlier()).filter(f)),
                    }
                }
            }
        }
        ("renamePlaylist", [a, b]) => run(RenamePlaylist::new(&text(a)?, &text(b)?)),
        ("loadPlaylist", [n, r]) => {
            let n = text(n)?;
            let c = LoadPlaylist::name(&n);
            match opt(r, range)? {
                None => run(c),
                Some(r) => {
                    if alt {
                        run(c.range(..).range(r))
                    } else {
                        run(c.range(r))
                    }
                }
            }
        }
        ("addToPlaylist", [pl, u, po]) => {
            let (pl, u) = (text(pl)?, text(u)?);
            let c = AddToPlaylist::new(&pl, &u);
            match opt(po, num)? {
                None => run(c),
                Some(n) => {
                    if alt {
                        run(c.at(0usize).at(SongPosition(n as usize)))
                    } else {
                        run(c.at(n as usize))
                    }
                }
            }
        }
        ("removeFromPlaylistPosition", [pl, n]) => run(RemoveFromPlaylist::position(&text(pl)?, num(n)? as usize)),
        ("removeFromPlaylistRange", [pl, r]) => run(RemoveFromPlaylist::range(&text(pl)?, prange(r)?)),
        ("moveInPlaylist", [pl, a, b]) => run(MoveInPlaylist::new(&text(pl)?, num(a)? as usize, num(b)? as usize)),
        ("listAllIn", [d]) => {
            let d = text(d)?;
            if alt && d.is_empty() {
                run(ListAllIn::root())
            } else {
                run(ListAllIn::directory(&d))
            }
        }
        ("setBinaryLimit", [n]) => run(SetBinaryLimit(num(n)? as usize)),
        ("albumArt", [u, o]) => {
            let (u, o) = (text(u)?, num(o)? as usize);
            if alt && o == 0 {
                run(AlbumArt::new(&u))
            } else if alt {
                run(AlbumArt::new(&u).offset(7).offset(o))
            } else {
                run(AlbumArt::new(&u).offset(o))
            }
        }
        ("albumArtEmbedded", [u, o]) => {
            let (u, o) = (text(u)?, num(o)? as usize);
            if alt && o == 0 {
                run(AlbumArtEmbedded::new(&u))
            } else if alt {
                run(AlbumArtEmbedded::new(&u).offset(7).offset(o))
            } else {
                run(AlbumArtEmbedded::new(&u).offset(o))
            }
        }
        ("tagTypesEnableAll", []) => run(TagTypes::enable_all()),
        ("tagTypesDisableAll", []) => run(TagTypes::disable_all()),
        ("tagTypesDisable", [t]) => run(TagTypes::disable(&tags(t)?)),
        ("tagTypesEnable", [t]) => run(TagTypes::enable(&tags(t)?)),
        ("stickerGet", [u, n]) => run(StickerGet::new(&text(u)?, &text(n)?)),
        ("stickerSet", [u, n, v]) => run(StickerSet::new(&text(u)?, &text(n)?, &text(v)?)),
        ("stickerDelete", [u, n]) => run(StickerDelete::new(&text(u)?, &text(n)?)),
        ("stickerList", [u]) => run(StickerList::new(&text(u)?)),
        ("stickerFind", [u, n, f]) => {
            let (u, n) = (text(u)?, text(n)?);
            let mut c = StickerFind::new(&u, &n);
            if *f == "_" {
                run(c)
            } else {
                let (k, h) = f.split_once(':')?;
                let v = text(h)?;
                if alt {
                    c = c.where_gt("overwritten");
                }
                match k {
                    "eq" => run(c.where_eq(&v)),
                    "lt" => run(c.where_lt(&v)),
                    "gt" => run(c.where_gt(&v)),
                    _ => return None,
                }
            }
        }
        ("update", [u]) => match opt(u, text)? {
            None => {
                if alt {
                    run(Update::default())
                } else {
                    run(Update::new())
                }
            }
            Some(u) => {
                if alt {
                    run(Update::new().uri("overwritten").uri(&u))
                } else {
                    run(Update::new().uri(&u))
                }
            }
        },
        ("rescan", [u]) => match opt(u, text)? {
            None => {
                if alt {
                    run(Rescan::default())
                } else {
                    run(Rescan::new())
                }
            }
            Some(u) => {
                if alt {
                    run(Rescan::new().uri("overwritten").uri(&u))
                } else {
                    run(Rescan::new().uri(&u))
                }
            }
        },
        ("sendChannelMessage", [c, m]) => run(SendChannelMessage::new(&text(c)?, &text(m)?)),
        _ => return None,
    })
}

pub fn exec(op: &[&str]) -> String {
    let mut parts = op[0].split('.');
    if parts.next() != Some("pc") {
        return "badop".into();
    }
    let Some(name) = parts.next() else { return "badop".into() };
    let alt = parts.next() == Some("alt");
    exec_inner(name, alt, &op[1..]).unwrap_or_else(|| "badinput".into())
}

// ---------------------------------------------------------------------------------------------
// generators

const MAX: u64 = u64::MAX;
const NUMS: [u64; 12] = [0, 1, 2, 99, 100, 101, 255, (1 << 32) - 1, 1 << 32, 1 << 63, MAX - 1, MAX];

/// (start, end) value pairs: ordinary, empty, inverted, around the maximum
const PAIRS: [(u64, u64); 14] = [
    (0, 0),
    (0, 1),
    (1, 2),
    (3, 7),
    (5, 5),
    (5, 4),
    (5, 3),
    (7, 3),
    (0, MAX),
    (MAX - 1, MAX),
    (MAX, MAX),
    (MAX, 0),
    (MAX, MAX - 1),
    (1 << 32, 1 << 63),
];

/// (secs, nanos): zero, sub-millisecond, rounding boundaries, ties of the binary representation,
/// carries, large values
const DURS: [(u64, u32); 26] = [
    (0, 0),
    (0, 1),
    (0, 499_999),
    (0, 500_000),
    (0, 500_001),
    (0, 1_000_000),
    (0, 1_500_000),
    (0, 2_500_000),
    (0, 62_500_000),
    (0, 187_500_000),
    (0, 999_499_999),
    (0, 999_500_000),
    (0, 999_999_999),
    (1, 0),
    (2, 345_000_000),
    (2, 345_670_000),
    (59, 999_500_000),
    (3600, 500_000),
    ((1 << 32) - 1, 999_999_999),
    (1 << 32, 0),
    (1 << 32, 1_500_000),
    ((1 << 42) + 1, 1_500_000),
    ((1 << 43) - 1, 999_499_999),
    ((1 << 43) - 1, 488_770_000),
    ((1 << 43) - 3, 1_464_000),
    (MAX, 999_999_999),
];

/// durations of class K4 (≥ 2^43 s), most of them off by more than 1 ms through `as_secs_f64`
const DURS_K4: [(u64, u32); 10] = [
    (1 << 43, 0),
    ((1 << 43) + 1, 1_500_000),
    (12_564_216_744_490, 928_849_251),
    ((1 << 44) - 1, 999_000_000),
    (1 << 44, 1_500_000),
    ((1 << 44) + 1, 1_500_000),
    ((1 << 53) + 1, 0),
    (1 << 60, 999_000_000),
    (MAX - 1, 0),
    (MAX, 0),
];

const STRS: [&str; 20] = [
    "foo", "foo bar", "", "é日本🎵", " lead", "trail ", "a/b c.mp3", "\t", "x  y", "say \"hi\" it's", "a:b=c", "0",
    // strings a helpful constructor might take for something else: path roots, "no value" spellings, numerals with signs
    "/", "//", ".", "..", "-", "-1", "+0", "*",
];
const STRS_K1: [&str; 5] = ["Joe's", "a\\b", "x\"y", "'", "\\"];
const STRS_BAD: [&str; 3] = ["a\nb", "a\0b", "\n"];

fn h(s: &str) -> String {
    hex(s.as_bytes())
}

fn bound_tok(kind: usize, v: u64) -> String {
    match kind {
        0 => format!("i{v}"),
        1 => format!("e{v}"),
        _ => "u".into(),
    }
}

/// all 9 kind combinations × the value pairs
fn all_ranges() -> Vec<String> {
    let mut out = Vec::new();
    for ks in 0..3 {
        for ke in 0..3 {
            for (a, b) in PAIRS {
                out.push(format!("{},{}", bound_tok(ks, a), bound_tok(ke, b)));
            }
        }
    }
    out.sort();
    out.dedup();
    out
}

fn dur_tok(d: (u64, u32)) -> String {
    format!("{}.{}", d.0, d.1)
}

const FILTERS: [&str; 6] = [
    "Q(V4,666f6f)",                                   // Artist == "foo"
    "T(V28,2,6d6570206d6570)",                        // Title contains "mep mep"
    "N(Q(V0,61276229))",                              // !(Album == "a'b)")
    "A(Q(V4,666f6f);T(V13,1,-))",                     // Artist == foo AND Genre != ""
    "A(A(Q(V4,78);E(V0));M(X(V10)))",                 // flattened AND with NOT
    "Q(O616e79,e697a5e69cac)",                        // any == "日本"
];
const FILTER_K2: &str = "Q(V4,666f6f22626172)"; // foo"bar
const FILTER_BAD: &str = "Q(V4,610a62)"; // a LF b

const TAGS: [&str; 8] = ["V0", "V4", "V19", "V24", "V30", "O616e79", "T616c62756d", "O66696c65"];
const TAGS_HAND: [&str; 3] = ["O612062", "O", "O6122"]; // hand-built Other: "a b", "", a"
const TAG_BAD: &str = "O610a62";

fn boundary_ops() -> Vec<String> {
    let mut ops: Vec<String> = Vec::new();
    let ranges = all_ranges();
    // argument-less
    for n in [
        "clearQueue", "next", "ping", "previous", "stop", "replayGainStatus", "status", "stats", "queueAll", "queueAll.alt",
        "currentSong", "getPlaylists", "getEnabledTagTypes", "readChannelMessages", "listChannels", "shuffleAll", "playCurrent",
        "tagTypesEnableAll", "tagTypesDisableAll",
    ] {
        ops.push(format!("pc.{n}"));
    }
    let all_strs: Vec<&str> = STRS.iter().chain(STRS_K1.iter()).chain(STRS_BAD.iter()).copied().collect();
    // one string
    for n in ["clearPlaylist", "deletePlaylist", "saveQueueAsPlaylist", "subscribeToChannel", "unsubscribeFromChannel", "getPlaylist", "listAllIn", "stickerList"] {
        for s in &all_strs {
            ops.push(format!("pc.{n} {}", h(s)));
        }
    }
    ops.push("pc.listAllIn.alt -".into());
    ops.push(format!("pc.listAllIn.alt {}", h("dir")));
    // booleans
    for n in ["setConsume", "setPause", "setRandom", "setRepeat"] {
        ops.push(format!("pc.{n} 0"));
        ops.push(format!("pc.{n} 1"));
    }
    // enums
    for m in ["enabled", "disabled", "oneshot"] {
        ops.push(format!("pc.setSingle {m}"));
    }
    for m in ["off", "track", "album", "auto"] {
        ops.push(format!("pc.setReplayGainMode {m}"));
    }
    // volume: every u8
    for v in 0..=255 {
        ops.push(format!("pc.setVolume {v}"));
    }
    // numbers
    for v in NUMS {
        for a in ["", ".alt"] {
            ops.push(format!("pc.queueSong{a} id{v}"));
            ops.push(format!("pc.queueSong{a} pos{v}"));
            ops.push(format!("pc.playSong{a} id{v}"));
            ops.push(format!("pc.playSong{a} pos{v}"));
            ops.push(format!("pc.albumArt{a} {} {v}", h("a b.flac")));
            ops.push(format!("pc.albumArtEmbedded{a} {} {v}", h("x.mp3")));
            ops.push(format!("pc.addToPlaylist{a} {} {} {v}", h("pl"), h("song.mp3")));
            for k in ["a", "+", "-"] {
                ops.push(format!("pc.add{a} {} {k}{v}", h("foo/bar.mp3")));
            }
        }
        ops.push(format!("pc.deleteId {v}"));
        ops.push(format!("pc.deletePosition {v}"));
        ops.push(format!("pc.setBinaryLimit {v}"));
        ops.push(format!("pc.removeFromPlaylistPosition {} {v}", h("my list")));
        for w in NUMS {
            ops.push(format!("pc.moveInPlaylist {} {v} {w}", h("pl")));
        }
        for k in ["a", "+", "-"] {
            ops.push(format!("pc.move id{v} {k}{v}"));
            ops.push(format!("pc.move pos{v} {k}{}", MAX - v));
            ops.push(format!("pc.move ri3,e9 {k}{v}"));
        }
    }
    ops.push(format!("pc.add {} _", h("foo/bar.mp3")));
    ops.push(format!("pc.addToPlaylist {} {} _", h("pl"), h("song.mp3")));
    // ranges: every kind combination × value pair through every range-taking path
    for r in &ranges {
        ops.push(format!("pc.queueRange {r}"));
        ops.push(format!("pc.queueRange.alt {r}"));
        ops.push(format!("pc.shuffleRange {r}"));
        ops.push(format!("pc.deleteRange {r}"));
        ops.push(format!("pc.move r{r} a4"));
        ops.push(format!("pc.removeFromPlaylistRange {} {r}", h("pl")));
        ops.push(format!("pc.loadPlaylist {} {r}", h("pl")));
        ops.push(format!("pc.loadPlaylist.alt {} {r}", h("pl")));
        ops.push(format!("pc.find {} _ {r}", FILTERS[0]));
        ops.push(format!("pc.find.alt {} V4 {r}", FILTERS[1]));
    }
    ops.push(format!("pc.loadPlaylist {} _", h("pl")));
    // durations
    for d in DURS.iter().chain(DURS_K4.iter()) {
        let t = dur_tok(*d);
        ops.push(format!("pc.crossfade {t}"));
        ops.push(format!("pc.seekTo id7 {t}"));
        ops.push(format!("pc.seekTo pos3 {t}"));
        ops.push(format!("pc.seekTo.alt id7 {t}"));
        ops.push(format!("pc.seekTo.alt pos3 {t}"));
        for k in ["f", "b", "a"] {
            ops.push(format!("pc.seek {k}{t}"));
        }
    }
    // every millisecond boundary of the first 20 ms (± 1 ns) and ties of 1/16, 1/32, 1/64 s
    for ms in 0..20u32 {
        for dn in [499_999u32, 500_000, 500_001] {
            ops.push(format!("pc.seek a0.{}", ms * 1_000_000 + dn));
            ops.push(format!("pc.seekTo pos0 7.{}", ms * 1_000_000 + dn));
        }
    }
    for k in 0..64u32 {
        ops.push(format!("pc.seek f3.{}", k * 15_625_000));
    }
    // two and three strings
    for a in &all_strs {
        for b in ["foo", "x y", ""] {
            ops.push(format!("pc.renamePlaylist {} {}", h(a), h(b)));
            ops.push(format!("pc.renamePlaylist {} {}", h(b), h(a)));
            ops.push(format!("pc.sendChannelMessage {} {}", h(b), h(a)));
            ops.push(format!("pc.stickerGet {} {}", h(a), h(b)));
            ops.push(format!("pc.stickerDelete {} {}", h(b), h(a)));
            ops.push(format!("pc.stickerSet {} {} {}", h(b), h("rating"), h(a)));
            ops.push(format!("pc.stickerSet {} {} {}", h(a), h(b), h("5")));
            ops.push(format!("pc.addToPlaylist {} {} 3", h(a), h(b)));
            ops.push(format!("pc.albumArt {} 0", h(a)));
            ops.push(format!("pc.removeFromPlaylistPosition {} 0", h(a)));
            ops.push(format!("pc.moveInPlaylist {} 1 2", h(a)));
            ops.push(format!("pc.loadPlaylist {} i0,e2", h(a)));
            ops.push(format!("pc.add {} a1", h(a)));
            for k in ["_", "eq", "lt", "gt"] {
                let f = if k == "_" { "_".to_string() } else { format!("{k}:{}", h(a)) };
                ops.push(format!("pc.stickerFind {} {} {f}", h("song.mp3"), h(b)));
            }
        }
        ops.push(format!("pc.update {}", h(a)));
        ops.push(format!("pc.update.alt {}", h(a)));
        ops.push(format!("pc.rescan {}", h(a)));
        ops.push(format!("pc.rescan.alt {}", h(a)));
        ops.push(format!("pc.stickerFind.alt {} {} eq:{}", h("u"), h("n"), h(a)));
    }
    for n in ["update", "update.alt", "rescan", "rescan.alt"] {
        ops.push(format!("pc.{n} _"));
    }
    // filters and tags
    let all_filters: Vec<&str> = FILTERS.iter().copied().chain([FILTER_K2, FILTER_BAD]).collect();
    let all_tags: Vec<&str> = TAGS.iter().chain(TAGS_HAND.iter()).copied().chain([TAG_BAD]).collect();
    for f in &all_filters {
        ops.push(format!("pc.count {f}"));
        for t in &all_tags {
            for a in ["", ".alt"] {
                ops.push(format!("pc.find{a} {f} {t} _"));
                ops.push(format!("pc.find{a} {f} {t} i2,i5"));
                ops.push(format!("pc.countGrouped{a} {t} {f}"));
                ops.push(format!("pc.list{a} {t} {f} _"));
                ops.push(format!("pc.list{a} V0 {f} {t}"));
                ops.push(format!("pc.list{a} {t} {f} V3,{t},V5"));
            }
        }
        ops.push(format!("pc.find {f} _ _"));
    }
    for t in &all_tags {
        ops.push(format!("pc.countGrouped {t} _"));
        ops.push(format!("pc.list {t} _ _"));
        ops.push(format!("pc.list.alt {t} _ _"));
        ops.push(format!("pc.list {t} _ {t},V1"));
        ops.push(format!("pc.tagTypesDisable {t}"));
        ops.push(format!("pc.tagTypesEnable {t},V2,{t}"));
    }
    // every named tag in every tag position
    for i in 0..31 {
        ops.push(format!("pc.list V{i} _ V{}", (i + 1) % 31));
        ops.push(format!("pc.find {} V{i} _", FILTERS[0]));
        ops.push(format!("pc.countGrouped V{i} _"));
        ops.push(format!("pc.tagTypesEnable V{i}"));
    }
    let all31: Vec<String> = (0..31).map(|i| format!("V{i}")).collect();
    ops.push(format!("pc.tagTypesDisable {}", all31.join(",")));
    for n in 0..=6 {
        let g: Vec<String> = (0..n).map(|i| format!("V{}", i * 3)).collect();
        let g = if g.is_empty() { "_".to_string() } else { g.join(",") };
        ops.push(format!("pc.list V28 {} {g}", FILTERS[3]));
        ops.push(format!("pc.list.alt V28 {} {g}", FILTERS[3]));
    }
    // documented constructor panics
    ops.push("pc.tagTypesDisable _".into());
    ops.push("pc.tagTypesEnable _".into());
    for r in ["i3,u", "e3,u", "u,u"] {
        ops.push(format!("pc.move r{r} a0"));
    }
    ops
}

fn r_num(r: &mut Rng) -> u64 {
    match r.below(10) {
        0..=2 => *r.pick(&NUMS),
        3..=6 => r.below(1000) as u64,
        7 => r.next() >> r.below(64),
        8 => (1u64 << r.below(64)).wrapping_add(r.below(3) as u64).wrapping_sub(1),
        _ => r.next(),
    }
}

fn r_bound(r: &mut Rng) -> String {
    let v = r_num(r);
    bound_tok(r.below(3), v)
}

fn r_range(r: &mut Rng) -> String {
    if r.chance(1, 3) {
        // related bounds: empty / one element / inverted by one
        let a = r_num(r);
        let b = match r.below(4) {
            0 => a,
            1 => a.saturating_add(1),
            2 => a.saturating_sub(1),
            _ => a.saturating_add(r.below(10) as u64),
        };
        format!("{},{}", bound_tok(r.below(3), a), bound_tok(r.below(3), b))
    } else {
        format!("{},{}", r_bound(r), r_bound(r))
    }
}

fn r_dur(r: &mut Rng) -> String {
    let secs = match r.below(10) {
        0..=4 => r.below(7200) as u64,
        5 | 6 => r.next() >> (21 + r.below(43)), // anything below 2^43
        7 => (1u64 << r.below(44)).saturating_sub(1 + r.below(2) as u64),
        8 => r.below(3) as u64,
        _ => r.next() >> 21, // < 2^43
    };
    let nanos = match r.below(8) {
        0 => 0,
        1 => r.below(1000) as u32 * 1_000_000,
        2 => r.below(1000) as u32 * 1_000_000 + *r.pick(&[499_999u32, 500_000, 500_001]),
        3 => r.below(64) as u32 * 15_625_000,
        _ => r.below(1_000_000_000) as u32,
    };
    format!("{secs}.{nanos}")
}

/// a string without K1 / LF / NUL (those have dedicated streams)
fn r_str(r: &mut Rng) -> String {
    let s = match r.below(6) {
        0 => r.pick(&STRS).to_string(),
        1 => format!("{}/{} {}.flac", gen_text(r, 6), gen_text(r, 6), gen_text(r, 4)),
        _ => gen_text(r, 12),
    };
    let s = s.replace(['\n', '\0'], " ");
    let special = s.contains(['\'', '"', '\\']);
    let blank = s.is_empty() || s.bytes().any(|b| b <= b' ');
    if special && !blank {
        format!("{s} ")
    } else {
        s
    }
}

fn r_tag(r: &mut Rng) -> String {
    match r.below(8) {
        0 => r.pick(&TAGS).to_string(),
        1 => format!("T{}", h(crate::tags::MPD_TAG_NAMES[r.below(35)])),
        _ => format!("V{}", r.below(31)),
    }
}

fn r_filter(r: &mut Rng) -> String {
    fn leaf(r: &mut Rng) -> String {
        let v = r_str(r).replace('"', "'");
        match r.below(5) {
            0 => format!("E({})", r_tag(r)),
            1 => format!("Q({},{})", r_tag(r), h(&v)),
            _ => format!("T({},{},{})", r_tag(r), r.below(5), h(&v)),
        }
    }
    match r.below(8) {
        0 => r.pick(&FILTERS).to_string(),
        1 => format!("N({})", leaf(r)),
        2 => format!("A({};{})", leaf(r), leaf(r)),
        3 => format!("A(A({};{});M({}))", leaf(r), leaf(r), leaf(r)),
        _ => leaf(r),
    }
}

fn r_pos(r: &mut Rng) -> String {
    format!("{}{}", r.pick(&["a", "+", "-"]), r_num(r))
}

fn r_song(r: &mut Rng) -> String {
    format!("{}{}", r.pick(&["id", "pos"]), r_num(r))
}

fn maybe_alt(r: &mut Rng) -> &'static str {
    if r.chance(1, 3) {
        ".alt"
    } else {
        ""
    }
}

fn random_op(r: &mut Rng) -> String {
    let a = maybe_alt(r);
    match r.below(44) {
        0 => format!("pc.{} {}", r.pick(&["clearPlaylist", "deletePlaylist", "saveQueueAsPlaylist", "getPlaylist"]), h(&r_str(r))),
        1 => format!("pc.{} {}", r.pick(&["subscribeToChannel", "unsubscribeFromChannel", "stickerList"]), h(&r_str(r))),
        2 => format!("pc.queueSong{a} {}", r_song(r)),
        3 => format!("pc.queueRange{a} {}", r_range(r)),
        4 => format!("pc.crossfade {}", r_dur(r)),
        5 | 6 => format!("pc.seekTo{a} {} {}", r_song(r), r_dur(r)),
        7 | 8 => format!("pc.seek {}{}", r.pick(&["f", "b", "a"]), r_dur(r)),
        9 => format!("pc.shuffleRange {}", r_range(r)),
        10 => format!("pc.playSong{a} {}", r_song(r)),
        11 | 12 => {
            let p = if r.chance(1, 4) { "_".to_string() } else { r_pos(r) };
            format!("pc.add{a} {} {p}", h(&r_str(r)))
        }
        13 => format!("pc.deleteId {}", r_num(r)),
        14 => format!("pc.deletePosition {}", r_num(r)),
        15 => format!("pc.deleteRange {}", r_range(r)),
        16 | 17 => {
            let f = match r.below(3) {
                0 => format!("id{}", r_num(r)),
                1 => format!("pos{}", r_num(r)),
                _ => {
                    // closed end (an open end is the documented constructor panic)
                    let s = r_bound(r);
                    let v = r_num(r);
                    let e = bound_tok(r.below(2), v);
                    format!("r{s},{e}")
                }
            };
            format!("pc.move {f} {}", r_pos(r))
        }
        18..=20 => {
            let s = if r.chance(1, 2) { r_tag(r) } else { "_".into() };
            let w = if r.chance(1, 2) { r_range(r) } else { "_".into() };
            format!("pc.find{a} {} {s} {w}", r_filter(r))
        }
        21..=23 => {
            let f = if r.chance(1, 2) { r_filter(r) } else { "_".into() };
            let n = *r.pick(&[0usize, 0, 1, 1, 2, 3, 6]);
            let g = if n == 0 { "_".to_string() } else { (0..n).map(|_| r_tag(r)).collect::<Vec<_>>().join(",") };
            format!("pc.list{a} {} {f} {g}", r_tag(r))
        }
        24 => format!("pc.count {}", r_filter(r)),
        25 => {
            let f = if r.chance(2, 3) { r_filter(r) } else { "_".into() };
            format!("pc.countGrouped{a} {} {f}", r_tag(r))
        }
        26 => format!("pc.renamePlaylist {} {}", h(&r_str(r)), h(&r_str(r))),
        27 => {
            let w = if r.chance(2, 3) { r_range(r) } else { "_".into() };
            format!("pc.loadPlaylist{a} {} {w}", h(&r_str(r)))
        }
        28 => {
            let p = if r.chance(2, 3) { r_num(r).to_string() } else { "_".into() };
            format!("pc.addToPlaylist{a} {} {} {p}", h(&r_str(r)), h(&r_str(r)))
        }
        29 => format!("pc.removeFromPlaylistPosition {} {}", h(&r_str(r)), r_num(r)),
        30 => format!("pc.removeFromPlaylistRange {} {}", h(&r_str(r)), r_range(r)),
        31 => format!("pc.moveInPlaylist {} {} {}", h(&r_str(r)), r_num(r), r_num(r)),
        32 => format!("pc.listAllIn{a} {}", h(&r_str(r))),
        33 => format!("pc.setBinaryLimit {}", r_num(r)),
        34 => format!("pc.{}{a} {} {}", r.pick(&["albumArt", "albumArtEmbedded"]), h(&r_str(r)), r_num(r)),
        35 => {
            let n = r.range(1, 5);
            let g = (0..n).map(|_| r_tag(r)).collect::<Vec<_>>().join(",");
            format!("pc.{} {g}", r.pick(&["tagTypesDisable", "tagTypesEnable"]))
        }
        36 => format!("pc.{} {} {}", r.pick(&["stickerGet", "stickerDelete"]), h(&r_str(r)), h(&r_str(r))),
        37 => format!("pc.stickerSet {} {} {}", h(&r_str(r)), h(&r_str(r)), h(&r_str(r))),
        38 | 39 => {
            let f = if r.chance(1, 4) { "_".to_string() } else { format!("{}:{}", r.pick(&["eq", "lt", "gt"]), h(&r_str(r))) };
            format!("pc.stickerFind{a} {} {} {f}", h(&r_str(r)), h(&r_str(r)))
        }
        40 => {
            let u = if r.chance(1, 4) { "_".to_string() } else { h(&r_str(r)) };
            format!("pc.{}{a} {u}", r.pick(&["update", "rescan"]))
        }
        41 => format!("pc.sendChannelMessage {} {}", h(&r_str(r)), h(&r_str(r))),
        42 => format!("pc.setVolume {}", r.below(256)),
        _ => format!("pc.{} {}", r.pick(&["setConsume", "setPause", "setRandom", "setRepeat"]), r.below(2)),
    }
}

/// dedicated small streams: K1 strings, LF / NUL, K2 filters, hand-built tags
fn outside_op(r: &mut Rng) -> String {
    let s = match r.below(3) {
        0 => r.pick(&STRS_K1).to_string(),
        1 => r.pick(&STRS_BAD).to_string(),
        _ => {
            let mut t = gen_text(r, 8).replace(' ', "_");
            t.push(*r.pick(&['\'', '"', '\\', '\n', '\0']));
            t
        }
    };
    match r.below(8) {
        0 => format!("pc.add {} {}", h(&s), r_pos(r)),
        1 => format!("pc.stickerSet {} {} {}", h(&r_str(r)), h(&s), h(&r_str(r))),
        2 => format!("pc.renamePlaylist {} {}", h(&r_str(r)), h(&s)),
        3 => format!("pc.find Q(V4,{}) _ _", h(&s)),
        4 => format!("pc.list V0 T(V4,2,{}) V3", h(&s)),
        5 => format!("pc.find {} O{} _", FILTERS[0], h(&s)),
        6 => format!("pc.tagTypesEnable V1,O{}", h(&s)),
        _ => format!("pc.update {}", h(&s)),
    }
}

pub fn gen(cfg: &Cfg) -> Vec<String> {
    let mut r = Rng::new(cfg.seed ^ 0xC15);
    let mut ops = boundary_ops();
    let n = cfg.n.unwrap_or(if cfg.thorough { 300_000 } else { 20_000 });
    // durations just below the K4 threshold 2^43 s, where binary + decimal rounding come closest to 1 ms
    for _ in 0..n / 20 {
        let secs = (1u64 << 43) - 1 - (r.next() >> (21 + r.below(30)));
        let nanos = r.below(1_000_000_000);
        ops.push(format!("pc.seek {}{secs}.{nanos}", r.pick(&["f", "b", "a"])));
    }
    for i in 0..n {
        if i % 25 == 24 {
            ops.push(outside_op(&mut r));
        } else {
            ops.push(random_op(&mut r));
        }
    }
    ops
}
