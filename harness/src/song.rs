//! Family `song` (C14 and the song half of C12): the song listing decoders.
//!
//! ops
//!   song.<cmd> <fields>            field soup; `<fields>` = `k=v,k=v,…` (hex, `_` = no field)
//!   song.listing.<cmd> <listing>   abstract listing: entries joined by `;` (`_` = empty), an entry is
//!                                  `S:<url>:<fields>` | `D:<path>:<fields>` | `P:<path>:<fields>`
//! `<cmd>` ∈ queue, queuerange, currentsong, find, getplaylist, listallinfo, addid.
//!
//! The wire bytes (`key: value\n`… `OK\n`) go through the REAL protocol parser
//! (`Connection::connect` on a reader serving the greeting, then `receive`, `into_single_frame`), the
//! frame through the REAL `Command::response` of the command, and EVERY public field and accessor of
//! every returned song is read and printed canonically:
//!   song  = [P<pos>;I<id>;R<prio>;G<range>;]U<url>;D<dur>;F<format>;M<last-modified raw>;T<tags>;A<accessors>
//!   dur   = `_` | <secs>.<nanos>          range = `_` | <dur>-<dur|_>
//!   tags  = `_` | <name>:<v>+<v>,…  sorted bytewise by protocol name
//!   accessors = title/album/artists/album_artists/disc.track/file_path
//! result = `ok:` songs joined by `|` (`ok:none` for an absent current song, `ok:<id>` for addid),
//! `terr` for a typed-response error, `invalid` if the protocol parser rejected the bytes, and
//! `PANIC` (printed by main.rs). `song.listing.*` appends `@` and the fields of the parsed frame.

use std::io::Read;

use mpd_client::commands::{self as cmds, Command, SongPosition};
use mpd_client::filter::Filter;
use mpd_client::responses::{Song, SongInQueue, TypedResponseError};
use mpd_client::tag::Tag;
use mpd_protocol::response::Frame;
use mpd_protocol::Connection;

use crate::tags::tag_name;
use crate::util::{gen_text, gen_word, hex, unhex, Rng};
use crate::Cfg;

pub const CMDS: &[&str] = &["queue", "queuerange", "currentsong", "find", "getplaylist", "listallinfo", "addid"];

/// Serves the greeting in the first read and the response afterwards (`connect` discards whatever
/// arrives in the same read as the greeting).
struct Script {
    parts: Vec<Vec<u8>>,
    idx: usize,
    off: usize,
}

impl Read for Script {
    fn read(&mut self, buf: &mut [u8]) -> std::io::Result<usize> {
        while self.idx < self.parts.len() && self.off == self.parts[self.idx].len() {
            self.idx += 1;
            self.off = 0;
        }
        if self.idx >= self.parts.len() {
            return Ok(0);
        }
        let p = &self.parts[self.idx];
        let n = buf.len().min(p.len() - self.off);
        buf[..n].copy_from_slice(&p[self.off..self.off + n]);
        self.off += n;
        Ok(n)
    }
}

fn parse_frame(wire: Vec<u8>) -> Option<Frame> {
    // history that must be irrelevant: for every other op the connection has first answered another
    // command with some output followed by an ACK (MPD streams listings, so that is legal); the
    // listing that follows must decode as on a fresh connection
    let stale = wire.len() % 2 == 0;
    let mut data = Vec::new();
    if stale {
        data.extend_from_slice(b"file: stale/gone.flac\nTitle: stale\nACK [50@0] {listplaylistinfo} No such playlist\n");
    }
    data.extend_from_slice(&wire);
    let io = Script { parts: vec![b"OK MPD 0.23.5\n".to_vec(), data], idx: 0, off: 0 };
    let mut c = Connection::connect(io).ok()?;
    if stale {
        let first = c.receive().ok()??;
        if !first.is_error() {
            return None;
        }
    }
    let r = c.receive().ok()??;
    r.into_single_frame().ok()
}

fn wire_of(fields: &[(Vec<u8>, Vec<u8>)]) -> Vec<u8> {
    let mut w = Vec::new();
    for (k, v) in fields {
        w.extend_from_slice(k);
        w.extend_from_slice(b": ");
        w.extend_from_slice(v);
        w.push(b'\n');
    }
    w.extend_from_slice(b"OK\n");
    w
}

// ---------------------------------------------------------------- canonical printer

fn hex_opt(o: Option<&str>) -> String {
    match o {
        None => "_".into(),
        Some(s) => hex(s.as_bytes()),
    }
}

fn hex_list(l: &[String]) -> String {
    if l.is_empty() {
        "_".into()
    } else {
        l.iter().map(|s| hex(s.as_bytes())).collect::<Vec<_>>().join("+")
    }
}

fn fmt_dur(d: std::time::Duration) -> String {
    format!("{}.{}", d.as_secs(), d.subsec_nanos())
}

fn fmt_dur_opt(d: Option<std::time::Duration>) -> String {
    d.map(fmt_dur).unwrap_or_else(|| "_".into())
}

fn fmt_song(s: &Song) -> String {
    let mut tags: Vec<(Vec<u8>, &Vec<String>)> = s.tags.iter().map(|(t, v)| (tag_name(t), v)).collect();
    tags.sort();
    // the map must be usable with every spelling of a key that `Tag` documents as equal: the tag
    // parsed from the name, and the catch-all variant holding the same name
    let mut lookup_bad = Vec::new();
    for (t, v) in s.tags.iter() {
        let name = String::from_utf8(tag_name(t)).unwrap();
        let other = mpd_client::tag::Tag::Other(name.clone().into_boxed_str());
        if s.tags.get(&other) != Some(v) {
            lookup_bad.push(format!("other:{name}"));
        }
        if let Ok(parsed) = mpd_client::tag::Tag::try_from(name.as_str()) {
            if s.tags.get(&parsed) != Some(v) {
                lookup_bad.push(format!("parsed:{name}"));
            }
        }
    }
    if !lookup_bad.is_empty() {
        lookup_bad.sort();
        return format!("LOOKUP-INCONSISTENT[{}]", lookup_bad.join(","));
    }
    let t = if tags.is_empty() {
        "_".to_string()
    } else {
        tags.iter().map(|(n, v)| format!("{}:{}", hex(n), hex_list(v))).collect::<Vec<_>>().join(",")
    };
    let (disc, track) = s.number();
    format!(
        "U{};D{};F{};M{};T{};A{}/{}/{}/{}/{}.{}/{}",
        hex(s.url.as_bytes()),
        fmt_dur_opt(s.duration),
        hex_opt(s.format.as_deref()),
        hex_opt(s.last_modified.as_ref().map(|t| t.raw())),
        t,
        hex_opt(s.title()),
        hex_opt(s.album()),
        hex_list(s.artists()),
        hex_list(s.album_artists()),
        disc,
        track,
        hex(s.file_path().to_str().map(|p| p.as_bytes()).unwrap_or(b"?")),
    )
}

fn fmt_qsong(q: &SongInQueue) -> String {
    let g = match q.range {
        None => "_".to_string(),
        Some(r) => format!("{}-{}", fmt_dur(r.from), fmt_dur_opt(r.to)),
    };
    format!("P{};I{};R{};G{};{}", q.position.0, q.id.0, q.priority, g, fmt_song(&q.song))
}

fn fmt_songs(r: Result<Vec<Song>, TypedResponseError>) -> String {
    match r {
        Err(_) => "terr".into(),
        Ok(l) => format!("ok:{}", l.iter().map(fmt_song).collect::<Vec<_>>().join("|")),
    }
}

fn fmt_qsongs(r: Result<Vec<SongInQueue>, TypedResponseError>) -> String {
    match r {
        Err(_) => "terr".into(),
        Ok(l) => format!("ok:{}", l.iter().map(fmt_qsong).collect::<Vec<_>>().join("|")),
    }
}

/// the real `Command::response` of `<cmd>` on the frame
fn run_cmd(cmd: &str, frame: Frame, variant: usize) -> String {
    match cmd {
        "queue" => fmt_qsongs(cmds::Queue::all().response(frame)),
        "queuerange" => {
            let c = match variant % 3 {
                0 => cmds::QueueRange::song(SongPosition(0)),
                1 => cmds::QueueRange::song(cmds::SongId(7)),
                _ => cmds::QueueRange::range(SongPosition(0)..SongPosition(10)),
            };
            fmt_qsongs(c.response(frame))
        }
        "currentsong" => match cmds::CurrentSong.response(frame) {
            Err(_) => "terr".into(),
            Ok(None) => "ok:none".into(),
            Ok(Some(q)) => format!("ok:{}", fmt_qsong(&q)),
        },
        "find" => fmt_songs(cmds::Find::new(Filter::tag(Tag::Artist, "x")).response(frame)),
        "getplaylist" => fmt_songs(cmds::GetPlaylist("p").response(frame)),
        "listallinfo" => {
            let c = if variant % 2 == 0 { cmds::ListAllIn::root() } else { cmds::ListAllIn::directory("d") };
            fmt_songs(c.response(frame))
        }
        "addid" => match cmds::Add::uri("x").response(frame) {
            Err(_) => "terr".into(),
            Ok(id) => format!("ok:{}", id.0),
        },
        _ => "badcmd".into(),
    }
}

// ---------------------------------------------------------------- op (de)serialisation

type Fields = Vec<(Vec<u8>, Vec<u8>)>;

#[derive(Clone)]
struct Entry {
    kind: char, // S D P
    path: Vec<u8>,
    lines: Fields,
}

fn ser_fields(f: &[(Vec<u8>, Vec<u8>)]) -> String {
    if f.is_empty() {
        "_".into()
    } else {
        f.iter().map(|(k, v)| format!("{}={}", hex(k), hex(v))).collect::<Vec<_>>().join(",")
    }
}

fn de_fields(s: &str) -> Fields {
    if s == "_" {
        return Vec::new();
    }
    s.split(',')
        .map(|p| {
            let (k, v) = p.split_once('=').expect("field k=v");
            (unhex(k), unhex(v))
        })
        .collect()
}

fn ser_listing(l: &[Entry]) -> String {
    if l.is_empty() {
        "_".into()
    } else {
        l.iter().map(|e| format!("{}:{}:{}", e.kind, hex(&e.path), ser_fields(&e.lines))).collect::<Vec<_>>().join(";")
    }
}

fn de_listing(s: &str) -> Vec<Entry> {
    if s == "_" {
        return Vec::new();
    }
    s.split(';')
        .map(|e| {
            let mut it = e.splitn(3, ':');
            let kind = it.next().unwrap().chars().next().unwrap();
            let path = unhex(it.next().unwrap());
            let lines = de_fields(it.next().unwrap());
            Entry { kind, path, lines }
        })
        .collect()
}

/// the harness's own wire encoding of an abstract listing
fn enc_listing(l: &[Entry]) -> Fields {
    let mut out = Vec::new();
    for e in l {
        let k: &[u8] = match e.kind {
            'S' => b"file",
            'D' => b"directory",
            _ => b"playlist",
        };
        out.push((k.to_vec(), e.path.clone()));
        out.extend(e.lines.iter().cloned());
    }
    out
}

fn variant_of(s: &str) -> usize {
    s.len()
}

pub fn exec(op: &[&str]) -> String {
    if op.len() != 2 {
        return "badop".into();
    }
    let parts: Vec<&str> = op[0].split('.').collect();
    match parts.as_slice() {
        ["song", cmd] => {
            let fields = de_fields(op[1]);
            match parse_frame(wire_of(&fields)) {
                None => "invalid".into(),
                Some(frame) => run_cmd(cmd, frame, variant_of(op[1])),
            }
        }
        ["song", "listing", cmd] => {
            let l = de_listing(op[1]);
            let fields = enc_listing(&l);
            match parse_frame(wire_of(&fields)) {
                None => "invalid".into(),
                Some(frame) => {
                    // what the decoder is handed: the fields of the parsed frame, in iteration order
                    let seen: Fields =
                        frame.clone().into_iter().map(|(k, v)| (k.as_bytes().to_vec(), v.into_bytes())).collect();
                    format!("{}@{}", run_cmd(cmd, frame, variant_of(op[1])), ser_fields(&seen))
                }
            }
        }
        _ => "badop".into(),
    }
}

// ---------------------------------------------------------------- generators

const DUR_OK: &[&str] = &[
    "0", "1", "123", "123.456", "0.001", "0.000", "3600.5", "215.307", "1e3", "1E2", "+5", "-0", ".5", "5.",
    "0.0000000005", "0.0000000015", "1.0000000005", "4294967296.250", "18446744073709549568", "9007199254740993",
    "00012.500", "1e-400", "2.5e-324", "-1e-400", "0.999999999", "0.9999999995", "4503599627370496.5", "1e19",
];
const DUR_BAD: &[&str] = &[
    "", "-1", "18446744073709551616", "18446744073709551615", "1e400", "nan", "NaN", "inf", "-inf", "infinity", "abc",
    "1.5.5", "1,5", " 1", "1 ", "0x10", "1e", "e5", ".", "-", "+", "1_000", "1e20", "-0.000000001", "1:30",
];
const RANGE_OK: &[&str] = &[
    "1.500-5.642", "1.500-", "0-", "0.000-0.000", "0-18446744073709549568", "1e3-2e3", "+1-+2", "5--0", "10-3", ".5-5.",
];
const RANGE_BAD: &[&str] = &[
    "foo", "1.000--5.000", "-", "-5", "", "1.5", "1.5-2.5-3", "a:b:c", "1e-3-5", "0-nan", "0-1e400", "nan-", "1-18446744073709551616",
    " 1-2", "1-2 ", "-1-", "5-inf",
];
const INT_OK: &[&str] = &[
    "0", "1", "7", "42", "255", "256", "65535", "4294967295", "4294967296", "9007199254740993", "18446744073709551615",
    "007",
];
const INT_ODD: &[&str] = &[
    "+7", "+0", "18446744073709551616", "99999999999999999999999", "-1", "-0", "", " 1", "1 ", "1.0", "abc", "٣", "1e3", "+",
    "0x1f",
];
const TS_VALUES: &[&str] = &[
    "2020-06-12T17:53:00Z", "2024-02-29T23:59:60Z", "1970-01-01T00:00:00Z", "", "yesterday", "2020-06-12 17:53:00",
    "2020-06-12T17:53:00+02:00",
];
const FORMATS: &[&str] = &["44100:16:2", "48000:24:2", "dsd64:2", "*:*:*", "", "96000:f:6", "a:b:c"];
const UNKNOWN_TAGS: &[&str] = &[
    "Mood", "TitleSort", "ShowMovement", "MUSICBRAINZ_RELEASEGROUPID", "Added", "x-custom", "_", "-", "a", "File",
    "DURATION", "Duration", "time", "TIME", "pos", "ID", "id", "prio", "range", "Directory", "PlayList", "last-modified",
    "Last_Modified", "format", "OK", "ACK", "list_OK", "Binary", "Files", "fil", "Timee", "Po",
];
pub const ATTRS: &[&str] = &["duration", "Time", "Range", "Format", "Last-Modified", "Prio", "Pos", "Id"];

fn mixed_case(r: &mut Rng, s: &str) -> String {
    match r.below(5) {
        0 | 1 => s.to_string(),
        2 => s.to_ascii_lowercase(),
        3 => s.to_ascii_uppercase(),
        _ => s.chars().map(|c| if r.chance(1, 2) { c.to_ascii_uppercase() } else { c.to_ascii_lowercase() }).collect(),
    }
}

fn gen_value(r: &mut Rng) -> String {
    match r.below(8) {
        0 => String::new(),
        1 => r.pick(&["1", "3", "12", "2/12", "0", "+4", "18446744073709551615", "18446744073709551616", "x"]).to_string(),
        _ => gen_text(r, 10),
    }
}

fn gen_url(r: &mut Rng) -> String {
    loop {
        let s = match r.below(4) {
            0 => format!("{}/{}.flac", gen_word(r, 1, 6), gen_word(r, 1, 6)),
            1 => format!("http://{}.example/{}", gen_word(r, 1, 5), gen_text(r, 6)),
            _ => gen_text(r, 12),
        };
        if !s.is_empty() {
            return s;
        }
    }
}

fn tag_key(r: &mut Rng, names: &[String], pool: &mut Vec<String>) -> String {
    // repeated tags are likely: half of the time reuse a key already used in this song
    if !pool.is_empty() && r.chance(1, 2) {
        let k = r.pick(pool).clone();
        return if r.chance(1, 3) { mixed_case(r, &k) } else { k };
    }
    let k = match r.below(10) {
        0 | 1 => r.pick(UNKNOWN_TAGS).to_string(),
        2 => {
            let mut w = gen_word(r, 1, 10);
            if r.chance(1, 3) {
                w = w.replace('_', "-");
            }
            w
        }
        _ => {
            let n = r.pick(names).clone();
            mixed_case(r, &n)
        }
    };
    pool.push(k.clone());
    k
}

fn usable_key(k: &str) -> bool {
    // keys that would not come back as this very field from the protocol parser, or start an entry
    !k.is_empty() && k != "binary" && k != "file" && k != "directory" && k != "playlist"
}

/// one well-formed line of a song entry
fn gen_line(r: &mut Rng, names: &[String], pool: &mut Vec<String>) -> (Vec<u8>, Vec<u8>) {
    let (k, v): (String, String) = match r.below(20) {
        0 | 1 => ("duration".into(), r.pick(DUR_OK).to_string()),
        2 | 3 => ("Time".into(), if r.chance(2, 3) { r.below(10_000).to_string() } else { r.pick(DUR_OK).to_string() }),
        4 => ("Range".into(), r.pick(RANGE_OK).to_string()),
        5 => ("Format".into(), r.pick(FORMATS).to_string()),
        6 => ("Last-Modified".into(), r.pick(TS_VALUES).to_string()),
        7 => ("Prio".into(), r.pick(&["0", "1", "10", "128", "255", "007"]).to_string()),
        8 => ("Pos".into(), if r.chance(1, 2) { r.below(1000).to_string() } else { r.pick(INT_OK).to_string() }),
        9 => ("Id".into(), if r.chance(1, 2) { r.below(1000).to_string() } else { r.pick(INT_OK).to_string() }),
        _ => loop {
            let k = tag_key(r, names, pool);
            if usable_key(&k) && !ATTRS.contains(&k.as_str()) {
                break (k, gen_value(r));
            }
        },
    };
    (k.into_bytes(), v.into_bytes())
}

fn gen_listing(r: &mut Rng, names: &[String]) -> Vec<Entry> {
    let n = r.below(9);
    let mut l = Vec::new();
    for _ in 0..n {
        match r.below(10) {
            0 | 1 => {
                let k = r.below(3);
                let lines = (0..k).map(|_| (b"Last-Modified".to_vec(), r.pick(TS_VALUES).as_bytes().to_vec())).collect();
                l.push(Entry { kind: if r.chance(1, 2) { 'D' } else { 'P' }, path: gen_text(r, 10).into_bytes(), lines });
            }
            _ => {
                let k = match r.below(4) {
                    0 => r.below(3),
                    _ => r.below(15),
                };
                let mut pool = Vec::new();
                let lines = (0..k).map(|_| gen_line(r, names, &mut pool)).collect();
                l.push(Entry { kind: 'S', path: gen_url(r).into_bytes(), lines });
            }
        }
    }
    l
}

/// break a well-formed listing in one place (out-of-domain value, attribute after a directory entry,
/// empty URL, attribute before the first entry)
fn perturb(r: &mut Rng, l: &mut Vec<Entry>) {
    if l.is_empty() {
        l.push(Entry { kind: 'S', path: b"a".to_vec(), lines: Vec::new() });
    }
    let i = r.below(l.len());
    let e = &mut l[i];
    match r.below(5) {
        0 => e.path.clear(),
        1 if e.kind != 'S' => {
            e.lines.push((r.pick(&["Title", "duration", "Pos", "Format"]).as_bytes().to_vec(), b"1".to_vec()));
        }
        _ => {
            let (k, v) = match r.below(6) {
                0 => ("duration", *r.pick(DUR_BAD)),
                1 => ("Time", *r.pick(DUR_BAD)),
                2 => ("Range", *r.pick(RANGE_BAD)),
                3 => ("Prio", *r.pick(&["256", "-1", "", "1000", "+7", "abc"])),
                4 => ("Pos", *r.pick(INT_ODD)),
                _ => ("Id", *r.pick(INT_ODD)),
            };
            let p = r.below(e.lines.len() + 1);
            e.lines.insert(p, (k.as_bytes().to_vec(), v.as_bytes().to_vec()));
        }
    }
}

fn boundary_values() -> Vec<&'static str> {
    let mut v: Vec<&'static str> = Vec::new();
    for t in [DUR_OK, DUR_BAD, RANGE_OK, RANGE_BAD, INT_OK, INT_ODD, TS_VALUES, FORMATS] {
        for s in t {
            if !v.contains(s) {
                v.push(s);
            }
        }
    }
    v
}

fn gen_soup(r: &mut Rng, names: &[String], bvals: &[&str]) -> Fields {
    let n = r.below(13);
    let mut pool = Vec::new();
    let mut out = Vec::new();
    for i in 0..n {
        let k: String = match r.below(20) {
            0..=4 => "file".into(),
            5 => "directory".into(),
            6 => "playlist".into(),
            7..=13 => r.pick(ATTRS).to_string(),
            14..=17 => tag_key(r, names, &mut pool),
            18 if r.chance(1, 4) => r.pick(crate::typed::ALIEN_KEYS).to_string(),
            _ => {
                // garbage within the field-name alphabet
                let n = r.range(1, 8);
                (0..n).map(|_| *r.pick(&['a', 'Z', '_', '-', 'i', 'd', 'P', 'o', 's', 'T', 'e'])).collect()
            }
        };
        if k.is_empty() || k == "binary" {
            continue;
        }
        let v: String = if i == 0 && k == "file" && r.chance(9, 10) {
            gen_url(r)
        } else {
            match r.below(10) {
                0 if r.chance(1, 6) => crate::typed::long_value(r),
                0..=2 => r.pick(bvals).to_string(),
                3 => String::new(),
                4 | 5 => gen_value(r),
                _ => match k.as_str() {
                    "duration" | "Time" => r.pick(DUR_OK).to_string(),
                    "Range" => r.pick(RANGE_OK).to_string(),
                    "Prio" | "Pos" | "Id" => r.pick(INT_OK).to_string(),
                    _ => gen_text(r, 8),
                },
            }
        };
        out.push((k.into_bytes(), v.into_bytes()));
    }
    out
}

pub fn gen(cfg: &Cfg) -> Vec<String> {
    let mut r = Rng::new(cfg.seed);
    let mut ops = Vec::new();
    // MPD's tag names from the harness's own table, NOT derived from the library under test (a name
    // table that went wrong there must not also change what the server is simulated to send)
    // (plus song attributes of newer servers that are tags to this library: `Added`)
    let names: Vec<String> = crate::tags::MPD_TAG_NAMES.iter().map(|s| s.to_string()).chain(["Added".to_string(), "added".to_string()]).collect();
    let bvals = boundary_values();
    let f = |k: &str, v: &str| (k.as_bytes().to_vec(), v.as_bytes().to_vec());

    // ---- fixed part: the property's own case analysis
    // every attribute x every boundary value, alone / before / after a valid one, for each decoder
    for cmd in ["queue", "currentsong", "find", "addid"] {
        for k in ATTRS {
            for v in &bvals {
                ops.push(format!("song.{cmd} {}", ser_fields(&[f("file", "a"), f(k, v)])));
            }
        }
        for v in &bvals {
            // legacy Time after / before a duration: the value is not even looked at when it comes second
            ops.push(format!("song.{cmd} {}", ser_fields(&[f("file", "a"), f("duration", "1.5"), f("Time", v)])));
            ops.push(format!("song.{cmd} {}", ser_fields(&[f("file", "a"), f("Time", v), f("duration", "1.5")])));
            ops.push(format!("song.{cmd} {}", ser_fields(&[f("file", "a"), f("Time", "7"), f("Time", v)])));
            ops.push(format!("song.{cmd} {}", ser_fields(&[f("file", "a"), f("Disc", v), f("Track", v)])));
            ops.push(format!("song.{cmd} {}", ser_fields(&[f("Id", v)])));
            ops.push(format!("song.{cmd} {}", ser_fields(&[f("file", v)])));
        }
    }
    // every PAIR of known tags on one song: two tags that collapse into one map key (a name table
    // that is no longer injective) lose an entry only when both occur together
    for i in 0..names.len() {
        for j in (i + 1)..names.len() {
            let (a, b) = (names[i].as_str(), names[j].as_str());
            if !usable_key(a) || !usable_key(b) || ATTRS.contains(&a) || ATTRS.contains(&b) {
                continue;
            }
            let l = vec![Entry { kind: 'S', path: b"p".to_vec(), lines: vec![f(a, "first"), f(b, "second"), f(a, "third")] }];
            ops.push(format!("song.listing.find {}", ser_listing(&l)));
        }
    }
    // every known tag in four spellings, twice per song, and MPD's names the crate does not know
    for cmd in ["queue", "find"] {
        for n in names.iter().map(|s| s.as_str()).chain(UNKNOWN_TAGS.iter().copied()) {
            if !usable_key(n) || ATTRS.contains(&n) {
                continue;
            }
            let l = vec![Entry {
                kind: 'S',
                path: b"a".to_vec(),
                lines: vec![
                    f(n, "one"),
                    f(&n.to_ascii_lowercase(), "two"),
                    f("Title", "t"),
                    f(&n.to_ascii_uppercase(), "three"),
                    f(&mixed_case(&mut r, n), ""),
                ]
                .into_iter()
                .filter(|(k, _)| {
                    let k = std::str::from_utf8(k).unwrap();
                    usable_key(k) && !ATTRS.contains(&k)
                })
                .collect(),
            }];
            ops.push(format!("song.listing.{cmd} {}", ser_listing(&l)));
        }
    }
    // entry boundaries: every ordered pair / triple of entry kinds, with and without lines
    let kinds = ['S', 'D', 'P'];
    let mk = |kind: char, i: usize, with: bool| Entry {
        kind,
        path: format!("e{i}").into_bytes(),
        lines: if !with {
            Vec::new()
        } else if kind == 'S' {
            vec![f("Last-Modified", &format!("lm{i}")), f("Title", &format!("t{i}")), f("Pos", &i.to_string()), f("Id", &(i + 10).to_string())]
        } else {
            vec![f("Last-Modified", &format!("dir-lm{i}"))]
        },
    };
    for cmd in CMDS {
        for &a in &kinds {
            for with in [false, true] {
                ops.push(format!("song.listing.{cmd} {}", ser_listing(&[mk(a, 0, with)])));
                for &b in &kinds {
                    ops.push(format!("song.listing.{cmd} {}", ser_listing(&[mk(a, 0, with), mk(b, 1, with)])));
                    for &c in &kinds {
                        ops.push(format!("song.listing.{cmd} {}", ser_listing(&[mk(a, 0, with), mk(b, 1, !with), mk(c, 2, with)])));
                    }
                }
            }
        }
        ops.push(format!("song.listing.{cmd} _"));
        ops.push(format!("song.{cmd} _"));
        // lines before any entry
        ops.push(format!("song.{cmd} {}", ser_fields(&[f("Last-Modified", "x"), f("file", "a")])));
        ops.push(format!("song.{cmd} {}", ser_fields(&[f("Title", "x"), f("file", "a")])));
        ops.push(format!("song.{cmd} {}", ser_fields(&[f("file", ""), f("Title", "x")])));
        ops.push(format!("song.{cmd} {}", ser_fields(&[f("file", "a"), f("file", ""), f("file", "b")])));
        ops.push(format!("song.{cmd} {}", ser_fields(&[f("directory", "d"), f("Title", "x")])));
    }

    // ---- random part: every listing / soup frame goes through each decoder (both multi-song variants
    // and the single-song one; the commands sharing a decoder take turns), soup also through `Add`
    let n_list = cfg.n.unwrap_or(if cfg.thorough { 100_000 } else { 5_000 });
    for i in 0..n_list {
        let mut l = gen_listing(&mut r, &names);
        if r.chance(1, 10) {
            perturb(&mut r, &mut l);
        }
        let s = ser_listing(&l);
        ops.push(format!("song.listing.{} {s}", ["queue", "queuerange"][i % 2]));
        ops.push(format!("song.listing.{} {s}", ["find", "getplaylist", "listallinfo"][i % 3]));
        ops.push(format!("song.listing.currentsong {s}"));
        if i % 40 == 0 {
            ops.push(format!("song.listing.addid {s}"));
        }
    }
    let n_soup = cfg.n.unwrap_or(if cfg.thorough { 100_000 } else { 5_000 });
    for i in 0..n_soup {
        let s = ser_fields(&gen_soup(&mut r, &names, &bvals));
        ops.push(format!("song.{} {s}", ["queue", "queuerange"][i % 2]));
        ops.push(format!("song.{} {s}", ["find", "getplaylist", "listallinfo"][i % 3]));
        ops.push(format!("song.currentsong {s}"));
        ops.push(format!("song.addid {s}"));
    }
    ops
}
