//! Family `tags` (C20): Tag / Subsystem name tables, Eq / Ord / Hash, Tag::try_from.
//!
//! ops
//!   tag.try  <hex raw>            => ok:<Ident>:<hex name> | err:empty | err:char:<pos>
//!   tag.pair <tag> <tag>          => na:<hex>,nb:<hex>,eq:<0|1>,cmp:<-1|0|1>,hash:<0|1>,map:<0|1>
//!   tag.rt   <tag>                => n:<hex>,rt:<0|1|err>
//!   sub.name <hex name>           => <Ident>:<hex as_str>,eq:<0|1>,hash:<0|1>
//! where <tag> is V<idx> (named variant, declaration order), O<hex> (hand-built Other),
//! T<hex> (Tag::try_from).

use std::collections::hash_map::DefaultHasher;
use std::collections::HashMap;
use std::hash::{Hash, Hasher};

use bytes::BytesMut;
use mpd_client::client::{ConnectionEvent, Subsystem};
use mpd_client::tag::{Tag, TagError};
use mpd_client::Client;
use mpd_protocol::command::Argument;
use tokio::io::{AsyncReadExt, AsyncWriteExt};

use crate::util::{gen_word, hex, unhex, Rng};
use crate::Cfg;

pub fn named_tags() -> Vec<Tag> {
    vec![
        Tag::Album,
        Tag::AlbumArtist,
        Tag::AlbumArtistSort,
        Tag::AlbumSort,
        Tag::Artist,
        Tag::ArtistSort,
        Tag::Comment,
        Tag::Composer,
        Tag::ComposerSort,
        Tag::Conductor,
        Tag::Date,
        Tag::Disc,
        Tag::Ensemble,
        Tag::Genre,
        Tag::Grouping,
        Tag::Label,
        Tag::Location,
        Tag::Movement,
        Tag::MovementNumber,
        Tag::MusicBrainzArtistId,
        Tag::MusicBrainzRecordingId,
        Tag::MusicBrainzReleaseArtistId,
        Tag::MusicBrainzReleaseId,
        Tag::MusicBrainzTrackId,
        Tag::MusicBrainzWorkId,
        Tag::Name,
        Tag::OriginalDate,
        Tag::Performer,
        Tag::Title,
        Tag::Track,
        Tag::Work,
    ]
}

/// MPD's tag names (tag_item_names), used only to build inputs.
pub const MPD_TAG_NAMES: &[&str] = &[
    "Artist", "ArtistSort", "Album", "AlbumSort", "AlbumArtist", "AlbumArtistSort", "Title", "TitleSort",
    "Track", "Name", "Genre", "Mood", "Date", "OriginalDate", "Composer", "ComposerSort", "Performer",
    "Conductor", "Work", "Ensemble", "Movement", "MovementNumber", "ShowMovement", "Location", "Grouping",
    "Comment", "Disc", "Label", "MUSICBRAINZ_ARTISTID", "MUSICBRAINZ_ALBUMID", "MUSICBRAINZ_ALBUMARTISTID",
    "MUSICBRAINZ_TRACKID", "MUSICBRAINZ_RELEASETRACKID", "MUSICBRAINZ_WORKID", "MUSICBRAINZ_RELEASEGROUPID",
    "any", "file", "base", "modified-since", "added-since", "AudioFormat", "prio",
];

pub const SUBSYSTEMS: &[&str] = &[
    "database", "update", "stored_playlist", "playlist", "player", "mixer", "output", "options", "partition",
    "sticker", "subscription", "message", "neighbor", "mount",
];

pub fn tag_name(t: &Tag) -> Vec<u8> {
    let mut b = BytesMut::new();
    t.render(&mut b);
    b.to_vec()
}

pub fn tag_ident(t: &Tag) -> String {
    let d = format!("{:?}", t);
    match d.find('(') {
        Some(p) => d[..p].to_string(),
        None => d,
    }
}

fn mk_tag(spec: &str) -> Option<Tag> {
    let (k, rest) = spec.split_at(1);
    match k {
        "V" => named_tags().into_iter().nth(rest.parse().ok()?),
        "O" => Some(Tag::Other(String::from_utf8(unhex(rest)).ok()?.into_boxed_str())),
        "T" => Tag::try_from(std::str::from_utf8(&unhex(rest)).ok()?).ok(),
        _ => None,
    }
}

fn h<T: Hash + ?Sized>(t: &T) -> u64 {
    let mut s = DefaultHasher::new();
    t.hash(&mut s);
    s.finish()
}

fn case_variants(r: &mut Rng, s: &str) -> Vec<String> {
    let mixed: String = s
        .chars()
        .map(|c| if r.chance(1, 2) { c.to_ascii_uppercase() } else { c.to_ascii_lowercase() })
        .collect();
    vec![s.to_string(), s.to_ascii_lowercase(), s.to_ascii_uppercase(), mixed]
}

/// all strings at edit distance 1 over the alphabet a-z, A, Z, '_', '-'
fn single_edits(s: &str) -> Vec<String> {
    let alphabet: Vec<char> = ('a'..='z').chain(['A', 'Z', '_', '-']).collect();
    let cs: Vec<char> = s.chars().collect();
    let mut out = Vec::new();
    for i in 0..=cs.len() {
        for &a in &alphabet {
            let mut v = cs.clone();
            v.insert(i, a);
            out.push(v.iter().collect());
        }
    }
    for i in 0..cs.len() {
        let mut v = cs.clone();
        v.remove(i);
        out.push(v.iter().collect());
        for &a in &alphabet {
            if a != cs[i] {
                let mut v = cs.clone();
                v[i] = a;
                out.push(v.iter().collect());
            }
        }
    }
    out
}

pub fn gen(cfg: &Cfg) -> Vec<String> {
    let mut r = Rng::new(cfg.seed);
    let mut ops = Vec::new();
    let named = named_tags();
    // exhaustive part: every named variant's own name and MPD's table in 4 case variants
    let mut names: Vec<String> = named.iter().map(|t| String::from_utf8(tag_name(t)).unwrap()).collect();
    for n in MPD_TAG_NAMES {
        if !names.iter().any(|x| x == n) {
            names.push(n.to_string());
        }
    }
    let mut specs: Vec<String> = Vec::new();
    for (i, _) in named.iter().enumerate() {
        specs.push(format!("V{i}"));
    }
    for n in &names {
        for v in case_variants(&mut r, n) {
            ops.push(format!("tag.try {}", hex(v.as_bytes())));
            specs.push(format!("O{}", hex(v.as_bytes())));
            specs.push(format!("T{}", hex(v.as_bytes())));
        }
    }
    // boundary strings
    for s in ["", " ", "a b", "a\n", "Artist ", " Artist", "Art1st", "é", "aé", "a-b", "a_b", "-", "_", "A", "z", "@", "[", "`", "{", "Albu", "Albumm", "album\0"] {
        ops.push(format!("tag.try {}", hex(s.as_bytes())));
    }
    // scale: legal names of every length around the lengths a table, a buffer or a "sane limit" might
    // have (the protocol puts no bound on a tag name), clean and with an illegal character at the end
    for len in [25usize, 26, 27, 31, 32, 33, 63, 64, 65, 66, 100, 127, 128, 129, 255, 256, 257, 1000, 4096, 5000] {
        let v: String = (0..len).map(|i| ['a', 'B', '_', '-', 'z', 'Q'][i % 6]).collect();
        ops.push(format!("tag.try {}", hex(v.as_bytes())));
        specs.push(format!("O{}", hex(v.as_bytes())));
        specs.push(format!("T{}", hex(v.as_bytes())));
        ops.push(format!("tag.try {}", hex(format!("{v}!").as_bytes())));
        ops.push(format!("tag.try {}", hex(format!("{v} x").as_bytes())));
    }
    // names that merely BEGIN with (or are one letter short of) a known name: a lookup that truncates,
    // compares a prefix or a fixed-size buffer would take them for the known one
    for n in MPD_TAG_NAMES.iter().take(35) {
        for v in [format!("{n}s"), format!("{n}_x"), format!("{n}{n}"), n[..n.len() - 1].to_string()] {
            for w in [v.clone(), v.to_ascii_lowercase(), v.to_ascii_uppercase()] {
                ops.push(format!("tag.try {}", hex(w.as_bytes())));
                specs.push(format!("T{}", hex(w.as_bytes())));
            }
        }
    }
    // words that are keywords elsewhere in the protocol, in every case variant
    for n in ["any", "file", "base", "modified-since", "added-since", "AudioFormat", "prio", "window", "sort", "group", "Last-Modified", "Time", "duration", "Format", "Range", "Pos", "Id"] {
        for v in case_variants(&mut r, n) {
            ops.push(format!("tag.try {}", hex(v.as_bytes())));
            specs.push(format!("O{}", hex(v.as_bytes())));
            specs.push(format!("T{}", hex(v.as_bytes())));
        }
    }
    // Unicode case-folding confusables: code points whose lower- or upper-casing is an ASCII letter
    // (KELVIN SIGN -> k, LONG S -> S, DOTTED / DOTLESS I) in the place of that letter in a known name
    for n in &names {
        for (from, to) in [("k", "\u{212A}"), ("K", "\u{212A}"), ("s", "\u{17F}"), ("S", "\u{17F}"), ("i", "\u{131}"), ("I", "\u{130}"), ("a", "\u{FF41}"), ("A", "\u{FF21}")] {
            if let Some(p) = n.find(from) {
                let mut v = n.clone();
                v.replace_range(p..p + from.len(), to);
                ops.push(format!("tag.try {}", hex(v.as_bytes())));
                ops.push(format!("tag.try {}", hex(v.to_lowercase().as_bytes())));
            }
        }
    }
    // complete single-edit neighbourhood of every known name (a typo in a table entry shows up here)
    for n in &names {
        for v in single_edits(n) {
            ops.push(format!("tag.try {}", hex(v.as_bytes())));
        }
    }
    // random candidates
    let n_rand = cfg.n.unwrap_or(if cfg.thorough { 100_000 } else { 10_000 });
    for _ in 0..n_rand {
        let s = match r.below(6) {
            0 => {
                // mutate a known name
                let mut b = r.pick(&names).clone().into_bytes();
                if !b.is_empty() {
                    let p = r.below(b.len());
                    match r.below(4) {
                        0 => b[p] ^= 0x20,
                        1 => {
                            b.remove(p);
                        }
                        2 => b.insert(p, *r.pick(&[b'_', b'-', b' ', b'1', b'x', b'X', 0xc3])),
                        _ => b[p] = (r.next() & 0x7f) as u8,
                    }
                }
                String::from_utf8_lossy(&b).into_owned()
            }
            1 => crate::util::gen_text(&mut r, 8),
            _ => {
                let mut w = gen_word(&mut r, 0, 12);
                if r.chance(1, 4) {
                    w = w.replace('_', "-");
                }
                w
            }
        };
        ops.push(format!("tag.try {}", hex(s.as_bytes())));
        if r.chance(1, 3) {
            specs.push(format!("O{}", hex(s.as_bytes())));
        }
    }
    // round trips for every spec
    for s in &specs {
        ops.push(format!("tag.rt {s}"));
    }
    // pairs: all named x named, named x Other(case variants) and random pairs
    for i in 0..named.len() {
        for j in 0..named.len() {
            ops.push(format!("tag.pair V{i} V{j}"));
        }
    }
    let n_pairs = if cfg.thorough { 100_000 } else { 10_000 };
    for _ in 0..n_pairs {
        let a = r.pick(&specs).clone();
        let b = if r.chance(1, 3) {
            // something with the same letters
            let t = mk_tag(&a);
            match t {
                Some(t) => {
                    let n = String::from_utf8(tag_name(&t)).unwrap();
                    let v = case_variants(&mut r, &n);
                    format!("O{}", hex(r.pick(&v).as_bytes()))
                }
                None => r.pick(&specs).clone(),
            }
        } else {
            r.pick(&specs).clone()
        };
        ops.push(format!("tag.pair {a} {b}"));
    }
    // subsystems: all known names, case variants, unknown names
    let mut subs: Vec<String> = Vec::new();
    for s in SUBSYSTEMS {
        subs.extend(case_variants(&mut r, s));
    }
    for s in ["", "x", "queue", "stored playlist", "storedplaylist", "Player ", "played", "sticker2", "ünknown", "a: b", "OK", "changed: player"] {
        subs.push(s.to_string());
    }
    for _ in 0..(if cfg.thorough { 2000 } else { 200 }) {
        subs.push(gen_word(&mut r, 1, 14));
        subs.push(crate::util::gen_text(&mut r, 10));
    }
    for s in SUBSYSTEMS {
        subs.extend(single_edits(s));
    }
    for s in subs {
        if !s.contains('\n') {
            ops.push(format!("sub.name {}", hex(s.as_bytes())));
        }
    }
    ops
}

pub fn exec(op: &[&str]) -> String {
    match op[0] {
        "tag.try" => {
            let raw = unhex(op[1]);
            let Ok(s) = std::str::from_utf8(&raw) else { return "badinput".into() };
            match Tag::try_from(s) {
                Ok(t) => format!("ok:{}:{}", tag_ident(&t), hex(&tag_name(&t))),
                Err(TagError::Empty) => "err:empty".into(),
                Err(TagError::InvalidCharacter { pos, .. }) => format!("err:char:{pos}"),
            }
        }
        "tag.pair" => {
            let (Some(a), Some(b)) = (mk_tag(op[1]), mk_tag(op[2])) else { return "badinput".into() };
            let eq = a == b;
            let cmp = match a.cmp(&b) {
                std::cmp::Ordering::Less => -1,
                std::cmp::Ordering::Equal => 0,
                std::cmp::Ordering::Greater => 1,
            };
            let pc = a.partial_cmp(&b) == Some(a.cmp(&b));
            let hash = h(&a) == h(&b);
            let mut m = HashMap::new();
            m.insert(a.clone(), 1);
            let map = m.contains_key(&b);
            // the mixed operator `Tag == &str` compares with the protocol name too
            let nb = tag_name(&b);
            let es = match std::str::from_utf8(&nb) {
                Ok(sb) => (a == sb) as u8,
                Err(_) => eq as u8,
            };
            // the operators and hashers an implementation may override separately: `!=` (also through a
            // tuple, which forwards to the elements' `ne`), hashing as part of a slice / array / Vec
            #[allow(clippy::nonminimal_bool)]
            let ne_ok = (a != b) == !eq && ((a.clone(), 1u8) != (b.clone(), 1u8)) == !eq && !(a != a.clone());
            let hs = h(&[a.clone()][..]) == h(&[b.clone()][..])
                && h(&vec![a.clone(), b.clone()]) == h(&vec![b.clone(), a.clone()])
                && h(&[a.clone(), a.clone()]) == h(&[b.clone(), b.clone()]);
            format!(
                "na:{},nb:{},eq:{},cmp:{},pc:{},hash:{},map:{},es:{},ne:{},hs:{}",
                hex(&tag_name(&a)),
                hex(&nb),
                eq as u8,
                cmp,
                pc as u8,
                hash as u8,
                map as u8,
                es,
                ne_ok as u8,
                hs as u8
            )
        }
        "tag.rt" => {
            let Some(a) = mk_tag(op[1]) else { return "badinput".into() };
            let n = tag_name(&a);
            let rt = match std::str::from_utf8(&n).ok().and_then(|s| Tag::try_from(s).ok()) {
                Some(t) => ((t == a) as u8).to_string(),
                None => "err".into(),
            };
            format!("n:{},rt:{}", hex(&n), rt)
        }
        "sub.name" => {
            let raw = unhex(op[1]);
            let Ok(s) = String::from_utf8(raw) else { return "badinput".into() };
            sub_via_client(&s)
        }
        _ => "badop".into(),
    }
}

/// Obtain the `Subsystem` value the real client produces for an idle reply `changed: <name>`.
fn sub_via_client(name: &str) -> String {
    let rt = tokio::runtime::Builder::new_current_thread().enable_time().build().unwrap();
    rt.block_on(async {
        let (cl, mut sv) = tokio::io::duplex(4096);
        let reply = format!("changed: {name}\nOK\n");
        let server = async {
            sv.write_all(b"OK MPD 0.23.5\n").await.unwrap();
            let mut buf = [0u8; 5];
            sv.read_exact(&mut buf).await.unwrap();
            assert_eq!(&buf, b"idle\n");
            sv.write_all(reply.as_bytes()).await.unwrap();
            sv
        };
        let client = async {
            let (c, mut ev) = Client::connect(cl).await.expect("connect");
            // an event that never comes must not hang the harness: one second of real time, then `HANG`
            let e = tokio::time::timeout(std::time::Duration::from_secs(1), ev.next()).await;
            (c, e)
        };
        let (_sv, (_c, e)) = tokio::join!(server, client);
        let e = match e {
            Ok(e) => e,
            Err(_) => return "HANG".to_string(),
        };
        match e {
            Some(ConnectionEvent::SubsystemChange(s)) => {
                let d = format!("{:?}", s);
                let ident = match d.find('(') {
                    Some(p) => d[..p].to_string(),
                    None => d,
                };
                let other = Subsystem::Other(name.into());
                format!(
                    "{}:{},eq:{},hash:{}",
                    ident,
                    hex(s.as_str().as_bytes()),
                    (s == other) as u8,
                    (h(&s) == h(&other)) as u8
                )
            }
            Some(ConnectionEvent::ConnectionClosed(_)) => "closed".into(),
            None => "none".into(),
        }
    })
}
