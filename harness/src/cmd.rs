//! Family `cmd` (C06, C07, C13 framing): the command encoder, observed through the bytes
//! `Connection::send` / `send_list` write into a capturing transport.
//!
//! ops (all byte strings hex, `-` = empty)
//!   cmd.build <name> <arg>…       Command::build, add_argument(&str) per arg (continuing after a
//!                                 rejection), send        => <nv>;<verdicts>;<hex written>
//!   cmd.esc <arg>                 escape_argument alone   => <hex>
//!   cmd.raw <name> <raw>…         every argument is a custom `Argument` appending the raw bytes
//!   cmd.seq <name> <s|r><hex>…    mixed &str / raw arguments
//!                                 both                    => <nv>;<verdicts>;<hex after build>,<hex after arg 1>,…
//!                                 (a clone of the command is sent after every call)
//!   cmd.list <k> <modes> <name> <s|r><hex>… | <name> … | …
//!                                 CommandList of k commands; modes: one char per command after
//!                                 the first: 0 add, 1 command, 2 extend (adjacent 2s = one call),
//!                                 x = extend with an empty iterator (no command consumed)
//!                                                         => <hex written by send_list>;<hex of command 1 sent alone>,…
//! <nv> = ok | empty | char:<pos> | list ; verdicts = `a` / `r<pos>` joined by `,` (`-` if none).

use std::cell::RefCell;
use std::io::{self, Read, Write};
use std::rc::Rc;

use bytes::{BufMut, BytesMut};
use mpd_protocol::command::{escape_argument, Argument, Command, CommandError, CommandList};
use mpd_protocol::Connection;

use crate::util::{hex, unhex, Rng};
use crate::Cfg;

/// Serves the greeting, captures everything written.
struct Io {
    greeting: &'static [u8],
    pos: usize,
    out: Rc<RefCell<Vec<u8>>>,
}

impl Read for Io {
    fn read(&mut self, buf: &mut [u8]) -> io::Result<usize> {
        let rem = &self.greeting[self.pos..];
        let n = rem.len().min(buf.len());
        buf[..n].copy_from_slice(&rem[..n]);
        self.pos += n;
        Ok(n)
    }
}

impl Write for Io {
    fn write(&mut self, buf: &[u8]) -> io::Result<usize> {
        self.out.borrow_mut().extend_from_slice(buf);
        Ok(buf.len())
    }
    fn flush(&mut self) -> io::Result<()> {
        Ok(())
    }
}

/// Serves the greeting; accepts `caps[i]` bytes on the i-th write (everything once the list is used
/// up; 0 = a transport that accepts nothing) and records the pieces.
struct CapIo {
    greeting: &'static [u8],
    pos: usize,
    caps: std::collections::VecDeque<usize>,
    pieces: Rc<RefCell<Vec<Vec<u8>>>>,
}

impl Read for CapIo {
    fn read(&mut self, buf: &mut [u8]) -> io::Result<usize> {
        let rem = &self.greeting[self.pos..];
        let n = rem.len().min(buf.len());
        buf[..n].copy_from_slice(&rem[..n]);
        self.pos += n;
        Ok(n)
    }
}

impl Write for CapIo {
    fn write(&mut self, buf: &[u8]) -> io::Result<usize> {
        // `usize::MAX` in the script = this write fails (a write timeout); the transport works again afterwards
        if self.caps.front() == Some(&usize::MAX) {
            self.caps.pop_front();
            return Err(io::Error::new(io::ErrorKind::TimedOut, "scripted write failure"));
        }
        let n = self.caps.pop_front().unwrap_or(buf.len()).min(buf.len());
        if n > 0 {
            self.pieces.borrow_mut().push(buf[..n].to_vec());
        }
        Ok(n)
    }
    fn flush(&mut self) -> io::Result<()> {
        Ok(())
    }
}

fn connection() -> (Connection<Io>, Rc<RefCell<Vec<u8>>>) {
    let out = Rc::new(RefCell::new(Vec::new()));
    let io = Io { greeting: b"OK MPD 0.23.5\n", pos: 0, out: out.clone() };
    (Connection::connect(io).expect("connect"), out)
}

/// bytes `Connection::send` writes for this command
fn sent(c: &Command) -> Vec<u8> {
    let (mut conn, out) = connection();
    conn.send(c.clone()).expect("send");
    let v = out.borrow().clone();
    v
}

fn sent_list(l: CommandList) -> Vec<u8> {
    let (mut conn, out) = connection();
    conn.send_list(l).expect("send_list");
    let v = out.borrow().clone();
    v
}

/// A user-defined argument type whose renderer appends arbitrary bytes.
struct Raw(Vec<u8>);

impl Argument for Raw {
    fn render(&self, buf: &mut BytesMut) {
        buf.put_slice(&self.0);
    }
}

/// `CommandErrorKind` is private: classify through `Display`.
fn err_class(e: &CommandError) -> String {
    let s = e.to_string();
    if s == "empty command" {
        "empty".into()
    } else if s.starts_with("attempted to open or close a command list") {
        "list".into()
    } else if let Some(rest) = s.strip_prefix("invalid character ") {
        // `'<c>' at position <i> in <data>`: the char literal cannot contain " at position "
        match rest.find("' at position ") {
            Some(p) => {
                let tail = &rest[p + "' at position ".len()..];
                let digits: String = tail.chars().take_while(|c| c.is_ascii_digit()).collect();
                format!("char:{digits}")
            }
            None => format!("unknown-error:{}", hex(s.as_bytes())),
        }
    } else {
        format!("unknown-error:{}", hex(s.as_bytes()))
    }
}

enum Arg {
    S(String),
    R(Vec<u8>),
    /// a filter `(<tag> == "<value>")` over a hand-built catch-all tag
    F(String, String),
}

fn parse_arg(tok: &str) -> Option<Arg> {
    if tok.len() < 2 {
        return None;
    }
    let (k, h) = tok.split_at(1);
    match k {
        "s" => String::from_utf8(unhex(h)).ok().map(Arg::S),
        "r" => Some(Arg::R(unhex(h))),
        "f" => {
            let (t, v) = h.split_once('.')?;
            Some(Arg::F(String::from_utf8(unhex(t)).ok()?, String::from_utf8(unhex(v)).ok()?))
        }
        _ => None,
    }
}

/// every string carrier the API accepts must render the same bytes: the carrier is picked from the
/// value (deterministic per op), the model knows nothing about carriers
fn add_str(c: &mut Command, s: &str, salt: usize) -> Result<(), CommandError> {
    use std::borrow::Cow;
    match (s.len() + salt) % 7 {
        0 => c.add_argument(s),
        1 => c.add_argument(s.to_string()),
        2 => c.add_argument(Cow::Borrowed(s)),
        3 => c.add_argument(Cow::<str>::Owned(s.to_string())),
        4 => c.add_argument(&s.to_string()),
        5 => c.add_argument(&Cow::<str>::Owned(s.to_string())),
        _ => c.add_argument(&&s),
    }
}

fn add(c: &mut Command, a: &Arg) -> Result<(), CommandError> {
    match a {
        Arg::S(s) => add_str(c, s.as_str(), 0),
        // a renderer that writes its bytes verbatim: the harness's own `Raw`, or — when the bytes
        // are UTF-8 — `mpd_client`'s hand-built catch-all tag, which renders its name verbatim too
        Arg::R(r) => match std::str::from_utf8(r) {
            Ok(t) if r.len() % 2 == 1 => c.add_argument(mpd_client::tag::Tag::Other(t.to_string().into_boxed_str())),
            _ => c.add_argument(Raw(r.clone())),
        },
        Arg::F(t, v) => {
            let f = mpd_client::filter::Filter::tag(mpd_client::tag::Tag::Other(t.clone().into_boxed_str()), v.clone());
            if (t.len() + v.len()) % 2 == 0 {
                c.add_argument(f)
            } else {
                c.add_argument(&f)
            }
        }
    }
}

fn verdict(r: &Result<(), CommandError>) -> String {
    match r {
        Ok(()) => "a".into(),
        Err(e) => match err_class(e).strip_prefix("char:") {
            Some(p) => format!("r{p}"),
            None => "r?".into(),
        },
    }
}

fn join(v: &[String]) -> String {
    if v.is_empty() {
        "-".into()
    } else {
        v.join(",")
    }
}

/// build + arguments, stepwise observation
fn run_steps(name: &str, args: &[Arg]) -> String {
    let mut c = match Command::build(name) {
        Ok(c) => c,
        Err(e) => return format!("{};-;-", err_class(&e)),
    };
    let mut verdicts = Vec::new();
    let mut steps = vec![hex(&sent(&c))];
    for a in args {
        let r = add(&mut c, a);
        verdicts.push(verdict(&r));
        steps.push(hex(&sent(&c)));
    }
    format!("ok;{};{}", join(&verdicts), steps.join(","))
}

/// parse `<name> <arg>… | <name> …` into commands
fn parse_commands(toks: &[&str]) -> Option<Vec<(String, Vec<Arg>)>> {
    let mut out = Vec::new();
    for group in toks.split(|t| *t == "|") {
        let (n, rest) = group.split_first()?;
        let name = String::from_utf8(unhex(n)).ok()?;
        let mut args = Vec::new();
        for t in rest {
            args.push(parse_arg(t)?);
        }
        out.push((name, args));
    }
    Some(out)
}

pub fn exec(op: &[&str]) -> String {
    match op[0] {
        // `send` / `send_list` over a transport that takes fewer bytes than offered: the pieces written
        "cmd.wall" => {
            if op.len() < 3 {
                return "badinput".into();
            }
            let (as_list, caps_s) = match op[1].strip_prefix('L') {
                Some(r) => (true, r),
                None => (false, op[1]),
            };
            let caps: std::collections::VecDeque<usize> =
                if caps_s == "-" { Default::default() } else { caps_s.split(',').map(|c| if c == "e" { usize::MAX } else { c.parse().unwrap() }).collect() };
            let Ok(name) = String::from_utf8(unhex(op[2])) else { return "badinput".into() };
            let Ok(mut cmd) = Command::build(&name) else { return "rejected".into() };
            for a in &op[3..] {
                let Ok(a) = String::from_utf8(unhex(a)) else { return "badinput".into() };
                if cmd.add_argument(a).is_err() {
                    return "rejected".into();
                }
            }
            let pieces = Rc::new(RefCell::new(Vec::new()));
            let io = CapIo { greeting: b"OK MPD 0.23.5\n", pos: 0, caps, pieces: pieces.clone() };
            let mut conn = Connection::connect(io).expect("connect");
            let r = if as_list { conn.send_list(CommandList::new(cmd.clone()).command(cmd)) } else { conn.send(cmd) };
            match r {
                Ok(()) => format!("ok:{}", pieces.borrow().iter().map(|p| hex(p)).collect::<Vec<_>>().join("/")),
                Err(mpd_protocol::MpdProtocolError::Io(e)) if e.kind() == io::ErrorKind::WriteZero => "wzero".into(),
                Err(_) => "err".into(),
            }
        }
        "cmd.build" => {
            if op.len() < 2 {
                return "badinput".into();
            }
            let Ok(name) = String::from_utf8(unhex(op[1])) else { return "badinput".into() };
            let mut args = Vec::new();
            for t in &op[2..] {
                let Ok(s) = String::from_utf8(unhex(t)) else { return "badinput".into() };
                args.push(s);
            }
            let mut c = match Command::build(&name) {
                Ok(c) => c,
                Err(e) => return format!("{};-;-", err_class(&e)),
            };
            let mut verdicts = Vec::new();
            for (i, a) in args.iter().enumerate() {
                // the string `Argument` carriers in turn: str, String, Cow (borrowed / owned), references
                let r = add_str(&mut c, a.as_str(), i);
                verdicts.push(verdict(&r));
            }
            // a command is a value: `clone_from` into a longer and into a shorter command gives that command
            let mut longer = Command::new("status").argument("p".repeat(args.iter().map(|a| 4 * a.len() + 8).sum::<usize>() + name.len() + 40));
            longer.clone_from(&c);
            let mut shorter = Command::new("x");
            shorter.clone_from(&c);
            let mut same = c.clone();
            same.clone_from(&c);
            if longer != c || shorter != c || same != c {
                return "CLONE-FROM-DIFFERS".into();
            }
            let (mut conn, out) = connection();
            conn.send(longer).expect("send");
            let written = out.borrow().clone();
            format!("ok;{};{}", join(&verdicts), hex(&written))
        }
        "cmd.esc" => {
            if op.len() != 2 {
                return "badinput".into();
            }
            let Ok(a) = String::from_utf8(unhex(op[1])) else { return "badinput".into() };
            hex(escape_argument(&a).as_bytes())
        }
        "cmd.raw" => {
            if op.len() < 2 {
                return "badinput".into();
            }
            let Ok(name) = String::from_utf8(unhex(op[1])) else { return "badinput".into() };
            let args: Vec<Arg> = op[2..].iter().map(|t| Arg::R(unhex(t))).collect();
            run_steps(&name, &args)
        }
        "cmd.seq" => {
            if op.len() < 2 {
                return "badinput".into();
            }
            let Ok(name) = String::from_utf8(unhex(op[1])) else { return "badinput".into() };
            let mut args = Vec::new();
            for t in &op[2..] {
                let Some(a) = parse_arg(t) else { return "badinput".into() };
                args.push(a);
            }
            run_steps(&name, &args)
        }
        "cmd.list" => {
            if op.len() < 4 {
                return "badinput".into();
            }
            let Ok(k) = op[1].parse::<usize>() else { return "badinput".into() };
            let modes: Vec<char> = if op[2] == "-" { Vec::new() } else { op[2].chars().collect() };
            let Some(specs) = parse_commands(&op[3..]) else { return "badinput".into() };
            if specs.len() != k
                || modes.iter().filter(|m| **m != 'x').count() + 1 != k
                || modes.iter().any(|m| !matches!(m, '0' | '1' | '2' | 'x'))
            {
                return "badinput".into();
            }
            let mut cmds = Vec::new();
            for (name, args) in &specs {
                let Ok(mut c) = Command::build(name) else { return "badname".into() };
                for a in args {
                    let _ = add(&mut c, a);
                }
                cmds.push(c);
            }
            let singles: Vec<String> = cmds.iter().map(|c| hex(&sent(c))).collect();
            let mut it = cmds.into_iter();
            let mut list = CommandList::new(it.next().unwrap());
            let mut i = 0;
            while i < modes.len() {
                match modes[i] {
                    '0' => {
                        list.add(it.next().unwrap());
                        i += 1;
                    }
                    '1' => {
                        list = list.command(it.next().unwrap());
                        i += 1;
                    }
                    '2' => {
                        let mut batch = Vec::new();
                        while i < modes.len() && modes[i] == '2' {
                            batch.push(it.next().unwrap());
                            i += 1;
                        }
                        // the iterator handed to `extend`: a Vec, or adaptors whose size_hint lower
                        // bound is 0 although they yield everything (filter, filter_map, from_fn,
                        // take_while, flat_map): what is extended must not depend on the hint
                        match (batch.len() + i) % 6 {
                            0 => list.extend(batch),
                            1 => list.extend(batch.into_iter().filter(|_| true)),
                            2 => list.extend(batch.into_iter().filter_map(Some)),
                            3 => {
                                let mut src = batch.into_iter();
                                list.extend(std::iter::from_fn(move || src.next()));
                            }
                            4 => list.extend(batch.into_iter().take_while(|_| true)),
                            _ => list.extend(vec![batch].into_iter().flat_map(|v| v.into_iter())),
                        }
                    }
                    _ => {
                        list.extend(Vec::new());
                        i += 1;
                    }
                }
            }
            if list.len() != k {
                return format!("len:{}", list.len());
            }
            format!("{};{}", hex(&sent_list(list)), singles.join(","))
        }
        _ => "badop".into(),
    }
}

// ---------------------------------------------------------------------------------------------
// generators

/// argument atoms: the property's own case split
const N_CLASSES: usize = 16;

fn atom(r: &mut Rng, class: usize) -> String {
    match class {
        0 => String::new(),
        1 => " ".into(),
        2 => "\t".into(),
        3 => (*r.pick(&["\u{1}", "\u{b}", "\r", "\u{1f}"])).into(),
        4 => "\"".into(),
        5 => "'".into(),
        6 => "\\".into(),
        7 => "\0".into(),
        8 => "\n".into(),
        9 => {
            let n = r.range(1, 6);
            (0..n)
                .map(|_| *r.pick(&['a', 'b', 'z', 'A', 'Q', '0', '7', '_', '-', '.', '/', ':', '(', ')', '=', '!', '~', '#', '*']))
                .collect()
        }
        // incl. characters whose code point ENDS in the byte of a quote, apostrophe or backslash
        // (U+0122, U+0127, U+015C; U+5927, U+2122, U+2022, U+6027, U+4E5C; U+1F422, U+1F427, U+1F45C)
        10 => (*r.pick(&["é", "ß", "λ", "\u{80}", "\u{7ff}", "\u{122}", "\u{127}", "\u{15c}"])).into(),
        11 => (*r.pick(&["日", "本", "€", "\u{800}", "\u{ffff}", "\u{5927}", "\u{2122}", "\u{2022}", "\u{6027}", "\u{4e5c}"])).into(),
        12 => (*r.pick(&["🎵", "𝄞", "\u{10000}", "\u{10ffff}", "\u{1f422}", "\u{1f427}", "\u{1f45c}"])).into(),
        13 => "\u{7f}".into(),
        14 => "\\\"".into(),
        _ => "!".into(), // 0x21: the smallest byte that does not force quoting
    }
}

/// the fixed representative of a class (for the exhaustive enumeration)
fn atom_fixed(class: usize) -> &'static str {
    match class {
        0 => "",
        1 => " ",
        2 => "\t",
        3 => "\r",
        4 => "\"",
        5 => "'",
        6 => "\\",
        7 => "\0",
        8 => "\n",
        9 => "ab",
        10 => "é",
        11 => "日",
        12 => "🎵",
        13 => "\u{7f}",
        14 => "\\\"",
        _ => "!",
    }
}

/// a string argument built from 0–4 atoms, biased to the interesting shapes
fn gen_arg(r: &mut Rng) -> String {
    // one argument with MANY characters that need a backslash (more than any fixed-size table holds)
    if r.chance(1, 40) {
        let n = *r.pick(&[31usize, 32, 33, 34, 40, 64, 65, 100, 300]);
        let blank = r.chance(1, 2);
        return (0..n).map(|i| if blank && i % 7 == 3 { ' ' } else { ['\\', '"', '\''][i % 3] }).collect();
    }
    match r.below(12) {
        0 => {
            let c = r.below(N_CLASSES);
            atom(r, c)
        }
        1 => format!("{} ", atom(r, 9)),              // trailing blank
        2 => format!(" {}", atom(r, 9)),              // leading blank
        3 => format!("{}\\", atom(r, 9)),             // backslash at the end
        4 => format!("{} {}\\", atom(r, 9), atom(r, 9)), // … inside a quoted argument
        5 => crate::util::gen_text(r, 10),
        6 | 7 => atom(r, 9),
        _ => {
            let n = r.range(2, 4);
            let mut s = String::new();
            for _ in 0..n {
                let c = if r.chance(1, 3) { 9 } else { r.below(N_CLASSES) };
                s.push_str(&atom(r, c));
            }
            s
        }
    }
}

/// like `gen_arg` but without LF / NUL (arguments the builder accepts)
fn gen_ok_arg(r: &mut Rng) -> String {
    loop {
        let s = gen_arg(r);
        if !s.contains('\n') && !s.contains('\0') {
            return s;
        }
    }
}

const NAMES_VALID: &[&str] = &["status", "a", "Z", "find", "play", "foo_bar", "x_", "commandlist", "command_lis", "Command_list_end", "COMMAND_LIST_BEGIN", "list", "command", "xcommand_list_end", "commandX_list"];
const NAMES_OTHER: &[&str] = &[
    "", "_x", "_", "1a", "a1", "9", "a b", " a", "a ", "a\tb", "command_list_begin", "command_list_ok_begin",
    "command_list_end", "command_listx", "command_list", "command_list_", "command_list_end2", "é", "aé", "日本", "a\nb", "a\n", "\nstatus",
    "status\ncommand_list_end", "a\"b", "a'b", "a\\b", "a\0", "\0", "a-b", "a.b", "a:b", "a\rb", "a\u{7f}", "\u{1f}a", "ſ", "Ａ", "a\u{e9}b", "noidle ", "@", "[", "`", "{",
];

fn gen_name(r: &mut Rng) -> String {
    match r.below(10) {
        0..=4 => (*r.pick(NAMES_VALID)).into(),
        5 | 6 => (*r.pick(NAMES_OTHER)).into(),
        7 => {
            // random word over the command alphabet (mostly valid)
            let n = r.range(1, 10);
            (0..n).map(|_| *r.pick(&['a', 'b', 'c', 'x', 'Y', 'Z', '_', 'l', 'i', 's', 't'])).collect()
        }
        8 => {
            // one edit of a valid or a list name
            let base: &str = if r.chance(1, 2) { *r.pick(NAMES_VALID) } else { *r.pick(&["command_list_begin", "command_list_ok_begin", "command_list_end"]) };
            let mut cs: Vec<char> = base.chars().collect();
            let edit = *r.pick(&['_', ' ', '1', 'x', 'X', '\n', 'é', '"', '\0', '-']);
            if cs.is_empty() {
                cs.push(edit);
            } else {
                let p = r.below(cs.len());
                match r.below(3) {
                    0 => cs[p] = edit,
                    1 => cs.insert(p, edit),
                    _ => {
                        cs.remove(p);
                    }
                }
            }
            cs.into_iter().collect()
        }
        _ => crate::util::gen_word(r, 1, 12),
    }
}

fn valid_name(r: &mut Rng) -> String {
    if r.chance(1, 3) {
        let w = crate::util::gen_word(r, 1, 10);
        if Command::build(&w).is_ok() {
            return w;
        }
    }
    (*r.pick(NAMES_VALID)).into()
}

/// raw rendered bytes of a hostile / sloppy custom renderer
fn gen_raw(r: &mut Rng) -> Vec<u8> {
    match r.below(12) {
        0 => Vec::new(),
        1 => b"\n".to_vec(),
        2 => b"x\ncommand_list_end".to_vec(),
        3 => b"1\nkill\n".to_vec(),
        4 => b"\ncommand_list_ok_begin".to_vec(),
        5 => {
            // LF at the first / a middle / the last position of ordinary text
            let mut v: Vec<u8> = atom(r, 9).into_bytes();
            v.extend_from_slice(atom(r, 9).as_bytes());
            let p = match r.below(3) {
                0 => 0,
                1 => v.len(),
                _ => r.below(v.len() + 1),
            };
            v.insert(p, b'\n');
            v
        }
        6 => {
            let n = r.range(1, 8);
            (0..n).map(|_| (r.next() & 0xff) as u8).collect()
        }
        7 => {
            // bytes from the small alphabet that matters
            let n = r.range(1, 6);
            (0..n).map(|_| *r.pick(&[b'a', b' ', b'"', b'\\', b'\'', 0u8, b'\n', b'\r', b'\t', 0xff, 0xc3, b'1'])).collect()
        }
        8 => b"\"unterminated".to_vec(),
        9 => b"  ".to_vec(),
        10 => gen_arg(r).into_bytes(),
        _ => atom(r, 9).into_bytes(),
    }
}

fn seq_arg_tok(r: &mut Rng) -> String {
    if r.chance(1, 2) {
        format!("s{}", hex(gen_arg(r).as_bytes()))
    } else {
        format!("r{}", hex(&gen_raw(r)))
    }
}

fn gen_list_op(r: &mut Rng, k: usize, hostile: bool) -> String {
    let mut modes = String::new();
    for _ in 1..k {
        if r.chance(1, 12) {
            modes.push('x');
        }
        modes.push(*r.pick(&['0', '1', '2', '2']));
    }
    if r.chance(1, 10) {
        modes.push('x');
    }
    if modes.is_empty() {
        modes.push('-');
    }
    let mut cmds = Vec::new();
    for _ in 0..k {
        let mut toks = vec![hex(valid_name(r).as_bytes())];
        let n_args = if r.chance(1, 3) { 0 } else { r.range(1, 3) };
        for _ in 0..n_args {
            toks.push(if hostile { seq_arg_tok(r) } else { format!("s{}", hex(gen_ok_arg(r).as_bytes())) });
        }
        cmds.push(toks.join(" "));
    }
    format!("cmd.list {k} {modes} {}", cmds.join(" | "))
}

fn list_len(r: &mut Rng) -> usize {
    match r.below(10) {
        0 | 1 => 1,
        2 | 3 => 2,
        4..=7 => r.range(3, 8),
        8 => r.range(9, 20),
        _ => r.range(21, 40),
    }
}

fn build_op(name: &str, args: &[String]) -> String {
    let mut s = format!("cmd.build {}", hex(name.as_bytes()));
    for a in args {
        s.push(' ');
        s.push_str(&hex(a.as_bytes()));
    }
    s
}

fn gen_c06(cfg: &Cfg, r: &mut Rng, ops: &mut Vec<String>) {
    // bare words and phrases around characters whose code point ends in 0x22 / 0x27 / 0x5C
    for ch in ["\u{122}", "\u{127}", "\u{15c}", "\u{5927}", "\u{2122}", "\u{2022}", "\u{6027}", "\u{4e5c}", "\u{1f422}", "\u{1f427}", "\u{1f45c}", "\u{a2}", "\u{a7}", "\u{dc}"] {
        ops.push(build_op("add", &[format!("{ch}x/01.flac")]));
        ops.push(build_op("add", &[format!("x{ch}")]));
        ops.push(build_op("add", &[format!("{ch} with blank")]));
        ops.push(build_op("find", &["Artist".to_string(), ch.to_string(), format!("a{ch}b")]));
    }
    // every name class, without and with one argument of each kind
    for n in NAMES_VALID.iter().chain(NAMES_OTHER.iter()) {
        ops.push(build_op(n, &[]));
        ops.push(build_op(n, &["a b".to_string()]));
        ops.push(build_op(n, &["x".to_string(), "".to_string()]));
    }
    // every class alone and every ordered pair of classes inside one argument, with the escaping
    // function alone and as the only / first / middle / last argument
    let mut shaped: Vec<String> = Vec::new();
    for i in 0..N_CLASSES {
        shaped.push(atom_fixed(i).to_string());
        for j in 0..N_CLASSES {
            shaped.push(format!("{}{}", atom_fixed(i), atom_fixed(j)));
            shaped.push(format!("{}x{}", atom_fixed(i), atom_fixed(j)));
        }
    }
    for i in 0..N_CLASSES {
        for j in 0..N_CLASSES {
            for k in [1usize, 4, 6, 9] {
                shaped.push(format!("{}{}{}", atom_fixed(i), atom_fixed(j), atom_fixed(k)));
            }
        }
    }
    for s in &shaped {
        ops.push(format!("cmd.esc {}", hex(s.as_bytes())));
        ops.push(build_op("find", &[s.clone()]));
    }
    let fillers: &[&str] = if cfg.thorough { &["ab", "a b", "", "\\", "x\"", "é"] } else { &["ab", "a b", ""] };
    for s in &shaped {
        if !cfg.thorough && s.chars().count() > 2 {
            continue;
        }
        for f in fillers {
            ops.push(build_op("find", &[s.clone(), f.to_string()]));
            ops.push(build_op("find", &[f.to_string(), s.clone()]));
            ops.push(build_op("find", &[f.to_string(), s.clone(), f.to_string()]));
        }
    }
    // all lists of ≤ 3 single-class arguments
    for i in 0..N_CLASSES {
        for j in 0..N_CLASSES {
            ops.push(build_op("add", &[atom_fixed(i).into(), atom_fixed(j).into()]));
            for k in 0..N_CLASSES {
                ops.push(build_op("add", &[atom_fixed(i).into(), atom_fixed(j).into(), atom_fixed(k).into()]));
            }
        }
    }
    if cfg.thorough {
        // every ordered class pair at every position of a ≤ 3 argument list, the other arguments
        // ranging over all single classes
        for i in 0..N_CLASSES {
            for j in 0..N_CLASSES {
                let p = format!("{}{}", atom_fixed(i), atom_fixed(j));
                for a in 0..N_CLASSES {
                    ops.push(build_op("add", &[p.clone(), atom_fixed(a).into()]));
                    ops.push(build_op("add", &[atom_fixed(a).into(), p.clone()]));
                    for b in 0..N_CLASSES {
                        ops.push(build_op("add", &[p.clone(), atom_fixed(a).into(), atom_fixed(b).into()]));
                        ops.push(build_op("add", &[atom_fixed(a).into(), p.clone(), atom_fixed(b).into()]));
                        ops.push(build_op("add", &[atom_fixed(a).into(), atom_fixed(b).into(), p.clone()]));
                    }
                }
            }
        }
    }
    // random commands: 0–8 arguments
    let n = cfg.n.unwrap_or(if cfg.thorough { 250_000 } else { 12_000 });
    for _ in 0..n {
        let name = if r.chance(4, 5) { valid_name(r) } else { gen_name(r) };
        let k = match r.below(10) {
            0 => 0,
            1..=3 => 1,
            4..=6 => 2,
            7 | 8 => r.range(3, 5),
            _ => r.range(6, 8),
        };
        let args: Vec<String> = (0..k).map(|_| if r.chance(9, 10) { gen_ok_arg(r) } else { gen_arg(r) }).collect();
        ops.push(build_op(&name, &args));
    }
    for _ in 0..n / 6 {
        ops.push(format!("cmd.esc {}", hex(gen_arg(r).as_bytes())));
    }
}

fn gen_c07(cfg: &Cfg, r: &mut Rng, ops: &mut Vec<String>) {
    // every name class: alone, with an accepted and with a hostile argument
    for n in NAMES_VALID.iter().chain(NAMES_OTHER.iter()) {
        ops.push(format!("cmd.seq {}", hex(n.as_bytes())));
        ops.push(format!("cmd.seq {} s{} r{}", hex(n.as_bytes()), hex(b"a b"), hex(b"x\ncommand_list_end")));
    }
    // all names of ≤ 3 symbols over a 12-symbol alphabet
    let alpha = ['a', 'Z', '_', '1', ' ', '\n', '"', '\'', '\\', '\0', 'é', '-'];
    let mut names: Vec<String> = vec![String::new()];
    let mut level: Vec<String> = vec![String::new()];
    for _ in 0..3 {
        let mut next = Vec::new();
        for p in &level {
            for c in alpha {
                let mut s = p.clone();
                s.push(c);
                next.push(s);
            }
        }
        names.extend(next.iter().cloned());
        level = next;
    }
    for n in &names {
        ops.push(format!("cmd.seq {} s{}", hex(n.as_bytes()), hex(b"x")));
    }
    // every prefix / extension of the list keywords
    for kw in ["command_list_begin", "command_list_ok_begin", "command_list_end"] {
        for i in 0..=kw.len() {
            ops.push(format!("cmd.seq {}", hex(kw[..i].as_bytes())));
        }
        for suffix in ["x", "_", "2", " ", "\n", "_end"] {
            ops.push(format!("cmd.seq {}", hex(format!("{kw}{suffix}").as_bytes())));
        }
        let up = kw.to_ascii_uppercase();
        ops.push(format!("cmd.seq {}", hex(up.as_bytes())));
        for i in 0..kw.len() {
            let mut b = kw.as_bytes().to_vec();
            b[i] = b[i].to_ascii_uppercase();
            ops.push(format!("cmd.seq {}", hex(&b)));
        }
    }
    // LF / NUL at every position of a short rendered argument, raw and through escape_argument
    for base in ["abc", "a b", "\"q\"", ""] {
        for bad in [b'\n', 0u8] {
            for p in 0..=base.len() {
                let mut v = base.as_bytes().to_vec();
                v.insert(p, bad);
                ops.push(format!("cmd.raw {} {} {} {}", hex(b"add"), hex(b"x"), hex(&v), hex(b"y")));
                ops.push(format!("cmd.seq {} s{} s{} s{}", hex(b"add"), hex(b"x"), hex(&v), hex(b"y z")));
            }
        }
    }
    // the library's own composite renderer: a filter whose value or (hand-built) tag contains a line feed /
    // NUL at every position, plain and hostile, followed by a further accepted argument
    for (t, v) in [("Title", "Foo\nclose"), ("Title", "a\")\"\ncommand_list_end\nclear"), ("Al\nbum", "x"), ("Title", "a\0b"), ("T\0", ""), ("Title", "plain value"), ("Other-Tag", "it's \"quoted\" \\ ü")] {
        ops.push(format!("cmd.seq {} s{} f{}.{} s{}", hex(b"find"), hex(b"x"), hex(t.as_bytes()), hex(v.as_bytes()), hex(b"y z")));
        ops.push(format!("cmd.seq {} f{}.{}", hex(b"count"), hex(t.as_bytes()), hex(v.as_bytes())));
    }
    for base in ["abc", "a b"] {
        for bad in ['\n', '\0'] {
            for p in 0..=base.len() {
                let mut v = base.to_string();
                v.insert(p, bad);
                ops.push(format!("cmd.seq {} f{}.{} s{}", hex(b"find"), hex(b"Artist"), hex(v.as_bytes()), hex(b"tail")));
                ops.push(format!("cmd.seq {} f{}.{} s{}", hex(b"find"), hex(v.as_bytes()), hex(b"value"), hex(b"tail")));
            }
        }
    }
    // scale: request lines at and beyond 4 KiB (MPD's default input buffer) and 64 KiB, accepted and
    // hostile, followed by a further accepted argument (a rejected call must leave nothing behind)
    for n in [1000usize, 4000, 4080, 4090, 4096, 4100, 9000, 70000] {
        let long = "a".repeat(n);
        ops.push(format!("cmd.seq {} s{} s{}", hex(b"add"), hex(long.as_bytes()), hex(b"y z")));
        ops.push(format!("cmd.seq {} s{} s{} s{}", hex(b"add"), hex(b"x"), hex(format!("{long}\nclearerror").as_bytes()), hex(b"y")));
        ops.push(format!("cmd.seq {} s{} s{} s{}", hex(b"add"), hex(format!("{long} b").as_bytes()), hex(format!("c\0{long}").as_bytes()), hex(b"y")));
        ops.push(format!("cmd.raw {} {} {} {}", hex(b"add"), hex(b"x"), hex(format!("{long}\nkill").as_bytes()), hex(b"y")));
    }
    // every single byte as a raw rendering
    for b in 0..=255u8 {
        ops.push(format!("cmd.raw {} {} {}", hex(b"add"), hex(&[b]), hex(b"z")));
    }
    // every accept/reject pattern of ≤ 5 calls (thorough: ≤ 8)
    let max_calls = if cfg.thorough { 8 } else { 5 };
    for len in 1..=max_calls {
        for mask in 0..(1u32 << len) {
            let mut s = format!("cmd.raw {}", hex(b"add"));
            for i in 0..len {
                let v: Vec<u8> = if mask >> i & 1 == 1 { format!("b{i}\nkill").into_bytes() } else { format!("g{i}").into_bytes() };
                s.push(' ');
                s.push_str(&hex(&v));
            }
            ops.push(s);
        }
    }
    // random sequences of up to 12 calls
    let n = cfg.n.unwrap_or(if cfg.thorough { 150_000 } else { 14_000 });
    for _ in 0..n {
        let name = if r.chance(3, 4) { valid_name(r) } else { gen_name(r) };
        let k = match r.below(8) {
            0 => 0,
            1 | 2 => 1,
            3 | 4 => r.range(2, 3),
            5 | 6 => r.range(4, 7),
            _ => r.range(8, 12),
        };
        if r.chance(1, 3) {
            let mut s = format!("cmd.raw {}", hex(name.as_bytes()));
            for _ in 0..k {
                s.push(' ');
                s.push_str(&hex(&gen_raw(r)));
            }
            ops.push(s);
        } else {
            let mut s = format!("cmd.seq {}", hex(name.as_bytes()));
            for _ in 0..k {
                s.push(' ');
                s.push_str(&seq_arg_tok(r));
            }
            ops.push(s);
        }
    }
    gen_lists(cfg, r, ops, true);
}

fn gen_lists(cfg: &Cfg, r: &mut Rng, ops: &mut Vec<String>, hostile: bool) {
    // every length 1..=40 with each pure building mode, plus mixed
    for k in 1..=40usize {
        for m in ['0', '1', '2'] {
            let modes: String = if k == 1 { "-".into() } else { std::iter::repeat(m).take(k - 1).collect() };
            let cmds: Vec<String> = (0..k).map(|i| format!("{} s{}", hex(b"play"), hex(i.to_string().as_bytes()))).collect();
            ops.push(format!("cmd.list {k} {modes} {}", cmds.join(" | ")));
        }
    }
    ops.push(format!("cmd.list 1 x {}", hex(b"status")));
    ops.push(format!("cmd.list 1 xx {}", hex(b"status")));
    ops.push(format!("cmd.list 2 x0x {} | {}", hex(b"status"), hex(b"stats")));
    // a list whose commands were offered framing text as arguments
    ops.push(format!(
        "cmd.list 2 0 {} r{} s{} | {} s{} r{}",
        hex(b"add"),
        hex(b"x\ncommand_list_end"),
        hex(b"command_list_end"),
        hex(b"play"),
        hex(b"a\nb"),
        hex(b"\ncommand_list_ok_begin\n")
    ));
    let n = if cfg.n.is_some() { cfg.n.unwrap() / 4 } else if cfg.thorough { 40_000 } else { 2_500 };
    for _ in 0..n {
        let k = list_len(r);
        let h = hostile && r.chance(1, 2);
        ops.push(gen_list_op(r, k, h));
    }
}

pub fn gen(cfg: &Cfg) -> Vec<String> {
    let mut r = Rng::new(cfg.seed);
    let mut ops = Vec::new();
    match cfg.prop.as_str() {
        "C06" => gen_c06(cfg, &mut r, &mut ops),
        "C07" => gen_c07(cfg, &mut r, &mut ops),
        "C13" => gen_lists(cfg, &mut r, &mut ops, false),
        _ => {
            gen_c06(cfg, &mut r, &mut ops);
            gen_c07(cfg, &mut r, &mut ops);
        }
    }
    // short writes (C07: the line, C13: the list block, must ARRIVE as rendered whatever the transport takes per write)
    if matches!(cfg.prop.as_str(), "C07" | "C13" | "C06") {
        let n = if cfg.thorough { 3000 } else { 300 };
        for i in 0..n {
            let k = r.below(6);
            let caps: Vec<String> = (0..k).map(|_| r.pick(&[1usize, 1, 2, 3, 5, 7, 16, 100, 0]).to_string()).collect();
            let caps = if caps.is_empty() { "-".to_string() } else { caps.join(",") };
            // one time in twelve the FIRST write fails: the request is not sent — and nothing of it may
            // turn up in what a later request writes (the ops that follow would show it)
            let caps = if i % 12 == 5 { "e".to_string() } else { caps };
            let name = *r.pick(&["add", "find", "x", "playlistadd"]);
            let nargs = r.below(3);
            let args: Vec<String> = (0..nargs).map(|_| hex(gen_arg(&mut r).as_bytes())).collect();
            let l = if i % 2 == 0 && cfg.prop != "C06" { "L" } else { "" };
            ops.push(format!("cmd.wall {l}{caps} {} {}", hex(name.as_bytes()), args.join(" ")).trim_end().to_string());
        }
    }
    // the enumerations overlap: keep the first occurrence of every operation line
    let mut seen = std::collections::HashSet::new();
    ops.retain(|o| seen.insert(o.clone()));
    ops
}
