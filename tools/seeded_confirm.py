#!/usr/bin/env python3
"""Confirm an independently written property-breaking change in its scratch worktree:
(a) demo passes on the unmodified tree, (b) demo fails with the change, (c) the existing suite passes
with the change (demo files moved aside). Usage: seeded_confirm.py <worktree> <n> <property>"""
import json, os, re, shutil, subprocess, sys, glob, time
wt, n, prop = sys.argv[1], sys.argv[2], sys.argv[3]
extra_features = sys.argv[4] if len(sys.argv) > 4 else None   # e.g. "chrono": the change lives in a cfg(feature) branch
env = dict(os.environ, CARGO_NET_OFFLINE="true")
def run(cmd, **kw):
    r = subprocess.run(cmd, cwd=wt, env=env, stdout=subprocess.PIPE, stderr=subprocess.STDOUT, text=True, **kw)
    return r.returncode, r.stdout
diff = os.path.join(wt, "mutation%s.diff" % n)
demos = glob.glob(os.path.join(wt, "*/tests/demo%s.rs" % n))
assert os.path.exists(diff) and len(demos) == 1, (diff, demos)
demo = demos[0]
crate = os.path.relpath(demo, wt).split("/")[0]
alldemos = glob.glob(os.path.join(wt, "*/tests/demo*.rs"))
assert run(["git", "diff", "--quiet"])[0] == 0, "worktree not clean"
feat = ["--features", "async"] if crate == "mpd_protocol" else []
if extra_features:
    feat = ["--features", extra_features]
democmd = ["cargo", "test", "--offline", "-p", crate] + feat + ["--test", "demo%s" % n]
res = {}
rc, out = run(democmd); res["a_demo_on_clean_tree"] = {"rc": rc, "tail": out.strip().splitlines()[-3:]}
assert run(["git", "apply", diff])[0] == 0
try:
    rc, out = run(democmd); res["b_demo_with_change"] = {"rc": rc, "tail": [l for l in out.splitlines() if "panicked" in l or "test result" in l][-4:]}
    # (c) existing suite, demos moved aside
    aside = os.path.join(wt, ".aside"); os.makedirs(aside, exist_ok=True)
    moved = []
    for d in alldemos:
        t = os.path.join(aside, os.path.relpath(d, wt).replace("/", "__")); shutil.move(d, t); moved.append((d, t))
    rc, out = run(["cargo", "test", "--workspace", "--offline"])
    res["c_suite_with_change"] = {"rc": rc, "results": [l for l in out.splitlines() if l.startswith("test result")]}
    for d, t in moved: shutil.move(t, d)
finally:
    run(["git", "apply", "-R", diff])
ok = res["a_demo_on_clean_tree"]["rc"] == 0 and res["b_demo_with_change"]["rc"] != 0 and res["c_suite_with_change"]["rc"] == 0
sid = "%s_m%s" % (prop, n)
out = os.path.join("/verif/seeded", sid)
if ok:
    os.makedirs(out, exist_ok=True)
    shutil.copy(diff, os.path.join(out, "patch.diff"))
    shutil.copy(demo, os.path.join(out, "demo.rs"))
    md = os.path.join(wt, "mutation%s.md" % n)
    if os.path.exists(md): shutil.copy(md, os.path.join(out, "author_notes.md"))
    meta = {"id": sid, "property": prop, "written_by": "independent sub-agent given only the property text and a scratch worktree of /repo",
            "demo": {"file": "demo.rs", "placed_at": os.path.relpath(demo, wt), "command": " ".join(democmd)},
            "confirmed": res, "confirmed_at": time.strftime("%Y-%m-%dT%H:%M:%SZ", time.gmtime())}
    json.dump(meta, open(os.path.join(out, "meta.json"), "w"), indent=1)
print(sid, "CONFIRMED" if ok else "NOT CONFIRMED", json.dumps(res)[:400])
