#!/usr/bin/env python3
"""Run the framework's checks against the confirmed seeded changes under /verif/seeded.

  seeded_run.py [--all] [--tier quick|thorough] [ids...]

For each seeded change: `git -C /repo apply patch.diff`, run `./check <property> <tier>` (with --all:
every property's check), record exit code and VIOLATION lines in meta.json["framework"], and undo the
change straight away (`git -C /repo checkout -- .`).  The evidence directory is saved before and put
back afterwards: evidence describes runs on the current tree only.  /repo must be clean to start."""
import json, os, re, shutil, subprocess, sys, time
ROOT = os.path.dirname(os.path.dirname(os.path.abspath(__file__)))
# the repository the changes are applied to: /repo, or (tools/seeded_par.sh) a scratch clone of it that
# this copy of the framework's harness has been pointed at
REPO = os.environ.get("SEEDED_REPO", "/repo")
args = sys.argv[1:]
allp = "--all" in args
tier = "quick"
if "--tier" in args:
    tier = args[args.index("--tier") + 1]
label = None
if "--label" in args:
    label = args[args.index("--label") + 1]
ids = [a for a in args if not a.startswith("--") and a not in ("quick", "thorough") and a != label]
seeded = os.path.join(ROOT, "seeded")
if not ids:
    ids = sorted(d for d in os.listdir(seeded) if os.path.isdir(os.path.join(seeded, d)))
assert subprocess.run(["git", "-C", REPO, "diff", "--quiet"]).returncode == 0, "/repo has local changes"
props = ["C%02d" % i for i in range(1, 21)]
ev = os.path.join(ROOT, "evidence")
evsave = os.path.join(ROOT, "run", "evidence.saved")
shutil.rmtree(evsave, ignore_errors=True)
os.makedirs(os.path.dirname(evsave), exist_ok=True)
shutil.copytree(ev, evsave)
summary = []
try:
    for sid in ids:
        d = os.path.join(seeded, sid)
        meta = json.load(open(os.path.join(d, "meta.json")))
        prop = meta["property"]
        r = subprocess.run(["git", "-C", REPO, "apply", os.path.join(d, "patch.diff")])
        assert r.returncode == 0, "patch does not apply: " + sid
        try:
            results = {}
            for p in (props if allp else [prop]):
                t0 = time.time()
                r = subprocess.run(["./check", p, tier], cwd=ROOT, stdout=subprocess.PIPE, stderr=subprocess.STDOUT, text=True)
                viol = [l for l in r.stdout.splitlines() if l.startswith("VIOLATION")]
                fails = sorted(set(re.findall(r"fail:[A-Za-z0-9_.:-]+", r.stdout)))[:8]
                kinds = []
                for v in viol:
                    m = re.search(r"replay=(\S+)", v)
                    if m:
                        kinds.append(os.path.basename(m.group(1)).split("_")[1])
                results[p] = {"rc": r.returncode, "violation_lines": viol[:4], "kinds": kinds, "oracle_failures": fails,
                              "seconds": round(time.time() - t0, 1)}
                if r.returncode not in (0, 1):
                    results[p]["tail"] = r.stdout.strip().splitlines()[-5:]
        finally:
            subprocess.run(["git", "-C", REPO, "checkout", "--", "."], check=True)
        fw = meta.setdefault("framework", {})
        fw[label or tier] = {"seed": os.environ.get("VERIF_SEED", "1"), "ran": "git -C /repo apply seeded/%s/patch.diff; ./check <Cxx> %s; git -C /repo checkout -- ." % (sid, tier),
                    "results": results,
                    "caught_by": sorted(p for p, v in results.items() if v["rc"] == 1 and v["violation_lines"]),
                    "at": time.strftime("%Y-%m-%dT%H:%M:%SZ", time.gmtime())}
        json.dump(meta, open(os.path.join(d, "meta.json"), "w"), indent=1)
        own = results[prop]
        line = "%s %s own-check rc=%d kinds=%s caught_by=%s" % (sid, tier, own["rc"], ",".join(own["kinds"]), ",".join(fw[label or tier]["caught_by"]))
        print(line, flush=True)
        summary.append(line)
finally:
    subprocess.run(["git", "-C", REPO, "checkout", "--", "."])
    shutil.rmtree(ev, ignore_errors=True)
    shutil.copytree(evsave, ev)
    shutil.rmtree(evsave, ignore_errors=True)
