#!/bin/bash
# Run seeded changes through the checks in N isolated workers, so that /repo and /verif stay free:
#   tools/seeded_par.sh <N> <label> <ids...>
# Each worker is a scratch clone of /repo plus a copy of /verif whose harness path-depends on that clone
# (under /root/work/w<i>; removed at the end). Results (meta.json "framework" entries) are copied back.
set -e
N=$1; LABEL=$2; shift 2
IDS=("$@")
BASE=/root/work
for i in $(seq 1 $N); do
  W=$BASE/w$i
  rm -rf $W; mkdir -p $W
  git clone -q /repo $W/repo
  # (a build running in /verif meanwhile makes files vanish under rsync: exit code 24 is fine)
  rsync -a --exclude run --exclude replays --exclude .git --exclude 'harness/target*/debug/incremental' /verif/ $W/verif/ || [ $? -eq 24 ]
  sed -i "s#/repo/#$W/repo/#" $W/verif/harness/Cargo.toml
done
worker() {
  i=$1; shift
  W=/root/work/w$i
  cd $W/verif
  SEEDED_REPO=$W/repo python3 tools/seeded_run.py --label "$LABEL" "$@" > /root/work/seeded_par_$i.log 2>&1 || true
}
export -f worker; export LABEL
pids=()
for i in $(seq 1 $N); do
  share=()
  for j in "${!IDS[@]}"; do
    if [ $(( j % N + 1 )) -eq $i ]; then share+=("${IDS[$j]}"); fi
  done
  if [ ${#share[@]} -gt 0 ]; then worker $i "${share[@]}" & pids+=($!); fi
done
for p in "${pids[@]}"; do wait $p; done
for i in $(seq 1 $N); do
  W=$BASE/w$i
  for id in "${IDS[@]}"; do
    if [ -f $W/verif/seeded/$id/meta.json ] && ! cmp -s $W/verif/seeded/$id/meta.json /verif/seeded/$id/meta.json; then
      cp $W/verif/seeded/$id/meta.json /verif/seeded/$id/meta.json
    fi
  done
  cat /root/work/seeded_par_$i.log
  rm -rf $W
done
