#!/usr/bin/env python3
"""Regenerate MANIFEST.json from tools/props.json (one source of truth for the claimed checks)."""
import json, os
ROOT = os.path.dirname(os.path.dirname(os.path.abspath(__file__)))
props = json.load(open(os.path.join(ROOT, "tools", "props.json")))
all_ids = [json.loads(l)["id"] for l in open(os.path.join(ROOT, "properties.jsonl"))]
checks = []
for pid in all_ids:
    if pid not in props or props[pid].get("unclaimed"):
        continue
    m = props[pid]["manifest"]
    checks.append({
        "property_id": pid,
        "quick_cmd": "./check %s quick" % pid,
        "thorough_cmd": "./check %s thorough" % pid,
        "evidence_file": "evidence/%s.json" % pid,
        "replay_cmd_template": "./check %s --replay {path}" % pid,
        "engine": "lean-proof+correspondence",
        "technique": m["technique"],
        "level_claimed": {"category": "proof", "text": m["text"], "design_ref": "DESIGN.md §6 %s" % pid},
        "level_note": m["level_note"],
    })
na = []
for pid in all_ids:
    if pid not in props or props[pid].get("unclaimed"):
        reason = props.get(pid, {}).get("unclaimed") or "not claimed yet: model/theorems/harness for this property are still being built (the technique applies; see DESIGN.md §6)"
        na.append({"property_id": pid, "reason": reason})
man = {
    "version": 1,
    "setup_cmd": "./setup.sh",
    "hooks": {
        "guard": "mpd_client_verif",
        "enable": "no hooks in /repo are needed: the harness observes everything through the public API and a scripted transport; /repo is built unmodified as a path dependency of /verif/harness. The harness crate itself (not /repo) is built with --cfg tokio_unstable (harness/.cargo/config.toml) so that tokio's select! branch order comes from a seed the schedule records (Builder::rng_seed)",
        "baseline_off_cmd": "cd /repo && cargo test --workspace --no-fail-fast --offline",
        "source_commits": [],
        "add_only": True,
    },
    "engines": [{
        "name": "lean-proof+correspondence",
        "path": "tools/check.py",
        "serves_properties": [c["property_id"] for c in checks],
        "kind_free_text": "Lean 4 theorems about a hand-written executable model (lean/Mpd, lean/MpdSpec, lean/MpdProofs) + differential correspondence run: the Rust harness (harness/) calls the real crates built from /repo's working tree, the compiled Lean driver (lean/Main.lean) runs the same model definitions and the property oracle on the same operation lines",
    }],
    "checks": checks,
    "not_applicable": na,
    "notes": "Genuine defects repaired in /repo as 'fix:' commits and open known findings are listed in known_findings.json and DESIGN.md §5.",
}
json.dump(man, open(os.path.join(ROOT, "MANIFEST.json"), "w"), indent=1)
print("MANIFEST.json: %d checks, %d not_applicable" % (len(checks), len(na)))
