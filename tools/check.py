#!/usr/bin/env python3
"""Orchestrator of one property check.

  check.py <Cxx> quick|thorough
  check.py <Cxx> --replay <file>

Steps (see DESIGN.md §3.2): build the property's Lean theorems and the driver, audit the axioms of
every registered theorem, build the Rust harness against /repo's current working tree, run the
harness (implementation) and the driver (model + oracle) on the same operation lines, compare,
classify, search for a failing input when the correspondence breaks, write evidence.
"""
import fcntl
import json
import os
import re
import shutil
import subprocess
import sys
import time

ROOT = os.path.dirname(os.path.dirname(os.path.abspath(__file__)))
LEAN = os.path.join(ROOT, "lean")
HARNESS = os.path.join(ROOT, "harness")
DRIVER = os.path.join(LEAN, ".lake", "build", "bin", "mpd_driver")
HBIN = os.path.join(HARNESS, "target", "debug", "mpdverif")
ALLOWED_AXIOMS = {"propext", "Classical.choice", "Quot.sound"}
FORBIDDEN = re.compile(r"\bsorry\b|\badmit\b|^\s*axiom\s|native_decide|bv_decide|implemented_by|\bunsafe\s|maxHeartbeats\s+0\b", re.M)

ENV = dict(os.environ)
ENV["CARGO_NET_OFFLINE"] = "true"
ENV.setdefault("CARGO_TARGET_DIR", os.path.join(HARNESS, "target"))


def load_props():
    with open(os.path.join(ROOT, "tools", "props.json")) as f:
        return json.load(f)


def load_known():
    with open(os.path.join(ROOT, "known_findings.json")) as f:
        return json.load(f)


class Lock:
    def __enter__(self):
        self.f = open(os.path.join(ROOT, ".build.lock"), "w")
        fcntl.flock(self.f, fcntl.LOCK_EX)
        return self

    def __exit__(self, *a):
        fcntl.flock(self.f, fcntl.LOCK_UN)
        self.f.close()


def run(cmd, cwd=None, stdin=None, stdout=None, timeout=None, env=None):
    return subprocess.run(cmd, cwd=cwd, stdin=stdin, stdout=stdout or subprocess.PIPE, stderr=subprocess.STDOUT,
                          timeout=timeout, env=env or ENV, text=(stdout is None))


def strip_comments(src):
    # remove /- … -/ (nested) and -- comments, keep string literals naive
    out = []
    i = 0
    depth = 0
    n = len(src)
    while i < n:
        if src.startswith("/-", i):
            depth += 1
            i += 2
        elif depth > 0 and src.startswith("-/", i):
            depth -= 1
            i += 2
        elif depth > 0:
            i += 1
        elif src.startswith("--", i):
            while i < n and src[i] != "\n":
                i += 1
        else:
            out.append(src[i])
            i += 1
    return "".join(out)


def lean_sources():
    res = []
    for d in ("Mpd", "MpdSpec", "MpdProofs", "Driver"):
        for base, _, files in os.walk(os.path.join(LEAN, d)):
            for fn in files:
                if fn.endswith(".lean"):
                    res.append(os.path.join(base, fn))
    res.append(os.path.join(LEAN, "Main.lean"))
    return res


def proof_stage(prop, cfg, tier, rundir):
    """returns (obligations, discharged, problems[list of str], checker_cmd)"""
    problems = []
    mods = cfg["modules"]
    thms = cfg["theorems"]
    with Lock():
        r = run(["lake", "build"] + mods + ["mpd_driver"], cwd=LEAN, timeout=3600)
    if r.returncode != 0:
        tail = "\n".join(r.stdout.splitlines()[-40:])
        problems.append("lake build failed for %s:\n%s" % (" ".join(mods), tail))
        return len(thms), 0, problems, "lake build " + " ".join(mods)
    audit = os.path.join(rundir, "Audit.lean")
    with open(audit, "w") as f:
        for m in mods:
            f.write("import %s\n" % m)
        for t in thms:
            f.write("#print axioms %s\n" % t)
    r = run(["lake", "env", "lean", audit], cwd=LEAN, timeout=1800)
    out = r.stdout
    discharged = 0
    for t in thms:
        m = re.search(r"'%s' depends on axioms: \[([^\]]*)\]" % re.escape(t), out, re.S)
        if m:
            axs = {a.strip() for a in m.group(1).replace("\n", " ").split(",") if a.strip()}
            extra = axs - ALLOWED_AXIOMS
            if extra:
                problems.append("theorem %s depends on non-standard axioms %s" % (t, sorted(extra)))
            else:
                discharged += 1
        elif re.search(r"'%s' does not depend on any axioms" % re.escape(t), out):
            discharged += 1
        else:
            problems.append("theorem %s not found / not checked" % t)
    # source scan
    for path in lean_sources():
        with open(path) as f:
            src = strip_comments(f.read())
        m = FORBIDDEN.search(src)
        if m:
            problems.append("forbidden construct %r in %s" % (m.group(0).strip(), os.path.relpath(path, ROOT)))
    checker = "lake build %s && lake env lean <#print axioms of %d theorems>" % (" ".join(mods), len(thms))
    if tier == "thorough":
        for m in mods:
            r = run(["lake", "env", "leanchecker", m], cwd=LEAN, timeout=3600)
            if r.returncode != 0:
                problems.append("leanchecker rejected %s: %s" % (m, r.stdout[-500:]))
        checker += " && lake env leanchecker " + " ".join(mods)
    return len(thms), discharged, problems, checker


def build_harness(features, target=None):
    cmd = ["cargo", "build", "--offline"]
    if features:
        cmd += ["--features", features]
    env = None
    if target:
        # second build configuration of a run (e.g. the `chrono` feature): own target directory
        env = dict(ENV)
        env["CARGO_TARGET_DIR"] = target
    with Lock():
        r = run(cmd, cwd=HARNESS, timeout=3600, env=env)
    return r


def run_driver(ops, outp, jobs=None):
    """run the Lean driver over the op lines, in parallel slices (the driver is a pure line filter)"""
    jobs = jobs or max(1, min(12, (os.cpu_count() or 2) - 2))
    with open(ops) as f:
        lines = f.readlines()
    if len(lines) < 200:
        jobs = 1
    # interleave so that expensive cases spread over the slices
    slices = [lines[i::jobs] for i in range(jobs)]
    procs = []
    for i, sl in enumerate(slices):
        pi = "%s.in%d" % (outp, i)
        po = "%s.out%d" % (outp, i)
        with open(pi, "w") as f:
            f.writelines(sl)
        procs.append((subprocess.Popen([DRIVER], stdin=open(pi), stdout=open(po, "w"), stderr=subprocess.PIPE, env=ENV), pi, po))
    outs = []
    for p, pi, po in procs:
        _, err = p.communicate(timeout=7200)
        if p.returncode != 0:
            raise RuntimeError("driver failed: %s" % err.decode()[-2000:])
        with open(po) as f:
            outs.append(f.readlines())
        os.remove(pi)
        os.remove(po)
    merged = [None] * len(lines)
    for i, o in enumerate(outs):
        if len(o) != len(slices[i]):
            raise RuntimeError("driver produced %d lines for %d operations" % (len(o), len(slices[i])))
        merged[i::jobs] = o
    with open(outp, "w") as f:
        f.writelines(merged)


def run_family(prop, fam, tier, seed, rundir, extra, tag, replay=None, n=None, hbin=None):
    ops = os.path.join(rundir, "ops_%s.txt" % tag)
    outp = os.path.join(rundir, "out_%s.txt" % tag)
    cmd = [hbin or HBIN, fam, "--seed", str(seed), "--tier", tier, "--prop", prop] + list(extra)
    if n is not None:
        cmd += ["--n", str(n)]
    if replay:
        cmd += ["--replay", replay]
    else:
        corpus = os.path.join(ROOT, "corpus", "%s.%s.ops" % (prop, fam))
        if os.path.exists(corpus):
            cmd += ["--corpus", corpus]
    cur = os.path.join(rundir, "current_%s.txt" % tag)
    henv = dict(ENV)
    henv["MPDVERIF_CURRENT"] = cur
    # a harness that does not come back (the code under test spins or blocks for ever inside a call the
    # harness cannot bound) is stopped and reported like one that died
    limit = int(os.environ.get("VERIF_HARNESS_TIMEOUT", "5400" if tier == "thorough" else "1200"))
    with open(ops, "w") as f:
        try:
            r = subprocess.run(cmd, stdout=f, stderr=subprocess.PIPE, env=henv, timeout=limit)
        except subprocess.TimeoutExpired as te:
            r = subprocess.CompletedProcess(cmd, 124, b"", ("harness stopped after %d s without finishing\n" % limit).encode() + (te.stderr or b""))
    if r.returncode == 124 and not os.path.exists(cur):
        # it hung while GENERATING (the loop family executes schedules while it generates them)
        with open(cur, "w") as f:
            f.write("%s.generation-of-the-operations-did-not-finish" % fam)
    if r.returncode != 0:
        # the harness died (abort / stack overflow / allocation failure inside the code under test):
        # attribute it to the operation that was running
        if os.path.exists(cur):
            with open(cur) as f:
                op = f.read().strip()
            with open(ops, "rb+") as f:
                data = f.read()
                keep = data[: data.rfind(b"\n") + 1] if b"\n" in data else b""
                f.seek(0)
                f.truncate()
                f.write(keep + (op + " => CRASH\n").encode())
            sys.stderr.write("harness died (rc=%s) while executing: %s\n%s\n" % (r.returncode, op[:200], r.stderr.decode()[-600:]))
        else:
            raise RuntimeError("harness failed: %s\n%s" % (" ".join(cmd), r.stderr.decode()[-2000:]))
    run_driver(ops, outp)
    cases = []
    with open(ops) as fi, open(outp) as fo:
        for l, o in zip(fi, fo):
            l = l.rstrip("\n")
            p = l.find(" => ")
            op, impl = (l[:p], l[p + 4:]) if p >= 0 else (l, "")
            parts = o.rstrip("\n").split(" ")
            if len(parts) < 4:
                parts += ["-"] * (4 - len(parts))
            cases.append({"op": op, "impl": impl, "model": parts[0], "oracle": parts[1], "cls": parts[2], "branch": parts[3]})
    n_ops = sum(1 for _ in open(ops))
    n_out = sum(1 for _ in open(outp))
    if n_ops != n_out:
        raise RuntimeError("driver produced %d lines for %d operations" % (n_out, n_ops))
    return cases


def classify(prop, cases, known_open):
    """returns dict with lists: violations (oracle), disagreements, kf counts"""
    res = {"oracle_viol": [], "disagree": [], "kf": {}, "branches": {}, "nontrivial": set(), "n": 0}
    for c in cases:
        res["n"] += 1
        res["branches"][c["branch"]] = res["branches"].get(c["branch"], 0) + 1
        if c["impl"] == "CRASH":
            c["oracle"] = "fail:harness-process-died-on-this-input"
            c["cls"] = "-"
        if c["oracle"] != "ok":
            if c["cls"] != "-" and c["cls"] in known_open:
                res["kf"].setdefault(c["cls"], []).append(c)
            else:
                res["oracle_viol"].append(c)
        elif c["impl"] != c["model"]:
            res["disagree"].append(c)
    return res


def write_replay(prop, kind, cases, note):
    d = os.path.join(ROOT, "replays")
    os.makedirs(d, exist_ok=True)
    path = os.path.join(d, "%s_%s_%d.ops" % (prop, kind, int(time.time() * 1000) % 10 ** 10))
    with open(path, "w") as f:
        for l in note.splitlines():
            f.write("# %s\n" % l)
        for c in cases:
            f.write("# impl=%s model=%s oracle=%s class=%s branch=%s\n" % (c["impl"], c["model"], c["oracle"], c["cls"], c["branch"]))
            f.write("%s => %s\n" % (c["op"], c["impl"]))
    return path


def main():
    if len(sys.argv) < 3:
        print(__doc__)
        return 2
    prop = sys.argv[1]
    replay = None
    if sys.argv[2] == "--replay":
        replay = os.path.abspath(sys.argv[3])
        tier = os.environ.get("VERIF_TIER", "quick")
    else:
        tier = sys.argv[2]
    seed = int(os.environ.get("VERIF_SEED", "1"))
    props = load_props()
    if prop not in props:
        print("unknown property", prop)
        return 2
    cfg = props[prop]
    known = load_known()
    known_open = {k["class"]: k for k in known.get("open", []) if k["property"] == prop}
    t0 = time.time()
    rundir = os.path.join(ROOT, "run", str(os.getpid()))
    os.makedirs(rundir, exist_ok=True)
    violations = []  # (replay path, suffix)
    try:
        obligations, discharged, problems, checker = proof_stage(prop, cfg, tier, rundir)
        if problems:
            path = os.path.join(ROOT, "replays", "%s_proof.txt" % prop)
            os.makedirs(os.path.dirname(path), exist_ok=True)
            with open(path, "w") as f:
                f.write("proof obligations of %s that no longer check:\n" % prop)
                f.write("\n".join(problems) + "\n")
            violations.append((path, " no-failing-input-found"))
        # harness
        r = build_harness(cfg.get("features"))
        total = {"n": 0, "branches": {}, "nontrivial": set(), "kf": {}, "disagree": 0}
        samples = []
        if r.returncode != 0:
            path = os.path.join(ROOT, "replays", "%s_harness_build.txt" % prop)
            os.makedirs(os.path.dirname(path), exist_ok=True)
            with open(path, "w") as f:
                f.write("the correspondence harness no longer compiles against /repo (public API changed?)\n")
                f.write("\n".join(r.stdout.splitlines()[-60:]) + "\n")
            violations.append((path, " no-failing-input-found"))
        else:
            trivial = set(cfg.get("trivial_branches", []))
            for i, fr in enumerate(cfg["runs"]):
                fam = fr["family"]
                extra = fr.get("args", [])
                if fr.get("tiers") and tier not in fr["tiers"]:
                    continue
                hbin = None
                if fr.get("features"):
                    # a run with its own build configuration (own target dir; a failing build is reported)
                    tdir = os.path.join(HARNESS, "target-" + re.sub(r"[^A-Za-z0-9]+", "-", fr["features"]))
                    rb = build_harness(fr["features"], target=tdir)
                    if rb.returncode != 0:
                        path = os.path.join(ROOT, "replays", "%s_harness_build_%s.txt" % (prop, fr["features"]))
                        os.makedirs(os.path.dirname(path), exist_ok=True)
                        with open(path, "w") as f:
                            f.write("the correspondence harness does not compile with --features %s\n" % fr["features"])
                            f.write("\n".join(rb.stdout.splitlines()[-60:]) + "\n")
                        violations.append((path, " no-failing-input-found"))
                        continue
                    hbin = os.path.join(tdir, "debug", "mpdverif")
                cases = run_family(prop, fam, tier, seed, rundir, extra, "%s%d" % (fam, i), replay=replay, hbin=hbin)
                res = classify(prop, cases, known_open)
                total["n"] += res["n"]
                for b, k in res["branches"].items():
                    total["branches"][b] = total["branches"].get(b, 0) + k
                for c in cases:
                    if c["branch"] not in trivial and not c["branch"].endswith("-bad"):
                        total["nontrivial"].add(c["op"])
                for k, v in res["kf"].items():
                    total["kf"].setdefault(k, []).extend(v)
                step = max(1, len(cases) // 6)
                samples += [{"op": c["op"][:300], "impl": c["impl"][:300], "model": c["model"][:300], "oracle": c["oracle"], "branch": c["branch"]} for c in cases[::step][:6]]
                if res["oracle_viol"]:
                    worst = sorted(res["oracle_viol"], key=lambda c: len(c["op"]))[:5]
                    path = write_replay(prop, "violation", worst, "property %s fails on the implementation for these operations (shortest first)\nreplay: ./check %s --replay <this file>" % (prop, prop))
                    violations.append((path, ""))
                elif res["disagree"]:
                    total["disagree"] += len(res["disagree"])
                    # correspondence broken: search for a failing input on fresh batches
                    found = None
                    budget = 20 if tier == "quick" else 180
                    ts = time.time()
                    k = 0
                    while found is None and time.time() - ts < budget and not replay:
                        k += 1
                        cs = run_family(prop, fam, tier, seed + 7919 * k, rundir, extra, "%s%d_s%d" % (fam, i, k), hbin=hbin)
                        rs = classify(prop, cs, known_open)
                        if rs["oracle_viol"]:
                            found = sorted(rs["oracle_viol"], key=lambda c: len(c["op"]))[:5]
                    if found:
                        path = write_replay(prop, "violation", found, "correspondence broke and the search found inputs on which property %s fails on the implementation" % prop)
                        violations.append((path, ""))
                    else:
                        worst = sorted(res["disagree"], key=lambda c: len(c["op"]))[:5]
                        path = write_replay(prop, "correspondence", worst,
                                            "correspondence check of %s broke: the Lean model (family %s) and the implementation disagree on these operations,\nso theorems %s no longer speak about the code. No input violating the property itself was found in %ds of search." % (prop, fam, ", ".join(cfg["theorems"][:4]) + " …", budget))
                        violations.append((path, " no-failing-input-found"))
        for cls, cs in sorted(total["kf"].items()):
            k = known_open[cls]
            print("KNOWN-FINDING: property=%s %s: %s (%d cases this run, e.g. %s)" % (prop, cls, k["what"], len(cs), cs[0]["op"][:120]))
        wall = time.time() - t0
        ev = {
            "property_id": prop,
            "tier": tier,
            "seed": seed,
            "level": "proof",
            "coverage": {
                "obligations": obligations,
                "discharged": discharged,
                "checker_cmd": checker,
                "trusted_base": cfg.get("trusted_base", []) + [
                    "Lean 4.33 kernel; axioms allowed: propext, Classical.choice, Quot.sound (audited by #print axioms on every run)",
                    "hand-written Lean model tied to /repo by the differential correspondence run below (a finite sample, validates the model, is not a proof)",
                    "Rust harness /verif/harness, Lean driver /verif/lean/Driver, orchestrator tools/check.py",
                ],
                "theorems": cfg["theorems"],
                "evaluations": total["n"],
                "distinct_nontrivial": len(total["nontrivial"]),
                "rule": cfg.get("rule", ""),
                "samples": samples[:12] if samples else [{"note": "no correspondence run"}],
                "branches": total["branches"],
                "model_impl_disagreements": total["disagree"],
                "known_finding_cases": {k: len(v) for k, v in total["kf"].items()},
                "explanation": cfg.get("explanation", ""),
            },
            "assumptions": cfg.get("assumptions", []),
            "wall_s": round(wall, 2),
            "violations": len(violations),
        }
        os.makedirs(os.path.join(ROOT, "evidence"), exist_ok=True)
        with open(os.path.join(ROOT, "evidence", "%s.json" % prop), "w") as f:
            json.dump(ev, f, indent=1)
        for path, suffix in violations:
            print("VIOLATION property=%s replay=%s%s" % (prop, path, suffix))
        print("%s %s: %d/%d theorems, %d cases (%d distinct non-trivial), %d model/impl disagreements, %d violations, %.1fs" % (
            prop, tier, discharged, obligations, total["n"], len(total["nontrivial"]), total["disagree"], len(violations), wall))
        return 1 if violations else 0
    finally:
        shutil.rmtree(rundir, ignore_errors=True)


if __name__ == "__main__":
    sys.exit(main())
