import Mpd.Basic
import Mpd.Tag
