import Mpd.Basic
import Mpd.Tag
import Mpd.Command
import Mpd.AFrame
import Mpd.F64
import Mpd.Typed.Base
import Mpd.Typed.Song
