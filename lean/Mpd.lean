import Mpd.Basic
import Mpd.Tag
import Mpd.Command
import Mpd.AFrame
import Mpd.Filter
