import Mpd.Basic
/-!
# Model of `mpd_protocol/src/command.rs` (after the `fix:` commits F6–F8)

`Command` is its buffer (`BytesMut`) as `Bytes`. `escape_argument`, `validate_command_part`,
`validate_argument`, `Command::build`, `Command::add_argument`, `CommandList::render` and the
`send` / `send_list` framing of `connection.rs` are transcribed function by function.
Functions that iterate `chars()` but only special-case ASCII are modelled bytewise.
-/
namespace Mpd.Cmd
open Mpd

/-- `should_escape` -/
def shouldEscape (b : UInt8) : Bool := b == BSLASH || b == QUOTE || b == SQUOTE

/-- the escaping loop of `escape_argument`: a backslash before every escaped byte -/
def escBody : Bytes → Bytes
  | [] => []
  | b :: bs => if shouldEscape b then BSLASH :: b :: escBody bs else b :: escBody bs

/-- `needs_quotes` (after F8): empty, or contains a byte `≤ 0x20` -/
def needsQuotes (a : Bytes) : Bool := a.isEmpty || a.any (· ≤ SPACE)

/-- `escape_argument` -/
def escapeArgument (a : Bytes) : Bytes :=
  if !(a.any shouldEscape) && !(needsQuotes a) then a
  else if needsQuotes a then QUOTE :: escBody a ++ [QUOTE] else escBody a

inductive CmdErr where
  | empty
  | invalidChar (pos : Nat)
  | commandList
deriving DecidableEq, Repr

/-- `is_valid_command_char` -/
def isValidCommandChar (b : UInt8) : Bool := isAlpha b || b == USCORE

/-- position of the first byte of the name that is not acceptable (after F6: the first byte must
be a letter, every byte a letter or `_`) -/
def firstBadNameChar : Nat → Bytes → Option Nat
  | _, [] => none
  | i, b :: bs =>
    if !(isValidCommandChar b) || (i == 0 && !(isAlpha b)) then some i else firstBadNameChar (i + 1) bs

/-- `is_command_list_command` -/
def isCommandListCommand (c : Bytes) : Bool := startsWith c (str "command_list")

/-- `validate_command_part` -/
def validateCommandPart (c : Bytes) : Except CmdErr Unit :=
  if c.isEmpty then .error .empty
  else match firstBadNameChar 0 c with
    | some i => .error (.invalidChar i)
    | none => if isCommandListCommand c then .error .commandList else .ok ()

/-- `Command::build` -/
def build (name : Bytes) : Except CmdErr Bytes :=
  match validateCommandPart name with
  | .ok () => .ok name
  | .error e => .error e

/-- position of the first LF or NUL (after F7) -/
def firstForbidden : Bytes → Option Nat
  | [] => none
  | b :: bs => if b == LF || b == 0 then some 0 else (firstForbidden bs).map (· + 1)

/-- `validate_argument` on the rendered bytes -/
def validateArgument (r : Bytes) : Except CmdErr Unit :=
  match firstForbidden r with
  | none => .ok ()
  | some i => .error (.invalidChar i)

/-- `Command::add_argument` for an argument whose renderer *appends* the bytes `r`:
returns the new buffer, or the error together with the (unchanged) buffer. -/
def addRendered (cmd : Bytes) (r : Bytes) : Except CmdErr Bytes × Bytes :=
  let buf := cmd ++ SPACE :: r
  match validateArgument (buf.drop (cmd.length + 1)) with
  | .ok () => (.ok buf, buf)
  | .error e => (.error e, buf.take cmd.length)      -- split_off + truncate

/-- `add_argument` with a `str`/`String`/`Cow<str>` argument -/
def addArgument (cmd : Bytes) (a : Bytes) : Except CmdErr Bytes × Bytes :=
  addRendered cmd (escapeArgument a)

/-- fold of `add_argument` over string arguments, stopping at the first rejection -/
def addArguments (cmd : Bytes) : List Bytes → Except CmdErr Bytes
  | [] => .ok cmd
  | a :: as =>
    match addArgument cmd a with
    | (.ok c, _) => addArguments c as
    | (.error e, _) => .error e

/-- bytes written by `Connection::send` -/
def sendBytes (cmd : Bytes) : Bytes := cmd ++ [LF]

def LIST_BEGIN : Bytes := str "command_list_ok_begin\n"
def LIST_END : Bytes := str "command_list_end\n"

/-- `CommandList::render` (the list is non-empty by construction: `first :: rest`) -/
def renderList (first : Bytes) (rest : List Bytes) : Bytes :=
  match rest with
  | [] => first ++ [LF]
  | _ => LIST_BEGIN ++ (first :: rest).flatMap (fun c => c ++ [LF]) ++ LIST_END

/-! ## `CommandList(Vec<Command>)` as a value: `new` / `add` / `command` / `extend` / `render` -/

/-- `CommandList::new` -/
def listNew (first : Bytes) : List Bytes := [first]
/-- `CommandList::add` and `CommandList::command` (`Vec::push`) -/
def listAdd (l : List Bytes) (c : Bytes) : List Bytes := l ++ [c]
/-- `Extend<Command> for CommandList` (`Vec::extend`) -/
def listExtend (l : List Bytes) (cs : List Bytes) : List Bytes := l ++ cs

/-- `CommandList::render` on the vector (`len() == 1` pops the only command; the vector is never
empty by construction, the code would then write an empty begin/end block) -/
def listRender : List Bytes → Bytes
  | [c] => c ++ [LF]
  | l => LIST_BEGIN ++ l.flatMap (fun c => c ++ [LF]) ++ LIST_END

/-- one step of building a list after `CommandList::new` -/
inductive ListOp where
  | add (c : Bytes)            -- `add`
  | command (c : Bytes)        -- `command` (chaining form of `add`)
  | extend (cs : List Bytes)   -- `extend`

def ListOp.apply (l : List Bytes) : ListOp → List Bytes
  | .add c => listAdd l c
  | .command c => listAdd l c
  | .extend cs => listExtend l cs

/-- the commands an operation contributes, in order -/
def ListOp.cmds : ListOp → List Bytes
  | .add c => [c]
  | .command c => [c]
  | .extend cs => cs

/-! ## known finding K1 (class predicate, see `MpdProofs/C06.lean`) -/

/-- the argument contains `'`, `"` or `\` but nothing that forces quoting: it is rendered
backslash-escaped but unquoted -/
def isK1 (a : Bytes) : Bool := a.any shouldEscape && !(needsQuotes a)

/-- `Argument for bool` -/
def renderBool (b : Bool) : Bytes := if b then [49] else [48]
/-- `Argument for u8 … usize` -/
def renderNat (n : Nat) : Bytes := natToDec n

end Mpd.Cmd
