/-!
# Basic definitions shared by the model of `mpd_protocol` / `mpd_client`

Rust `&[u8]`, `BytesMut`, `str` and `String` are all modelled as `List UInt8`
(`str`/`String` as their UTF-8 bytes; validity is an explicit predicate where the
Rust code calls `from_utf8`).  No imports: everything here is core Lean so that the
driver executable links.
-/

abbrev Bytes := List UInt8

deriving instance DecidableEq for Except

namespace Mpd

/-! ## byte constants -/
def LF : UInt8 := 10
def SPACE : UInt8 := 32
def TAB : UInt8 := 9
def QUOTE : UInt8 := 34     -- "
def SQUOTE : UInt8 := 39    -- '
def BSLASH : UInt8 := 92    -- \
def COLON : UInt8 := 58
def USCORE : UInt8 := 95    -- _
def DASH : UInt8 := 45      -- -

/-- ASCII bytes of a string literal (used for ASCII protocol keywords only; defined through
`String.toList` because that, unlike `String.toUTF8`, reduces in the kernel). -/
def str (s : String) : Bytes := s.toList.map (fun c => c.toNat.toUInt8)

/-! ## character classes (Rust `u8::is_ascii_*`, nom `is_alphabetic`) -/
def isUpper (b : UInt8) : Bool := 65 ≤ b && b ≤ 90
def isLower (b : UInt8) : Bool := 97 ≤ b && b ≤ 122
def isAlpha (b : UInt8) : Bool := isUpper b || isLower b
def isDigit (b : UInt8) : Bool := 48 ≤ b && b ≤ 57

/-- `u8::to_ascii_lowercase` -/
def toLower (b : UInt8) : UInt8 := if isUpper b then b + 32 else b

/-- `str::eq_ignore_ascii_case` (on UTF-8 bytes: only ASCII letters are folded) -/
def eqIgnoreCase : Bytes → Bytes → Bool
  | [], [] => true
  | a :: as, b :: bs => toLower a == toLower b && eqIgnoreCase as bs
  | _, _ => false

/-- decimal digits → number (no overflow: `Nat`) -/
def digitsVal (ds : Bytes) : Nat := ds.foldl (fun a b => a * 10 + (b.toNat - 48)) 0

/-- `usize::MAX`/`u64::MAX` on the 64-bit targets this crate is built for here -/
def U64MAX : Nat := 18446744073709551615

/-- Rust's `u64::from_str` / `usize::from_str` on a *non-empty all-digit* string:
`none` on overflow. (A leading `+` is accepted by Rust but never reaches `parse` here,
because `digit1` only yields digits.) -/
def parseU64Digits (ds : Bytes) : Option Nat :=
  let v := digitsVal ds
  if v ≤ U64MAX then some v else none

/-- decimal digits of `n`, most significant first (`fuel` bounds the number of digits) -/
def natToDecFuel : Nat → Nat → Bytes
  | 0, _ => []
  | f + 1, n =>
    if n < 10 then [UInt8.ofNat (48 + n)]
    else natToDecFuel f (n / 10) ++ [UInt8.ofNat (48 + n % 10)]

/-- decimal rendering of a `Nat` (Rust `{}` for unsigned integers); own definition rather than
`toString` so that `digitsVal (natToDec n) = n` is provable (see `MpdProofs/Lemmas/Bytes.lean`) -/
def natToDec (n : Nat) : Bytes := natToDecFuel (n + 1) n

/-! ## UTF-8 validity (mirrors `core::str::from_utf8`, Unicode table 3-7) -/
def isCont (b : UInt8) : Bool := 0x80 ≤ b && b ≤ 0xBF

def validUtf8 : Bytes → Bool
  | [] => true
  | b :: rest =>
    if b < 0x80 then validUtf8 rest
    else if 0xC2 ≤ b && b ≤ 0xDF then
      match rest with
      | c1 :: r => isCont c1 && validUtf8 r
      | _ => false
    else if b == 0xE0 then
      match rest with
      | c1 :: c2 :: r => (0xA0 ≤ c1 && c1 ≤ 0xBF) && isCont c2 && validUtf8 r
      | _ => false
    else if (0xE1 ≤ b && b ≤ 0xEC) || b == 0xEE || b == 0xEF then
      match rest with
      | c1 :: c2 :: r => isCont c1 && isCont c2 && validUtf8 r
      | _ => false
    else if b == 0xED then
      match rest with
      | c1 :: c2 :: r => (0x80 ≤ c1 && c1 ≤ 0x9F) && isCont c2 && validUtf8 r
      | _ => false
    else if b == 0xF0 then
      match rest with
      | c1 :: c2 :: c3 :: r => (0x90 ≤ c1 && c1 ≤ 0xBF) && isCont c2 && isCont c3 && validUtf8 r
      | _ => false
    else if 0xF1 ≤ b && b ≤ 0xF3 then
      match rest with
      | c1 :: c2 :: c3 :: r => isCont c1 && isCont c2 && isCont c3 && validUtf8 r
      | _ => false
    else if b == 0xF4 then
      match rest with
      | c1 :: c2 :: c3 :: r => (0x80 ≤ c1 && c1 ≤ 0x8F) && isCont c2 && isCont c3 && validUtf8 r
      | _ => false
    else false

/-- lexicographic comparison of byte strings (Rust `str::cmp` is bytewise):
-1 / 0 / 1 -/
def cmpBytes : Bytes → Bytes → Int
  | [], [] => 0
  | [], _ :: _ => -1
  | _ :: _, [] => 1
  | a :: as, b :: bs => if a < b then -1 else if b < a then 1 else cmpBytes as bs

/-- `l.starts_with(p)` -/
def startsWith : Bytes → Bytes → Bool
  | _, [] => true
  | [], _ :: _ => false
  | a :: as, p :: ps => a == p && startsWith as ps

end Mpd
