import Mpd.Command
import Mpd.Filter
import Mpd.Tag
/-!
# `char`-level transcription of the functions of `command.rs` that iterate `chars()`

A Rust `str` is the UTF-8 encoding of a sequence of Unicode scalar values. `escape_argument` and
`validate_command_part` iterate `chars()` / `char_indices()`; `Mpd/Command.lean` models them on the
bytes. Here they are transcribed on scalar values (`Nat` code points) as the Rust is written, so that
`MpdProofs/Lemmas/Utf8.lean` can PROVE the two transcriptions equal on every string (the bytewise
model is then not an approximation for non-ASCII text).
-/
namespace Mpd.Utf8
open Mpd

/-- a Unicode scalar value: what a Rust `char` can hold -/
def isScalar (c : Nat) : Bool := c < 0xD800 || (0xE000 ≤ c && c < 0x110000)

/-- `char::encode_utf8` -/
def encodeCp (c : Nat) : Bytes :=
  if c < 0x80 then [UInt8.ofNat c]
  else if c < 0x800 then [UInt8.ofNat (0xC0 + c / 64), UInt8.ofNat (0x80 + c % 64)]
  else if c < 0x10000 then
    [UInt8.ofNat (0xE0 + c / 4096), UInt8.ofNat (0x80 + c / 64 % 64), UInt8.ofNat (0x80 + c % 64)]
  else
    [UInt8.ofNat (0xF0 + c / 262144), UInt8.ofNat (0x80 + c / 4096 % 64), UInt8.ofNat (0x80 + c / 64 % 64),
     UInt8.ofNat (0x80 + c % 64)]

/-- the bytes of a `str` with these chars -/
def encodeStr (cs : List Nat) : Bytes := cs.flatMap encodeCp

/-- `should_escape(c: char)` -/
def shouldEscapeC (c : Nat) : Bool := c == 0x5C || c == 0x22 || c == 0x27

/-- the loop `for c in argument.chars() { if should_escape(c) { out.push('\\') } out.push(c) }` -/
def escBodyC : List Nat → List Nat
  | [] => []
  | c :: cs => if shouldEscapeC c then 0x5C :: c :: escBodyC cs else c :: escBodyC cs

/-- `escape_argument` as written: `needs_quotes` looks at `bytes()`, the escape count and the loop at
`chars()` -/
def escapeArgumentC (cs : List Nat) : List Nat :=
  let needsQuotes := (encodeStr cs).isEmpty || (encodeStr cs).any (· ≤ SPACE)
  let escapeCount := (cs.filter shouldEscapeC).length
  if escapeCount == 0 && !needsQuotes then cs
  else (if needsQuotes then [0x22] else []) ++ escBodyC cs ++ (if needsQuotes then [0x22] else [])

/-- `c.is_ascii_alphabetic()` on a `char` -/
def isAsciiAlphaC (c : Nat) : Bool := (65 ≤ c && c ≤ 90) || (97 ≤ c && c ≤ 122)

/-- `is_valid_command_char(c: char)` -/
def isValidCommandCharC (c : Nat) : Bool := isAsciiAlphaC c || c == 0x5F

/-- `command.char_indices().find(|(i, c)| !is_valid_command_char(*c) || (*i == 0 && !c.is_ascii_alphabetic()))`:
`i` is the BYTE offset of the char; returns that offset -/
def firstBadNameCharC : Nat → List Nat → Option Nat
  | _, [] => none
  | i, c :: cs =>
    if !(isValidCommandCharC c) || (i == 0 && !(isAsciiAlphaC c)) then some i
    else firstBadNameCharC (i + (encodeCp c).length) cs

/-- `validate_command_part` -/
def validateCommandPartC (cs : List Nat) : Except Cmd.CmdErr Unit :=
  if (encodeStr cs).isEmpty then .error .empty
  else match firstBadNameCharC 0 cs with
    | some i => .error (.invalidChar i)
    | none => if Cmd.isCommandListCommand (encodeStr cs) then .error .commandList else .ok ()

/-! ## `mpd_client/src/filter.rs`: `escape_filter_value` -/

/-- `str::replace(pat: char, to: &str)` -/
def replaceC (k : Nat) (rep : List Nat) : List Nat → List Nat
  | [] => []
  | c :: cs => if c == k then rep ++ replaceC k rep cs else c :: replaceC k rep cs

/-- `escape_filter_value` as written: `value.contains(['"', '\\'])`, then the two `replace` calls -/
def escapeFilterValueC (v : List Nat) : List Nat :=
  if v.any (fun c => c == 0x22 || c == 0x5C) then
    replaceC 0x22 [0x5C, 0x5C, 0x22] (replaceC 0x5C [0x5C, 0x5C, 0x5C, 0x5C] v)
  else v

/-! ## `mpd_client/src/tag.rs`: the validity scan of `Tag::try_from` -/

/-- `ch.is_ascii_alphabetic() || ch == '_' || ch == '-'` -/
def isTagCharC (c : Nat) : Bool := isAsciiAlphaC c || c == 0x5F || c == 0x2D

/-- `raw.char_indices().find(|&(_, ch)| !(…))`: the BYTE offset of the first unacceptable char -/
def firstBadC (p : Nat → Bool) : List Nat → Option Nat
  | [] => none
  | c :: cs => if p c then (firstBadC p cs).map (· + (encodeCp c).length) else some 0

end Mpd.Utf8
