import Mpd.ParserProgress
import Mpd.AFrame
/-!
# Model of `ResponseBuilder` (`mpd_protocol/src/response/mod.rs`)

`ResponseState`, `field`, `binary`, `finish_frame`, `finish`, `error` and the parse loop
`ResponseBuilder::parse`, which repeatedly parses one component from the front of the buffer,
cuts it out (`split_to`) and feeds it to the state machine. Frames built by the parser have no
holes, so they are represented by their abstract view `AFrame`.
-/
namespace Mpd.Builder
open Mpd Mpd.Parser

structure Response where
  frames : List AFrame
  error : Option Err
deriving Repr, DecidableEq, Inhabited

/-- `ResponseState` -/
inductive BState where
  | initial
  | inProgress (cur : AFrame)
  | listInProgress (cur : AFrame) (done : List AFrame)
deriving Repr, DecidableEq, Inhabited

def emptyFrame : AFrame := { fields := [], binary := none }

def pushField (f : AFrame) (k v : Bytes) : AFrame := { f with fields := f.fields ++ [(k, v)] }

/-- what a parsed component carries into the state machine (the binary payload is cut out of the
consumed message by the parse loop) -/
inductive Piece where
  | endOfFrame
  | endOfResponse
  | error (e : Err)
  | field (key value : Bytes)
  | binary (data : Bytes)
deriving Repr, DecidableEq

/-- one step of the state machine: new state and, for a terminating component, the response -/
def bstep : BState → Piece → BState × Option Response
  -- `field`
  | .initial, .field k v => (.inProgress (pushField emptyFrame k v), none)
  | .inProgress c, .field k v => (.inProgress (pushField c k v), none)
  | .listInProgress c d, .field k v => (.listInProgress (pushField c k v) d, none)
  -- `binary`
  | .initial, .binary b => (.inProgress { emptyFrame with binary := some b }, none)
  | .inProgress c, .binary b => (.inProgress { c with binary := some b }, none)
  | .listInProgress c d, .binary b => (.listInProgress { c with binary := some b } d, none)
  -- `finish_frame`
  | .initial, .endOfFrame => (.listInProgress emptyFrame [emptyFrame], none)
  | .inProgress c, .endOfFrame => (.listInProgress emptyFrame [c], none)
  | .listInProgress c d, .endOfFrame => (.listInProgress emptyFrame (d ++ [c]), none)
  -- `finish`
  | .initial, .endOfResponse => (.initial, some { frames := [emptyFrame], error := none })
  | .inProgress c, .endOfResponse => (.initial, some { frames := [c], error := none })
  | .listInProgress _ d, .endOfResponse => (.initial, some { frames := d, error := none })
  -- `error`
  | .initial, .error e => (.initial, some { frames := [], error := some e })
  | .inProgress _, .error e => (.initial, some { frames := [], error := some e })
  | .listInProgress _ d, .error e => (.initial, some { frames := d, error := some e })

/-- result of one call of `ResponseBuilder::parse` -/
inductive Out where
  | pending                 -- `Ok(None)`: needs more bytes
  | done (r : Response)     -- `Ok(Some(response))`
  | invalid                 -- `Err(InvalidMessage)`
  | panic                   -- `advance`/`truncate`/subtraction out of range (proved unreachable)
deriving Repr, DecidableEq

/-- cut the payload out of the consumed message `msg = "binary: N\n" ++ payload ++ "\n"`:
`msg.advance(msg.len() - (N + 1)); msg.truncate(N)`; `none` = the subtraction/advance would panic -/
def cutBinary (msg : Bytes) (n : Nat) : Option Bytes :=
  if msg.length < n + 1 then none else some ((msg.drop (msg.length - (n + 1))).take n)

/-- turn the parsed component and the bytes it consumed into the builder's input -/
def toPiece (c : Comp) (msg : Bytes) : Option Piece :=
  match c with
  | .endOfFrame => some .endOfFrame
  | .endOfResponse => some .endOfResponse
  | .error e => some (.error e)
  | .field k v => some (.field k v)
  | .binary n => (cutBinary msg n).map .binary

/-- `ResponseBuilder::parse(&mut self, src)`: returns the new builder state, what is left in `src`,
and the outcome. Terminates because every component consumes at least one byte. -/
def feed (σ : BState) (buf : Bytes) : BState × Bytes × Out :=
  match h : parseComp buf with
  | .ok c rest =>
    have : rest.length < buf.length := parseComp_strict buf c rest h
    match toPiece c (buf.take (buf.length - rest.length)) with
    | none => (σ, rest, .panic)
    | some pc =>
      match bstep σ pc with
      | (σ', some r) => (σ', rest, .done r)
      | (σ', none) => feed σ' rest
  | .incomplete => (σ, buf, .pending)
  | .error => (σ, buf, .invalid)
  | .failure => (σ, buf, .invalid)
termination_by buf.length

/-- `is_frame_in_progress` -/
def inProgress (σ : BState) : Bool := σ != .initial

end Mpd.Builder
