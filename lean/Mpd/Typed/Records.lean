import Mpd.Typed.Prog
/-!
# Model of the record decoders

`Status::from_frame`, `Stats::from_frame`, `ReplayGainStatus::from_frame`, `Count::from_frame`,
`AlbumArt::from_frame` (`mpd_client/src/responses/{mod,count}.rs`) and the `response` functions of
`Update`/`Rescan` (`updating_db`), `Add` (`Id`) and of the commands answering `()`
(`mpd_client/src/commands/definitions.rs`).  The order of the `get` calls is the order in the Rust
(struct-literal fields are evaluated in textual order).
-/
namespace Mpd.Typed
open Mpd

/-! ## keys -/
namespace K
def single := str "single"
def duration := str "duration"
def Time := str "Time"
def volume := str "volume"
def state := str "state"
def repeat_ := str "repeat"
def random := str "random"
def consume := str "consume"
def playlistlength := str "playlistlength"
def playlist := str "playlist"
def song := str "song"
def songid := str "songid"
def nextsong := str "nextsong"
def nextsongid := str "nextsongid"
def elapsed := str "elapsed"
def bitrate := str "bitrate"
def xfade := str "xfade"
def updating_db := str "updating_db"
def error := str "error"
def partition := str "partition"
def artists := str "artists"
def albums := str "albums"
def songs := str "songs"
def uptime := str "uptime"
def playtime := str "playtime"
def db_playtime := str "db_playtime"
def db_update := str "db_update"
def replay_gain_mode := str "replay_gain_mode"
def size := str "size"
def type := str "type"
def Id := str "Id"
end K

/-! ## enums -/

inductive PlayState where
  | stopped | playing | paused
deriving DecidableEq, Repr, Inhabited

/-- `FromFieldValue for PlayState` -/
def parsePlayState (s : Bytes) : Option PlayState :=
  if s = str "play" then some .playing
  else if s = str "pause" then some .paused
  else if s = str "stop" then some .stopped
  else none

inductive SingleMode where
  | enabled | disabled | oneshot
deriving DecidableEq, Repr, Inhabited

/-- the `match val.as_str()` on the `single` field inside `Status::from_frame` -/
def parseSingle (s : Bytes) : Option SingleMode :=
  if s = str "0" then some .disabled
  else if s = str "1" then some .enabled
  else if s = str "oneshot" then some .oneshot
  else none

inductive ReplayGainMode where
  | off | track | album | auto
deriving DecidableEq, Repr, Inhabited

/-- `FromFieldValue for ReplayGainMode` -/
def parseReplayGainMode (s : Bytes) : Option ReplayGainMode :=
  if s = str "off" then some .off
  else if s = str "track" then some .track
  else if s = str "album" then some .album
  else if s = str "auto" then some .auto
  else none

/-- `str::split_once(c)`: split at the FIRST occurrence of the byte `c` -/
def splitOnce (c : UInt8) : Bytes → Option (Bytes × Bytes)
  | [] => none
  | b :: bs =>
    if b = c then some ([], bs)
    else match splitOnce c bs with
      | none => none
      | some (l, r) => some (b :: l, r)

/-! ## Status -/

structure Status where
  volume : Nat
  state : PlayState
  repeat_ : Bool
  random : Bool
  consume : Bool
  single : SingleMode
  playlistVersion : Nat
  playlistLength : Nat
  currentSong : Option (Nat × Nat)
  nextSong : Option (Nat × Nat)
  elapsed : Option Dur
  duration : Option Dur
  bitrate : Option Nat
  crossfade : Dur
  updateJob : Option Nat
  error : Option Bytes
  partition : Option Bytes
deriving DecidableEq, Repr

/-- the legacy `Time: elapsed:total` value: the part after the first `:` is the duration -/
def parseLegacyTime (time : Bytes) : Option Dur :=
  match splitOnce COLON time with
  | some (_, d) => parseDuration d
  | none => none

/-- the struct literal at the end of `Status::from_frame` (fields evaluated in textual order) -/
def statusRest (single : SingleMode) (duration : Option Dur) : Prog Status :=
  pOptional parseU8 K.volume fun volume =>
  pValue parsePlayState K.state fun state =>
  pValue parseBool K.repeat_ fun rep =>
  pValue parseBool K.random fun random =>
  pValue parseBool K.consume fun consume =>
  pOptional parseUsize K.playlistlength fun pll =>
  pOptional parseU32 K.playlist fun plv =>
  pSongIdentifier K.song K.songid fun cur =>
  pSongIdentifier K.nextsong K.nextsongid fun next =>
  pOptional parseDuration K.elapsed fun elapsed =>
  pOptional parseU64 K.bitrate fun bitrate =>
  pOptional parseDuration K.xfade fun xfade =>
  pOptional parseU64 K.updating_db fun uj =>
  pRaw K.error fun error =>
  pRaw K.partition fun partition =>
  .ret (.ok {
    volume := volume.getD 0, state, repeat_ := rep, random, consume, single,
    playlistLength := pll.getD 0, playlistVersion := plv.getD 0,
    currentSong := cur, nextSong := next, elapsed, duration, bitrate,
    crossfade := xfade.getD (0, 0), updateJob := uj, error, partition })

/-- `let single = match raw.get("single") { None => Disabled, Some(val) => match val.as_str() {…} }` -/
def singleOf : Option Bytes → Option SingleMode
  | none => some .disabled
  | some v => parseSingle v

/-- `Status::from_frame` -/
def statusProg : Prog Status :=
  .get K.single fun single? =>
  match singleOf single? with
  | none => .ret .terr
  | some single =>
  -- let duration = if let Some(val) = raw.get("duration") { … }
  --                else if let Some(time) = raw.get("Time") { … } else { None }
  .get K.duration fun dur? =>
  match dur? with
  | some v =>
    match parseDuration v with
    | none => .ret .terr
    | some d => statusRest single (some d)
  | none =>
    .get K.Time fun time? =>
    match time? with
    | some time =>
      match parseLegacyTime time with
      | none => .ret .terr            -- no separator, or the part after it is not a duration
      | some d => statusRest single (some d)
    | none => statusRest single none

def decStatus (f : AFrame) : Outcome Status := statusProg.run f

/-! ## Stats -/

structure Stats where
  artists : Nat
  albums : Nat
  songs : Nat
  uptime : Dur
  playtime : Dur
  dbPlaytime : Dur
  dbLastUpdate : Nat
deriving DecidableEq, Repr

/-- `Stats::from_frame` -/
def statsProg : Prog Stats :=
  pValue parseU64 K.artists fun artists =>
  pValue parseU64 K.albums fun albums =>
  pValue parseU64 K.songs fun songs =>
  pValue parseDuration K.uptime fun uptime =>
  pValue parseDuration K.playtime fun playtime =>
  pValue parseDuration K.db_playtime fun dbPlaytime =>
  pValue parseU64 K.db_update fun dbLastUpdate =>
  .ret (.ok { artists, albums, songs, uptime, playtime, dbPlaytime, dbLastUpdate })

def decStats (f : AFrame) : Outcome Stats := statsProg.run f

/-! ## ReplayGainStatus -/

/-- `ReplayGainStatus::from_frame` -/
def replayGainProg : Prog ReplayGainMode :=
  pValue parseReplayGainMode K.replay_gain_mode fun m => .ret (.ok m)

def decReplayGain (f : AFrame) : Outcome ReplayGainMode := replayGainProg.run f

/-! ## Count (ungrouped) -/

structure Count where
  songs : Nat
  playtime : Dur
deriving DecidableEq, Repr

/-- `Count::from_frame` -/
def countProg : Prog Count :=
  pValue parseU64 K.songs fun songs =>
  pValue parseDuration K.playtime fun playtime =>
  .ret (.ok { songs, playtime })

def decCount (f : AFrame) : Outcome Count := countProg.run f

/-! ## `Update` / `Rescan` (`updating_db`), `Add` (`Id`), unit commands -/

def updateProg : Prog Nat := pValue parseU64 K.updating_db fun v => .ret (.ok v)
def decUpdate (f : AFrame) : Outcome Nat := updateProg.run f

def addIdProg : Prog Nat := pValue parseU64 K.Id fun v => .ret (.ok v)
def decAddId (f : AFrame) : Outcome Nat := addIdProg.run f

/-- every command whose `Response = ()` ignores the frame -/
def decUnit (_ : AFrame) : Outcome Unit := .ok ()

/-! ## AlbumArt -/

structure AlbumArt where
  size : Nat
  mime : Option Bytes
  data : Bytes
deriving DecidableEq, Repr

/-- `AlbumArt::from_frame`: no binary ⇒ `Ok(None)` before any field is looked at -/
def decAlbumArt (f : AFrame) : Outcome (Option AlbumArt) :=
  match f.takeBinary with
  | (none, _) => .ok none
  | (some data, f') =>
    (pValue parseUsize K.size fun size =>
     pRaw K.type fun mime =>
     .ret (.ok (some { size, mime, data }))).run f'

end Mpd.Typed
