import Mpd.Basic
import Mpd.AFrame
import Mpd.F64
/-!
# Model of the conversion helpers of `mpd_client/src/responses/mod.rs`

`FromFieldValue` impls, `value`, `optional_value`, `song_identifier`, `parse_duration`.
Every decoder returns `Outcome α`: a value, a typed-response error (errors are compared as a
class: kind/field are not modelled), or a **panic** (an explicit outcome, so that "never panics"
is a theorem with content).
-/
namespace Mpd.Typed
open Mpd

inductive Outcome (α : Type) where
  | ok (v : α)
  | terr            -- Err(TypedResponseError)
  | panic           -- unwrap/expect/assert/index failure in the Rust
deriving DecidableEq, Repr

namespace Outcome
def bind {α β} (o : Outcome α) (f : α → Outcome β) : Outcome β :=
  match o with
  | .ok v => f v
  | .terr => .terr
  | .panic => .panic
def map {α β} (f : α → β) (o : Outcome α) : Outcome β := o.bind (fun v => .ok (f v))
def ofOption {α} : Option α → Outcome α
  | some v => .ok v
  | none => .terr
end Outcome

/-- Rust `uN::from_str`: optional leading `+`, then at least one digit, all digits, value ≤ max.
(`-` is rejected for unsigned types, as are blanks.) -/
def parseUnsigned (max : Nat) (s : Bytes) : Option Nat :=
  let ds := match s with
    | 43 :: t => t
    | _ => s
  if ds.isEmpty || !(ds.all isDigit) then none
  else
    let v := digitsVal ds
    if v ≤ max then some v else none

def U8MAX : Nat := 255
def U32MAX : Nat := 4294967295

def parseU8 := parseUnsigned U8MAX
def parseU32 := parseUnsigned U32MAX
def parseU64 := parseUnsigned U64MAX
def parseUsize := parseUnsigned U64MAX

/-- `FromFieldValue for bool` -/
def parseBool (s : Bytes) : Option Bool :=
  if s = [48] then some false else if s = [49] then some true else none

/-- a `Duration` as (secs, nanos) -/
abbrev Dur := Nat × Nat

/-- `FromFieldValue for Duration` = `parse_duration` -/
def parseDuration (s : Bytes) : Option Dur := F64.decodeDuration s

/-- `value(frame, field)` with conversion `conv`: required field, taken out of the frame -/
def value {α} (conv : Bytes → Option α) (f : AFrame) (k : Bytes) : Outcome α × AFrame :=
  match f.get k with
  | (none, f') => (.terr, f')
  | (some v, f') => (Outcome.ofOption (conv v), f')

/-- `optional_value(frame, field)` -/
def optionalValue {α} (conv : Bytes → Option α) (f : AFrame) (k : Bytes) : Outcome (Option α) × AFrame :=
  match f.get k with
  | (none, f') => (.ok none, f')
  | (some v, f') =>
    match conv v with
    | some x => (.ok (some x), f')
    | none => (.terr, f')

/-- `song_identifier(frame, position_field, id_field)`:
position optional; if present the id is required -/
def songIdentifier (f : AFrame) (posK idK : Bytes) : Outcome (Option (Nat × Nat)) × AFrame :=
  match optionalValue parseUsize f posK with
  | (.ok none, f') => (.ok none, f')
  | (.ok (some p), f') =>
    match value parseU64 f' idK with
    | (.ok i, f'') => (.ok (some (p, i)), f'')
    | (.terr, f'') => (.terr, f'')
    | (.panic, f'') => (.panic, f'')
  | (.terr, f') => (.terr, f')
  | (.panic, f') => (.panic, f')

end Mpd.Typed
