import Mpd.Typed.Records
import Mpd.Tag
/-!
# Model of the decoders that walk the whole frame in order

`Count::from_frame_grouped` / `build_grouped_values` (count.rs), `List::from_frame` and its
iterators (list.rs), `Playlist::parse_frame` (playlist.rs), `StickerGet/StickerList/StickerFind`
and `parse_sticker_value` (sticker.rs), `parse_channel_messages` (mod.rs) and the `response`
functions of `ListChannels` and `GetEnabledTagTypes` (definitions.rs).

All of them consume `frame.into_iter()`: the fields in wire order. Loops with mutable state are
written as structurally recursive state machines over the field list; the loop state is an
explicit argument.
-/
namespace Mpd.Typed
open Mpd

abbrev Fields := List (Bytes × Bytes)

/-! ## grouped count -/

/-- state of `build_grouped_values`: between groups, or inside the inner `while` with the group's
value and what has been seen so far -/
inductive GCState where
  | idle
  | inGroup (value : Bytes) (songs : Option Nat) (playtime : Option Dur)
deriving DecidableEq, Repr

/-- after an assignment inside the inner loop: re-test `songs.is_none() || playtime.is_none()`;
when the loop is left, `songs.unwrap()` / `playtime.unwrap()` are evaluated (a `None` there would
be a panic — `C12_countGrouped_total` shows it cannot happen) -/
def gcAfter (value : Bytes) (songs : Option Nat) (playtime : Option Dur)
    (out : List (Bytes × Count)) : Outcome (GCState × List (Bytes × Count)) :=
  if songs.isNone || playtime.isNone then .ok (.inGroup value songs playtime, out)
  else
    match songs, playtime with
    | some s, some p => .ok (.idle, out ++ [(value, { songs := s, playtime := p })])
    | _, _ => .panic

/-- `build_grouped_values(out, grouping_tag, fields)`; `tag` is `grouping_tag.as_str()` -/
def gcGo (tag : Bytes) : GCState → Fields → List (Bytes × Count) → Outcome (List (Bytes × Count))
  | .idle, [], out => .ok out                                   -- outer `while let` ends
  | .inGroup _ _ _, [], _ => .terr                               -- `missing(songs|playtime)`
  | .idle, (k, v) :: rest, out =>
    if k ≠ tag then .terr                                         -- unexpected_field(grouping_tag, key)
    else gcGo tag (.inGroup v none none) rest out
  | .inGroup value songs playtime, (k, v) :: rest, out =>
    if k = K.songs then
      if songs.isNone then
        match parseU64 v with
        | none => .terr
        | some n =>
          match gcAfter value (some n) playtime out with
          | .ok (st, out') => gcGo tag st rest out'
          | .terr => .terr
          | .panic => .panic
      else .terr                                                  -- second `songs` in one group
    else if k = K.playtime then
      if playtime.isNone then
        match parseDuration v with
        | none => .terr
        | some d =>
          match gcAfter value songs (some d) out with
          | .ok (st, out') => gcGo tag st rest out'
          | .terr => .terr
          | .panic => .panic
      else .terr
    else .terr                                                    -- any other key inside a group

/-- `Count::from_frame_grouped(frame, group_by)` (`CountGrouped::response`) -/
def decCountGrouped (groupBy : Tag) (f : AFrame) : Outcome (List (Bytes × Count)) :=
  gcGo groupBy.name .idle f.fields []

/-! ## list -/

structure ListResp where
  primary : Tag
  groupings : List Tag          -- `[Tag; N]`
  fields : List (Tag × Bytes)
deriving DecidableEq, Repr

/-- the `.map(|(tag, value)| (Tag::try_from(tag.as_ref()).unwrap(), value))` of `List::from_frame` -/
def listFields : Fields → Outcome (List (Tag × Bytes))
  | [] => .ok []
  | (k, v) :: rest =>
    match Tag.tryFrom k with
    | .error _ => .panic                                          -- `.unwrap()`
    | .ok t =>
      match listFields rest with
      | .ok l => .ok ((t, v) :: l)
      | .terr => .terr
      | .panic => .panic

/-- `List::from_frame(primary_tag, groupings, frame)` (`List::response`) -/
def decList (primary : Tag) (groupings : List Tag) (f : AFrame) : Outcome ListResp :=
  match listFields f.fields with
  | .ok fields => .ok { primary, groupings, fields }
  | .terr => .terr
  | .panic => .panic

/-- `List::<0>::values()` and both `IntoIterator` impls: every value, whatever its tag -/
def ListResp.values (l : ListResp) : List Bytes := l.fields.map (·.2)

/-- `self.grouping_tags.iter().position(|t| t == tag)` -/
def tagPosition (tag : Tag) : List Tag → Option Nat
  | [] => none
  | t :: ts => if t.eq tag then some 0 else (tagPosition tag ts).map (· + 1)

/-- `GroupedListValuesIter`: all items it yields; `cur` is `grouping_values` -/
def groupedGo (primary : Tag) (groupings : List Tag) :
    List (Tag × Bytes) → List Bytes → List (Bytes × List Bytes)
  | [], _ => []
  | (tag, value) :: rest, cur =>
    if tag.eq primary then (value, cur) :: groupedGo primary groupings rest cur
    else
      match tagPosition tag groupings with
      | some idx => groupedGo primary groupings rest (cur.set idx value)
      | none => groupedGo primary groupings rest cur            -- F3: ignored, was `.unwrap()`

/-- `List::grouped_values()` collected -/
def ListResp.groupedValues (l : ListResp) : List (Bytes × List Bytes) :=
  groupedGo l.primary l.groupings l.fields (List.replicate l.groupings.length [])

/-! ## listplaylists -/

/-- `Timestamp`: only `raw` is modelled (the default build has no `chrono`; with the `chrono`
feature an unparsable timestamp is an error, which is outside this model) -/
structure Playlist where
  name : Bytes
  lastModified : Bytes
deriving DecidableEq, Repr

/-- `Playlist::parse_frame`; `cur` is `current_name` -/
def playlistsGo : Option Bytes → Fields → List Playlist → Outcome (List Playlist)
  | _, [], out => .ok out                       -- a pending name is dropped silently
  | some name, (k, v) :: rest, out =>
    if k = str "Last-Modified" then playlistsGo none rest (out ++ [{ name, lastModified := v }])
    else .terr
  | none, (k, v) :: rest, out =>
    if k = str "playlist" then playlistsGo (some v) rest out
    else .terr

def decPlaylists (f : AFrame) : Outcome (List Playlist) := playlistsGo none f.fields []

/-! ## stickers -/

/-- `parse_sticker_value`: `key=value`, split at the first `=` -/
def parseStickerValue (tag : Bytes) : Option (Bytes × Bytes) := splitOnce 61 tag

/-- `StickerGet::from_frame`: only the first field is looked at -/
def decStickerGet (f : AFrame) : Outcome Bytes :=
  match f.fields with
  | [] => .terr
  | (k, v) :: _ =>
    if k ≠ str "sticker" then .terr
    else match parseStickerValue v with
      | some (_, value) => .ok value
      | none => .terr

/-- a `HashMap<String, String>` as an association list with unique keys (insertion order kept for
new keys, the value replaced in place for an existing key); printed sorted by key -/
abbrev SMap := List (Bytes × Bytes)

def SMap.insert (k v : Bytes) : SMap → SMap
  | [] => [(k, v)]
  | (k', v') :: rest => if k' = k then (k, v) :: rest else (k', v') :: SMap.insert k v rest

def SMap.lookup (k : Bytes) (m : SMap) : Option Bytes := (m.find? (·.1 == k)).map (·.2)

/-- `StickerList::from_frame`: the KEYS of the frame are ignored, every value must be `k=v` -/
def stickerListGo : Fields → SMap → Outcome SMap
  | [], m => .ok m
  | (_, v) :: rest, m =>
    match parseStickerValue v with
    | none => .terr
    | some (name, value) => stickerListGo rest (m.insert name value)

def decStickerList (f : AFrame) : Outcome SMap := stickerListGo f.fields []

/-- `StickerFind::from_frame`; `file` starts as the empty string -/
def stickerFindGo : Bytes → Fields → SMap → Outcome SMap
  | _, [], m => .ok m
  | file, (k, v) :: rest, m =>
    if k = str "file" then stickerFindGo v rest m
    else if k = str "sticker" then
      match parseStickerValue v with
      | none => .terr
      | some (_, value) => stickerFindGo file rest (m.insert file value)
    else .terr

def decStickerFind (f : AFrame) : Outcome SMap := stickerFindGo [] f.fields []

/-! ## channels -/

/-- `parse_channel_messages` -/
def channelMessagesGo : Fields → List (Bytes × Bytes) → Outcome (List (Bytes × Bytes))
  | [], out => .ok out
  | [_], _ => .terr                         -- key is not `channel`, or `missing("message")`
  | (k, c) :: (k', m) :: rest, out =>
    if k ≠ str "channel" then .terr
    else if k' ≠ str "message" then .terr
    else channelMessagesGo rest (out ++ [(c, m)])

def decChannelMessages (f : AFrame) : Outcome (List (Bytes × Bytes)) := channelMessagesGo f.fields []

/-- `ListChannels::response` -/
def listChannelsGo : Fields → Outcome (List Bytes)
  | [] => .ok []
  | (k, v) :: rest =>
    if k ≠ str "channel" then .terr
    else match listChannelsGo rest with
      | .ok l => .ok (v :: l)
      | .terr => .terr
      | .panic => .panic

def decListChannels (f : AFrame) : Outcome (List Bytes) := listChannelsGo f.fields

/-- `GetEnabledTagTypes::response`: the VALUES are parsed as tags; a value that is not a tag is
an error (not an `unwrap`) -/
def tagTypesGo : Fields → Outcome (List Tag)
  | [] => .ok []
  | (k, v) :: rest =>
    if k ≠ str "tagtype" then .terr
    else match Tag.tryFrom v with
      | .error _ => .terr
      | .ok t =>
        match tagTypesGo rest with
        | .ok l => .ok (t :: l)
        | .terr => .terr
        | .panic => .panic

def decTagTypes (f : AFrame) : Outcome (List Tag) := tagTypesGo f.fields

end Mpd.Typed
