import Mpd.Typed.Base
/-!
# Model of typed command lists (`mpd_client/src/commands/command_list.rs`, after fix F4)

`responses` pairs the commands of a list with the frames of the reply. The response type of the
i-th command is abstracted to one result type `ρ` (in the driver: the canonical string of the
value); `resp i` is the `Command::response` of the i-th command.
-/
namespace Mpd.Typed
open Mpd

/-- the `for (command, frame) in self.into_iter().zip(frames) { out.push(command.response(frame)?) }` -/
def zipResponses {ρ} : List (AFrame → Outcome ρ) → List AFrame → Outcome (List ρ)
  | c :: cs, f :: fs =>
    match c f with
    | .ok r =>
      match zipResponses cs fs with
      | .ok l => .ok (r :: l)
      | .terr => .terr
      | .panic => .panic
    | .terr => .terr
    | .panic => .panic
  | _, _ => .ok []

/-- `impl CommandList for Vec<C>`: `responses(self, frames)` -/
def vecResponses {ρ} (cmds : List (AFrame → Outcome ρ)) (frames : List AFrame) : Outcome (List ρ) :=
  if cmds.length ≠ frames.length then .terr          -- F4: was `assert_eq!`
  else zipResponses cmds frames

/-- the macro expansion of `impl_command_list_tuple!`: for the indices `0, 1, …` in order
`self.$idx.response(frames.next().ok_or_else(TypedResponseError::other)?)?`; frames beyond the
arity are never looked at -/
def tupleResponses {ρ} : List (AFrame → Outcome ρ) → List AFrame → Outcome (List ρ)
  | [], _ => .ok []
  | _ :: _, [] => .terr                               -- F4: was `frames.next().unwrap()`
  | c :: cs, f :: fs =>
    match c f with
    | .ok r =>
      match tupleResponses cs fs with
      | .ok l => .ok (r :: l)
      | .terr => .terr
      | .panic => .panic
    | .terr => .terr
    | .panic => .panic

end Mpd.Typed
