import Mpd.Typed.Base
/-!
# Field-extraction programs

The record decoders of `mpd_client` (`Status`, `Stats`, `Count`, `ReplayGainStatus`, `AlbumArt`,
`Update`, `Add`) are straight-line code over `Frame::get` with `?` early returns. They are written
here as *programs*: trees whose inner nodes are `Frame::get(key)` calls and whose leaves are
outcomes. `Prog.run` executes a program the way the Rust does — every `get` REMOVES the first
field with that key from the frame, the next `get` sees the remaining fields. `Prog.runF` is the
reading "look every key up in the original frame"; `MpdProofs/Lemmas/Prog.lean` proves the two
agree for every program that never asks for the same key twice (all of them), for EVERY frame.
-/
namespace Mpd.Typed
open Mpd

inductive Prog (α : Type) where
  | ret (o : Outcome α)
  | get (k : Bytes) (cont : Option Bytes → Prog α)

namespace Prog

/-- execution as in the Rust: `frame.get(k)` takes the field out of the frame -/
def run {α} : Prog α → AFrame → Outcome α
  | .ret o, _ => o
  | .get k c, f => run (c (f.get k).1) (f.get k).2

/-- execution against a fixed lookup function -/
def runF {α} : Prog α → (Bytes → Option Bytes) → Outcome α
  | .ret o, _ => o
  | .get k c, look => runF (c (look k)) look

end Prog

/-! ## the helpers of `responses/mod.rs` in continuation-passing form
(`c` is "the rest of the function after the `?`") -/

/-- `let x = value(f, k)?; …` -/
def pValue {α β} (conv : Bytes → Option α) (k : Bytes) (c : α → Prog β) : Prog β :=
  .get k fun
    | none => .ret .terr                      -- TypedResponseError::missing
    | some v =>
      match conv v with
      | none => .ret .terr                    -- invalid_value
      | some a => c a

/-- `let x = optional_value(f, k)?; …` -/
def pOptional {α β} (conv : Bytes → Option α) (k : Bytes) (c : Option α → Prog β) : Prog β :=
  .get k fun
    | none => c none
    | some v =>
      match conv v with
      | none => .ret .terr
      | some a => c (some a)

/-- `let x = f.get(k); …` (a `String` field taken verbatim) -/
def pRaw {β} (k : Bytes) (c : Option Bytes → Prog β) : Prog β := .get k c

/-- `let x = song_identifier(f, pos, id)?; …` -/
def pSongIdentifier {β} (posK idK : Bytes) (c : Option (Nat × Nat) → Prog β) : Prog β :=
  pOptional parseUsize posK fun
    | none => c none
    | some p => pValue parseU64 idK fun i => c (some (p, i))

/-- the programs agree with the frame-threading helpers of `Base.lean` -/
theorem pValue_run_ret {α} (conv : Bytes → Option α) (k : Bytes) (f : AFrame) :
    (pValue conv k (fun a => .ret (.ok a))).run f = (value conv f k).1 := by
  unfold pValue value Prog.run AFrame.get
  cases h : f.find k with
  | none => simp [Prog.run]
  | some v => cases hc : conv v <;> simp [Prog.run, hc, Outcome.ofOption]

theorem pOptional_run_ret {α} (conv : Bytes → Option α) (k : Bytes) (f : AFrame) :
    (pOptional conv k (fun a => .ret (.ok a))).run f = (optionalValue conv f k).1 := by
  unfold pOptional optionalValue Prog.run AFrame.get
  cases h : f.find k with
  | none => simp [Prog.run]
  | some v => cases hc : conv v <;> simp [Prog.run, hc]

end Mpd.Typed
