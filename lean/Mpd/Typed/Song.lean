import Mpd.Basic
import Mpd.AFrame
import Mpd.Tag
import Mpd.Typed.Base
/-!
# Model of `mpd_client/src/responses/song.rs` and of the song-returning commands

`Song`, `SongInQueue`, `SongRange`, the private `SongBuilder` (`field`, `handle_start_field`,
`handle_song_field`, `finish`, `into_song`), `is_start_field`, both `from_frame_multi` variants,
`from_frame_single`, and the `response` functions of `Queue`, `QueueRange`, `CurrentSong`, `Find`,
`GetPlaylist`, `ListAllIn` and `Add` (`commands/definitions.rs`).

Conventions specific to this file

* `for (key, value) in frame` (owned iteration of a `Frame`) is a walk over `AFrame.fields` in wire
  order (that the real slot vector iterates in wire order is property C19); the binary part of the
  frame is ignored by all song decoders.
* An **empty URL means "no song in progress"**, exactly as in the Rust (`self.url.is_empty()`).
* `HashMap<Tag, Vec<String>>` is modelled as an association list `TagMap` kept in a canonical order:
  strictly increasing by the tag's protocol name (`Tag::as_str`), which is what `Eq`/`Hash` of `Tag`
  are functions of (property C20). Two hash maps are equal iff their canonical lists are equal.
* `Timestamp::from_value` depends on the build configuration: without the `chrono` feature every
  string is accepted, with it only what `chrono::DateTime::parse_from_rfc3339` accepts. The model
  takes that acceptance predicate as the parameter `ts : Bytes → Bool` (`fun _ => true` for the
  default build, which is what the correspondence run executes). Only `Timestamp::raw` is modelled.
* The partial operations of the Rust are explicit `panic` branches:
  `Tag::try_from(tag).unwrap()` in `handle_song_field` and `assert!(!self.url.is_empty())` in
  `into_song`. The accessors of `Song` contain no partial operation (slice patterns, `unwrap_or`),
  so they are plain total functions here.
-/
namespace Mpd.Typed
open Mpd

/-! ## `SongRange` -/

/-- `str::split_once(c)` for an ASCII `c`: split at the first occurrence -/
def splitOnceS (c : UInt8) : Bytes → Option (Bytes × Bytes)
  | [] => none
  | b :: bs =>
    if b = c then some ([], bs)
    else match splitOnceS c bs with
      | some (a, r) => some (b :: a, r)
      | none => none

/-- `SongRange { from, to }` -/
structure SongRange where
  start : Dur
  stop : Option Dur
deriving DecidableEq, Repr

/-- `FromFieldValue for SongRange`: `"<start>-<end?>"`, split at the FIRST `-` -/
def parseRange (v : Bytes) : Option SongRange :=
  match splitOnceS DASH v with
  | none => none
  | some (a, b) =>
    match parseDuration a with
    | none => none
    | some f =>
      if b.isEmpty then some ⟨f, none⟩
      else match parseDuration b with
        | none => none
        | some t => some ⟨f, some t⟩

/-! ## the tag map -/

/-- `HashMap<Tag, Vec<String>>` in canonical form: strictly increasing by `Tag.name` -/
abbrev TagMap := List (Tag × List Bytes)

/-- `tags.entry(tag).or_default().push(value)`: an existing key (equal by name) keeps the key
object it was first inserted with and gets the value appended; a new key is inserted at its
place in the order -/
def TagMap.push : TagMap → Tag → Bytes → TagMap
  | [], t, v => [(t, [v])]
  | (t', vs) :: rest, t, v =>
    if t.name = t'.name then (t', vs ++ [v]) :: rest
    else if cmpBytes t.name t'.name < 0 then (t, [v]) :: (t', vs) :: rest
    else (t', vs) :: TagMap.push rest t v

/-- `match self.tags.get(tag) { Some(v) => v.as_slice(), None => &[] }` -/
def TagMap.get (m : TagMap) (t : Tag) : List Bytes :=
  match m.find? (fun e => e.1.eq t) with
  | some e => e.2
  | none => []

/-! ## `Song`, `SongInQueue` and the accessors -/

structure Song where
  url : Bytes
  duration : Option Dur
  tags : TagMap
  format : Option Bytes
  /-- `Option<Timestamp>`, observed through `Timestamp::raw` -/
  lastModified : Option Bytes
deriving DecidableEq, Repr

structure SongInQueue where
  position : Nat
  id : Nat
  range : Option SongRange
  priority : Nat
  song : Song
deriving DecidableEq, Repr

namespace Song
/-- `Song::tag_values` -/
def tagValues (s : Song) (t : Tag) : List Bytes := s.tags.get t
/-- `Song::single_tag_value`: `[] => None, [v, ..] => Some(v)` -/
def singleTagValue (s : Song) (t : Tag) : Option Bytes :=
  match s.tagValues t with
  | [] => none
  | v :: _ => some v
/-- `Song::file_path` (`Path::new(&self.url)`: the same bytes) -/
def filePath (s : Song) : Bytes := s.url
def artists (s : Song) : List Bytes := s.tagValues (.named .Artist)
def albumArtists (s : Song) : List Bytes := s.tagValues (.named .AlbumArtist)
def album (s : Song) : Option Bytes := s.singleTagValue (.named .Album)
def title (s : Song) : Option Bytes := s.singleTagValue (.named .Title)
/-- `Song::number`: `disc.and_then(|v| v.parse().ok()).unwrap_or(0)` (as `u64`), same for track -/
def number (s : Song) : Nat × Nat :=
  (((s.singleTagValue (.named .Disc)).bind parseU64).getD 0,
   ((s.singleTagValue (.named .Track)).bind parseU64).getD 0)
end Song

/-! ## `SongBuilder` -/

/-- `#[derive(Default)] struct SongBuilder` -/
structure Builder where
  url : Bytes := []
  position : Nat := 0
  id : Nat := 0
  range : Option SongRange := none
  priority : Nat := 0
  duration : Option Dur := none
  tags : TagMap := []
  format : Option Bytes := none
  lastModified : Option Bytes := none
deriving DecidableEq, Repr

def kFile : Bytes := str "file"
def kDirectory : Bytes := str "directory"
def kPlaylist : Bytes := str "playlist"
def kDuration : Bytes := str "duration"
def kTime : Bytes := str "Time"
def kRange : Bytes := str "Range"
def kFormat : Bytes := str "Format"
def kLastModified : Bytes := str "Last-Modified"
def kPrio : Bytes := str "Prio"
def kPos : Bytes := str "Pos"
def kId : Bytes := str "Id"

/-- `is_start_field` -/
def isStartField (k : Bytes) : Bool := k == kFile || k == kDirectory || k == kPlaylist

namespace Builder

/-- `SongBuilder::into_song` (with its `assert!`) -/
def intoSong (b : Builder) : Outcome SongInQueue :=
  if b.url.isEmpty then .panic
  else .ok {
    position := b.position, id := b.id, range := b.range, priority := b.priority,
    song := { url := b.url, duration := b.duration, tags := b.tags, format := b.format,
              lastModified := b.lastModified } }

/-- `SongBuilder::finish` -/
def finish (b : Builder) : Outcome (Option SongInQueue) :=
  if b.url.isEmpty then .ok none
  else match b.intoSong with
    | .ok s => .ok (some s)
    | .terr => .terr
    | .panic => .panic

/-- `SongBuilder::handle_start_field` -/
def handleStartField (b : Builder) (k v : Bytes) : Outcome Builder :=
  if k = kFile then .ok { b with url := v }
  else if k = kDirectory ∨ k = kPlaylist ∨ k = kLastModified then .ok b
  else .terr

/-- `SongBuilder::handle_song_field` -/
def handleSongField (ts : Bytes → Bool) (b : Builder) (k v : Bytes) :
    Outcome (Builder × Option SongInQueue) :=
  if isStartField k then
    -- `mem::take(self).into_song()`, then the field is handled by the fresh builder
    match b.intoSong with
    | .panic => .panic
    | .terr => .terr
    | .ok song =>
      match ({} : Builder).handleStartField k v with
      | .ok b' => .ok (b', some song)
      | .terr => .terr
      | .panic => .panic
  else if k = kDuration then
    match parseDuration v with
    | some d => .ok ({ b with duration := some d }, none)
    | none => .terr
  else if k = kTime then
    -- only consulted (and only parsed) while no duration is known yet
    if b.duration.isNone then
      match parseDuration v with
      | some d => .ok ({ b with duration := some d }, none)
      | none => .terr
    else .ok (b, none)
  else if k = kRange then
    match parseRange v with
    | some r => .ok ({ b with range := some r }, none)
    | none => .terr
  else if k = kFormat then .ok ({ b with format := some v }, none)
  else if k = kLastModified then
    if ts v then .ok ({ b with lastModified := some v }, none) else .terr
  else if k = kPrio then
    match parseU8 v with
    | some n => .ok ({ b with priority := n }, none)
    | none => .terr
  else if k = kPos then
    match parseUsize v with
    | some n => .ok ({ b with position := n }, none)
    | none => .terr
  else if k = kId then
    match parseU64 v with
    | some n => .ok ({ b with id := n }, none)
    | none => .terr
  else
    -- "It's fine to unwrap here because the protocol implementation already validated the field name"
    match Tag.tryFrom k with
    | .error _ => .panic
    | .ok t => .ok ({ b with tags := b.tags.push t v }, none)

/-- `SongBuilder::field` -/
def field (ts : Bytes → Bool) (b : Builder) (k v : Bytes) : Outcome (Builder × Option SongInQueue) :=
  if b.url.isEmpty then
    match b.handleStartField k v with
    | .ok b' => .ok (b', none)
    | .terr => .terr
    | .panic => .panic
  else b.handleSongField ts k v

end Builder

/-! ## the three frame decoders -/

/-- the loop of `from_frame_multi`; `proj` is the pattern the completed song is bound with
(`song` for `SongInQueue::from_frame_multi`, `SongInQueue { song, .. }` for `Song::from_frame_multi`;
the two Rust functions are otherwise textually identical) -/
def multiLoop {α : Type} (ts : Bytes → Bool) (proj : SongInQueue → α) :
    Builder → List α → List (Bytes × Bytes) → Outcome (List α)
  | b, out, [] =>
    match b.finish with
    | .ok none => .ok out
    | .ok (some s) => .ok (out ++ [proj s])
    | .terr => .terr
    | .panic => .panic
  | b, out, (k, v) :: rest =>
    match b.field ts k v with
    | .ok (b', none) => multiLoop ts proj b' out rest
    | .ok (b', some s) => multiLoop ts proj b' (out ++ [proj s]) rest
    | .terr => .terr
    | .panic => .panic

/-- `SongInQueue::from_frame_multi` -/
def SongInQueue.fromFrameMulti (ts : Bytes → Bool) (f : AFrame) : Outcome (List SongInQueue) :=
  multiLoop ts (fun s => s) {} [] f.fields

/-- `Song::from_frame_multi` -/
def Song.fromFrameMulti (ts : Bytes → Bool) (f : AFrame) : Outcome (List Song) :=
  multiLoop ts (·.song) {} [] f.fields

/-- the loop of `from_frame_single`: completed songs returned by `field` are dropped -/
def singleLoop (ts : Bytes → Bool) : Builder → List (Bytes × Bytes) → Outcome (Option SongInQueue)
  | b, [] => b.finish
  | b, (k, v) :: rest =>
    match b.field ts k v with
    | .ok (b', _) => singleLoop ts b' rest
    | .terr => .terr
    | .panic => .panic

/-- `SongInQueue::from_frame_single` -/
def SongInQueue.fromFrameSingle (ts : Bytes → Bool) (f : AFrame) : Outcome (Option SongInQueue) :=
  singleLoop ts {} f.fields

/-! ## the song-returning commands (`Command::response`) -/

inductive SongCmd where
  | queue         -- `Queue` (playlistinfo)
  | queuerange    -- `QueueRange` (playlistinfo / playlistid)
  | currentsong   -- `CurrentSong`
  | find          -- `Find`
  | getplaylist   -- `GetPlaylist` (listplaylistinfo)
  | listallinfo   -- `ListAllIn`
  | addid         -- `Add` (response `SongId`)
deriving DecidableEq, Repr

def SongCmd.all : List SongCmd :=
  [.queue, .queuerange, .currentsong, .find, .getplaylist, .listallinfo, .addid]

inductive SongResp where
  | queue (l : List SongInQueue)
  | songs (l : List Song)
  | current (o : Option SongInQueue)
  | id (n : Nat)
deriving DecidableEq, Repr

/-- `<cmd>::response(frame)` -/
def response (ts : Bytes → Bool) (c : SongCmd) (f : AFrame) : Outcome SongResp :=
  match c with
  | .queue | .queuerange => (SongInQueue.fromFrameMulti ts f).map .queue
  | .currentsong => (SongInQueue.fromFrameSingle ts f).map .current
  | .find | .getplaylist | .listallinfo => (Song.fromFrameMulti ts f).map .songs
  | .addid => (value parseU64 f kId).1.map .id

end Mpd.Typed
