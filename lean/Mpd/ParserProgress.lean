import Mpd.Parser
/-!
# Progress of the parser model (needed for the termination of `ResponseBuilder::parse`)

Every successful parser returns a suffix of its input (`Shrinks`), and `parseComp` consumes at
least one byte (`ShrinksStrict`). The parse loop of the builder terminates *because* of this.
-/
namespace Mpd.Parser

def Shrinks {α} (p : P α) : Prop := ∀ i v r, p i = .ok v r → r.length ≤ i.length
def ShrinksStrict {α} (p : P α) : Prop := ∀ i v r, p i = .ok v r → r.length < i.length

theorem strict_shrinks {α} (p : P α) (h : ShrinksStrict p) : Shrinks p :=
  fun i v r hh => Nat.le_of_lt (h i v r hh)

theorem tag_shrinks (t : Bytes) : Shrinks (tag t) := by
  intro i v r h
  induction t generalizing i with
  | nil => simp [tag] at h; simp [h]
  | cons t ts ih =>
    cases i with
    | nil => simp [tag] at h
    | cons b bs =>
      simp only [tag] at h
      split at h
      · have := ih bs h; simp; omega
      · simp at h

theorem tag_strict (t : Bytes) (ht : t ≠ []) : ShrinksStrict (tag t) := by
  intro i v r h
  cases t with
  | nil => exact absurd rfl ht
  | cons t ts =>
    cases i with
    | nil => simp [tag] at h
    | cons b bs =>
      simp only [tag] at h
      split at h
      · have := tag_shrinks ts bs v r h; simp; omega
      · simp at h

theorem char_strict (c : UInt8) : ShrinksStrict (char c) := by
  intro i v r h
  cases i with
  | nil => simp [char] at h
  | cons b bs =>
    simp only [char] at h
    split at h
    · simp at h; simp [← h]
    · simp at h

theorem takeWhile1_strict (p : UInt8 → Bool) : ShrinksStrict (takeWhile1 p) := by
  intro i v r h
  induction i generalizing v r with
  | nil => simp [takeWhile1] at h
  | cons b bs ih =>
    simp only [takeWhile1] at h
    split at h
    · cases hq : takeWhile1 p bs with
      | ok v' r' => rw [hq] at h; simp at h; obtain ⟨_, rfl⟩ := h; have := ih v' r' hq; simp; omega
      | incomplete => rw [hq] at h; simp at h
      | error => rw [hq] at h; simp at h; simp [← h.2]
      | failure => rw [hq] at h; simp at h; simp [← h.2]
    · simp at h

theorem takeWhile_shrinks (p : UInt8 → Bool) : Shrinks (takeWhile p) := by
  intro i v r h
  induction i generalizing v r with
  | nil => simp [takeWhile] at h
  | cons b bs ih =>
    simp only [takeWhile] at h
    split at h
    · cases hq : takeWhile p bs with
      | ok v' r' => rw [hq] at h; simp at h; obtain ⟨_, rfl⟩ := h; have := ih v' r' hq; simp; omega
      | incomplete => rw [hq] at h; simp at h
      | error => rw [hq] at h; simp at h
      | failure => rw [hq] at h; simp at h
    · simp at h; simp [← h.2]

theorem takeUntilLF_shrinks : Shrinks takeUntilLF := by
  intro i v r h
  induction i generalizing v r with
  | nil => simp [takeUntilLF] at h
  | cons b bs ih =>
    simp only [takeUntilLF] at h
    split at h
    · simp at h; simp [← h.2]
    · cases hq : takeUntilLF bs with
      | ok v' r' => rw [hq] at h; simp at h; obtain ⟨_, rfl⟩ := h; have := ih v' r' hq; simp; omega
      | incomplete => rw [hq] at h; simp at h
      | error => rw [hq] at h; simp at h
      | failure => rw [hq] at h; simp at h

theorem take_shrinks (n : Nat) : Shrinks (take n) := by
  intro i v r h
  simp only [take] at h
  split at h
  · simp at h
  · simp at h; simp [← h.2]

theorem pMap_shrinks {α β} (p : P α) (f : α → β) (hp : Shrinks p) : Shrinks (pMap p f) := by
  intro i v r h
  unfold pMap at h
  cases hq : p i with
  | ok v' r' => rw [hq] at h; simp at h; obtain ⟨_, rfl⟩ := h; exact hp i v' r' hq
  | incomplete => rw [hq] at h; simp at h
  | error => rw [hq] at h; simp at h
  | failure => rw [hq] at h; simp at h

theorem pMap_strict {α β} (p : P α) (f : α → β) (hp : ShrinksStrict p) : ShrinksStrict (pMap p f) := by
  intro i v r h
  unfold pMap at h
  cases hq : p i with
  | ok v' r' => rw [hq] at h; simp at h; obtain ⟨_, rfl⟩ := h; exact hp i v' r' hq
  | incomplete => rw [hq] at h; simp at h
  | error => rw [hq] at h; simp at h
  | failure => rw [hq] at h; simp at h

theorem mapRes_shrinks {α β} (p : P α) (f : α → Option β) (hp : Shrinks p) : Shrinks (mapRes p f) := by
  intro i v r h
  unfold mapRes at h
  cases hq : p i with
  | ok v' r' =>
    rw [hq] at h
    cases hf : f v' with
    | none => simp [hf] at h
    | some w => simp [hf] at h; obtain ⟨_, rfl⟩ := h; exact hp i v' r' hq
  | incomplete => rw [hq] at h; simp at h
  | error => rw [hq] at h; simp at h
  | failure => rw [hq] at h; simp at h

theorem mapRes_strict {α β} (p : P α) (f : α → Option β) (hp : ShrinksStrict p) : ShrinksStrict (mapRes p f) := by
  intro i v r h
  unfold mapRes at h
  cases hq : p i with
  | ok v' r' =>
    rw [hq] at h
    cases hf : f v' with
    | none => simp [hf] at h
    | some w => simp [hf] at h; obtain ⟨_, rfl⟩ := h; exact hp i v' r' hq
  | incomplete => rw [hq] at h; simp at h
  | error => rw [hq] at h; simp at h
  | failure => rw [hq] at h; simp at h

theorem andThen_shrinks {α β} (f : P α) (g : α → P β) (hf : Shrinks f) (hg : ∀ a, Shrinks (g a)) :
    Shrinks (andThen f g) := by
  intro i v r h
  unfold andThen at h
  cases hq : f i with
  | ok v' r' => rw [hq] at h; simp at h; have := hf i v' r' hq; have := hg v' r' v r h; omega
  | incomplete => rw [hq] at h; simp at h
  | error => rw [hq] at h; simp at h
  | failure => rw [hq] at h; simp at h

theorem andThen_strict_left {α β} (f : P α) (g : α → P β) (hf : ShrinksStrict f) (hg : ∀ a, Shrinks (g a)) :
    ShrinksStrict (andThen f g) := by
  intro i v r h
  unfold andThen at h
  cases hq : f i with
  | ok v' r' => rw [hq] at h; simp at h; have := hf i v' r' hq; have := hg v' r' v r h; omega
  | incomplete => rw [hq] at h; simp at h
  | error => rw [hq] at h; simp at h
  | failure => rw [hq] at h; simp at h

theorem alt_strict {α} (f g : P α) (hf : ShrinksStrict f) (hg : ShrinksStrict g) : ShrinksStrict (alt f g) := by
  intro i v r h
  unfold alt at h
  cases hq : f i with
  | ok v' r' => rw [hq] at h; simp at h; obtain ⟨rfl, rfl⟩ := h; exact hf i _ _ hq
  | incomplete => rw [hq] at h; simp at h
  | error => rw [hq] at h; simp at h; exact hg i v r h
  | failure => rw [hq] at h; simp at h

theorem opt_shrinks {α} (p : P α) (hp : Shrinks p) : Shrinks (opt p) := by
  intro i v r h
  unfold opt at h
  cases hq : p i with
  | ok v' r' => rw [hq] at h; simp at h; obtain ⟨_, rfl⟩ := h; exact hp i v' r' hq
  | incomplete => rw [hq] at h; simp at h
  | error => rw [hq] at h; simp at h; simp [← h.2]
  | failure => rw [hq] at h; simp at h

theorem cut_shrinks {α} (p : P α) (hp : Shrinks p) : Shrinks (cut p) := by
  intro i v r h
  unfold cut at h
  cases hq : p i with
  | ok v' r' => rw [hq] at h; simp at h; obtain ⟨rfl, rfl⟩ := h; exact hp i _ _ hq
  | incomplete => rw [hq] at h; simp at h
  | error => rw [hq] at h; simp at h
  | failure => rw [hq] at h; simp at h

theorem terminated_shrinks {α β} (p : P α) (q : P β) (hp : Shrinks p) (hq : Shrinks q) :
    Shrinks (terminated p q) :=
  andThen_shrinks _ _ hp fun _ => pMap_shrinks _ _ hq

theorem preceded_strict {α β} (p : P α) (q : P β) (hp : ShrinksStrict p) (hq : Shrinks q) :
    ShrinksStrict (preceded p q) :=
  andThen_strict_left _ _ hp fun _ => hq

theorem preceded_shrinks {α β} (p : P α) (q : P β) (hp : Shrinks p) (hq : Shrinks q) :
    Shrinks (preceded p q) :=
  andThen_shrinks _ _ hp fun _ => hq

theorem number_shrinks : Shrinks number :=
  mapRes_shrinks _ _ (strict_shrinks _ (takeWhile1_strict _))

theorem errorCodeAndIndex_shrinks : Shrinks errorCodeAndIndex := by
  unfold errorCodeAndIndex
  apply preceded_shrinks _ _ (strict_shrinks _ (char_strict _))
  apply andThen_shrinks _ _ number_shrinks
  intro _
  apply preceded_shrinks _ _ (strict_shrinks _ (char_strict _))
  apply andThen_shrinks _ _ number_shrinks
  intro _
  exact pMap_shrinks _ _ (strict_shrinks _ (char_strict _))

theorem errorCurrentCommand_shrinks : Shrinks errorCurrentCommand := by
  unfold errorCurrentCommand
  apply preceded_shrinks _ _ (strict_shrinks _ (char_strict _))
  apply terminated_shrinks _ _ _ (strict_shrinks _ (char_strict _))
  exact opt_shrinks _ (mapRes_shrinks _ _ (strict_shrinks _ (takeWhile1_strict _)))

theorem error_strict : ShrinksStrict error := by
  unfold error
  apply preceded_strict _ _ (tag_strict _ (by decide))
  apply andThen_shrinks _ _ (terminated_shrinks _ _ errorCodeAndIndex_shrinks (strict_shrinks _ (char_strict _)))
  intro _
  apply andThen_shrinks _ _ (terminated_shrinks _ _ errorCurrentCommand_shrinks (strict_shrinks _ (char_strict _)))
  intro _
  apply andThen_shrinks _ _ (mapRes_shrinks _ _ (takeWhile_shrinks _))
  intro _
  exact pMap_shrinks _ _ (strict_shrinks _ (char_strict _))

theorem fieldValue_shrinks : Shrinks fieldValue :=
  terminated_shrinks _ _ takeUntilLF_shrinks (strict_shrinks _ (char_strict _))

theorem keyValueField_strict : ShrinksStrict keyValueField := by
  unfold keyValueField
  apply andThen_strict_left _ _ (mapRes_strict _ _ (takeWhile1_strict _))
  intro _
  apply preceded_shrinks _ _ (tag_shrinks _)
  exact pMap_shrinks _ _ (mapRes_shrinks _ _ fieldValue_shrinks)

theorem binaryPrefix_strict : ShrinksStrict binaryPrefix := by
  unfold binaryPrefix
  apply preceded_strict _ _ (tag_strict _ (by decide))
  exact cut_shrinks _ (terminated_shrinks _ _ number_shrinks (strict_shrinks _ (char_strict _)))

theorem binaryField_strict : ShrinksStrict binaryField := by
  unfold binaryField
  apply andThen_strict_left _ _ binaryPrefix_strict
  intro _
  exact cut_shrinks _ (terminated_shrinks _ _ (take_shrinks _) (strict_shrinks _ (char_strict _)))

theorem parseComp_strict : ShrinksStrict parseComp := by
  unfold parseComp
  apply alt_strict _ _ (pMap_strict _ _ (tag_strict _ (by decide)))
  apply alt_strict _ _ (pMap_strict _ _ (tag_strict _ (by decide)))
  apply alt_strict _ _ (pMap_strict _ _ error_strict)
  apply alt_strict _ _ (pMap_strict _ _ binaryField_strict)
  exact pMap_strict _ _ keyValueField_strict

end Mpd.Parser
