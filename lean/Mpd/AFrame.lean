import Mpd.Basic
/-!
# Abstract frame: the ordered multimap view of `mpd_protocol::response::Frame`

The typed decoders of `mpd_client` only use `Frame::find`, `Frame::get`, `Frame::take_binary`,
`Frame::binary`, `fields_len`/`is_empty` and (owned or borrowed) iteration. C19 proves that the
real slot-vector representation (holes left by `get`) behaves exactly like this list model, so
the decoder models are written over `AFrame`.
-/
namespace Mpd

structure AFrame where
  fields : List (Bytes × Bytes) := []
  binary : Option Bytes := none
deriving DecidableEq, Repr, Inhabited

namespace AFrame

/-- `Frame::find`: value of the first field with this key (case-sensitive) -/
def find (f : AFrame) (k : Bytes) : Option Bytes :=
  (f.fields.find? (·.1 == k)).map (·.2)

/-- remove the first pair with key `k` -/
def eraseFirst (k : Bytes) : List (Bytes × Bytes) → List (Bytes × Bytes)
  | [] => []
  | p :: ps => if p.1 == k then ps else p :: eraseFirst k ps

/-- `Frame::get`: take the value of the first field with this key out of the frame -/
def get (f : AFrame) (k : Bytes) : Option Bytes × AFrame :=
  match f.find k with
  | none => (none, f)
  | some v => (some v, { f with fields := eraseFirst k f.fields })

/-- `Frame::take_binary` -/
def takeBinary (f : AFrame) : Option Bytes × AFrame := (f.binary, { f with binary := none })

def fieldsLen (f : AFrame) : Nat := f.fields.length
def isEmpty (f : AFrame) : Bool := f.fields.isEmpty && f.binary.isNone

end AFrame
end Mpd
