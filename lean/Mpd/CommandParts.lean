import Mpd.Commands
/-!
# Normal form of the predefined commands: a name and a list of typed argument pieces

Every `command()` body of `definitions.rs` is "`RawCommand::new(name)`, then `argument` /
`add_argument(..).unwrap()` for some pieces in order".  `shape` lists, for each builder path, the
name and the pieces (by the Rust type that renders them); `assemble` replays them on the model of
`Command`.  `command c = assemble (shape c)` is proved in `MpdProofs/Lemmas/Commands.lean`
(`command_eq_assemble`), so this file adds no assumption: it is the presentation of the model the
theorems of C15 and the driver's class predicates (`PCmd.strings`, `PCmd.tags`, `PCmd.filters`,
`PCmd.durs`, `ctorPanics`) are phrased in.
-/
namespace Mpd.CmdsL
open Mpd Mpd.Cmd Mpd.Commands

/-- one argument of a predefined command, by the Rust type that renders it -/
inductive Part where
  | str (s : Bytes)                    -- a `&str` parameter (through `escape_argument`)
  | kw (w : Bytes)                     -- a `&'static str` literal (through `escape_argument`)
  | nat (n : Nat)                      -- `u8` / `u64` / `usize` / `SongId` / `SongPosition`
  | pos (p : PositionOrRelative)
  | range (r : SongRange)
  | dur (d : Dur)                      -- `Duration`
  | seek (m : SeekMode)                -- the `format!`ted `String` of `Seek` (through `escape_argument`)
  | bool (b : Bool)
  | tag (t : Tag)                      -- `Argument for Tag` (not escaped)
  | sortTag (t : Tag)                  -- `sort.as_str()` (through `escape_argument`)
  | filter (f : FilterType)

/-- `add_argument(part)` + unwrap -/
def addPart (c : Outcome Bytes) : Part → Outcome Bytes
  | .str s => argStr c s
  | .kw w => argStr c w
  | .nat n => argNat c n
  | .pos p => arg c p.render
  | .range r => arg c r.render
  | .dur d => arg c d.render
  | .seek m => argStr c m.format
  | .bool b => arg c (renderBool b)
  | .tag t => argTag c t
  | .sortTag t => argStr c t.name
  | .filter f => argFilter c f

/-- `RawCommand::new(name)` followed by the arguments in order -/
def assemble (name : Bytes) (ps : List Part) : Outcome Bytes := ps.foldl addPart (rawNew name)

def optParts {α : Type} (o : Option α) (f : α → List Part) : List Part :=
  match o with
  | some a => f a
  | none => []

/-- name and argument pieces of each builder path (for the paths whose constructor does not panic) -/
def shape : PCmd → Bytes × List Part
  | .clearQueue => (str "clear", [])
  | .next => (str "next", [])
  | .ping => (str "ping", [])
  | .previous => (str "previous", [])
  | .stop => (str "stop", [])
  | .replayGainStatus => (str "replay_gain_status", [])
  | .status => (str "status", [])
  | .stats => (str "stats", [])
  | .queueAll => (str "playlistinfo", [])
  | .currentSong => (str "currentsong", [])
  | .getPlaylists => (str "listplaylists", [])
  | .getEnabledTagTypes => (str "tagtypes", [])
  | .readChannelMessages => (str "readmessages", [])
  | .listChannels => (str "channels", [])
  | .clearPlaylist s => (str "playlistclear", [.str s])
  | .deletePlaylist s => (str "rm", [.str s])
  | .saveQueueAsPlaylist s => (str "save", [.str s])
  | .subscribeToChannel s => (str "subscribe", [.str s])
  | .unsubscribeFromChannel s => (str "unsubscribe", [.str s])
  | .getPlaylist s => (str "listplaylistinfo", [.str s])
  | .setConsume b => (str "consume", [.bool b])
  | .setPause b => (str "pause", [.bool b])
  | .setRandom b => (str "random", [.bool b])
  | .setRepeat b => (str "repeat", [.bool b])
  | .queueSong (.id id) => (str "playlistid", [.nat id])
  | .queueSong (.position p) => (str "playlistinfo", [.nat p])
  | .queueRange s e => (str "playlistinfo", [.range (SongRange.new s e)])
  | .setVolume v => (str "setvol", [.nat (min v 100)])
  | .setSingle m => (str "single", [.kw m.keyword])
  | .setReplayGainMode m => (str "replay_gain_mode", [.kw m.keyword])
  | .crossfade d => (str "crossfade", [.nat d.secs])
  | .seekTo (.position p) d => (str "seek", [.nat p, .dur d])
  | .seekTo (.id id) d => (str "seekid", [.nat id, .dur d])
  | .seek m => (str "seekcur", [.seek m])
  | .shuffleAll => (str "shuffle", [])
  | .shuffleRange s e => (str "shuffle", [.range (SongRange.new s e)])
  | .playCurrent => (str "play", [])
  | .playSong (.position p) => (str "play", [.nat p])
  | .playSong (.id id) => (str "playid", [.nat id])
  | .add uri pos => (str "addid", .str uri :: optParts pos fun p => [.pos p])
  | .deleteId id => (str "deleteid", [.nat id])
  | .deletePosition p => (str "delete", [.range (SongRange.new (.included p) (.included p))])
  | .deleteRange s e => (str "delete", [.range (SongRange.new s e)])
  | .move (.id id) to => (str "moveid", [.nat id, .pos to])
  | .move (.position p) to => (str "move", [.range (SongRange.new (.included p) (.included p)), .pos to])
  | .move (.range s e) to => (str "move", [.range (SongRange.new s e), .pos to])
  | .find f sort window =>
    (str "find", .filter f
      :: (optParts sort fun t => [.kw (str "sort"), .sortTag t])
      ++ (optParts window fun w => [.kw (str "window"), .range (SongRange.newUsize w.1 w.2)]))
  | .list t f groupBy =>
    (str "list", .tag t
      :: (optParts f fun f => [.filter f])
      ++ groupBy.flatMap fun g => [.kw (str "group"), .tag g])
  | .count f => (str "count", [.filter f])
  | .countGrouped g f => (str "count", (optParts f fun f => [.filter f]) ++ [.kw (str "group"), .tag g])
  | .renamePlaylist a b => (str "rename", [.str a, .str b])
  | .loadPlaylist n r => (str "load", .str n :: optParts r fun w => [.range (SongRange.newUsize w.1 w.2)])
  | .addToPlaylist pl url pos => (str "playlistadd", .str pl :: .str url :: optParts pos fun p => [.nat p])
  | .removeFromPlaylistPosition pl p => (str "playlistdelete", [.str pl, .nat p])
  | .removeFromPlaylistRange pl s e => (str "playlistdelete", [.str pl, .range (SongRange.new s e)])
  | .moveInPlaylist pl a b => (str "playlistmove", [.str pl, .nat a, .nat b])
  | .listAllIn dir => (str "listallinfo", if dir.isEmpty then [] else [.str dir])
  | .setBinaryLimit n => (str "binarylimit", [.nat n])
  | .albumArt uri off => (str "albumart", [.str uri, .nat off])
  | .albumArtEmbedded uri off => (str "readpicture", [.str uri, .nat off])
  | .tagTypesEnableAll => (str "tagtypes", [.kw (str "all")])
  | .tagTypesDisableAll => (str "tagtypes", [.kw (str "clear")])
  | .tagTypesDisable tags => (str "tagtypes", .kw (str "disable") :: tags.map .tag)
  | .tagTypesEnable tags => (str "tagtypes", .kw (str "enable") :: tags.map .tag)
  | .stickerGet uri n => (str "sticker", [.kw (str "get"), .kw (str "song"), .str uri, .str n])
  | .stickerSet uri n v => (str "sticker", [.kw (str "set"), .kw (str "song"), .str uri, .str n, .str v])
  | .stickerDelete uri n => (str "sticker", [.kw (str "delete"), .kw (str "song"), .str uri, .str n])
  | .stickerList uri => (str "sticker", [.kw (str "list"), .kw (str "song"), .str uri])
  | .stickerFind uri n f =>
    (str "sticker", [.kw (str "find"), .kw (str "song"), .str uri, .str n]
      ++ optParts f fun p => [.kw p.1.keyword, .str p.2])
  | .update uri => (str "update", optParts uri fun u => [.str u])
  | .rescan uri => (str "rescan", optParts uri fun u => [.str u])
  | .sendChannelMessage ch msg => (str "sendmessage", [.str ch, .str msg])

/-- the builder paths whose *constructor* panics (documented): `Move::range` with an open end,
`TagTypes::disable` / `enable` with an empty list -/
def ctorPanics : PCmd → Bool
  | .move (.range _ .unbounded) _ => true
  | .tagTypesDisable [] => true
  | .tagTypesEnable [] => true
  | _ => false

/-- the bytes `Argument::render` appends (`none`: the `assert!` in `Filter::render` fires) -/
def Part.render : Part → Option Bytes
  | .str s => some (escapeArgument s)
  | .kw w => some (escapeArgument w)
  | .nat n => some (renderNat n)
  | .pos p => some p.render
  | .range r => some r.render
  | .dur d => some d.render
  | .seek m => some (escapeArgument m.format)
  | .bool b => some (renderBool b)
  | .tag t => some t.name
  | .sortTag t => some (escapeArgument t.name)
  | .filter f => Filter.render f

/-! ## the user-supplied parameters of a command value -/

/-- the `&str` parameters, in argument order -/
def _root_.Mpd.Commands.PCmd.strings (c : PCmd) : List Bytes :=
  (shape c).2.filterMap fun p => match p with
    | .str s => some s
    | _ => none

/-- the `Tag` parameters -/
def _root_.Mpd.Commands.PCmd.tags (c : PCmd) : List Tag :=
  (shape c).2.filterMap fun p => match p with
    | .tag t => some t
    | .sortTag t => some t
    | _ => none

/-- the `Filter` parameters -/
def _root_.Mpd.Commands.PCmd.filters (c : PCmd) : List FilterType :=
  (shape c).2.filterMap fun p => match p with
    | .filter f => some f
    | _ => none

/-- the `Duration` parameters that are sent as times (`Crossfade` sends whole seconds) -/
def _root_.Mpd.Commands.PCmd.durs (c : PCmd) : List Dur :=
  (shape c).2.filterMap fun p => match p with
    | .dur d => some d
    | .seek m => some m.dur
    | _ => none

/-! ## class predicates (decidable; evaluated by the driver, hypotheses of the theorems) -/

/-- a tag name as `Tag::try_from` accepts it (every named variant has one); hand-built
`Tag::Other` values outside it are documented by the crate as unchecked -/
def tagOk (t : Tag) : Bool := !t.name.isEmpty && t.name.all isTagChar

/-- LF or NUL: what `validate_argument` refuses -/
def hasLfNul (s : Bytes) : Bool := s.any fun b => b == LF || b == 0

/-- the documented panics: constructor panics and `Command::argument` on LF / NUL -/
def docPanic (c : PCmd) : Bool :=
  ctorPanics c || c.strings.any hasLfNul || c.tags.any (fun t => hasLfNul t.name) ||
    c.filters.any Filter.hasForbidden

/-- known finding K4 (C15): a `Duration` of at least 2^43 s (≈ 279 000 years) sent as a time goes
through `as_secs_f64`, whose 53-bit significand has a spacing of 2^-9 s ≈ 1.95 ms there: binary
rounding (≤ 0.98 ms) plus decimal rounding (≤ 0.5 ms) can exceed 1 ms -/
def _root_.Mpd.Commands.Dur.isK4 (d : Dur) : Bool := d.secs ≥ 8796093022208

end Mpd.CmdsL
