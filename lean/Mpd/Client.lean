import Mpd.Loop
import Mpd.Typed.Base
/-!
# Model of the caller side of `Client` and of a whole scheduled run

Caller programs (`raw_command_list`, `raw_command`, `command`, `album_art`, typed `command_list`) issue requests to the run
loop and turn replies into results; `run` executes a *schedule* (a list of actions) against the
task model of `Mpd/Loop.lean` and produces, per action, what an outside observer sees.
-/
namespace Mpd.Client
open Mpd Mpd.Parser Mpd.Builder Mpd.Conn Mpd.Loop

inductive CmdErr where
  | closed
  | protocol (e : ProtoErr)
  | errorResponse (e : Err) (frames : List AFrame)
  | invalidTyped
deriving Repr, DecidableEq

/-- final result of a caller program -/
inductive Final where
  | frames (fs : List AFrame)                         -- raw_command_list: Ok(frames)
  | err (e : CmdErr)
  | art (r : Option (Bytes × Option Bytes))           -- album_art: Ok(None | Some(data, mime))
  | typed (items : List Bytes)                        -- command_list of echo commands: one string per command
  | frame (f : AFrame)                                -- raw_command: Ok(the single frame)
deriving Repr, DecidableEq

/-- `raw_command_list`: all frames, or the error with the frames that preceded it -/
def listResult : Reply → Except CmdErr (List AFrame)
  | .response r =>
    match r.error with
    | none => .ok r.frames
    | some e => .error (.errorResponse e r.frames)
  | .protocol e => .error (.protocol e)
  | .closed => .error .closed

/-- `raw_command`: `into_single_frame`, the error carries no frames -/
def singleResult : Reply → Except CmdErr AFrame
  | .response r =>
    match r.frames with
    | f :: _ => .ok f
    | [] => match r.error with
      | some e => .error (.errorResponse e [])
      | none => .error .closed          -- unreachable: the builder never produces this
  | .protocol e => .error (.protocol e)
  | .closed => .error .closed

/-- `AlbumArt::from_frame`: `none` = no binary part; `Except` error = typed response error -/
def albumArtFromFrame (f : AFrame) : Except Unit (Option (Nat × Option Bytes × Bytes)) :=
  match f.binary with
  | none => .ok none
  | some data =>
    match f.find (str "size") with
    | none => .error ()
    | some v =>
      match Typed.parseUsize v with
      | none => .error ()
      | some size => .ok (some (size, f.find (str "type"), data))

/-- `AlbumArtEmbedded::new(uri).offset(n).command()` / `AlbumArt::…` followed by `send_list` of the
one-element list; `none` = `Command::argument` panics (LF / NUL in the URI) -/
def artRequest (embedded : Bool) (uri : Bytes) (offset : Nat) : Option Bytes :=
  let name := if embedded then str "readpicture" else str "albumart"
  match Cmd.addArguments name [uri] with
  | .ok c => some ((Cmd.addRendered c (Cmd.renderNat offset)).2 ++ [LF])
  | .error _ => none

/-- phases of `Client::album_art` -/
inductive ArtPhase where
  | first                      -- readpicture uri 0 sent
  | fallback                   -- albumart uri 0 sent
  | more (embedded : Bool) (expected : Nat) (mime : Option Bytes) (out : Bytes)   -- a further chunk requested
deriving Repr, DecidableEq

/-- a typed command list of echo commands (harness-defined `Command` impl): the i-th command is
`echo <name_i>`, its response is `name_i ++ "<" ++ (value of "line" in its frame)` -/
def echoResponse (name : Bytes) (f : AFrame) : Typed.Outcome Bytes :=
  .ok (name ++ [60] ++ ((f.find (str "line")).getD (str "?")))

/-- `impl CommandList for Vec<C>` / tuples: `responses` (after fix F4) -/
def typedResponses (isVec : Bool) (names : List Bytes) (frames : List AFrame) : Option (List Bytes) :=
  if isVec && names.length ≠ frames.length then none
  else
    let rec go : List Bytes → List AFrame → Option (List Bytes)
      | [], _ => some []
      | _ :: _, [] => none
      | n :: ns, f :: fs =>
        match echoResponse n f with
        | .ok r => (go ns fs).map (r :: ·)
        | _ => none
    go names frames

inductive Caller where
  | raw (rid : Nat)                                          -- waiting for the reply to request `rid`
  | art (rid : Nat) (uri : Bytes) (phase : ArtPhase)
  | typed (rid : Nat) (isVec : Bool) (names : List Bytes)
  | single (rid : Nat)                                       -- `raw_command`: waiting for the reply to its one command
  | typed1 (rid : Nat) (name : Bytes)                        -- `command(Echo(name))`
deriving Repr, DecidableEq

def Caller.rid : Caller → Nat
  | .raw r => r
  | .art r _ _ => r
  | .typed r _ _ => r
  | .single r => r
  | .typed1 r _ => r

inductive Action where
  | deliver (b : Bytes)
  | enqueueRaw (rid : Nat) (bytes : Bytes)                   -- raw_command_list, already rendered
  | enqueueArt (rid : Nat) (uri : Bytes)
  | enqueueTyped (rid : Nat) (isVec : Bool) (names : List Bytes)
  | enqueueSingle (rid : Nat) (bytes : Bytes)                -- raw_command, already rendered (one line)
  | enqueueTyped1 (rid : Nat) (name : Bytes)                 -- command(Echo(name))
  | both (rid : Nat) (bytes : Bytes) (data : Bytes)          -- enqueue + deliver before the task runs
  | advance (ms : Nat)
  | cancel (rid : Nat)
  | dropMain
  | eof
  | readFault (k : Nat)
  | writeFault (k : Nat)
  | dropEvents                   -- the application drops its `ConnectionEvents` receiver (allowed)
deriving Repr, DecidableEq

/-- what the observer sees after one action -/
structure Segment where
  connect : Option ConnectOutcome := none
  wrote : Bytes := []
  results : List (Nat × Final) := []         -- completed caller programs, by rid
  events : List Bytes := []
  closing : List (Option ProtoErr) := []
  eventsEnd : Bool := false
  closedFlag : Bool := false
  dropped : Bool := false
  resumed : Bool := false                    -- coverage only, not observable: the receive future waiting for the
                                             -- `noidle` reply resumed what a dropped future had already parsed
deriving Repr, DecidableEq

structure World where
  st : St := {}
  callers : List Caller := []
  cancelled : List Nat := []
  mainAlive : Bool := true
  eventsAlive : Bool := true      -- the `ConnectionEvents` receiver still exists (sends to a dropped one are ignored)
  connected : Bool := false
  sched : Sched := {}
  seg : Segment := {}
  closedSeen : Bool := false
deriving Repr

/-- ids of sub-requests: caller `rid`, k-th request of that caller -/
def subId (rid k : Nat) : Nat := rid * 1000 + k

/-- hand a request to the loop (`commands_sender.send`); if the queue is closed the caller's
`do_send` fails at once -/
def submit (w : World) (id : Nat) (bytes : Bytes) : World :=
  match w.st.pc with
  | .exited => { w with st := emit w.st (.resolved id .closed) }
  | _ => { w with st := { w.st with queue := w.st.queue ++ [{ id := id, bytes := bytes }] } }

def finish (w : World) (rid : Nat) (f : Final) : World :=
  { w with seg := { w.seg with results := w.seg.results ++ [(rid, f)] },
           st := { w.st with senders := w.st.senders - 1 } }

def errOf {α} : Except CmdErr α → CmdErr
  | .error e => e
  | .ok _ => .closed

/-- what `album_art` does next -/
inductive ArtDecision where
  | request (embedded : Bool) (offset : Nat) (phase : ArtPhase)
  | done (f : Final)
deriving Repr, DecidableEq

/-- `while out.len() < expected_size { … }` -/
def artLoop (emb : Bool) (expected : Nat) (mime : Option Bytes) (out : Bytes) : ArtDecision :=
  if out.length < expected then .request emb out.length (.more emb expected mime out)
  else .done (.art (some (out, mime)))

/-- the decision taken by `Client::album_art` after the (decoded) reply to its last request -/
def artNext (phase : ArtPhase) (decoded : Except CmdErr (Option (Nat × Option Bytes × Bytes))) : ArtDecision :=
  match phase with
  | .first =>
    match decoded with
    | .ok (some (size, mime, data)) => artLoop true size mime data
    | .ok none => .request false 0 .fallback
    | .error (.errorResponse e fs) =>
      if e.code == 5 then .request false 0 .fallback else .done (.err (.errorResponse e fs))
    | .error e => .done (.err e)
  | .fallback =>
    match decoded with
    | .ok (some (size, _, data)) => artLoop false size none data
    | .ok none => .done (.art none)
    | .error e => .done (.err e)
  | .more emb expected mime out =>
    match decoded with
    | .ok (some (_, _, data)) => artLoop emb expected mime (out ++ data)
    | .ok none => .done (.art none)
    | .error e => .done (.err e)

/-- `self.command(cmd)`: `raw_command` then `AlbumArt::from_frame` -/
def artDecode (reply : Reply) : Except CmdErr (Option (Nat × Option Bytes × Bytes)) :=
  match singleResult reply with
  | .error e => .error e
  | .ok f =>
    match albumArtFromFrame f with
    | .error _ => .error .invalidTyped
    | .ok r => .ok r

/-- continue `album_art` after the reply to one of its requests -/
def artStep (w : World) (rid : Nat) (uri : Bytes) (phase : ArtPhase) (k : Nat) (reply : Reply) : World × Option Caller :=
  match artNext phase (artDecode reply) with
  | .done f => (finish w rid f, none)
  | .request emb off ph =>
    match artRequest emb uri off with
    | some b => (submit w (subId rid (k + 1)) b, some (.art rid uri ph))
    | none => (w, none)

/-- the number of requests an art caller has issued so far is encoded in the ids it waits for:
find the resolved reply addressed to caller `rid` -/
def replyFor (obs : List Obs) (rid : Nat) : Option (Nat × Reply) :=
  obs.findSome? fun o =>
    match o with
    | .resolved id r => if id / 1000 == rid then some (id % 1000, r) else none
    | _ => none

def removeReply (obs : List Obs) (rid : Nat) : List Obs :=
  match obs with
  | [] => []
  | o :: os =>
    match o with
    | .resolved id _ => if id / 1000 == rid then os else o :: removeReply os rid
    | _ => o :: removeReply os rid

/-- move the task's observations of the current action into the segment (replies stay until their
caller is polled) -/
def absorbObs (w : World) : World :=
  let rec go (seg : Segment) (keep : List Obs) : List Obs → Segment × List Obs
    | [] => (seg, keep)
    | o :: os =>
      match o with
      | .wrote b _ => go { seg with wrote := seg.wrote ++ b } keep os
      | .event n => go (if w.eventsAlive then { seg with events := seg.events ++ [n] } else seg) keep os
      | .closing e => go (if w.eventsAlive then { seg with closing := seg.closing ++ [e] } else seg) keep os
      | .eventsEnd => go (if w.eventsAlive then { seg with eventsEnd := true } else seg) keep os
      | .transportDropped => go { seg with dropped := true } keep os
      | .connected c => go { seg with connect := some c } keep os
      | .resolved id r => go seg (keep ++ [.resolved id r]) os
  let (seg, keep) := go w.seg [] w.st.obs
  let conn := match seg.connect with
    | some (.ok _) => true
    | _ => w.connected
  { w with seg := seg, st := { w.st with obs := keep }, connected := conn }

/-- poll every pending caller future once, in rid order: those whose reply arrived continue -/
def pollCallers (w : World) : World × Bool :=
  let rec go (w : World) (todo : List Caller) (kept : List Caller) (progress : Bool) : World × List Caller × Bool :=
    match todo with
    | [] => (w, kept, progress)
    | c :: cs =>
      match replyFor w.st.obs c.rid with
      | none => go w cs (kept ++ [c]) progress
      | some (k, reply) =>
        let w := { w with st := { w.st with obs := removeReply w.st.obs c.rid } }
        match c with
        | .raw rid =>
          let f := match listResult reply with
            | .ok fs => Final.frames fs
            | .error e => Final.err e
          go (finish w rid f) cs kept true
        | .typed rid isVec names =>
          let f := match listResult reply with
            | .ok fs => (match typedResponses isVec names fs with
              | some items => Final.typed items
              | none => Final.err .invalidTyped)
            | .error e => Final.err e
          go (finish w rid f) cs kept true
        | .single rid =>
          let f := match singleResult reply with
            | .ok fr => Final.frame fr
            | .error e => Final.err e
          go (finish w rid f) cs kept true
        | .typed1 rid name =>
          -- `command`: `raw_command`, then the command's own `response(frame)`
          let f := match singleResult reply with
            | .ok fr => (match echoResponse name fr with
              | .ok item => Final.typed [item]
              | _ => Final.err .invalidTyped)
            | .error e => Final.err e
          go (finish w rid f) cs kept true
        | .art rid uri phase =>
          match artStep w rid uri phase k reply with
          | (w, some c') => go w cs (kept ++ [c']) true
          | (w, none) => go w cs kept true
  let (w, kept, progress) := go w w.callers [] false
  ({ w with callers := kept }, progress)

/-- drop replies addressed to cancelled callers (their futures are gone) -/
def dropCancelled (w : World) : World :=
  { w with st := { w.st with obs := w.st.obs.filter fun o =>
      match o with
      | .resolved id _ => !(w.cancelled.contains (id / 1000))
      | _ => true } }

/-- run until nothing can make progress -/
def quiesce : Nat → World → World
  | 0, w => w
  | fuel + 1, w =>
    let (st, sched) := runSteps 10000 w.st w.sched
    let w := dropCancelled (absorbObs { w with st := st, sched := sched })
    let (w, progress) := pollCallers w
    if progress then quiesce fuel w else w

def apply (w : World) : Action → World
  | .deliver b =>
    -- after a read fault nothing is readable any more
    if w.st.rerr.isSome then w else { w with st := { w.st with avail := w.st.avail ++ b } }
  | .enqueueRaw rid bytes =>
    let w := { w with st := { w.st with senders := w.st.senders + 1 }, callers := w.callers ++ [.raw rid] }
    submit w (subId rid 0) bytes
  | .enqueueTyped rid isVec names =>
    let w := { w with st := { w.st with senders := w.st.senders + 1 } }
    match names with
    | [] => finish w rid (.typed [])          -- `command_list()` is None: nothing is sent
    | n :: ns =>
      let mk (x : Bytes) : Bytes := match Cmd.addArguments (str "echo") [x] with
        | .ok c => c
        | .error _ => str "echo"
      submit { w with callers := w.callers ++ [.typed rid isVec names] } (subId rid 0)
        (Cmd.renderList (mk n) (ns.map mk))
  | .enqueueSingle rid bytes =>
    let w := { w with st := { w.st with senders := w.st.senders + 1 }, callers := w.callers ++ [.single rid] }
    submit w (subId rid 0) bytes
  | .enqueueTyped1 rid name =>
    let w := { w with st := { w.st with senders := w.st.senders + 1 }, callers := w.callers ++ [.typed1 rid name] }
    let line : Bytes := match Cmd.addArguments (str "echo") [name] with
      | .ok c => c
      | .error _ => str "echo"
    submit w (subId rid 0) (Cmd.renderList line [])
  | .enqueueArt rid uri =>
    let w := { w with st := { w.st with senders := w.st.senders + 1 } }
    match artRequest true uri 0 with
    | some b => submit { w with callers := w.callers ++ [.art rid uri .first] } (subId rid 0) b
    | none => w
  | .both rid bytes data =>
    let w := { w with st := { w.st with senders := w.st.senders + 1 }, callers := w.callers ++ [.raw rid] }
    let w := submit w (subId rid 0) bytes
    if w.st.rerr.isSome then w else { w with st := { w.st with avail := w.st.avail ++ data } }
  | .advance ms => { w with st := { w.st with now := w.st.now + ms } }
  | .cancel rid =>
    if w.callers.any (·.rid == rid) then
      { w with callers := w.callers.filter (·.rid != rid), cancelled := w.cancelled ++ [rid],
               st := { w.st with senders := w.st.senders - 1 } }
    else w
  | .dropMain =>
    if w.mainAlive then { w with mainAlive := false, st := { w.st with senders := w.st.senders - 1 } } else w
  | .eof => { w with st := { w.st with eof := true } }
  | .readFault k => { w with st := { w.st with rerr := some k, avail := [] } }
  | .writeFault k => { w with st := { w.st with werr := some k } }
  | .dropEvents => { w with eventsAlive := false }

/-- one action: apply, run to quiescence, cut the segment -/
def runAction (w : World) (a : Action) : World × Segment :=
  let w := quiesce 200 (apply { w with seg := {} } a)
  let closedNow := w.mainAlive && w.connected && !w.closedSeen && (match w.st.pc with | .exited => true | _ => false)
  let resumed := (match w.st.pc with | .cancelWait _ _ => true | _ => false) && w.st.bstash != .initial
  let seg := { w.seg with closedFlag := closedNow, resumed := resumed,
                          results := w.seg.results.mergeSort (fun a b => a.1 ≤ b.1) }
  ({ w with closedSeen := w.closedSeen || closedNow, seg := {} }, seg)

/-- a whole schedule; also reports, per segment, how many scheduler choices had been consulted by
the end of that segment -/
def runTrace (password : Option Bytes) (choices : List Bool) (actions : List Action) : List (Segment × Nat) :=
  let w0 : World := { st := { password := password }, sched := { choices := choices } }
  let rec go (w : World) (acc : List (Segment × Nat)) : List Action → List (Segment × Nat)
    | [] => acc
    | a :: as =>
      let (w, seg) := runAction w a
      go w (acc ++ [(seg, w.sched.used)]) as
  go w0 [] actions

def run (password : Option Bytes) (choices : List Bool) (actions : List Action) : List Segment × Nat :=
  let t := runTrace password choices actions
  (t.map (·.1), (t.getLast?.map (·.2)).getD 0)

end Mpd.Client
