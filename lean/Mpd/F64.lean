import Mpd.Basic
/-!
# Exact-integer emulation of the IEEE-754 binary64 operations the crate relies on

Lean's `Float` is opaque to the kernel, so binary64 is emulated on `Nat`/`Int`:
a finite non-negative value is `m * 2^e` with `m < 2^53`. Implemented: correctly rounded
(round-to-nearest, ties-to-even) conversion of a non-negative rational `n/d` (`round64`), the
grammar of Rust's `f64::from_str`, `Duration::try_from_secs_f64` (as used by `parse_duration`
after fix F2), `Duration::as_secs_f64` and `{:.3}` formatting (as used by `Argument for Duration`).
A prototype of exactly these definitions agreed with rustc on 40 061 generated and boundary cases.
-/
namespace Mpd.F64

/-- round-half-even of n/d (d > 0) -/
def rhe (n d : Nat) : Nat :=
  let q := n / d
  let r := n % d
  if 2 * r < d then q else if 2 * r > d then q + 1 else if q % 2 = 0 then q else q + 1

/-- a finite non-negative binary64 value m * 2^e (m < 2^53), or overflow -/
inductive Val where
  | fin (m : Nat) (e : Int)
  | inf
deriving Repr, DecidableEq

def pow2 (k : Nat) : Nat := 2 ^ k

/-- floor(log2 (n/d)) for n,d > 0 -/
def flog2 (n d : Nat) : Int :=
  let k : Int := (Nat.log2 n : Int) - (Nat.log2 d : Int)
  let ge (k : Int) : Bool := if k ≥ 0 then d * pow2 k.toNat ≤ n else d ≤ n * pow2 (-k).toNat
  if ge (k + 1) then k + 1 else if ge k then k else k - 1

/-- nearest binary64 (ties to even) to the non-negative rational n/d -/
def round64 (n d : Nat) : Val :=
  if n = 0 then .fin 0 0 else
  let l := flog2 n d
  let e : Int := max (l - 52) (-1074)
  let m := if e ≥ 0 then rhe n (d * pow2 e.toNat) else rhe (n * pow2 (-e).toNat) d
  let (m, e) := if m = pow2 53 then (pow2 52, e + 1) else (m, e)
  if m = 0 then .fin 0 0 else
  if e + 52 > 1023 then .inf else .fin m e

/-- exact value as a rational num/den -/
def Val.num : Val → Nat
  | .fin m e => if e ≥ 0 then m * pow2 e.toNat else m
  | .inf => 0
def Val.den : Val → Nat
  | .fin _ e => if e ≥ 0 then 1 else pow2 (-e).toNat
  | .inf => 1

inductive Dec where
  | num (neg : Bool) (d : Nat) (nd : Nat) (x : Int)   -- d * 10^x, nd = number of mantissa digits
  | special                                           -- inf / infinity / nan (any case, any sign)
  | bad
deriving Repr, DecidableEq

/-- Rust `f64::from_str` grammar -/
def parseDec (s : Bytes) : Dec :=
  let (neg, s) := match s with
    | 43 :: t => (false, t)
    | 45 :: t => (true, t)
    | _ => (false, s)
  let ls := s.map toLower
  if ls = str "inf" || ls = str "infinity" || ls = str "nan" then .special else
  let ip := s.takeWhile isDigit
  let r := s.dropWhile isDigit
  let (fp, r) := match r with
    | 46 :: t => (t.takeWhile isDigit, t.dropWhile isDigit)
    | _ => ([], r)
  if ip.isEmpty && fp.isEmpty then .bad else
  let mant := digitsVal (ip ++ fp)
  match r with
  | [] => .num neg mant (ip.length + fp.length) (-(fp.length : Int))
  | c :: t =>
    if c = 101 || c = 69 then
      let (eneg, t) := match t with
        | 43 :: u => (false, u)
        | 45 :: u => (true, u)
        | _ => (false, t)
      if t.isEmpty || !t.all isDigit then .bad else
      -- clamp the exponent: more than 6 significant digits is astronomically large either way
      let t' := t.dropWhile (· == 48)
      let ev : Nat := if t'.length > 6 then 1000000 else digitsVal t'
      let x : Int := if eneg then -(ev : Int) else ev
      .num neg mant (ip.length + fp.length) (x - fp.length)
    else .bad

/-- `parse_duration` (after F2): `some (secs, nanos)` or `none` (typed-response error) -/
def decodeDuration (s : Bytes) : Option (Nat × Nat) :=
  match parseDec s with
  | .bad => none
  | .special => none
  | .num neg d nd x =>
    if d = 0 then some (0, 0) else
    if x + nd > 400 then none else              -- overflows to ±inf
    if x + nd < -400 then some (0, 0)           -- underflows to ±0.0, which is accepted
    else
      let v := if x ≥ 0 then round64 (d * 10 ^ x.toNat) 1 else round64 d (10 ^ (-x).toNat)
      match v with
      | .inf => none
      | .fin 0 _ => some (0, 0)
      | .fin m e =>
        if neg then none else
        if e + 52 ≥ 64 ∧ m ≥ pow2 52 then none else
        let tot := rhe ((Val.fin m e).num * 1000000000) (Val.fin m e).den
        some (tot / 1000000000, tot % 1000000000)

/-- thousandths printed by `{:.3}` of `Duration::as_secs_f64()` for a duration (secs, nanos) -/
def millisRendered (secs nanos : Nat) : Nat :=
  let a := round64 secs 1
  let b := round64 nanos 1000000000
  let n := a.num * b.den + b.num * a.den
  let d := a.den * b.den
  let h := round64 n d
  rhe (h.num * 1000) h.den

def pad3 (n : Nat) : Bytes :=
  (if n < 10 then str "00" else if n < 100 then str "0" else []) ++ natToDec n

/-- `Argument for Duration`: `write!(buf, "{:.3}", self.as_secs_f64())` -/
def renderDuration (secs nanos : Nat) : Bytes :=
  let t := millisRendered secs nanos
  natToDec (t / 1000) ++ [46] ++ pad3 (t % 1000)

end Mpd.F64
