import Mpd.Builder
/-!
# Model of `mpd_protocol/src/connection.rs`: `connect` and `receive`, blocking and async

The reader is a *script*: a list of chunks (what successive reads can deliver at most) followed by
a persistent terminal condition (end of stream, or an I/O error kind). A read into a buffer with
`s` free bytes returns `min s (head chunk length)` bytes; a read that returns 0 bytes is what the
code treats as end of stream, so an empty chunk in the script behaves like EOF at that point.

* `AsyncConnection::receive`: growing `BytesMut`; the whole chunk is appended.
* `Connection::receive` (blocking): fixed-size zeroed buffer `recv_buf` of length `cap`, of which the
  first `total_received` bytes are valid; `split_off` / parse / `unsplit` / `resize`; reads go into
  `buf[total..]`; the buffer doubles when it becomes full (`read_to_buffer`). After fix F10 the buffer
  is restored before a parse error is returned.
-/
namespace Mpd.Conn
open Mpd Mpd.Parser Mpd.Builder

/-- how the byte stream ends (persistently) -/
inductive Term where
  | eof
  | ioerr (kind : Nat)
deriving Repr, DecidableEq

/-- result of one `receive()` call -/
inductive Item where
  | resp (r : Response)      -- Ok(Some(r))
  | clean                    -- Ok(None)
  | invalid                  -- Err(InvalidMessage)
  | unexpectedEof            -- Err(Io(UnexpectedEof))
  | io (kind : Nat)          -- Err(Io(kind)) from the reader
  | panic
deriving Repr, DecidableEq

def Item.isResp : Item → Bool
  | .resp _ => true
  | _ => false

/-- the EOF test of both `receive`s -/
def eofItem (σ : BState) (unconsumed : Bytes) : Item :=
  if inProgress σ || !unconsumed.isEmpty then .unexpectedEof else .clean

def termItem (t : Term) (σ : BState) (unconsumed : Bytes) : Item :=
  match t with
  | .eof => eofItem σ unconsumed
  | .ioerr k => .io k

/-! ## async -/

/-- the loop of `AsyncConnection::receive`: returns the item, the new `recv_buf`, the rest of the
script, and the builder state the call leaves behind (after fix F12 the next call resumes from it:
`ResponseBuilder::drop` hands the state to the connection, `ResponseBuilder::new` takes it back) -/
def recvLoopA (σ : BState) (buf : Bytes) : List Bytes → Term → Item × Bytes × List Bytes × BState
  | chunks, term =>
    match feed σ buf with
    | (σ', rest, .done r) => (.resp r, rest, chunks, σ')
    | (σ', rest, .invalid) => (.invalid, rest, chunks, σ')
    | (σ', rest, .panic) => (.panic, rest, chunks, σ')
    | (σ', rest, .pending) =>
      match chunks with
      | [] => (termItem term σ' rest, rest, [], σ')
      | c :: cs =>
        if c.isEmpty then (eofItem σ' rest, rest, cs, σ')       -- a 0-byte read is EOF to the code
        else recvLoopA σ' (rest ++ c) cs term

/-- one `receive()` call on an async connection whose previous call left the builder state `σ` -/
def recvA (σ : BState) (buf : Bytes) (chunks : List Bytes) (term : Term) : Item × Bytes × List Bytes × BState :=
  recvLoopA σ buf chunks term

/-- a session: call `receive` until it yields something else than a response, then `extra` more
calls (whose results are recorded too: they must not panic). `fuel` bounds the number of responses.
`σ` is the builder state kept by the connection between calls (`.initial` on a new connection). -/
def sessionA : Nat → Nat → BState → Bytes → List Bytes → Term → List Item
  | 0, _, _, _, _, _ => []
  | fuel + 1, extra, σ, buf, chunks, term =>
    match recvA σ buf chunks term with
    | (.resp r, buf', cs', σ') => .resp r :: sessionA fuel extra σ' buf' cs' term
    | (it, buf', cs', σ') =>
      match extra with
      | 0 => [it]
      | e + 1 => it :: sessionA fuel e σ' buf' cs' term

/-- whole-stream reference decoding: the session when the entire stream is available at once
(no segmentation at all). C02 states that every segmentation, of either flavour, yields this. -/
def decodeAll : Nat → Bytes → Term → List Item
  | 0, _, _ => []
  | fuel + 1, s, term =>
    match feed .initial s with
    | (_, rest, .done r) => .resp r :: decodeAll fuel rest term
    | (_, _, .invalid) => [.invalid]
    | (_, _, .panic) => [.panic]
    | (σ, rest, .pending) => [termItem term σ rest]

/-! ## blocking -/

/-- `recv_buf` of the blocking connection: its length `cap` and the valid prefix
(`data.length = total_received`) -/
structure SBuf where
  cap : Nat
  data : Bytes
deriving Repr, DecidableEq

def DEFAULT_CAP : Nat := 4096

/-- one scripted blocking read into `buf[total..]`: bytes delivered and the remaining script;
`none` = the script is exhausted (terminal condition applies) -/
def readChunk (space : Nat) : List Bytes → Option (Bytes × List Bytes)
  | [] => none
  | c :: cs =>
    if c.length ≤ space then some (c, cs)
    else some (c.take space, c.drop space :: cs)

/-- `read_to_buffer` bookkeeping: append, double when full -/
def afterRead (b : SBuf) (unconsumed got : Bytes) : SBuf :=
  let data := unconsumed ++ got
  { cap := if data.length = b.cap then b.cap * 2 else b.cap, data := data }

/-- the loop of `Connection::receive`. `fuel` bounds the number of reads. -/
def recvLoopS : Nat → BState → SBuf → List Bytes → Term → Item × SBuf × List Bytes × BState
  | 0, σ, b, chunks, _ => (.panic, b, chunks, σ)     -- out of fuel: never happens with enough fuel
  | fuel + 1, σ, b, chunks, term =>
    -- `split_off(total_received)` panics if total_received > len
    if b.cap < b.data.length then (.panic, b, chunks, σ) else
    match feed σ b.data with
    | (σ', rest, .done r) => (.resp r, { b with data := rest }, chunks, σ')
    | (σ', rest, .invalid) => (.invalid, { b with data := rest }, chunks, σ')
    | (σ', rest, .panic) => (.panic, { b with data := rest }, chunks, σ')
    | (σ', rest, .pending) =>
      match readChunk (b.cap - rest.length) chunks with
      | none => (termItem term σ' rest, { b with data := rest }, [], σ')
      | some (got, cs) =>
        if got.isEmpty then (eofItem σ' rest, { b with data := rest }, cs, σ')
        else recvLoopS fuel σ' (afterRead b rest got) cs term

def scriptLen (chunks : List Bytes) : Nat := chunks.flatten.length + chunks.length

def recvS (σ : BState) (b : SBuf) (chunks : List Bytes) (term : Term) : Item × SBuf × List Bytes × BState :=
  recvLoopS (scriptLen chunks + 1) σ b chunks term

def sessionS : Nat → Nat → BState → SBuf → List Bytes → Term → List Item
  | 0, _, _, _, _, _ => []
  | fuel + 1, extra, σ, b, chunks, term =>
    match recvS σ b chunks term with
    | (.resp r, b', cs', σ') => .resp r :: sessionS fuel extra σ' b' cs' term
    | (it, b', cs', σ') =>
      match extra with
      | 0 => [it]
      | e + 1 => it :: sessionS fuel e σ' b' cs' term

/-! ## transports on which single reads fail recoverably

A read that fails once (time-out, `WouldBlock`, interrupted) and works again later is the same
script in *pieces*: the piece before the failure ends in that error as its terminal condition; the
call that reports the failure leaves the connection state from which the caller's next call goes on
with the next piece. `recvRetryA` is one *logical* receive: the caller calls again after every
reported read failure, any number of times. -/

/-- a piece of a script: chunks, then how this piece ends -/
abbrev ScriptPiece := List Bytes × Term

/-- one logical `receive` of a caller that retries after a failed read. Returns the item, the
receive buffer, the builder state, and what is left of the script (rest of the current piece, its
terminal condition, later pieces). -/
def recvRetryA (σ : BState) (buf : Bytes) (cs : List Bytes) (t : Term) :
    List ScriptPiece → Item × Bytes × BState × List Bytes × Term × List ScriptPiece
  | [] => ((recvLoopA σ buf cs t).1, (recvLoopA σ buf cs t).2.1, (recvLoopA σ buf cs t).2.2.2,
           (recvLoopA σ buf cs t).2.2.1, t, [])
  | p :: more =>
    match recvLoopA σ buf cs t with
    | (.io _, buf', _, σ') => recvRetryA σ' buf' p.1 p.2 more      -- the failed read is reported; the caller calls again
    | (it, buf', cs', σ') => (it, buf', σ', cs', t, p :: more)

/-- a session of logical receives (see `sessionA`) -/
def sessionRetryA : Nat → Nat → BState → Bytes → List Bytes → Term → List ScriptPiece → List Item
  | 0, _, _, _, _, _, _ => []
  | fuel + 1, extra, σ, buf, cs, t, more =>
    match recvRetryA σ buf cs t more with
    | (.resp r, buf', σ', cs', t', more') => .resp r :: sessionRetryA fuel extra σ' buf' cs' t' more'
    | (it, buf', σ', cs', t', more') =>
      match extra with
      | 0 => [it]
      | e + 1 => it :: sessionRetryA fuel e σ' buf' cs' t' more'

/-- the same for the blocking connection (each call is `recvS`, with its fixed, doubling buffer) -/
def recvRetryS (σ : BState) (b : SBuf) (cs : List Bytes) (t : Term) :
    List ScriptPiece → Item × SBuf × BState × List Bytes × Term × List ScriptPiece
  | [] => ((recvS σ b cs t).1, (recvS σ b cs t).2.1, (recvS σ b cs t).2.2.2, (recvS σ b cs t).2.2.1, t, [])
  | p :: more =>
    match recvS σ b cs t with
    | (.io _, b', _, σ') => recvRetryS σ' b' p.1 p.2 more
    | (it, b', cs', σ') => (it, b', σ', cs', t, p :: more)

def sessionRetryS : Nat → Nat → BState → SBuf → List Bytes → Term → List ScriptPiece → List Item
  | 0, _, _, _, _, _, _ => []
  | fuel + 1, extra, σ, b, cs, t, more =>
    match recvRetryS σ b cs t more with
    | (.resp r, b', σ', cs', t', more') => .resp r :: sessionRetryS fuel extra σ' b' cs' t' more'
    | (it, b', σ', cs', t', more') =>
      match extra with
      | 0 => [it]
      | e + 1 => it :: sessionRetryS fuel e σ' b' cs' t' more'

/-- the script without the failures: all chunks in order … -/
def flatScript (cs : List Bytes) (more : List ScriptPiece) : List Bytes := cs ++ more.flatMap (·.1)

/-- … ending the way the last piece ends -/
def lastTerm (t : Term) : List ScriptPiece → Term
  | [] => t
  | p :: more => lastTerm p.2 more

/-- every piece but the last ends in a (recoverable) read failure -/
def IoChain : Term → List ScriptPiece → Prop
  | _, [] => True
  | t, p :: more => (∃ k, t = .ioerr k) ∧ IoChain p.2 more

/-! ## `write_all` over a transport that takes fewer bytes than offered

`send` / `send_list` render the request into one buffer and hand it to `write_all`, which calls
`write` until the buffer is used up (a write of 0 bytes is the `WriteZero` error). `caps` = how many
bytes the transport accepts on the 1st, 2nd, … call (when the list is used up it accepts everything).
The task model (`Mpd/Loop.lean`) writes atomically; `writeAll_flatten` (Lemmas/Flaky.lean) is why that
is a sound abstraction: whatever the capacities, the pieces written are, in order, exactly the buffer. -/

/-- the pieces `write_all` writes; `none` = `WriteZero` -/
def writeAll : List Nat → Bytes → Option (List Bytes)
  | [], buf => some (if buf.isEmpty then [] else [buf])
  | c :: cs, buf =>
    if buf.isEmpty then some []
    else if c = 0 then none
    else (writeAll cs (buf.drop c)).map (buf.take c :: ·)

/-! ## connect -/

inductive ConnectResult where
  | ok (version : Bytes)
  | invalid
  | unexpectedEof
  | io (kind : Nat)
deriving Repr, DecidableEq

/-- `AsyncConnection::connect`: read until the greeting parses; whatever was read past the
greeting's LF in the same read is discarded (`recv_buf.clear()`). Returns the rest of the script. -/
def connectA (buf : Bytes) : List Bytes → Term → ConnectResult × List Bytes
  | [], term => (match term with | .eof => .unexpectedEof | .ioerr k => .io k, [])
  | c :: cs, term =>
    if c.isEmpty then (.unexpectedEof, cs) else
    match greeting (buf ++ c) with
    | .ok v _ => (.ok v, cs)
    | .incomplete => connectA (buf ++ c) cs term
    | _ => (.invalid, cs)

/-- `Connection::connect` (blocking): same with the fixed buffer that doubles when full. -/
def connectS : Nat → SBuf → List Bytes → Term → ConnectResult × SBuf × List Bytes
  | 0, b, chunks, _ => (.invalid, b, chunks)
  | fuel + 1, b, chunks, term =>
    match readChunk (b.cap - b.data.length) chunks with
    | none => (match term with | .eof => .unexpectedEof | .ioerr k => .io k, b, [])
    | some (got, cs) =>
      if got.isEmpty then (.unexpectedEof, b, cs) else
      let b' := afterRead b b.data got
      match greeting b'.data with
      | .ok v _ => (.ok v, { b' with data := [] }, cs)     -- total_received: 0
      | .incomplete => connectS fuel b' cs term
      | _ => (.invalid, b', cs)

end Mpd.Conn
