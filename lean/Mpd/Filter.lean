import Mpd.Basic
import Mpd.Tag
import Mpd.Command
/-!
# Model of `mpd_client/src/filter.rs` (after the `fix:` commit F9)

`Filter(FilterType)` is modelled by `FilterType` itself.  `String` values are their UTF-8
bytes; `str::replace(char, &str)` with an ASCII pattern acts bytewise on UTF-8 (an ASCII byte
never occurs inside a multi-byte sequence), so `escape_filter_value` is modelled bytewise.
`FilterType::render` contains `assert!(inner.len() >= 2)`: the panic is the outcome `none`.
-/
namespace Mpd

/-- `enum Operator` -/
inductive Operator where
  | equal | notEqual | contain | matches | notMatch
deriving DecidableEq, Repr, Inhabited

def Operator.all : List Operator := [.equal, .notEqual, .contain, .matches, .notMatch]

/-- `Operator::as_str` -/
def Operator.asStr : Operator → Bytes
  | .equal => str "=="
  | .notEqual => str "!="
  | .contain => str "contains"
  | .matches => str "=~"
  | .notMatch => str "!~"

/-- `enum FilterType` -/
inductive FilterType where
  | tag (t : Tag) (op : Operator) (value : Bytes)
  | not (f : FilterType)
  | and (fs : List FilterType)
deriving Repr, Inhabited

namespace Filter

def LPAREN : UInt8 := 40
def RPAREN : UInt8 := 41

/-- `Filter::new` -/
def new (t : Tag) (op : Operator) (value : Bytes) : FilterType := .tag t op value
/-- `Filter::tag` -/
def tag (t : Tag) (value : Bytes) : FilterType := new t .equal value
/-- `TAG_IS_ABSENT` -/
def TAG_IS_ABSENT : Bytes := []
/-- `Filter::tag_exists` -/
def tagExists (t : Tag) : FilterType := new t .notEqual TAG_IS_ABSENT
/-- `Filter::tag_absent` -/
def tagAbsent (t : Tag) : FilterType := new t .equal TAG_IS_ABSENT
/-- `Filter::negate` (and `impl Not for Filter`) -/
def negate (f : FilterType) : FilterType := .not f

/-- `Filter::and`: `self`'s `And` is unwrapped, `other`'s `And` is unwrapped, result `And(out)` -/
def and (self other : FilterType) : FilterType :=
  let out : List FilterType :=
    match self with
    | .and inner => inner
    | condition => [condition]
  match other with
  | .and inner => .and (out ++ inner)
  | condition => .and (out ++ [condition])

/-- `str::replace(b, rep)` for an ASCII pattern byte -/
def replaceByte (b : UInt8) (rep : Bytes) : Bytes → Bytes
  | [] => []
  | x :: xs => if x == b then rep ++ replaceByte b rep xs else x :: replaceByte b rep xs

/-- `escape_filter_value` (after F9): every backslash becomes four backslashes, then every
double quote becomes backslash backslash quote (the two `replace` calls, in that order) -/
def escapeFilterValue (v : Bytes) : Bytes :=
  if v.any (fun b => b == QUOTE || b == BSLASH) then
    replaceByte QUOTE [BSLASH, BSLASH, QUOTE] (replaceByte BSLASH [BSLASH, BSLASH, BSLASH, BSLASH] v)
  else v

mutual
/-- `FilterType::render`; `none` = the `assert!(inner.len() >= 2)` panic -/
def renderType : FilterType → Option Bytes
  | .tag t op v =>
    -- write!(buf, r#"({} {} \"{}\")"#, tag.as_str(), operator.as_str(), escape_filter_value(value))
    some (LPAREN :: t.name ++ SPACE :: op.asStr ++ [SPACE, BSLASH, QUOTE] ++ escapeFilterValue v
      ++ [BSLASH, QUOTE, RPAREN])
  | .not f =>
    match renderType f with
    | none => none
    | some r => some (str "(!" ++ r ++ [RPAREN])
  | .and fs =>
    if fs.length < 2 then none
    else
      match renderAnd fs true with
      | none => none
      | some r => some (LPAREN :: r ++ [RPAREN])
/-- the `for filter in inner` loop with its `first` flag -/
def renderAnd : List FilterType → Bool → Option Bytes
  | [], _ => some []
  | f :: fs, first =>
    match renderType f with
    | none => none
    | some a =>
      match renderAnd fs false with
      | none => none
      | some b => some ((if first then [] else str " AND ") ++ a ++ b)
end

/-- `Filter::render` = `impl Argument for Filter` -/
def render (f : FilterType) : Option Bytes :=
  match renderType f with
  | none => none
  | some r => some (QUOTE :: r ++ [QUOTE])

/-- outcome of `Command::build("find")` + `add_argument(filter)` + `Connection::send` -/
inductive Sent where
  | panic                       -- `assert!` in `FilterType::render`
  | rejected                    -- `add_argument` returned an error
  | wrote (bytes : Bytes)       -- bytes written by `send`
deriving DecidableEq, Repr

def sendFind (f : FilterType) : Sent :=
  match render f with
  | none => .panic
  | some r =>
    match Cmd.addRendered (str "find") r with
    | (.ok line, _) => .wrote (Cmd.sendBytes line)
    | (.error _, _) => .rejected

mutual
/-- the `Tag` nodes of a filter, left to right -/
def leaves : FilterType → List (Tag × Operator × Bytes)
  | .tag t op v => [(t, op, v)]
  | .not f => leaves f
  | .and fs => leavesList fs
def leavesList : List FilterType → List (Tag × Operator × Bytes)
  | [] => []
  | f :: fs => leaves f ++ leavesList fs
end

/-- known-finding class K2: some value in the tree contains a double quote -/
def K2 (f : FilterType) : Bool := (leaves f).any fun l => l.2.2.contains QUOTE

/-- bytes `add_argument` refuses -/
def isForbidden (b : UInt8) : Bool := b == LF || b == 0

/-- some tag name or value contains LF or NUL (`add_argument` then rejects the filter) -/
def hasForbidden (f : FilterType) : Bool :=
  (leaves f).any fun l => l.1.name.any isForbidden || l.2.2.any isForbidden

/-- MPD's `ExpectWord` shape: `[A-Za-z][A-Za-z_-]*` -/
def isWord : Bytes → Bool
  | [] => false
  | b :: bs => isAlpha b && bs.all isTagChar

/-- filter types with an operator-less syntax in MPD (not tags) -/
def specialTypes : List Bytes :=
  [str "base", str "modified-since", str "added-since", str "AudioFormat", str "prio"]

/-- a name MPD's filter parser reads as the tag of a string filter -/
def isWordTag (n : Bytes) : Bool := isWord n && !(specialTypes.any (eqIgnoreCase n))

/-- every tag name in the tree is a word and not one of the five special types -/
def wordTags (f : FilterType) : Bool := (leaves f).all fun l => isWordTag l.1.name

end Filter
end Mpd
