import Mpd.Frame
/-!
# Operation language over a `Frame` / a `Response` (concrete model side)

`run f ops` applies a sequence of public-API calls to the slot-vector model of `Mpd/Frame.lean` and
records what each call returns. The same language is interpreted over the abstract multimap in
`MpdSpec/FrameSpec.lean` (`runAbs`); C19 proves the two agree for every frame and every sequence.
-/
namespace Mpd.FrameOps

/-- one call on a driven owned iterator -/
inductive IStep where
  | next
  | nextBack
  | takeBinary          -- `IntoIter::take_binary`
deriving DecidableEq, Repr

/-- one public-API call on a frame. In patterns `false` = `next()`, `true` = `next_back()`. -/
inductive Op where
  | find (k : Bytes)                 -- `frame.find(k)`
  | get (k : Bytes)                  -- `frame.get(k)`
  | takeBinary                       -- `frame.take_binary()`
  | len                              -- `frame.fields_len()`
  | isEmpty                          -- `frame.is_empty()`
  | hasBinary                        -- `frame.has_binary()`
  | binary                           -- `frame.binary()`
  | iterAll                          -- `frame.fields().collect()`
  | iterBackAll                      -- `frame.fields().rev().collect()`
  | iterMixed (pat : List Bool)      -- `let mut it = frame.fields();` then one call per pattern entry
  | into (pat : List IStep)          -- `let mut it = frame.into_iter();` … (consumes the frame)
deriving DecidableEq, Repr

/-- what one call on a driven iterator returned -/
inductive StepOut where
  | kv (o : Option (Bytes × Bytes))
  | bin (o : Option Bytes)
deriving DecidableEq, Repr

/-- what one `Op` returned -/
inductive Out where
  | val (o : Option Bytes)
  | nat (n : Nat)
  | bool (b : Bool)
  | items (l : List (Bytes × Bytes))
  | steps (l : List StepOut)
deriving DecidableEq, Repr

/-- drive a `Fields` iterator by a pattern, recording every returned item -/
def driveFields : List Bool → List Slot → List (Option (Bytes × Bytes))
  | [], _ => []
  | b :: pat, it =>
    let r := if b then Fields.nextBack it else Fields.next it
    r.1 :: driveFields pat r.2

/-- one call on an `IntoIter` -/
def stepInto (it : IntoIter) : IStep → StepOut × IntoIter
  | .next => let r := it.next; (.kv r.1, r.2)
  | .nextBack => let r := it.nextBack; (.kv r.1, r.2)
  | .takeBinary => let r := it.takeBinary; (.bin r.1, r.2)

def driveInto : List IStep → IntoIter → List StepOut
  | [], _ => []
  | s :: pat, it =>
    let r := stepInto it s
    r.1 :: driveInto pat r.2

/-- apply a sequence of calls; `into` moves the frame, so nothing can follow it -/
def run : Frame → List Op → List Out
  | _, [] => []
  | f, .find k :: ops => .val (f.find k) :: run f ops
  | f, .get k :: ops => let r := f.get k; .val r.1 :: run r.2 ops
  | f, .takeBinary :: ops => let r := f.takeBinary; .val r.1 :: run r.2 ops
  | f, .len :: ops => .nat f.fieldsLen :: run f ops
  | f, .isEmpty :: ops => .bool f.isEmpty :: run f ops
  | f, .hasBinary :: ops => .bool f.hasBinary :: run f ops
  | f, .binary :: ops => .val f.getBinary :: run f ops
  | f, .iterAll :: ops => .items (Fields.collect f.fields) :: run f ops
  | f, .iterBackAll :: ops => .items (Fields.collectBack f.fields) :: run f ops
  | f, .iterMixed pat :: ops => .steps ((driveFields pat f.fields).map .kv) :: run f ops
  | f, .into pat :: _ => [.steps (driveInto pat f.intoIter)]

/-! ## responses -/

/-- what a `FramesRef` / `Frames` driven by a pattern shows: per call the item and the
`size_hint()` observed right after it -/
def driveFrames : List Bool → FramesIter → List (Option (Except Err Frame) × (Nat × Option Nat))
  | [], _ => []
  | b :: pat, it =>
    let r := if b then it.nextBack else it.next
    (r.1, r.2.sizeHint) :: driveFrames pat r.2

end Mpd.FrameOps
