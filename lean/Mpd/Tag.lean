import Mpd.Basic
/-!
# Model of `mpd_client/src/tag.rs` and of `Subsystem` (`mpd_client/src/client/mod.rs`)

`Tag` / `Subsystem` values are modelled as an index into the variant table or the
catch-all holding raw bytes.  `name` mirrors `as_str`, `tryFrom` mirrors
`TryFrom<&str> for Tag` (the `match_ignore_case!` chain is a first-match scan of
`Tag.table` in source order), `Subsystem.fromName` mirrors the `match` inside
`Subsystem::from_frame`.
-/
namespace Mpd

/-- named variants, in declaration order of `enum Tag` -/
inductive TagV where
  | Album | AlbumArtist | AlbumArtistSort | AlbumSort | Artist | ArtistSort | Comment
  | Composer | ComposerSort | Conductor | Date | Disc | Ensemble | Genre | Grouping | Label
  | Location | Movement | MovementNumber | MusicBrainzArtistId | MusicBrainzRecordingId
  | MusicBrainzReleaseArtistId | MusicBrainzReleaseId | MusicBrainzTrackId | MusicBrainzWorkId
  | Name | OriginalDate | Performer | Title | Track | Work
deriving DecidableEq, Repr, Inhabited

inductive Tag where
  | named (v : TagV)
  | other (raw : Bytes)
deriving DecidableEq, Repr, Inhabited

def TagV.all : List TagV :=
  [.Album, .AlbumArtist, .AlbumArtistSort, .AlbumSort, .Artist, .ArtistSort, .Comment,
   .Composer, .ComposerSort, .Conductor, .Date, .Disc, .Ensemble, .Genre, .Grouping, .Label,
   .Location, .Movement, .MovementNumber, .MusicBrainzArtistId, .MusicBrainzRecordingId,
   .MusicBrainzReleaseArtistId, .MusicBrainzReleaseId, .MusicBrainzTrackId, .MusicBrainzWorkId,
   .Name, .OriginalDate, .Performer, .Title, .Track, .Work]

/-- `Tag::as_str` for the named variants -/
def TagV.nameStr : TagV → String
  | .Album => "Album"
  | .AlbumArtist => "AlbumArtist"
  | .AlbumArtistSort => "AlbumArtistSort"
  | .AlbumSort => "AlbumSort"
  | .Artist => "Artist"
  | .ArtistSort => "ArtistSort"
  | .Comment => "Comment"
  | .Composer => "Composer"
  | .ComposerSort => "ComposerSort"
  | .Conductor => "Conductor"
  | .Date => "Date"
  | .Disc => "Disc"
  | .Ensemble => "Ensemble"
  | .Genre => "Genre"
  | .Grouping => "Grouping"
  | .Label => "Label"
  | .Location => "Location"
  | .Movement => "Movement"
  | .MovementNumber => "MovementNumber"
  | .MusicBrainzArtistId => "MUSICBRAINZ_ARTISTID"
  | .MusicBrainzRecordingId => "MUSICBRAINZ_TRACKID"
  | .MusicBrainzReleaseArtistId => "MUSICBRAINZ_ALBUMARTISTID"
  | .MusicBrainzReleaseId => "MUSICBRAINZ_ALBUMID"
  | .MusicBrainzTrackId => "MUSICBRAINZ_RELEASETRACKID"
  | .MusicBrainzWorkId => "MUSICBRAINZ_WORKID"
  | .Name => "Name"
  | .OriginalDate => "OriginalDate"
  | .Performer => "Performer"
  | .Title => "Title"
  | .Track => "Track"
  | .Work => "Work"

/-- the Rust identifier of the variant (what `{:?}` prints), used as canonical output -/
def TagV.ident : TagV → String
  | .Album => "Album"
  | .AlbumArtist => "AlbumArtist"
  | .AlbumArtistSort => "AlbumArtistSort"
  | .AlbumSort => "AlbumSort"
  | .Artist => "Artist"
  | .ArtistSort => "ArtistSort"
  | .Comment => "Comment"
  | .Composer => "Composer"
  | .ComposerSort => "ComposerSort"
  | .Conductor => "Conductor"
  | .Date => "Date"
  | .Disc => "Disc"
  | .Ensemble => "Ensemble"
  | .Genre => "Genre"
  | .Grouping => "Grouping"
  | .Label => "Label"
  | .Location => "Location"
  | .Movement => "Movement"
  | .MovementNumber => "MovementNumber"
  | .MusicBrainzArtistId => "MusicBrainzArtistId"
  | .MusicBrainzRecordingId => "MusicBrainzRecordingId"
  | .MusicBrainzReleaseArtistId => "MusicBrainzReleaseArtistId"
  | .MusicBrainzReleaseId => "MusicBrainzReleaseId"
  | .MusicBrainzTrackId => "MusicBrainzTrackId"
  | .MusicBrainzWorkId => "MusicBrainzWorkId"
  | .Name => "Name"
  | .OriginalDate => "OriginalDate"
  | .Performer => "Performer"
  | .Title => "Title"
  | .Track => "Track"
  | .Work => "Work"

def TagV.name (v : TagV) : Bytes := str v.nameStr

/-- `Tag::as_str` -/
def Tag.name : Tag → Bytes
  | .named v => v.name
  | .other raw => raw

/-- `impl PartialEq for Tag` -/
def Tag.eq (a b : Tag) : Bool := a.name == b.name
/-- `impl Ord for Tag`: -1 / 0 / 1 -/
def Tag.cmp (a b : Tag) : Int := cmpBytes a.name b.name
/-- `impl Hash for Tag`: the bytes fed to the hasher (`str::hash` = bytes then 0xFF) -/
def Tag.hashInput (a : Tag) : Bytes := a.name ++ [0xFF]

/-- the `match_ignore_case!` table of `TryFrom<&str>`, in source order -/
def Tag.table : List (String × TagV) :=
  [("Album", .Album), ("AlbumArtist", .AlbumArtist), ("AlbumArtistSort", .AlbumArtistSort),
   ("AlbumSort", .AlbumSort), ("Artist", .Artist), ("ArtistSort", .ArtistSort),
   ("Comment", .Comment), ("Composer", .Composer), ("ComposerSort", .ComposerSort),
   ("Conductor", .Conductor), ("Date", .Date), ("Disc", .Disc), ("Ensemble", .Ensemble),
   ("Genre", .Genre), ("Grouping", .Grouping), ("Label", .Label), ("Location", .Location),
   ("Movement", .Movement), ("MovementNumber", .MovementNumber),
   ("MUSICBRAINZ_ALBUMARTISTID", .MusicBrainzReleaseArtistId),
   ("MUSICBRAINZ_ALBUMID", .MusicBrainzReleaseId),
   ("MUSICBRAINZ_ARTISTID", .MusicBrainzArtistId),
   ("MUSICBRAINZ_RELEASETRACKID", .MusicBrainzTrackId),
   ("MUSICBRAINZ_TRACKID", .MusicBrainzRecordingId),
   ("MUSICBRAINZ_WORKID", .MusicBrainzWorkId),
   ("Name", .Name), ("OriginalDate", .OriginalDate), ("Performer", .Performer),
   ("Title", .Title), ("Track", .Track), ("Work", .Work)]

/-- characters allowed in a tag: `is_ascii_alphabetic() || '_' || '-'` -/
def isTagChar (b : UInt8) : Bool := isAlpha b || b == USCORE || b == DASH

inductive TagErr where
  | empty
  | invalidChar (pos : Nat)
deriving DecidableEq, Repr

/-- first-match scan of the table -/
def Tag.lookup (raw : Bytes) : List (String × TagV) → Option TagV
  | [] => none
  | (pat, v) :: rest => if eqIgnoreCase raw (str pat) then some v else Tag.lookup raw rest

/-- position of the first byte that fails `p` -/
def firstBad (p : UInt8 → Bool) : Bytes → Option Nat
  | [] => none
  | b :: bs => if p b then (firstBad p bs).map (· + 1) else some 0

/-- `Tag::try_from(&str)` -/
def Tag.tryFrom (raw : Bytes) : Except TagErr Tag :=
  if raw.isEmpty then .error .empty
  else match firstBad isTagChar raw with
    | some pos => .error (.invalidChar pos)
    | none =>
      match Tag.lookup raw Tag.table with
      | some v => .ok (.named v)
      | none => .ok (.other raw)

/-! ## Subsystem -/

inductive SubV where
  | Database | Message | Mixer | Options | Output | Partition | Player | Queue | Sticker
  | StoredPlaylist | Subscription | Update | Neighbor | Mount
deriving DecidableEq, Repr, Inhabited

inductive Subsystem where
  | named (v : SubV)
  | other (raw : Bytes)
deriving DecidableEq, Repr, Inhabited

def SubV.all : List SubV :=
  [.Database, .Message, .Mixer, .Options, .Output, .Partition, .Player, .Queue, .Sticker,
   .StoredPlaylist, .Subscription, .Update, .Neighbor, .Mount]

/-- `Subsystem::as_str` -/
def SubV.nameStr : SubV → String
  | .Database => "database"
  | .Message => "message"
  | .Mixer => "mixer"
  | .Options => "options"
  | .Output => "output"
  | .Partition => "partition"
  | .Player => "player"
  | .Queue => "playlist"
  | .Sticker => "sticker"
  | .StoredPlaylist => "stored_playlist"
  | .Subscription => "subscription"
  | .Update => "update"
  | .Neighbor => "neighbor"
  | .Mount => "mount"

def SubV.ident : SubV → String
  | .Database => "Database"
  | .Message => "Message"
  | .Mixer => "Mixer"
  | .Options => "Options"
  | .Output => "Output"
  | .Partition => "Partition"
  | .Player => "Player"
  | .Queue => "Queue"
  | .Sticker => "Sticker"
  | .StoredPlaylist => "StoredPlaylist"
  | .Subscription => "Subscription"
  | .Update => "Update"
  | .Neighbor => "Neighbor"
  | .Mount => "Mount"

def SubV.name (v : SubV) : Bytes := str v.nameStr

def Subsystem.name : Subsystem → Bytes
  | .named v => v.name
  | .other raw => raw

/-- the `match &*raw { … }` of `Subsystem::from_frame`, in source order -/
def Subsystem.table : List (String × SubV) :=
  [("database", .Database), ("message", .Message), ("mixer", .Mixer), ("options", .Options),
   ("output", .Output), ("partition", .Partition), ("player", .Player), ("playlist", .Queue),
   ("sticker", .Sticker), ("stored_playlist", .StoredPlaylist), ("subscription", .Subscription),
   ("update", .Update), ("neighbor", .Neighbor), ("mount", .Mount)]

def Subsystem.lookup (raw : Bytes) : List (String × SubV) → Option SubV
  | [] => none
  | (pat, v) :: rest => if raw == str pat then some v else Subsystem.lookup raw rest

def Subsystem.fromName (raw : Bytes) : Subsystem :=
  match Subsystem.lookup raw Subsystem.table with
  | some v => .named v
  | none => .other raw

def Subsystem.eq (a b : Subsystem) : Bool := a.name == b.name
def Subsystem.hashInput (a : Subsystem) : Bytes := a.name ++ [0xFF]

end Mpd
