import Mpd.Basic
/-!
# Model of `mpd_protocol/src/parser.rs`

The nom 7 *streaming* combinators used by the parser are re-implemented by their documented
semantics on `Bytes` (`Ok(rest, v) | Incomplete | Error | Failure`); `ParsedComponent::parse` and
`greeting` are then transcribed combinator by combinator, so that prefix-stability and progress
are compositional (see `MpdProofs/Lemmas/Parser.lean`).
-/
namespace Mpd.Parser
open Mpd

/-- nom's `IResult` for streaming parsers -/
inductive Res (α : Type) where
  | ok (v : α) (rest : Bytes)
  | incomplete
  | error
  | failure
deriving Repr, DecidableEq

abbrev P (α : Type) := Bytes → Res α

/-! ## primitives -/

/-- `bytes::streaming::tag` -/
def tag : (t : Bytes) → P Unit
  | [], i => .ok () i
  | _ :: _, [] => .incomplete
  | t :: ts, b :: bs => if t = b then tag ts bs else .error

/-- `character::streaming::char` -/
def char (c : UInt8) : P Unit
  | [] => .incomplete
  | b :: bs => if b = c then .ok () bs else .error

/-- `bytes::streaming::take_while1`: at least one byte; `Incomplete` when the input ends inside
the run (the next byte could still belong to it) -/
def takeWhile1 (p : UInt8 → Bool) : P Bytes
  | [] => .incomplete
  | b :: bs =>
    if p b then
      match takeWhile1 p bs with
      | .ok v r => .ok (b :: v) r
      | .incomplete => .incomplete
      | _ => .ok [b] bs          -- the next byte fails the predicate
    else .error

/-- `bytes::streaming::take_while`: possibly empty run, `Incomplete` when the input ends inside it -/
def takeWhile (p : UInt8 → Bool) : P Bytes
  | [] => .incomplete
  | b :: bs =>
    if p b then
      match takeWhile p bs with
      | .ok v r => .ok (b :: v) r
      | r => r
    else .ok [] (b :: bs)

/-- `bytes::streaming::take_until("\n")`: everything before the first LF, LF not consumed -/
def takeUntilLF : P Bytes
  | [] => .incomplete
  | b :: bs =>
    if b = LF then .ok [] (b :: bs)
    else match takeUntilLF bs with
      | .ok v r => .ok (b :: v) r
      | r => r

/-- `bytes::streaming::take(n)` -/
def take (n : Nat) : P Bytes := fun i =>
  if i.length < n then .incomplete else .ok (i.take n) (i.drop n)

/-! ## combinators -/

/-- sequencing (`tuple`, `delimited`, `preceded`, `terminated`, `separated_pair` are all built
from this) -/
def andThen {α β} (f : P α) (g : α → P β) : P β := fun i =>
  match f i with
  | .ok v r => g v r
  | .incomplete => .incomplete
  | .error => .error
  | .failure => .failure

/-- `combinator::map` -/
def pMap {α β} (p : P α) (f : α → β) : P β := fun i =>
  match p i with
  | .ok v r => .ok (f v) r
  | .incomplete => .incomplete
  | .error => .error
  | .failure => .failure

/-- `combinator::map_res`: a failing conversion is a recoverable `Error` -/
def mapRes {α β} (p : P α) (f : α → Option β) : P β := fun i =>
  match p i with
  | .ok v r => match f v with
    | some w => .ok w r
    | none => .error
  | .incomplete => .incomplete
  | .error => .error
  | .failure => .failure

/-- `branch::alt` for two alternatives: only `Error` falls through -/
def alt {α} (f g : P α) : P α := fun i =>
  match f i with
  | .error => g i
  | r => r

/-- `combinator::opt` -/
def opt {α} (p : P α) : P (Option α) := fun i =>
  match p i with
  | .ok v r => .ok (some v) r
  | .error => .ok none i
  | .incomplete => .incomplete
  | .failure => .failure

/-- `combinator::cut`: `Error` becomes the unrecoverable `Failure` -/
def cut {α} (p : P α) : P α := fun i =>
  match p i with
  | .error => .failure
  | r => r

/-- `terminated(p, q)` -/
def terminated {α β} (p : P α) (q : P β) : P α := andThen p fun v => pMap q fun _ => v
/-- `preceded(p, q)` -/
def preceded {α β} (p : P α) (q : P β) : P β := andThen p fun _ => q

/-! ## the grammar of `parser.rs` -/

structure Err where
  code : Nat
  index : Nat
  command : Option Bytes
  message : Bytes
deriving Repr, DecidableEq, Inhabited

/-- `ParsedComponent` -/
inductive Comp where
  | endOfFrame
  | endOfResponse
  | error (e : Err)
  | field (key value : Bytes)
  | binary (len : Nat)
deriving Repr, DecidableEq

def utf8 (b : Bytes) : Option Bytes := if validUtf8 b then some b else none

/-- `number::<u64>` / `number::<usize>`: `map_res(map_res(digit1, from_utf8), str::parse)` -/
def number : P Nat := mapRes (takeWhile1 isDigit) parseU64Digits

/-- `error_code_and_index`: `[<code>@<index>]` -/
def errorCodeAndIndex : P (Nat × Nat) :=
  preceded (char 91) <|
  andThen number fun code =>
  preceded (char 64) <|
  andThen number fun idx =>
  pMap (char 93) fun _ => (code, idx)

def isCmdNameChar (b : UInt8) : Bool := isAlpha b || b == USCORE

/-- `error_current_command`: `{<name>}` or `{}` -/
def errorCurrentCommand : P (Option Bytes) :=
  preceded (char 123) <|
  terminated (opt (mapRes (takeWhile1 isCmdNameChar) utf8)) (char 125)

/-- `error`: `ACK [c@i] {cmd} message\n` -/
def error : P Err :=
  preceded (tag (str "ACK ")) <|
  andThen (terminated errorCodeAndIndex (char SPACE)) fun ci =>
  andThen (terminated errorCurrentCommand (char SPACE)) fun cmd =>
  andThen (mapRes (takeWhile (· != LF)) utf8) fun msg =>
  pMap (char LF) fun _ => { code := ci.1, index := ci.2, command := cmd, message := msg }

def isKeyChar (b : UInt8) : Bool := isAlpha b || b == USCORE || b == DASH

/-- `field_value`: `take_until("\n")` then skip the LF -/
def fieldValue : P Bytes := terminated takeUntilLF (char LF)

/-- `key_value_field` -/
def keyValueField : P (Bytes × Bytes) :=
  andThen (mapRes (takeWhile1 isKeyChar) utf8) fun k =>
  preceded (tag (str ": ")) <|
  pMap (mapRes fieldValue utf8) fun v => (k, v)

/-- `binary_prefix` (after fix F5): once `binary: ` matched, the rest of the line must be a length -/
def binaryPrefix : P Nat :=
  preceded (tag (str "binary: ")) (cut (terminated number (char LF)))

/-- `binary_field`: returns the payload (only its length is used by the caller) -/
def binaryField : P Bytes :=
  andThen binaryPrefix fun len => cut (terminated (take len) (char LF))

/-- `ParsedComponent::parse` -/
def parseComp : P Comp :=
  alt (pMap (tag (str "OK\n")) fun _ => Comp.endOfResponse) <|
  alt (pMap (tag (str "list_OK\n")) fun _ => Comp.endOfFrame) <|
  alt (pMap error Comp.error) <|
  alt (pMap binaryField fun bin => Comp.binary bin.length) <|
  pMap keyValueField fun kv => Comp.field kv.1 kv.2

/-- `greeting`: `OK MPD <version>\n` -/
def greeting : P Bytes :=
  preceded (tag (str "OK MPD ")) <|
  terminated (mapRes (takeWhile1 (· != LF)) utf8) (char LF)

end Mpd.Parser
