import Mpd.Basic
import Mpd.Tag
import Mpd.Command
import Mpd.F64
import Mpd.Filter
/-!
# Model of `mpd_client/src/commands/definitions.rs` and of the argument types of
`mpd_client/src/commands/mod.rs` (the request side: constructors, builder methods, `command()`)

* `PCmd` has one constructor per **builder path** of a predefined command: the public constructor
  function that was called and the parameters the caller passed (ranges as the pair of `Bound`s of
  the Rust `RangeBounds` value, durations as `(secs, nanos)`, strings as their UTF-8 bytes,
  optional builder calls as `Option`).  Builder methods only set fields, so calling one twice is
  the same value as calling it once with the last argument, and the order of different builder
  calls does not matter; the paths are therefore enumerated by *which fields end up set*.
* The private helper types of the Rust (`SongRange`, `SongOrSongRange`, `Target`,
  `PositionOrRelative`, `PositionOrRange`, `TagTypesAction`, `StickerFindOperator`) are modelled
  as their own types; the functions `…Command` below take the *fields of the Rust struct* and
  mirror the `command()` body branch by branch; `command : PCmd → Outcome Bytes` composes the
  constructor (which may panic: `Move::range` with an open end, `TagTypes::enable/disable` with an
  empty slice) with that body.
* `Outcome.panic` also models `Command::argument` / `add_argument(..).unwrap()` /
  `.expect(..)` panicking when `add_argument` returns an error (rendered argument contains LF or
  NUL), `Command::new` panicking on an invalid name, and the `assert!` inside `Filter::render`.
* Integers are `Nat`; `usize` = `u64` = 64 bit (`U64MAX`), `u8` ≤ 255: see `PCmd.typed`.
  `usize::saturating_add(1)` is `satSucc`.
-/
namespace Mpd.Commands
open Mpd

inductive Outcome (α : Type) where
  | ok (v : α)
  | panic
deriving DecidableEq, Repr

/-! ## building raw commands (`mpd_protocol::command::Command`) -/

/-- `RawCommand::new(name)`: panics where `Command::build` returns an error -/
def rawNew (name : Bytes) : Outcome Bytes :=
  match Cmd.build name with
  | .ok c => .ok c
  | .error _ => .panic

/-- `.argument(x)` (and `add_argument(x).unwrap()` / `.expect(..)`) for an argument whose
`Argument::render` appends the bytes `r`: panics when `add_argument` returns an error -/
def arg (c : Outcome Bytes) (r : Bytes) : Outcome Bytes :=
  match c with
  | .panic => .panic
  | .ok cmd =>
    match (Cmd.addRendered cmd r).1 with
    | .ok c' => .ok c'
    | .error _ => .panic

/-- an argument of type `&str` / `String`: rendered through `escape_argument` -/
def argStr (c : Outcome Bytes) (s : Bytes) : Outcome Bytes := arg c (Cmd.escapeArgument s)

/-- an argument of type `&Filter`: `Filter::render` (whose `assert!` may panic) -/
def argFilter (c : Outcome Bytes) (f : FilterType) : Outcome Bytes :=
  match c with
  | .panic => .panic
  | .ok _ =>
    match Filter.render f with
    | none => .panic
    | some r => arg c r

/-- integer arguments (`u8`, `u64`, `usize`, `SongId`, `SongPosition`): `write!(buf, "{}", n)` -/
def argNat (c : Outcome Bytes) (n : Nat) : Outcome Bytes := arg c (Cmd.renderNat n)

/-- `Argument for Tag`: the protocol name, **not** escaped -/
def argTag (c : Outcome Bytes) (t : Tag) : Outcome Bytes := arg c t.name

/-! ## parameter types -/

/-- `std::ops::Bound<usize>` / `Bound<SongPosition>` -/
inductive Bound where
  | included (n : Nat)
  | excluded (n : Nat)
  | unbounded
deriving DecidableEq, Repr, Inhabited

/-- `usize::saturating_add(1)` -/
def satSucc (n : Nat) : Nat := if n < U64MAX then n + 1 else U64MAX

/-- private `struct SongRange { from: usize, to: Option<usize> }` (`lo` = `from`, `hi` = `to`) -/
structure SongRange where
  lo : Nat
  hi : Option Nat
deriving DecidableEq, Repr, Inhabited

/-- `SongRange::new_usize` -/
def SongRange.newUsize (s e : Bound) : SongRange :=
  { lo := match s with
      | .excluded pos => satSucc pos
      | .included pos => pos
      | .unbounded => 0
    hi := match e with
      | .excluded pos => some pos
      | .included pos => some (satSucc pos)
      | .unbounded => none }

/-- `SongRange::new`: unwraps the `SongPosition`s bound by bound, then `new_usize` -/
def SongRange.new (s e : Bound) : SongRange :=
  let from' : Bound := match s with
    | .excluded pos => .excluded pos
    | .included pos => .included pos
    | .unbounded => .unbounded
  let to' : Bound := match e with
    | .excluded pos => .excluded pos
    | .included pos => .included pos
    | .unbounded => .unbounded
  SongRange.newUsize from' to'

/-- `impl Argument for SongRange` -/
def SongRange.render (r : SongRange) : Bytes :=
  match r.hi with
  | some to => natToDec r.lo ++ [COLON] ++ natToDec to
  | none => natToDec r.lo ++ [COLON]

/-- `enum Song` -/
inductive Song where
  | id (id : Nat)              -- `Song::Id(SongId)`
  | position (pos : Nat)       -- `Song::Position(SongPosition)`
deriving DecidableEq, Repr, Inhabited

/-- private `enum SongOrSongRange` -/
inductive SongOrSongRange where
  | single (s : Song)
  | range (r : SongRange)
deriving DecidableEq, Repr

/-- private `enum Target` -/
inductive Target where
  | id (id : Nat)
  | range (r : SongRange)
deriving DecidableEq, Repr

/-- private `enum PositionOrRelative` -/
inductive PositionOrRelative where
  | absolute (pos : Nat)
  | beforeCurrent (delta : Nat)
  | afterCurrent (delta : Nat)
deriving DecidableEq, Repr, Inhabited

def PLUS : UInt8 := 43
def MINUS : UInt8 := 45

/-- `impl Argument for PositionOrRelative` -/
def PositionOrRelative.render : PositionOrRelative → Bytes
  | .absolute pos => Cmd.renderNat pos
  | .afterCurrent x => PLUS :: natToDec x
  | .beforeCurrent x => MINUS :: natToDec x

/-- private `enum PositionOrRange` -/
inductive PositionOrRange where
  | position (p : Nat)
  | range (r : SongRange)
deriving DecidableEq, Repr

/-- `std::time::Duration` as `(secs, subsec_nanos)` -/
structure Dur where
  secs : Nat
  nanos : Nat
deriving DecidableEq, Repr, Inhabited

/-- `enum SeekMode` -/
inductive SeekMode where
  | forward (d : Dur)
  | backward (d : Dur)
  | absolute (d : Dur)
deriving DecidableEq, Repr, Inhabited

/-- `enum SingleMode` -/
inductive SingleMode where
  | enabled | disabled | oneshot
deriving DecidableEq, Repr, Inhabited

def SingleMode.all : List SingleMode := [.enabled, .disabled, .oneshot]

/-- `enum ReplayGainMode` -/
inductive ReplayGainMode where
  | off | track | album | auto
deriving DecidableEq, Repr, Inhabited

def ReplayGainMode.all : List ReplayGainMode := [.off, .track, .album, .auto]

/-- private `enum StickerFindOperator` -/
inductive StickerFindOperator where
  | equals | lessThan | greaterThan
deriving DecidableEq, Repr, Inhabited

def StickerFindOperator.all : List StickerFindOperator := [.equals, .lessThan, .greaterThan]

/-- private `enum TagTypesAction` -/
inductive TagTypesAction where
  | enableAll
  | clear
  | disable (tags : List Tag)
  | enable (tags : List Tag)
deriving Repr

/-- how `Move::id` / `Move::position` / `Move::range` was called -/
inductive MoveFrom where
  | id (id : Nat)
  | position (pos : Nat)
  | range (s e : Bound)
deriving DecidableEq, Repr, Inhabited

/-! ## `command()` bodies, on the fields of the Rust structs -/

/-- `argless_command!` and the hand-written argument-less commands -/
def arglessCommand (name : Bytes) : Outcome Bytes := rawNew name

/-- `single_arg_command!` with `&str` -/
def singleStrCommand (name : Bytes) (s : Bytes) : Outcome Bytes := argStr (rawNew name) s

/-- `Argument for bool` through `single_arg_command!` -/
def singleBoolCommand (name : Bytes) (b : Bool) : Outcome Bytes := arg (rawNew name) (Cmd.renderBool b)

/-- `impl Command for QueueRange` -/
def queueRangeCommand : SongOrSongRange → Outcome Bytes
  | .single (.id id) => argNat (rawNew (str "playlistid")) id
  | .single (.position pos) => argNat (rawNew (str "playlistinfo")) pos
  | .range range => arg (rawNew (str "playlistinfo")) range.render

/-- `impl Command for SetVolume`: `min(self.0, 100)` -/
def setVolumeCommand (v : Nat) : Outcome Bytes :=
  let volume := min v 100
  argNat (rawNew (str "setvol")) volume

/-- the `match self.0 { … }` of `SetSingle::command` -/
def SingleMode.keyword : SingleMode → Bytes
  | .disabled => str "0"
  | .enabled => str "1"
  | .oneshot => str "oneshot"

def setSingleCommand (m : SingleMode) : Outcome Bytes := argStr (rawNew (str "single")) m.keyword

/-- the `match self.0 { … }` of `SetReplayGainMode::command` -/
def ReplayGainMode.keyword : ReplayGainMode → Bytes
  | .off => str "off"
  | .track => str "track"
  | .album => str "album"
  | .auto => str "auto"

def setReplayGainModeCommand (m : ReplayGainMode) : Outcome Bytes :=
  argStr (rawNew (str "replay_gain_mode")) m.keyword

/-- `impl Command for Crossfade`: `self.0.as_secs()` -/
def crossfadeCommand (d : Dur) : Outcome Bytes :=
  let seconds := d.secs
  argNat (rawNew (str "crossfade")) seconds

/-- `Argument for Duration`: `write!(buf, "{:.3}", self.as_secs_f64())` -/
def Dur.render (d : Dur) : Bytes := F64.renderDuration d.secs d.nanos

/-- `impl Command for SeekTo` -/
def seekToCommand (s : Song) (d : Dur) : Outcome Bytes :=
  let command := match s with
    | .position pos => argNat (rawNew (str "seek")) pos
    | .id id => argNat (rawNew (str "seekid")) id
  arg command d.render

/-- the `format!` of `Seek::command` (a `String`, later passed through `escape_argument`) -/
def SeekMode.format : SeekMode → Bytes
  | .absolute pos => pos.render
  | .forward time => PLUS :: time.render
  | .backward time => MINUS :: time.render

/-- `impl Command for Seek` -/
def seekCommand (m : SeekMode) : Outcome Bytes := argStr (rawNew (str "seekcur")) m.format

/-- `impl Command for Shuffle` -/
def shuffleCommand : Option SongRange → Outcome Bytes
  | none => rawNew (str "shuffle")
  | some range => arg (rawNew (str "shuffle")) range.render

/-- `impl Command for Play` -/
def playCommand : Option Song → Outcome Bytes
  | none => rawNew (str "play")
  | some (.position pos) => argNat (rawNew (str "play")) pos
  | some (.id id) => argNat (rawNew (str "playid")) id

/-- `impl Command for Add` -/
def addCommand (uri : Bytes) (position : Option PositionOrRelative) : Outcome Bytes :=
  let command := argStr (rawNew (str "addid")) uri
  match position with
  | some pos => arg command pos.render
  | none => command

/-- `impl Command for Delete` -/
def deleteCommand : Target → Outcome Bytes
  | .id id => argNat (rawNew (str "deleteid")) id
  | .range range => arg (rawNew (str "delete")) range.render

/-- `impl Command for Move` -/
def moveCommand (from' : Target) (to : PositionOrRelative) : Outcome Bytes :=
  let command := match from' with
    | .id id => argNat (rawNew (str "moveid")) id
    | .range range => arg (rawNew (str "move")) range.render
  arg command to.render

/-- `impl Command for Find`: the sort tag goes through `sort.as_str()`, i.e. as a `&str` -/
def findCommand (filter : FilterType) (sort : Option Tag) (window : Option SongRange) : Outcome Bytes :=
  let command := argFilter (rawNew (str "find")) filter
  let command := match sort with
    | some sort => argStr (argStr command (str "sort")) sort.name
    | none => command
  match window with
  | some window => arg (argStr command (str "window")) window.render
  | none => command

/-- `impl Command for List<N>` (`group_by: [Tag; N]` as a list) -/
def listCommand (tag : Tag) (filter : Option FilterType) (groupBy : List Tag) : Outcome Bytes :=
  let command := argTag (rawNew (str "list")) tag
  let command := match filter with
    | some filter => argFilter command filter
    | none => command
  groupBy.foldl (fun command g => argTag (argStr command (str "group")) g) command

/-- `impl Command for Count` -/
def countCommand (filter : FilterType) : Outcome Bytes := argFilter (rawNew (str "count")) filter

/-- `impl Command for CountGrouped` -/
def countGroupedCommand (groupBy : Tag) (filter : Option FilterType) : Outcome Bytes :=
  let cmd := rawNew (str "count")
  let cmd := match filter with
    | some filter => argFilter cmd filter
    | none => cmd
  argTag (argStr cmd (str "group")) groupBy

/-- `impl Command for RenamePlaylist` -/
def renamePlaylistCommand (from' to : Bytes) : Outcome Bytes :=
  argStr (argStr (rawNew (str "rename")) from') to

/-- `impl Command for LoadPlaylist` -/
def loadPlaylistCommand (name : Bytes) (range : Option SongRange) : Outcome Bytes :=
  let command := argStr (rawNew (str "load")) name
  match range with
  | some range => arg command range.render
  | none => command

/-- `impl Command for AddToPlaylist` -/
def addToPlaylistCommand (playlist songUrl : Bytes) (position : Option Nat) : Outcome Bytes :=
  let command := argStr (argStr (rawNew (str "playlistadd")) playlist) songUrl
  match position with
  | some pos => argNat command pos
  | none => command

/-- `impl Command for RemoveFromPlaylist` -/
def removeFromPlaylistCommand (playlist : Bytes) (target : PositionOrRange) : Outcome Bytes :=
  let command := argStr (rawNew (str "playlistdelete")) playlist
  match target with
  | .position p => argNat command p
  | .range r => arg command r.render

/-- `impl Command for MoveInPlaylist` -/
def moveInPlaylistCommand (playlist : Bytes) (from' to : Nat) : Outcome Bytes :=
  argNat (argNat (argStr (rawNew (str "playlistmove")) playlist) from') to

/-- `impl Command for ListAllIn` -/
def listAllInCommand (directory : Bytes) : Outcome Bytes :=
  let command := rawNew (str "listallinfo")
  if !directory.isEmpty then argStr command directory else command

/-- `impl Command for SetBinaryLimit` -/
def setBinaryLimitCommand (n : Nat) : Outcome Bytes := argNat (rawNew (str "binarylimit")) n

/-- `impl Command for AlbumArt` / `AlbumArtEmbedded` -/
def albumArtCommand (name : Bytes) (uri : Bytes) (offset : Nat) : Outcome Bytes :=
  argNat (argStr (rawNew name) uri) offset

/-- `impl Command for TagTypes` -/
def tagTypesCommand : TagTypesAction → Outcome Bytes
  | .enableAll => argStr (rawNew (str "tagtypes")) (str "all")
  | .clear => argStr (rawNew (str "tagtypes")) (str "clear")
  | .disable tags => tags.foldl argTag (argStr (rawNew (str "tagtypes")) (str "disable"))
  | .enable tags => tags.foldl argTag (argStr (rawNew (str "tagtypes")) (str "enable"))

/-- the common prefix `sticker <verb> song` -/
def stickerBase (verb : Bytes) : Outcome Bytes :=
  argStr (argStr (rawNew (str "sticker")) verb) (str "song")

/-- `impl Command for StickerGet` -/
def stickerGetCommand (uri name : Bytes) : Outcome Bytes :=
  argStr (argStr (stickerBase (str "get")) uri) name

/-- `impl Command for StickerSet` -/
def stickerSetCommand (uri name value : Bytes) : Outcome Bytes :=
  argStr (argStr (argStr (stickerBase (str "set")) uri) name) value

/-- `impl Command for StickerDelete` -/
def stickerDeleteCommand (uri name : Bytes) : Outcome Bytes :=
  argStr (argStr (stickerBase (str "delete")) uri) name

/-- `impl Command for StickerList` -/
def stickerListCommand (uri : Bytes) : Outcome Bytes := argStr (stickerBase (str "list")) uri

/-- the operator literals of `StickerFind::command` -/
def StickerFindOperator.keyword : StickerFindOperator → Bytes
  | .equals => str "="
  | .greaterThan => str ">"
  | .lessThan => str "<"

/-- `impl Command for StickerFind` -/
def stickerFindCommand (uri name : Bytes) (filter : Option (StickerFindOperator × Bytes)) : Outcome Bytes :=
  let base := argStr (argStr (stickerBase (str "find")) uri) name
  match filter with
  | some (operator, value) => argStr (argStr base operator.keyword) value
  | none => base

/-- `impl Command for Update` / `Rescan` -/
def updateCommand (name : Bytes) (uri : Option Bytes) : Outcome Bytes :=
  let command := rawNew name
  match uri with
  | some uri => argStr command uri
  | none => command

/-- `impl Command for SendChannelMessage` -/
def sendChannelMessageCommand (channel message : Bytes) : Outcome Bytes :=
  argStr (argStr (rawNew (str "sendmessage")) channel) message

/-! ## constructors that can panic -/

/-- `Move::id` / `Move::position` / `Move::range` (the latter panics on an open end) -/
def moveBuilder : MoveFrom → Outcome Target
  | .id id => .ok (.id id)
  | .position position => .ok (.range (SongRange.new (.included position) (.included position)))
  | .range s e =>
    match e with
    | .unbounded => .panic                       -- "move commands must not have an open end"
    | _ => .ok (.range (SongRange.new s e))

/-- `TagTypes::disable` / `TagTypes::enable`: `assert_ne!(tags.len(), 0, …)` -/
def tagTypesList (mk : List Tag → TagTypesAction) (tags : List Tag) : Outcome TagTypesAction :=
  if tags.length = 0 then .panic else .ok (mk tags)

/-! ## builder paths -/

/-- a predefined command value, by the public constructor / builder calls that produced it -/
inductive PCmd where
  -- argument-less
  | clearQueue | next | ping | previous | stop
  | replayGainStatus | status | stats
  | queueAll                                         -- `Queue` / `Queue::all()`
  | currentSong | getPlaylists | getEnabledTagTypes
  | readChannelMessages | listChannels
  -- one `&str`
  | clearPlaylist (name : Bytes)
  | deletePlaylist (name : Bytes)
  | saveQueueAsPlaylist (name : Bytes)
  | subscribeToChannel (name : Bytes)
  | unsubscribeFromChannel (name : Bytes)
  | getPlaylist (name : Bytes)
  -- one `bool`
  | setConsume (b : Bool) | setPause (b : Bool) | setRandom (b : Bool) | setRepeat (b : Bool)
  -- queue inspection
  | queueSong (s : Song)                             -- `Queue::song` = `QueueRange::song`
  | queueRange (s e : Bound)                         -- `Queue::range` = `QueueRange::range`
  -- playback options
  | setVolume (v : Nat)
  | setSingle (m : SingleMode)
  | setReplayGainMode (m : ReplayGainMode)
  | crossfade (d : Dur)
  | seekTo (s : Song) (d : Dur)
  | seek (m : SeekMode)
  | shuffleAll
  | shuffleRange (s e : Bound)
  | playCurrent
  | playSong (s : Song)
  -- queue modification
  | add (uri : Bytes) (position : Option PositionOrRelative)   -- `Add::uri` [`.at` | `.before_current` | `.after_current`]
  | deleteId (id : Nat)
  | deletePosition (pos : Nat)
  | deleteRange (s e : Bound)
  | move (from' : MoveFrom) (to : PositionOrRelative)          -- `Move::{id,position,range}` then `.to_position` | `.after_current` | `.before_current`
  -- database
  | find (filter : FilterType) (sort : Option Tag) (window : Option (Bound × Bound))
  | list (tag : Tag) (filter : Option FilterType) (groupBy : List Tag)
  | count (filter : FilterType)
  | countGrouped (groupBy : Tag) (filter : Option FilterType)  -- `Count::group_by` / `CountGrouped::new` [`.filter`]
  -- stored playlists
  | renamePlaylist (from' to : Bytes)
  | loadPlaylist (name : Bytes) (range : Option (Bound × Bound))
  | addToPlaylist (playlist songUrl : Bytes) (position : Option Nat)
  | removeFromPlaylistPosition (playlist : Bytes) (position : Nat)
  | removeFromPlaylistRange (playlist : Bytes) (s e : Bound)
  | moveInPlaylist (playlist : Bytes) (from' to : Nat)
  | listAllIn (directory : Bytes)                    -- `ListAllIn::root()` = `directory("")`
  | setBinaryLimit (n : Nat)
  | albumArt (uri : Bytes) (offset : Nat)            -- `AlbumArt::new` [`.offset`], default 0
  | albumArtEmbedded (uri : Bytes) (offset : Nat)
  -- tag types
  | tagTypesEnableAll | tagTypesDisableAll
  | tagTypesDisable (tags : List Tag)
  | tagTypesEnable (tags : List Tag)
  -- stickers
  | stickerGet (uri name : Bytes)
  | stickerSet (uri name value : Bytes)
  | stickerDelete (uri name : Bytes)
  | stickerList (uri : Bytes)
  | stickerFind (uri name : Bytes) (filter : Option (StickerFindOperator × Bytes))  -- [`.where_eq` | `.where_gt` | `.where_lt`]
  -- database update
  | update (uri : Option Bytes)
  | rescan (uri : Option Bytes)
  -- client to client
  | sendChannelMessage (channel message : Bytes)
deriving Repr

/-- `SongRange::new_usize(window)` on the optional `(start_bound, end_bound)` pair -/
def optRange (r : Option (Bound × Bound)) : Option SongRange :=
  match r with
  | some (s, e) => some (SongRange.newUsize s e)
  | none => none

/-- constructor(s) followed by `Command::command` -/
def command : PCmd → Outcome Bytes
  | .clearQueue => arglessCommand (str "clear")
  | .next => arglessCommand (str "next")
  | .ping => arglessCommand (str "ping")
  | .previous => arglessCommand (str "previous")
  | .stop => arglessCommand (str "stop")
  | .replayGainStatus => arglessCommand (str "replay_gain_status")
  | .status => arglessCommand (str "status")
  | .stats => arglessCommand (str "stats")
  | .queueAll => arglessCommand (str "playlistinfo")
  | .currentSong => arglessCommand (str "currentsong")
  | .getPlaylists => arglessCommand (str "listplaylists")
  | .getEnabledTagTypes => arglessCommand (str "tagtypes")
  | .readChannelMessages => arglessCommand (str "readmessages")
  | .listChannels => arglessCommand (str "channels")
  | .clearPlaylist s => singleStrCommand (str "playlistclear") s
  | .deletePlaylist s => singleStrCommand (str "rm") s
  | .saveQueueAsPlaylist s => singleStrCommand (str "save") s
  | .subscribeToChannel s => singleStrCommand (str "subscribe") s
  | .unsubscribeFromChannel s => singleStrCommand (str "unsubscribe") s
  | .getPlaylist s => singleStrCommand (str "listplaylistinfo") s
  | .setConsume b => singleBoolCommand (str "consume") b
  | .setPause b => singleBoolCommand (str "pause") b
  | .setRandom b => singleBoolCommand (str "random") b
  | .setRepeat b => singleBoolCommand (str "repeat") b
  | .queueSong s => queueRangeCommand (.single s)
  | .queueRange s e => queueRangeCommand (.range (SongRange.new s e))
  | .setVolume v => setVolumeCommand v
  | .setSingle m => setSingleCommand m
  | .setReplayGainMode m => setReplayGainModeCommand m
  | .crossfade d => crossfadeCommand d
  | .seekTo s d => seekToCommand s d
  | .seek m => seekCommand m
  | .shuffleAll => shuffleCommand none
  | .shuffleRange s e => shuffleCommand (some (SongRange.new s e))
  | .playCurrent => playCommand none
  | .playSong s => playCommand (some s)
  | .add uri position => addCommand uri position
  | .deleteId id => deleteCommand (.id id)
  | .deletePosition pos => deleteCommand (.range (SongRange.new (.included pos) (.included pos)))
  | .deleteRange s e => deleteCommand (.range (SongRange.new s e))
  | .move from' to =>
    match moveBuilder from' with
    | .panic => .panic
    | .ok target => moveCommand target to
  | .find filter sort window => findCommand filter sort (optRange window)
  | .list tag filter groupBy => listCommand tag filter groupBy
  | .count filter => countCommand filter
  | .countGrouped groupBy filter => countGroupedCommand groupBy filter
  | .renamePlaylist from' to => renamePlaylistCommand from' to
  | .loadPlaylist name range => loadPlaylistCommand name (optRange range)
  | .addToPlaylist playlist songUrl position => addToPlaylistCommand playlist songUrl position
  | .removeFromPlaylistPosition playlist position => removeFromPlaylistCommand playlist (.position position)
  | .removeFromPlaylistRange playlist s e => removeFromPlaylistCommand playlist (.range (SongRange.new s e))
  | .moveInPlaylist playlist from' to => moveInPlaylistCommand playlist from' to
  | .listAllIn directory => listAllInCommand directory
  | .setBinaryLimit n => setBinaryLimitCommand n
  | .albumArt uri offset => albumArtCommand (str "albumart") uri offset
  | .albumArtEmbedded uri offset => albumArtCommand (str "readpicture") uri offset
  | .tagTypesEnableAll => tagTypesCommand .enableAll
  | .tagTypesDisableAll => tagTypesCommand .clear
  | .tagTypesDisable tags =>
    match tagTypesList .disable tags with
    | .panic => .panic
    | .ok action => tagTypesCommand action
  | .tagTypesEnable tags =>
    match tagTypesList .enable tags with
    | .panic => .panic
    | .ok action => tagTypesCommand action
  | .stickerGet uri name => stickerGetCommand uri name
  | .stickerSet uri name value => stickerSetCommand uri name value
  | .stickerDelete uri name => stickerDeleteCommand uri name
  | .stickerList uri => stickerListCommand uri
  | .stickerFind uri name filter => stickerFindCommand uri name filter
  | .update uri => updateCommand (str "update") uri
  | .rescan uri => updateCommand (str "rescan") uri
  | .sendChannelMessage channel message => sendChannelMessageCommand channel message

/-- what `Connection::send(cmd.command())` writes (`none` = panic before anything is written) -/
def wire (c : PCmd) : Option Bytes :=
  match command c with
  | .ok line => some (Cmd.sendBytes line)
  | .panic => none

/-! ## value ranges of the Rust types -/

def Bound.typed : Bound → Bool
  | .included n => n ≤ U64MAX
  | .excluded n => n ≤ U64MAX
  | .unbounded => true

/-- `Duration`: `secs : u64`, `subsec_nanos < 10^9` -/
def Dur.typed (d : Dur) : Bool := d.secs ≤ U64MAX && d.nanos < 1000000000

def Song.typed : Song → Bool
  | .id n => n ≤ U64MAX
  | .position n => n ≤ U64MAX

def PositionOrRelative.typed : PositionOrRelative → Bool
  | .absolute n => n ≤ U64MAX
  | .beforeCurrent n => n ≤ U64MAX
  | .afterCurrent n => n ≤ U64MAX

def SeekMode.dur : SeekMode → Dur
  | .forward d => d
  | .backward d => d
  | .absolute d => d

def optBounds (r : Option (Bound × Bound)) : Bool :=
  match r with
  | some (s, e) => s.typed && e.typed
  | none => true

/-- every numeric parameter is a value of its Rust type -/
def PCmd.typed : PCmd → Bool
  | .queueSong s => s.typed
  | .queueRange s e => s.typed && e.typed
  | .setVolume v => v ≤ 255
  | .crossfade d => d.typed
  | .seekTo s d => s.typed && d.typed
  | .seek m => m.dur.typed
  | .shuffleRange s e => s.typed && e.typed
  | .playSong s => s.typed
  | .add _ (some p) => p.typed
  | .deleteId id => id ≤ U64MAX
  | .deletePosition p => p ≤ U64MAX
  | .deleteRange s e => s.typed && e.typed
  | .move from' to =>
    (match from' with
      | .id id => decide (id ≤ U64MAX)
      | .position p => decide (p ≤ U64MAX)
      | .range s e => s.typed && e.typed) && to.typed
  | .find _ _ w => optBounds w
  | .loadPlaylist _ r => optBounds r
  | .addToPlaylist _ _ (some p) => p ≤ U64MAX
  | .removeFromPlaylistPosition _ p => p ≤ U64MAX
  | .removeFromPlaylistRange _ s e => s.typed && e.typed
  | .moveInPlaylist _ a b => a ≤ U64MAX && b ≤ U64MAX
  | .setBinaryLimit n => n ≤ U64MAX
  | .albumArt _ o => o ≤ U64MAX
  | .albumArtEmbedded _ o => o ≤ U64MAX
  | _ => true

end Mpd.Commands
