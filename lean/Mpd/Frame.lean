import Mpd.Basic
import Mpd.AFrame
/-!
# Model of `mpd_protocol::response::frame` and of the frame iterators of `mpd_protocol::response`

Concrete representation, mirrored from the Rust:

* `Frame { fields: FieldsContainer(Vec<Option<(Arc<str>, String)>>), binary: Option<BytesMut> }` —
  a vector of *slots*; `Frame::get` leaves a hole (`None`) in the slot it takes the value out of.
* `Fields<'a>(slice::Iter<'a, Option<…>>)` and `IntoIter { iter: vec::IntoIter<Option<…>>, binary }` —
  a double-ended std iterator over the slot vector is modelled by the list of slots it has not
  yielded yet: `next` pops the head, `next_back` pops the last element. The `Iterator` /
  `DoubleEndedIterator` impls of the crate skip holes by calling themselves again.
* `Response { frames: Vec<Frame>, error: Option<Error> }`, `FramesRef` / `Frames` (identical logic
  on borrowed / owned data): `next` yields frames, then `error.take()`; `next_back` yields
  `error.take()` first, then frames from the back.

`std` adaptors used by the crate (`find_map`, `count`, `collect`, `rev`) are modelled by what their
default implementations do: call `next` / `next_back` until it returns `None`.
Core Lean only (the driver links this file).
-/
namespace Mpd

/-- one element of `FieldsContainer`: `Some((key, value))` or the hole `None` left by `Frame::get` -/
abbrev Slot := Option (Bytes × Bytes)

/-- `mpd_protocol::response::frame::Frame` -/
structure Frame where
  slots : List Slot := []
  binary : Option Bytes := none
deriving DecidableEq, Repr, Inhabited

/-! ## the std double-ended iterator over the slot vector (`slice::Iter`, `vec::IntoIter`) -/
namespace SlotIter

/-- `slice::Iter::next` / `vec::IntoIter::next`: pop the first remaining element -/
def popFront {α : Type} : List α → Option (α × List α)
  | [] => none
  | a :: rest => some (a, rest)

/-- `slice::Iter::next_back` / `vec::IntoIter::next_back`: pop the last remaining element -/
def popBack {α : Type} (l : List α) : Option (α × List α) :=
  match l.getLast? with
  | none => none
  | some a => some (a, l.dropLast)

theorem popFront_length {α : Type} {l : List α} {a : α} {rest : List α}
    (h : popFront l = some (a, rest)) : rest.length < l.length := by
  cases l with
  | nil => simp [popFront] at h
  | cons b t => simp [popFront] at h; obtain ⟨_, rfl⟩ := h; simp

theorem popBack_length {α : Type} {l : List α} {a : α} {rest : List α}
    (h : popBack l = some (a, rest)) : rest.length < l.length := by
  unfold popBack at h
  cases hl : l.getLast? with
  | none => simp [hl] at h
  | some b =>
    simp [hl] at h
    obtain ⟨_, rfl⟩ := h
    have : l ≠ [] := by intro e; simp [e] at hl
    have := List.length_pos_iff.mpr this
    simp [List.length_dropLast]; omega

end SlotIter

/-! ## `Fields` (borrowed) — `impl Iterator / DoubleEndedIterator for Fields<'_>` -/
namespace Fields
open SlotIter

/-- ```
fn next(&mut self) -> Option<Self::Item> {
    match self.0.next() {
        None => None,
        Some(None) => self.next(),
        Some(Some((k, v))) => Some((k.as_ref(), v.as_ref())),
    }
}
``` -/
def next (it : List Slot) : Option (Bytes × Bytes) × List Slot :=
  match h : popFront it with
  | none => (none, it)
  | some (none, rest) =>
    have : rest.length < it.length := popFront_length h
    next rest
  | some (some kv, rest) => (some kv, rest)
termination_by it.length

/-- ```
fn next_back(&mut self) -> Option<Self::Item> {
    match self.0.next_back() {
        None => None,
        Some(None) => self.next_back(),
        Some(Some((k, v))) => Some((k.as_ref(), v.as_ref())),
    }
}
``` -/
def nextBack (it : List Slot) : Option (Bytes × Bytes) × List Slot :=
  match h : popBack it with
  | none => (none, it)
  | some (none, rest) =>
    have : rest.length < it.length := popBack_length h
    nextBack rest
  | some (some kv, rest) => (some kv, rest)
termination_by it.length

/-- a yielding step shrinks the underlying iterator (termination of every std adaptor below) -/
theorem next_length (it : List Slot) {kv : Bytes × Bytes} {rest : List Slot}
    (h : next it = (some kv, rest)) : rest.length < it.length := by
  fun_induction next it with
  | case1 it hp => simp at h
  | case2 it rest' hp hlt ih => have := ih h; omega
  | case3 it kv' rest' hp =>
    simp at h; obtain ⟨_, rfl⟩ := h; exact popFront_length hp

theorem nextBack_length (it : List Slot) {kv : Bytes × Bytes} {rest : List Slot}
    (h : nextBack it = (some kv, rest)) : rest.length < it.length := by
  fun_induction nextBack it with
  | case1 it hp => simp at h
  | case2 it rest' hp hlt ih => have := ih h; omega
  | case3 it kv' rest' hp =>
    simp at h; obtain ⟨_, rfl⟩ := h; exact popBack_length hp

/-- `Iterator::find_map` (default implementation: `while let Some(x) = self.next()`, stop at the
first `Some`) -/
def findMap {β : Type} (p : Bytes × Bytes → Option β) (it : List Slot) : Option β :=
  match h : next it with
  | (none, _) => none
  | (some kv, rest) =>
    have : rest.length < it.length := next_length it h
    match p kv with
    | some b => some b
    | none => findMap p rest
termination_by it.length

/-- `Iterator::fold` (default implementation: `while let Some(x) = self.next() { acc = f(acc, x) }`);
`count()` and `collect::<Vec<_>>()` are instances -/
def fold {β : Type} (f : β → Bytes × Bytes → β) (acc : β) (it : List Slot) : β :=
  match h : next it with
  | (none, _) => acc
  | (some kv, rest) =>
    have : rest.length < it.length := next_length it h
    fold f (f acc kv) rest
termination_by it.length

/-- the same driven from the back: `self.rev().fold(..)` -/
def foldBack {β : Type} (f : β → Bytes × Bytes → β) (acc : β) (it : List Slot) : β :=
  match h : nextBack it with
  | (none, _) => acc
  | (some kv, rest) =>
    have : rest.length < it.length := nextBack_length it h
    foldBack f (f acc kv) rest
termination_by it.length

/-- `Iterator::count` -/
def count (it : List Slot) : Nat := fold (fun c _ => c + 1) 0 it

/-- `iter.collect::<Vec<_>>()` -/
def collect (it : List Slot) : List (Bytes × Bytes) := fold (fun acc kv => acc ++ [kv]) [] it

/-- `iter.rev().collect::<Vec<_>>()` -/
def collectBack (it : List Slot) : List (Bytes × Bytes) := foldBack (fun acc kv => acc ++ [kv]) [] it

end Fields

/-! ## `Frame` methods -/
namespace Frame

/-- `Frame::fields`: `Fields(self.fields.0.iter())` — the iterator starts on the whole slot vector -/
def fields (f : Frame) : List Slot := f.slots

/-- `Frame::fields_len`: `self.fields().count()` -/
def fieldsLen (f : Frame) : Nat := Fields.count f.fields

/-- `Frame::has_binary` -/
def hasBinary (f : Frame) : Bool := f.binary.isSome

/-- `Frame::is_empty`: `self.fields_len() == 0 && !self.has_binary()` -/
def isEmpty (f : Frame) : Bool := f.fieldsLen == 0 && !f.hasBinary

/-- `Frame::find`: `self.fields().find_map(|(k, v)| if k == key { Some(v) } else { None })`
(`str == str`: bytewise, case-sensitive) -/
def find (f : Frame) (key : Bytes) : Option Bytes :=
  Fields.findMap (fun kv => if kv.1 == key then some kv.2 else none) f.fields

/-- `Frame::binary` -/
def getBinary (f : Frame) : Option Bytes := f.binary

/-- `self.fields.0.iter_mut().find_map(|field| …)` of `Frame::get`: walk the slots from the front;
a hole is skipped (`None => return None`), a slot with a different key is skipped, the first slot
with an equal key is `take()`n, which leaves a hole in its place, and the walk stops. -/
def getSlots (key : Bytes) : List Slot → Option Bytes × List Slot
  | [] => (none, [])
  | none :: rest =>
    let r := getSlots key rest
    (r.1, none :: r.2)
  | some (k, v) :: rest =>
    if k == key then (some v, none :: rest)
    else
      let r := getSlots key rest
      (r.1, some (k, v) :: r.2)

/-- `Frame::get` -/
def get (f : Frame) (key : Bytes) : Option Bytes × Frame :=
  let r := getSlots key f.slots
  (r.1, { f with slots := r.2 })

/-- `Frame::take_binary`: `self.binary.take()` -/
def takeBinary (f : Frame) : Option Bytes × Frame := (f.binary, { f with binary := none })

/-- ABSTRACTION to the ordered multimap `AFrame`: forget the holes. C19 proves every method above
commutes with it, so clients of `Frame` may reason about `AFrame` only. -/
def abs (f : Frame) : AFrame := { fields := f.slots.filterMap id, binary := f.binary }

/-- a frame as the parser builds it: one filled slot per line, no holes -/
def ofFields (fields : List (Bytes × Bytes)) (binary : Option Bytes) : Frame :=
  { slots := fields.map some, binary := binary }

end Frame

/-! ## `IntoIter` (owned) -/

/-- `frame::IntoIter { iter: vec::IntoIter<Option<(Arc<str>, String)>>, binary: Option<BytesMut> }` -/
structure IntoIter where
  iter : List Slot
  binary : Option Bytes
deriving DecidableEq, Repr, Inhabited

/-- `impl IntoIterator for Frame` -/
def Frame.intoIter (f : Frame) : IntoIter := { iter := f.slots, binary := f.binary }

namespace IntoIter
open SlotIter

/-- ```
fn next(&mut self) -> Option<Self::Item> {
    match self.iter.next() {
        None => None,
        Some(None) => self.next(),
        Some(value) => value,
    }
}
``` -/
def next (it : IntoIter) : Option (Bytes × Bytes) × IntoIter :=
  match h : popFront it.iter with
  | none => (none, it)
  | some (none, rest) =>
    have : rest.length < it.iter.length := popFront_length h
    next { it with iter := rest }
  | some (some kv, rest) => (some kv, { it with iter := rest })
termination_by it.iter.length

/-- `next_back`: the same with `self.iter.next_back()` -/
def nextBack (it : IntoIter) : Option (Bytes × Bytes) × IntoIter :=
  match h : popBack it.iter with
  | none => (none, it)
  | some (none, rest) =>
    have : rest.length < it.iter.length := popBack_length h
    nextBack { it with iter := rest }
  | some (some kv, rest) => (some kv, { it with iter := rest })
termination_by it.iter.length

/-- `IntoIter::take_binary`: `self.binary.take()` -/
def takeBinary (it : IntoIter) : Option Bytes × IntoIter := (it.binary, { it with binary := none })

end IntoIter

/-! ## `Response`, `FramesRef`, `Frames` -/

/-- `mpd_protocol::response::Error` -/
structure Err where
  code : Nat := 0
  commandIndex : Nat := 0
  currentCommand : Option Bytes := none
  message : Bytes := []
deriving DecidableEq, Repr, Inhabited

/-- `mpd_protocol::response::Response` -/
structure Response where
  frames : List Frame := []
  error : Option Err := none
deriving DecidableEq, Repr, Inhabited

/-- `FramesRef { frames: slice::Iter<Frame>, error: Option<&Error> }` and
`Frames { frames: vec::IntoIter<Frame>, error: Option<Error> }`: the two impls are the same code on
borrowed / owned data, one model serves both. `frames` = the frames not yet yielded. -/
structure FramesIter where
  frames : List Frame
  error : Option Err
deriving DecidableEq, Repr, Inhabited

namespace FramesIter
open SlotIter

/-- ```
fn next(&mut self) -> Option<Self::Item> {
    if let Some(frame) = self.frames.next() { Some(Ok(frame)) } else { self.error.take().map(Err) }
}
``` -/
def next (it : FramesIter) : Option (Except Err Frame) × FramesIter :=
  match popFront it.frames with
  | some (f, rest) => (some (.ok f), { it with frames := rest })
  | none =>
    match it.error with            -- `self.error.take().map(Err)`
    | some e => (some (.error e), { it with error := none })
    | none => (none, it)

/-- ```
fn next_back(&mut self) -> Option<Self::Item> {
    if let Some(e) = self.error.take() { Some(Err(e)) } else { self.frames.next_back().map(Ok) }
}
``` -/
def nextBack (it : FramesIter) : Option (Except Err Frame) × FramesIter :=
  match it.error with              -- `self.error.take()`
  | some e => (some (.error e), { it with error := none })
  | none =>
    match popBack it.frames with
    | some (f, rest) => (some (.ok f), { it with frames := rest })
    | none => (none, it)

/-- `size_hint`: `let len = self.frames.len() + if self.error.is_some() { 1 } else { 0 }; (len, Some(len))` -/
def sizeHint (it : FramesIter) : Nat × Option Nat :=
  let len := it.frames.length + (if it.error.isSome then 1 else 0)
  (len, some len)

end FramesIter

namespace Response

/-- `Response::frames` (→ `FramesRef`) and `impl IntoIterator for Response` (→ `Frames`) -/
def iter (r : Response) : FramesIter := { frames := r.frames, error := r.error }

/-- `Response::is_error` -/
def isError (r : Response) : Bool := r.error.isSome

/-- `Response::is_success` -/
def isSuccess (r : Response) : Bool := !r.isError

/-- `Response::successful_frames` -/
def successfulFrames (r : Response) : Nat := r.frames.length

/-- result of `into_single_frame`; its `unwrap()` is an explicit outcome -/
inductive Single where
  | val (r : Except Err Frame)
  | panic
deriving DecidableEq, Repr

/-- `Response::into_single_frame`: `self.into_iter().next().unwrap()` -/
def intoSingleFrame (r : Response) : Single :=
  match r.iter.next.1 with
  | some x => .val x
  | none => .panic

/-- `Response::empty()`: a single empty frame -/
def empty : Response := { frames := [{}], error := none }

end Response

/-! ## How `ResponseBuilder` assembles a `Response` (the part that matters for `into_single_frame`'s
`unwrap`: which `(frames, error)` shapes can be produced) -/
namespace Assemble

/-- `ParsedComponent` as consumed by `ResponseBuilder::parse` (binary already cut out of the buffer) -/
inductive Comp where
  | field (k v : Bytes)
  | binary (b : Bytes)
  | endOfFrame
  | endOfResponse
  | error (e : Err)
deriving DecidableEq, Repr

/-- `ResponseState` -/
inductive State where
  | initial
  | inProgress (current : Frame)
  | listInProgress (current : Frame) (completed : List Frame)
deriving DecidableEq, Repr

/-- `FieldsContainer::push_field` -/
def pushField (f : Frame) (k v : Bytes) : Frame := { f with slots := f.slots ++ [some (k, v)] }

/-- one component: new state and, for `OK` / `ACK`, the finished response
(`field`, `binary`, `finish_frame`, `finish`, `error` of `ResponseBuilder`) -/
def step (s : State) : Comp → State × Option Response
  | .field k v =>
    match s with
    | .initial => (.inProgress (pushField {} k v), none)
    | .inProgress cur => (.inProgress (pushField cur k v), none)
    | .listInProgress cur done => (.listInProgress (pushField cur k v) done, none)
  | .binary b =>
    match s with
    | .initial => (.inProgress { binary := some b }, none)
    | .inProgress cur => (.inProgress { cur with binary := some b }, none)
    | .listInProgress cur done => (.listInProgress { cur with binary := some b } done, none)
  | .endOfFrame =>
    match s with
    | .initial => (.listInProgress {} [{}], none)
    | .inProgress cur => (.listInProgress {} [cur], none)
    | .listInProgress cur done => (.listInProgress {} (done ++ [cur]), none)
  | .endOfResponse =>
    match s with
    | .initial => (.initial, some Response.empty)
    | .inProgress cur => (.initial, some { frames := [cur], error := none })
    | .listInProgress _ done => (.initial, some { frames := done, error := none })
  | .error e =>
    match s with
    | .initial => (.initial, some { frames := [], error := some e })
    | .inProgress _ => (.initial, some { frames := [], error := some e })
    | .listInProgress _ done => (.initial, some { frames := done, error := some e })

/-- `ResponseBuilder::parse` on a component stream: the responses completed, in order, and the
state left (each `receive` starts a fresh builder in `Initial`, which is the state after a
completed response) -/
def run (s : State) : List Comp → List Response × State
  | [] => ([], s)
  | c :: cs =>
    match step s c with
    | (s', some r) => let rest := run s' cs; (r :: rest.1, rest.2)
    | (s', none) => run s' cs

end Assemble

end Mpd
