import Mpd.Conn
import Mpd.Command
/-!
# Model of the client run loop (`mpd_client/src/client/connection.rs`) and of the caller side
(`Client::do_send`, `raw_command_list`, `do_connect` in `client/mod.rs`)

The task is a deterministic step function of (state, action). Everything the tokio runtime
decides is an *input*: which bytes have arrived (`deliver`), who enqueued what (`enqueue`), the
clock (`advance`), cancellation, handle drops, persistent faults, and — where both `select!`
branches may be ready in the same poll — which one is polled first (`recvFirst`).

One program point per `await` at which the task can be suspended:

* `connecting`     – `AsyncConnection::connect` reading the greeting
* `pwWait σ`       – `do_connect` waiting for the reply to `password` (live `receive` future, builder σ)
* `spawned`        – connected; the spawned `run_loop` has not run yet (it writes the first `idle`)
* `idling σ`       – `select!` over the live `receive()` future (builder σ) and `commands.recv()`
* `cancelWait r σ` – `handle_command`: `noidle` written, waiting for its reply
* `waiting r σ`    – request written, waiting for its reply
* `waitNext d`     – `timeout(100 ms, commands.recv())` with deadline `d`
* `exited`         – the loop returned; `State` dropped (queue, event sender, transport)
* `failed`         – connecting failed, nothing was spawned

`fresh` = the live `receive()` future has not been polled yet (a new future parses what is already
in `recv_buf` before it reads). Writes are atomic (no back-pressure); a persistent write fault
makes every later write fail. Faults are final: after a read fault the undelivered bytes are gone.
-/
namespace Mpd.Loop
open Mpd Mpd.Parser Mpd.Builder Mpd.Conn

/-- a queued request: id and the bytes `send_list` will write -/
structure Req where
  id : Nat
  bytes : Bytes
deriving Repr, DecidableEq, Inhabited

inductive ProtoErr where
  | invalid
  | unexpectedEof
  | io (kind : Nat)
deriving Repr, DecidableEq

/-- what a caller's `do_send` future resolves to -/
inductive Reply where
  | response (r : Response)            -- Ok(response)
  | protocol (e : ProtoErr)            -- Err(CommandError::Protocol(e))
  | closed                             -- Err(CommandError::ConnectionClosed): responder dropped / queue closed
deriving Repr, DecidableEq

inductive ConnectOutcome where
  | ok (version : Bytes)
  | protocol (e : ProtoErr)
  | incorrectPassword
deriving Repr, DecidableEq

/-- GHOST: which call site wrote the bytes (a request may itself consist of the bytes `idle\n`) -/
inductive WKind where
  | password
  | idle
  | noidle
  | request (id : Nat)
deriving Repr, DecidableEq

/-- observable events, in the order they happen -/
inductive Obs where
  | wrote (b : Bytes) (k : WKind)              -- bytes handed to the transport (+ ghost: by whom)
  | resolved (id : Nat) (r : Reply)            -- a responder was answered / dropped
  | event (name : Bytes)                       -- ConnectionEvent::SubsystemChange(name)
  | closing (e : Option ProtoErr)              -- ConnectionEvent::ConnectionClosed(Protocol e | InvalidResponse = none)
  | eventsEnd                                  -- event sender dropped
  | transportDropped
  | connected (o : ConnectOutcome)
deriving Repr, DecidableEq

inductive Pc where
  | connecting
  | pwWait (σ : BState)
  | spawned
  | idling (σ : BState)
  | cancelWait (r : Req) (σ : BState)
  | waiting (r : Req) (σ : BState)
  | waitNext (deadline : Nat)
  | exited
  | failed
deriving Repr, DecidableEq

structure St where
  pc : Pc := .connecting
  fresh : Bool := true
  password : Option Bytes := none    -- the rendered `password <pw>\n` request, if any
  version : Bytes := []
  buf : Bytes := []                  -- `recv_buf` of the connection
  bstash : BState := .initial        -- builder state kept by the connection between receive futures (fix F12)
  avail : Bytes := []                -- delivered by the peer, not yet read
  eof : Bool := false
  rerr : Option Nat := none
  werr : Option Nat := none
  queue : List Req := []
  senders : Nat := 1                 -- live `Client` handles (main handle + one per pending caller future)
  now : Nat := 0                     -- milliseconds
  obs : List Obs := []               -- observations, newest last
deriving Repr

def IDLE : Bytes := str "idle\n"
def NOIDLE : Bytes := str "noidle\n"
def TIMEOUT_MS : Nat := 100

def emit (s : St) (o : Obs) : St := { s with obs := s.obs ++ [o] }

/-- `write_all`: `none` if the transport accepted the bytes, `some k` for the persistent fault -/
def write (s : St) (b : Bytes) (k : WKind) : St × Option Nat :=
  match s.werr with
  | none => (emit s (.wrote b k), none)
  | some k => (s, some k)

/-- the loop returns: `State` is dropped — queued responders, the event sender, the transport -/
def exitLoop (s : St) : St :=
  let s := s.queue.foldl (fun s r => emit s (.resolved r.id .closed)) s
  let s := { s with queue := [], pc := .exited, fresh := false }
  emit (emit s .eventsEnd) .transportDropped

/-- `Response::into_single_frame`; `none` = the `unwrap` would panic (no frame, no error) -/
def intoSingleFrame (r : Response) : Option (Except Err AFrame) :=
  match r.frames with
  | f :: _ => some (.ok f)
  | [] => match r.error with
    | some e => some (.error e)
    | none => none

/-- after fix F1: one event per `changed` field of the idle reply, in order -/
def changedValues (f : AFrame) : List Bytes :=
  (f.fields.filter (fun kv => kv.1 == str "changed")).map (·.2)

def emitEvents (s : St) (f : AFrame) : St :=
  (changedValues f).foldl (fun s n => emit s (.event n)) s

/-- a live receive future is dropped (`select!` took the command branch): after fix F12
`ResponseBuilder::drop` hands what it has parsed so far to the connection, and the next
`ResponseBuilder::new` resumes from it -/
def dropFuture (s : St) (σ : BState) : St := { s with bstash := σ }

/-- one poll of a live `receive()` future -/
inductive RecvPoll where
  | pending (σ : BState)
  | ready (it : Item)

/-- poll `AsyncConnection::receive`: parse what is buffered; if that is not enough read everything
available and parse again; then look at EOF / the read fault -/
def pollRecv (s : St) (σ : BState) : St × RecvPoll :=
  match feed σ s.buf with
  | (σ', rest, .done r) => ({ s with buf := rest, bstash := σ' }, .ready (.resp r))
  | (σ', rest, .invalid) => ({ s with buf := rest, bstash := σ' }, .ready .invalid)
  | (σ', rest, .panic) => ({ s with buf := rest, bstash := σ' }, .ready .panic)
  | (σ1, rest1, .pending) =>
    match s.rerr with
    | some k => ({ s with buf := rest1, bstash := σ1 }, .ready (.io k))
    | none =>
      if s.avail.isEmpty then
        if s.eof then ({ s with buf := rest1, bstash := σ1 }, .ready (eofItem σ1 rest1))
        else ({ s with buf := rest1 }, .pending σ1)
      else
        match feed σ1 (rest1 ++ s.avail) with
        | (σ', rest, .done r) => ({ s with buf := rest, avail := [], bstash := σ' }, .ready (.resp r))
        | (σ', rest, .invalid) => ({ s with buf := rest, avail := [], bstash := σ' }, .ready .invalid)
        | (σ', rest, .panic) => ({ s with buf := rest, avail := [], bstash := σ' }, .ready .panic)
        | (σ2, rest2, .pending) =>
          if s.eof then ({ s with buf := rest2, avail := [], bstash := σ2 }, .ready (eofItem σ2 rest2))
          else ({ s with buf := rest2, avail := [] }, .pending σ2)

def itemErr : Item → ProtoErr
  | .unexpectedEof => .unexpectedEof
  | .io k => .io k
  | _ => .invalid

/-- can polling the live receive future make progress? -/
def recvPollable (s : St) : Bool := s.fresh || !s.avail.isEmpty || s.eof || s.rerr.isSome

/-- `timeout(100 ms, commands.recv())`: next request, closed queue, deadline, or keep waiting -/
def afterReply (s : St) (deadline : Nat) : St :=
  match s.queue with
  | r :: q =>
    let s := { s with queue := q }
    match write s r.bytes (.request r.id) with
    | (s, none) => { s with pc := .waiting r s.bstash, fresh := true }
    | (s, some k) => exitLoop (emit s (.resolved r.id (.protocol (.io k))))
  | [] =>
    if s.senders = 0 then exitLoop s
    else if s.now ≥ deadline then
      match write s IDLE .idle with
      | (s, none) => { s with pc := .idling s.bstash, fresh := true }
      | (s, some k) => exitLoop (emit s (.closing (some (.io k))))
    else { s with pc := .waitNext deadline, fresh := false }

/-- `handle_command`, up to the point where it waits for the reply to `noidle` -/
def startCancel (s : St) : St :=
  match s.queue with
  | [] => exitLoop s                     -- `commands.recv()` returned None: all handles dropped
  | r :: q =>
    let s := { s with queue := q }
    match write s NOIDLE .noidle with
    | (s, none) => { s with pc := .cancelWait r s.bstash, fresh := true }
    | (s, some k) => exitLoop (emit s (.resolved r.id (.protocol (.io k))))

/-- `handle_idle_response` for a complete response -/
def idleResponse (s : St) (r : Response) : St :=
  match intoSingleFrame r with
  | some (.ok f) =>
    let s := emitEvents s f
    match write s IDLE .idle with
    | (s, none) => { s with pc := .idling s.bstash, fresh := true }
    | (s, some k) => exitLoop (emit s (.closing (some (.io k))))
  | some (.error _) => exitLoop (emit s (.closing none))
  | none => exitLoop s

/-- `do_connect` returns an error: nothing was spawned, the transport is dropped with the connection -/
def failConnect (s : St) (o : ConnectOutcome) : St :=
  emit (emit { s with pc := .failed } (.connected o)) .transportDropped

/-- one step of the task, `none` when it is suspended. `recvFirst` is consulted only in the
`select!` of the idling state. -/
def step (s : St) (recvFirst : Bool) : Option St :=
  match s.pc with
  | .connecting =>
    if s.avail.isEmpty then
      match s.rerr with
      | some k => some (failConnect s (.protocol (.io k)))
      | none =>
        if s.eof then some (failConnect s (.protocol .unexpectedEof)) else none
    else
      let data := s.buf ++ s.avail
      match greeting data with
      | .ok v _ =>
        -- whatever followed the greeting in this read is discarded (`recv_buf.clear()`)
        let s := { s with buf := [], avail := [], version := v }
        match s.password with
        | none => some (emit { s with pc := .spawned } (.connected (.ok v)))
        | some pw =>
          match write s pw .password with
          | (s, none) => some { s with pc := .pwWait .initial, fresh := true }
          | (s, some k) => some (failConnect s (.protocol (.io k)))
      | .incomplete => some { s with buf := data, avail := [] }
      | _ => some (failConnect s (.protocol .invalid))
  | .pwWait σ =>
    if !recvPollable s then none else
    match pollRecv { s with fresh := false } σ with
    | (s, .pending σ') => some { s with pc := .pwWait σ' }
    | (s, .ready it) =>
      match it with
      | .resp r =>
        if r.error.isSome then some (failConnect s .incorrectPassword)
        else some (emit { s with pc := .spawned } (.connected (.ok s.version)))
      | .clean => some (failConnect s (.protocol .unexpectedEof))
      | it => some (failConnect s (.protocol (itemErr it)))
  | .spawned =>
    match write s IDLE .idle with
    | (s, none) => some { s with pc := .idling s.bstash, fresh := true }
    | (s, some k) => some (exitLoop (emit s (.closing (some (.io k)))))
  | .idling σ =>
    let cmdReady := !s.queue.isEmpty || s.senders = 0
    if cmdReady && !(recvFirst && recvPollable s) then
      -- the command branch is polled ready; the receive future is dropped as it is
      some (startCancel (dropFuture s σ))
    else if recvPollable s then
      match pollRecv { s with fresh := false } σ with
      | (s, .pending σ') =>
        if cmdReady then some (startCancel (dropFuture s σ'))   -- dropped right after consuming bytes
        else some { s with pc := .idling σ' }
      | (s, .ready it) =>
        match it with
        | .resp r => some (idleResponse s r)
        | .clean => some (exitLoop s)
        | it => some (exitLoop (emit s (.closing (some (itemErr it)))))
    else none
  | .cancelWait r σ =>
    if !recvPollable s then none else
    match pollRecv { s with fresh := false } σ with
    | (s, .pending σ') => some { s with pc := .cancelWait r σ' }
    | (s, .ready it) =>
      match it with
      | .resp resp =>
        match intoSingleFrame resp with
        | some (.ok f) =>
          let s := emitEvents s f
          match write s r.bytes (.request r.id) with
          | (s, none) => some { s with pc := .waiting r s.bstash, fresh := true }
          | (s, some k) => some (exitLoop (emit s (.resolved r.id (.protocol (.io k)))))
        | some (.error _) => some (exitLoop (emit (emit s (.closing none)) (.resolved r.id .closed)))
        | none => some (exitLoop (emit s (.resolved r.id .closed)))
      | .clean => some (exitLoop (emit s (.resolved r.id .closed)))
      | it => some (exitLoop (emit s (.resolved r.id (.protocol (itemErr it)))))
  | .waiting r σ =>
    if !recvPollable s then none else
    match pollRecv { s with fresh := false } σ with
    | (s, .pending σ') => some { s with pc := .waiting r σ' }
    | (s, .ready it) =>
      match it with
      | .resp resp => some (afterReply (emit s (.resolved r.id (.response resp))) (s.now + TIMEOUT_MS))
      | .clean => some (exitLoop (emit s (.resolved r.id .closed)))
      | it => some (afterReply (emit s (.resolved r.id (.protocol (itemErr it)))) (s.now + TIMEOUT_MS))
  | .waitNext d =>
    if !s.queue.isEmpty || s.senders = 0 || s.now ≥ d then some (afterReply s d) else none
  | .exited => none
  | .failed => none

/-- is the poll order of the `select!` observable in this state? (both branches could be ready) -/
def ambiguous (s : St) : Bool :=
  match s.pc with
  | .idling _ => (!s.queue.isEmpty || s.senders = 0) && recvPollable s
  | _ => false

/-- the scheduler's choices: one Boolean per ambiguous poll (`true` = receive polled first);
`used` counts how many were consulted -/
structure Sched where
  choices : List Bool := []
  used : Nat := 0
deriving Repr

def Sched.next (c : Sched) : Bool × Sched :=
  match c.choices with
  | [] => (false, { c with used := c.used + 1 })
  | b :: bs => (b, { choices := bs, used := c.used + 1 })

/-- run the task until it is suspended (`fuel` bounds the number of steps; each step consumes
input, a queue entry or a timer, so a generous bound is never reached) -/
def runSteps : Nat → St → Sched → St × Sched
  | 0, s, c => (s, c)
  | fuel + 1, s, c =>
    let (rf, c') := if ambiguous s then c.next else (false, c)
    match step s rf with
    | none => (s, c)
    | some s' => runSteps fuel s' c'

end Mpd.Loop
