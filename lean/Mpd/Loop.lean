import Mpd.Conn
import Mpd.Command
/-!
# Model of the client run loop (`mpd_client/src/client/connection.rs`) and of the caller side
(`Client::do_send`, `raw_command`, `raw_command_list`, `do_connect` in `client/mod.rs`)

The loop is a deterministic step function of (state, action). Everything the tokio runtime
decides is an *input*: which bytes have arrived (`deliver`), who enqueued what (`enqueue`), the
clock (`advance`), cancellation, handle drops, persistent faults, and — where both `select!`
branches are ready in the same poll — which branch is polled first (`recvFirst`).

One program point per `await` at which the task can be suspended:

* `connecting`   – `AsyncConnection::connect` reading the greeting
* `pwWait σ`     – `do_connect` waiting for the reply to `password` (live `receive` future, builder σ)
* `spawned`      – connected; the spawned `run_loop` has not run yet (it writes the first `idle`)
* `idling σ`     – `select!` over the live `receive()` future (builder σ) and `commands.recv()`
* `cancelWait r σ` – `handle_command`: `noidle` written, waiting for its reply
* `waiting r σ`  – request written, waiting for its reply
* `waitNext d`   – `timeout(100 ms, commands.recv())` with deadline `d`
* `exited`       – the loop returned; `State` dropped (queue, event sender, transport)

Writes are atomic (no back-pressure); a persistent write fault makes every later write fail.
-/
namespace Mpd.Loop
open Mpd Mpd.Parser Mpd.Builder Mpd.Conn

/-- a queued request: id and the bytes `send_list` will write -/
structure Req where
  id : Nat
  bytes : Bytes
deriving Repr, DecidableEq, Inhabited

inductive ProtoErr where
  | invalid
  | unexpectedEof
  | io (kind : Nat)
deriving Repr, DecidableEq

/-- what a caller's `do_send` future resolves to -/
inductive Reply where
  | response (r : Response)            -- Ok(response)
  | protocol (e : ProtoErr)            -- Err(CommandError::Protocol(e))
  | closed                             -- Err(CommandError::ConnectionClosed): responder dropped / queue closed
deriving Repr, DecidableEq

inductive ConnectOutcome where
  | ok (version : Bytes)
  | protocol (e : ProtoErr)
  | incorrectPassword
deriving Repr, DecidableEq

/-- observable events, in the order they happen -/
inductive Obs where
  | wrote (b : Bytes)                          -- bytes handed to the transport
  | resolved (id : Nat) (r : Reply)            -- a responder was answered / dropped
  | event (name : Bytes)                       -- ConnectionEvent::SubsystemChange(name)
  | closing (e : Option ProtoErr)              -- ConnectionEvent::ConnectionClosed(Protocol e | InvalidResponse = none)
  | eventsEnd                                  -- event sender dropped
  | transportDropped
  | connected (o : ConnectOutcome)
deriving Repr, DecidableEq

inductive Pc where
  | connecting
  | pwWait (σ : BState)
  | spawned
  | idling (σ : BState)
  | cancelWait (r : Req) (σ : BState)
  | waiting (r : Req) (σ : BState)
  | waitNext (deadline : Nat)
  | exited
  | failed                                      -- connect failed: nothing was spawned
deriving Repr, DecidableEq

structure St where
  pc : Pc := .connecting
  password : Option Bytes := none    -- rendered `password <pw>` command, if any
  buf : Bytes := []                  -- `recv_buf` of the connection
  avail : Bytes := []                -- delivered by the peer, not yet read
  eof : Bool := false
  rerr : Option Nat := none
  werr : Option Nat := none
  queue : List Req := []
  senders : Nat := 1                 -- live `Client` handles (main handle + one per pending caller future)
  now : Nat := 0                     -- milliseconds
  obs : List Obs := []               -- observations, newest last
deriving Repr

def IDLE : Bytes := str "idle\n"
def NOIDLE : Bytes := str "noidle\n"
def TIMEOUT_MS : Nat := 100

def emit (s : St) (o : Obs) : St := { s with obs := s.obs ++ [o] }

/-- `write_all`: `none` if the transport accepted the bytes, `some k` for the persistent fault -/
def write (s : St) (b : Bytes) : St × Option Nat :=
  match s.werr with
  | none => (emit s (.wrote b), none)
  | some k => (s, some k)

/-- the loop returns: `State` is dropped — queued responders, the event sender, the transport -/
def exitLoop (s : St) : St :=
  let s := s.queue.foldl (fun s r => emit s (.resolved r.id .closed)) s
  let s := { s with queue := [], pc := .exited }
  emit (emit s .eventsEnd) .transportDropped

/-- `Response::into_single_frame`; `none` = the `unwrap` would panic (no frame, no error) -/
def intoSingleFrame (r : Response) : Option (Except Err AFrame) :=
  match r.frames with
  | f :: _ => some (.ok f)
  | [] => match r.error with
    | some e => some (.error e)
    | none => none

/-- after fix F1: one event per `changed` field of the idle reply, in order -/
def changedValues (f : AFrame) : List Bytes :=
  (f.fields.filter (fun kv => kv.1 == str "changed")).map (·.2)

def emitEvents (s : St) (f : AFrame) : St :=
  (changedValues f).foldl (fun s n => emit s (.event n)) s

/-- one poll of a live `receive()` future: what it returns, if it is ready -/
inductive RecvPoll where
  | pending (σ : BState)
  | ready (it : Item)

/-- poll `AsyncConnection::receive`: consume everything available, then look at EOF / error -/
def pollRecv (s : St) (σ : BState) : St × RecvPoll :=
  -- first the bytes already in recv_buf, then whatever the transport has
  let data := s.buf ++ s.avail
  match s.rerr, s.avail.isEmpty with
  | some k, true =>
    -- a read is attempted only if parsing `buf` alone was not enough
    match feed σ s.buf with
    | (_, rest, .done r) => ({ s with buf := rest }, .ready (.resp r))
    | (_, rest, .invalid) => ({ s with buf := rest }, .ready .invalid)
    | (_, rest, .panic) => ({ s with buf := rest }, .ready .panic)
    | (_, rest, .pending) => ({ s with buf := rest }, .ready (.io k))
  | _, _ =>
    match feed σ data with
    | (_, rest, .done r) => ({ s with buf := rest, avail := [] }, .ready (.resp r))
    | (_, rest, .invalid) => ({ s with buf := rest, avail := [] }, .ready .invalid)
    | (_, rest, .panic) => ({ s with buf := rest, avail := [] }, .ready .panic)
    | (σ', rest, .pending) =>
      let s := { s with buf := rest, avail := [] }
      match s.rerr with
      | some k => (s, .ready (.io k))
      | none => if s.eof then (s, .ready (eofItem σ' rest)) else (s, .pending σ')

def itemErr : Item → ProtoErr
  | .invalid => .invalid
  | .unexpectedEof => .unexpectedEof
  | .io k => .io k
  | _ => .invalid

/-- `timeout(100 ms, commands.recv())` right after a reply was handled, and again whenever the
task is woken in `waitNext`: next request, closed queue, deadline, or keep waiting -/
def afterReply (s : St) (deadline : Nat) : St :=
  match s.queue with
  | r :: q =>
    let s := { s with queue := q }
    match write s r.bytes with
    | (s, none) => { s with pc := .waiting r .initial }
    | (s, some k) => exitLoop (emit s (.resolved r.id (.protocol (.io k))))
  | [] =>
    if s.senders = 0 then exitLoop s
    else if s.now ≥ deadline then
      match write s IDLE with
      | (s, none) => { s with pc := .idling .initial }
      | (s, some k) => exitLoop (emit s (.closing (some (.io k))))
    else { s with pc := .waitNext deadline }

/-- `handle_command`: the `noidle` part -/
def startCancel (s : St) : St :=
  match s.queue with
  | [] => exitLoop s                     -- `commands.recv()` returned None
  | r :: q =>
    let s := { s with queue := q }
    match write s NOIDLE with
    | (s, none) => { s with pc := .cancelWait r .initial }
    | (s, some k) => exitLoop (emit s (.resolved r.id (.protocol (.io k))))

/-- one internal step of the task, if any is enabled. `recvFirst` is consulted only when both
`select!` branches could be polled ready. Returns `none` when the task is suspended. -/
def step (s : St) (recvFirst : Bool) : Option St :=
  match s.pc with
  | .connecting =>
    -- `AsyncConnection::connect`: one read, then `greeting`
    if s.avail.isEmpty then
      match s.rerr with
      | some k => some (emit { s with pc := .failed } (.connected (.protocol (.io k))))
      | none =>
        if s.eof then some (emit { s with pc := .failed } (.connected (.protocol .unexpectedEof))) else none
    else
      let data := s.buf ++ s.avail
      match greeting data with
      | .ok v _ =>
        -- whatever followed the greeting in this read is discarded (`recv_buf.clear()`)
        let s := { s with buf := [], avail := [] }
        match s.password with
        | none => some (emit { s with pc := .spawned } (.connected (.ok v)))
        | some pw =>
          match write s pw with
          | (s, none) => some { s with pc := .pwWait .initial, obs := s.obs ++ [.connected (.ok v)] |>.dropLast }
          | (s, some k) => some (emit { s with pc := .failed } (.connected (.protocol (.io k))))
      | .incomplete => some { s with buf := data, avail := [] }
      | _ => some (emit { s with pc := .failed, buf := data, avail := [] } (.connected (.protocol .invalid)))
  | .pwWait σ =>
    match pollRecv s σ with
    | (s, .pending σ') => if σ' == σ && s.avail.isEmpty then none else some { s with pc := .pwWait σ' }
    | (s, .ready it) =>
      match it with
      | .resp r =>
        if r.error.isSome then some (emit { s with pc := .failed } (.connected .incorrectPassword))
        else some (emit { s with pc := .spawned } (.connected (.ok [])))
      | .clean => some (emit { s with pc := .failed } (.connected (.protocol .unexpectedEof)))
      | it => some (emit { s with pc := .failed } (.connected (.protocol (itemErr it))))
  | .spawned =>
    -- `run_loop`: initial idle
    match write s IDLE with
    | (s, none) => some { s with pc := .idling .initial }
    | (s, some k) => some (exitLoop (emit s (.closing (some (.io k)))))
  | .idling σ =>
    let recvReady := !s.avail.isEmpty || s.eof || s.rerr.isSome
    let cmdReady := !s.queue.isEmpty || s.senders = 0
    if cmdReady && !(recvReady && recvFirst) then
      -- command branch wins; the receive future (and its builder σ) is dropped
      some (startCancel s)
    else if recvReady then
      match pollRecv s σ with
      | (s, .pending σ') =>
        -- bytes consumed, response incomplete
        if cmdReady then some (startCancel s)    -- the other branch is ready: future dropped with σ'
        else some { s with pc := .idling σ' }
      | (s, .ready it) =>
        match it with
        | .resp r =>
          match intoSingleFrame r with
          | some (.ok f) =>
            let s := emitEvents s f
            match write s IDLE with
            | (s, none) => some { s with pc := .idling .initial }
            | (s, some k) => some (exitLoop (emit s (.closing (some (.io k)))))
          | some (.error _) => some (exitLoop (emit s (.closing none)))
          | none => some (exitLoop s)
        | .clean => some (exitLoop s)
        | it => some (exitLoop (emit s (.closing (some (itemErr it)))))
    else none
  | .cancelWait r σ =>
    let recvReady := !s.avail.isEmpty || s.eof || s.rerr.isSome || σ == .initial && !s.buf.isEmpty
    if !recvReady then none else
    match pollRecv s σ with
    | (s, .pending σ') => if σ' == σ && s.buf == (s.buf) && false then none else
        (if σ' == σ then (if recvReady && (s.eof || s.rerr.isSome) then none else none) else none) |>.orElse fun _ =>
        some { s with pc := .cancelWait r σ' }
    | (s, .ready it) =>
      match it with
      | .resp resp =>
        match intoSingleFrame resp with
        | some (.ok f) =>
          let s := emitEvents s f
          match write s r.bytes with
          | (s, none) => some { s with pc := .waiting r .initial }
          | (s, some k) => some (exitLoop (emit s (.resolved r.id (.protocol (.io k)))))
        | some (.error _) => some (exitLoop (emit (emit s (.closing none)) (.resolved r.id .closed)))
        | none => some (exitLoop (emit s (.resolved r.id .closed)))
      | .clean => some (exitLoop (emit s (.resolved r.id .closed)))
      | it => some (exitLoop (emit s (.resolved r.id (.protocol (itemErr it)))))
  | .waiting r σ =>
    let recvReady := !s.avail.isEmpty || s.eof || s.rerr.isSome || σ == .initial && !s.buf.isEmpty
    if !recvReady then none else
    match pollRecv s σ with
    | (s, .pending σ') => some { s with pc := .waiting r σ' }
    | (s, .ready it) =>
      match it with
      | .resp resp => some (afterReply (emit s (.resolved r.id (.response resp))) (s.now + TIMEOUT_MS))
      | .clean => some (exitLoop (emit s (.resolved r.id .closed)))
      | it => some (afterReply (emit s (.resolved r.id (.protocol (itemErr it)))) (s.now + TIMEOUT_MS))
  | .waitNext d =>
    if !s.queue.isEmpty || s.senders = 0 || s.now ≥ d then some (afterReply s d) else none
  | .exited => none
  | .failed => none

end Mpd.Loop
