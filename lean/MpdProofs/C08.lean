import MpdProofs.Lemmas.LoopInv
import Mpd.Client
import MpdProofs.Lemmas.Progress
/-!
# C08 — when the connection ends, every request resolves and the failure is reported

On the byte-level task model, for EVERY state:

* `C08_exit_resolves_all`: leaving the loop answers every queued request `ConnectionClosed`,
  empties the queue, ends the event stream and releases the transport, and observes nothing else;
* `C08_never_lost`: no step loses a request — (answered ++ in flight ++ queued) is invariant, so
  whatever was in flight or queued when the connection ended is answered or still accounted for;
* `C08_at_most_one_closing`: at most one closing event ever, and only at the moment the loop ends;
* `C08_after_exit`: the task never runs again; a request issued afterwards fails at once with
  `ConnectionClosed`;
* `C08_read_end_ready`: once the read side has ended (EOF or a persistent read fault) a poll of the
  live receive future is never pending — the state machine cannot block on reading;
* `C08_complete_reply_kept`: a reply that was completely buffered before the fault is still
  delivered `Ok` to its caller.

* `C08_dead_connection_drains` (**whole drain, bounded progress**): from ANY connected state whose
  read side is dead (EOF or read fault, both persistent), with no further input and whatever poll
  order the scheduler picks at every `select!`, within `μ s` moves (task steps, or the 100 ms timer
  firing when that is all the task waits for) the loop has returned, the queue is empty, and every
  request that was queued or in flight has been answered — exactly as often as it was accounted for.
  `μ` is an explicit termination measure (`Lemmas/Progress.lean`): `step_decreases`,
  `blocked_only_on_timer`, `tick_decreases`.

PARTIAL: a dead WRITE side alone (reads still possible) ends the loop only at the next write; that
the peer then closes the read side is the environment's business. tokio's scheduler fairness (that
the task is polled at all) and `Drop` order are validated by the correspondence run with faults at
arbitrary points (every request future must complete, `is_connection_closed`, event stream end,
transport `Drop`).
-/
namespace Mpd.C08
open Mpd Mpd.Loop

theorem C08_exit_resolves_all (s : St) :
    (exitLoop s).pc = .exited ∧ (exitLoop s).queue = [] ∧
    (exitLoop s).obs = s.obs ++ s.queue.map (fun r => Obs.resolved r.id .closed) ++ [.eventsEnd, .transportDropped] :=
  exitLoop_spec s

theorem C08_never_lost (s s' : St) (rf : Bool) (h : step s rf = some s') :
    ∀ id, (accounted s').count id = (accounted s).count id := step_accounted s s' rf h

theorem C08_at_most_one_closing (s s' : St) (rf : Bool) (h : step s rf = some s') (hi : ClosingInv s) :
    ClosingInv s' := step_closingInv s s' rf h hi

/-- **whole drain** on a dead connection: see the header -/
theorem C08_dead_connection_drains (sched : St → Bool) (s : St) (hp : Post s) (hd : Dead s) :
    ∃ n, n ≤ μ s ∧ (drain sched n s).pc = .exited ∧ (drain sched n s).queue = [] ∧
      ∀ id, (resolvedIds (drain sched n s).obs).count id = (accounted s).count id :=
  dead_connection_drains sched s hp hd

/-- non-vacuity: a request in flight, another queued, the stream ends inside the reply -/
def deadExample : St :=
  { pc := .waiting { id := 1, bytes := str "ping\n" } (.inProgress { fields := [(str "a", str "b")] }),
    queue := [{ id := 2, bytes := str "status\n" }], eof := true, senders := 3, fresh := false }

example : Post deadExample ∧ Dead deadExample := by
  refine ⟨⟨trivial, by intro h; cases h⟩, Or.inl rfl⟩

example : ((drain (fun _ => false) 6 deadExample).pc, resolvedIds (drain (fun _ => false) 6 deadExample).obs) =
    (.exited, [1, 2]) := by decide +kernel

theorem C08_closing_init : ClosingInv {} := by simp [ClosingInv, closings]

theorem C08_after_exit (s : St) (rf : Bool) (h : s.pc = .exited) : step s rf = none := step_exited s rf h

theorem C08_request_after_exit (w : Client.World) (id : Nat) (b : Bytes) (h : w.st.pc = .exited) :
    (Client.submit w id b).st.obs = w.st.obs ++ [.resolved id .closed] ∧ (Client.submit w id b).st.queue = w.st.queue := by
  simp [Client.submit, h, emit]

/-- the read side has ended: polling the receive future never returns Pending -/
theorem C08_read_end_ready (s : St) (σ : Builder.BState) (h : s.eof = true ∨ s.rerr.isSome = true) :
    ∀ σ', (pollRecv s σ).2 ≠ .pending σ' := by
  intro σ'
  unfold pollRecv
  rcases Builder.feed σ s.buf with ⟨σ1, rest1, out⟩
  cases out with
  | done r => simp
  | invalid => simp
  | panic => simp
  | pending =>
    simp only
    cases hr : s.rerr with
    | some k => simp
    | none =>
      have he : s.eof = true := by rcases h with h | h; exact h; simp [hr] at h
      simp only
      by_cases ha : s.avail.isEmpty = true
      · simp [ha, he]
      · simp only [ha]
        rcases Builder.feed σ1 (rest1 ++ s.avail) with ⟨σ2, rest2, out2⟩
        cases out2 <;> simp [he]

/-- a reply completely buffered before the fault still reaches its caller as `Ok` -/
theorem C08_complete_reply_kept (s : St) (σ : Builder.BState) (σ' : Builder.BState) (rest : Bytes) (r : Builder.Response)
    (h : Builder.feed σ s.buf = (σ', rest, .done r)) :
    (pollRecv s σ).2 = .ready (.resp r) := by
  unfold pollRecv; rw [h]

end Mpd.C08
