import MpdProofs.Lemmas.LoopInv
import Mpd.Client
/-!
# C08 — when the connection ends, every request resolves and the failure is reported

On the byte-level task model, for EVERY state:

* `C08_exit_resolves_all`: leaving the loop answers every queued request `ConnectionClosed`,
  empties the queue, ends the event stream and releases the transport, and observes nothing else;
* `C08_never_lost`: no step loses a request — (answered ++ in flight ++ queued) is invariant, so
  whatever was in flight or queued when the connection ended is answered or still accounted for;
* `C08_at_most_one_closing`: at most one closing event ever, and only at the moment the loop ends;
* `C08_after_exit`: the task never runs again; a request issued afterwards fails at once with
  `ConnectionClosed`;
* `C08_read_end_ready`: once the read side has ended (EOF or a persistent read fault) a poll of the
  live receive future is never pending — the state machine cannot block on reading;
* `C08_complete_reply_kept`: a reply that was completely buffered before the fault is still
  delivered `Ok` to its caller.

PARTIAL: liveness is shown as "no program point can block on a dead connection" + the accounting
invariant; the bounded-progress measure over whole drains, tokio's scheduler and `Drop` order are
validated by the correspondence run with faults at arbitrary points (every request future must
complete, `is_connection_closed`, event stream end, transport `Drop`).
-/
namespace Mpd.C08
open Mpd Mpd.Loop

theorem C08_exit_resolves_all (s : St) :
    (exitLoop s).pc = .exited ∧ (exitLoop s).queue = [] ∧
    (exitLoop s).obs = s.obs ++ s.queue.map (fun r => Obs.resolved r.id .closed) ++ [.eventsEnd, .transportDropped] :=
  exitLoop_spec s

theorem C08_never_lost (s s' : St) (rf : Bool) (h : step s rf = some s') :
    ∀ id, (accounted s').count id = (accounted s).count id := step_accounted s s' rf h

theorem C08_at_most_one_closing (s s' : St) (rf : Bool) (h : step s rf = some s') (hi : ClosingInv s) :
    ClosingInv s' := step_closingInv s s' rf h hi

theorem C08_closing_init : ClosingInv {} := by simp [ClosingInv, closings]

theorem C08_after_exit (s : St) (rf : Bool) (h : s.pc = .exited) : step s rf = none := step_exited s rf h

theorem C08_request_after_exit (w : Client.World) (id : Nat) (b : Bytes) (h : w.st.pc = .exited) :
    (Client.submit w id b).st.obs = w.st.obs ++ [.resolved id .closed] ∧ (Client.submit w id b).st.queue = w.st.queue := by
  simp [Client.submit, h, emit]

/-- the read side has ended: polling the receive future never returns Pending -/
theorem C08_read_end_ready (s : St) (σ : Builder.BState) (h : s.eof = true ∨ s.rerr.isSome = true) :
    ∀ σ', (pollRecv s σ).2 ≠ .pending σ' := by
  intro σ'
  unfold pollRecv
  rcases Builder.feed σ s.buf with ⟨σ1, rest1, out⟩
  cases out with
  | done r => simp
  | invalid => simp
  | panic => simp
  | pending =>
    simp only
    cases hr : s.rerr with
    | some k => simp
    | none =>
      have he : s.eof = true := by rcases h with h | h; exact h; simp [hr] at h
      simp only
      by_cases ha : s.avail.isEmpty = true
      · simp [ha, he]
      · simp only [ha]
        rcases Builder.feed σ1 (rest1 ++ s.avail) with ⟨σ2, rest2, out2⟩
        cases out2 <;> simp [he]

/-- a reply completely buffered before the fault still reaches its caller as `Ok` -/
theorem C08_complete_reply_kept (s : St) (σ : Builder.BState) (σ' : Builder.BState) (rest : Bytes) (r : Builder.Response)
    (h : Builder.feed σ s.buf = (σ', rest, .done r)) :
    (pollRecv s σ).2 = .ready (.resp r) := by
  unfold pollRecv; rw [h]

end Mpd.C08
