import MpdProofs.Lemmas.LoopInv
import Mpd.Client
import MpdProofs.Lemmas.Progress
import MpdProofs.C03
import MpdProofs.Lemmas.InvalidFinal
/-!
# C08 — when the connection ends, every request resolves and the failure is reported

On the byte-level task model, for EVERY state:

* `C08_exit_resolves_all`: leaving the loop answers every queued request `ConnectionClosed`,
  empties the queue, ends the event stream and releases the transport, and observes nothing else;
* `C08_never_lost`: no step loses a request — (answered ++ in flight ++ queued) is invariant, so
  whatever was in flight or queued when the connection ended is answered or still accounted for;
* `C08_at_most_one_closing`: at most one closing event ever, and only at the moment the loop ends;
* `C08_after_exit`: the task never runs again; a request issued afterwards fails at once with
  `ConnectionClosed`;
* `C08_read_end_ready`: once the read side has ended (EOF or a persistent read fault) a poll of the
  live receive future is never pending — the state machine cannot block on reading;
* `C08_complete_reply_kept`: a reply that was completely buffered before the fault is still
  delivered `Ok` to its caller.

* `C08_dead_connection_drains` (**whole drain, bounded progress**): from ANY connected state whose
  read side is dead (EOF or read fault, both persistent), with no further input and whatever poll
  order the scheduler picks at every `select!`, within `μ s` moves (task steps, or the 100 ms timer
  firing when that is all the task waits for) the loop has returned, the queue is empty, and every
  request that was queued or in flight has been answered — exactly as often as it was accounted for.
  `μ` is an explicit termination measure (`Lemmas/Progress.lean`): `step_decreases`,
  `blocked_only_on_timer`, `tick_decreases`.

PARTIAL: a dead WRITE side alone (reads still possible) ends the loop only at the next write; that
the peer then closes the read side is the environment's business. tokio's scheduler fairness (that
the task is polled at all) and `Drop` order are validated by the correspondence run with faults at
arbitrary points (every request future must complete, `is_connection_closed`, event stream end,
transport `Drop`).
-/
namespace Mpd.C08
open Mpd Mpd.Loop

theorem C08_exit_resolves_all (s : St) :
    (exitLoop s).pc = .exited ∧ (exitLoop s).queue = [] ∧
    (exitLoop s).obs = s.obs ++ s.queue.map (fun r => Obs.resolved r.id .closed) ++ [.eventsEnd, .transportDropped] :=
  exitLoop_spec s

theorem C08_never_lost (s s' : St) (rf : Bool) (h : step s rf = some s') :
    ∀ id, (accounted s').count id = (accounted s).count id := step_accounted s s' rf h

theorem C08_at_most_one_closing (s s' : St) (rf : Bool) (h : step s rf = some s') (hi : ClosingInv s) :
    ClosingInv s' := step_closingInv s s' rf h hi

/-- **whole drain** on a dead connection: see the header -/
theorem C08_dead_connection_drains (sched : St → Bool) (s : St) (hp : Post s) (hd : Dead s) :
    ∃ n, n ≤ μ s ∧ (drain sched n s).pc = .exited ∧ (drain sched n s).queue = [] ∧
      ∀ id, (resolvedIds (drain sched n s).obs).count id = (accounted s).count id :=
  dead_connection_drains sched s hp hd

/-- non-vacuity: a request in flight, another queued, the stream ends inside the reply -/
def deadExample : St :=
  { pc := .waiting { id := 1, bytes := str "ping\n" } (.inProgress { fields := [(str "a", str "b")] }),
    queue := [{ id := 2, bytes := str "status\n" }], eof := true, senders := 3, fresh := false }

example : Post deadExample ∧ Dead deadExample := by
  refine ⟨⟨trivial, by intro h; cases h⟩, Or.inl rfl⟩

example : ((drain (fun _ => false) 6 deadExample).pc, resolvedIds (drain (fun _ => false) 6 deadExample).obs) =
    (.exited, [1, 2]) := by decide +kernel

theorem C08_closing_init : ClosingInv {} := by simp [ClosingInv, closings]

theorem C08_after_exit (s : St) (rf : Bool) (h : s.pc = .exited) : step s rf = none := step_exited s rf h

theorem C08_request_after_exit (w : Client.World) (id : Nat) (b : Bytes) (h : w.st.pc = .exited) :
    (Client.submit w id b).st.obs = w.st.obs ++ [.resolved id .closed] ∧ (Client.submit w id b).st.queue = w.st.queue := by
  simp [Client.submit, h, emit]

/-- the read side has ended: polling the receive future never returns Pending -/
theorem C08_read_end_ready (s : St) (σ : Builder.BState) (h : s.eof = true ∨ s.rerr.isSome = true) :
    ∀ σ', (pollRecv s σ).2 ≠ .pending σ' := by
  intro σ'
  unfold pollRecv
  rcases Builder.feed σ s.buf with ⟨σ1, rest1, out⟩
  cases out with
  | done r => simp
  | invalid => simp
  | panic => simp
  | pending =>
    simp only
    cases hr : s.rerr with
    | some k => simp
    | none =>
      have he : s.eof = true := by rcases h with h | h; exact h; simp [hr] at h
      simp only
      by_cases ha : s.avail.isEmpty = true
      · simp [ha, he]
      · simp only [ha]
        rcases Builder.feed σ1 (rest1 ++ s.avail) with ⟨σ2, rest2, out2⟩
        cases out2 <;> simp [he]

/-- a reply completely buffered before the fault still reaches its caller as `Ok` -/
theorem C08_complete_reply_kept (s : St) (σ : Builder.BState) (σ' : Builder.BState) (rest : Bytes) (r : Builder.Response)
    (h : Builder.feed σ s.buf = (σ', rest, .done r)) :
    (pollRecv s σ).2 = .ready (.resp r) := by
  unfold pollRecv; rw [h]

/-! ### the failure is surfaced: an end of stream inside a response reaches the caller in flight, or
the event stream, as `UnexpectedEof`; an end of stream on a response boundary is a plain close -/

/-- one poll at the end of the stream with nothing left to read: unexpected EOF exactly when the
builder is inside a response or bytes are left over (the two disjuncts of C10), else a clean end -/
theorem pollRecv_at_eof (t : St) (σ σ1 : Builder.BState) (rest : Bytes)
    (heof : t.eof = true) (hr : t.rerr = none) (hav : t.avail = [])
    (hf : Builder.feed σ t.buf = (σ1, rest, .pending)) :
    (pollRecv t σ).2 = .ready (Conn.eofItem σ1 rest) ∧ (pollRecv t σ).1.obs = t.obs ∧
    (pollRecv t σ).1.queue = t.queue := by
  unfold pollRecv
  rw [hf]
  simp [hr, hav, heof]

theorem C08_unclean_eof_reaches_caller (s : St) (rf : Bool) (req : Req) (σ σ1 : Builder.BState) (rest : Bytes)
    (hpc : s.pc = .waiting req σ) (heof : s.eof = true) (hr : s.rerr = none) (hav : s.avail = [])
    (hf : Builder.feed σ s.buf = (σ1, rest, .pending))
    (hin : Builder.inProgress σ1 = true ∨ rest ≠ []) :
    ∃ s', step s rf = some s' ∧ Obs.resolved req.id (.protocol .unexpectedEof) ∈ s'.obs := by
  have hitem : Conn.eofItem σ1 rest = .unexpectedEof := by
    unfold Conn.eofItem
    rcases hin with h | h
    · simp [h]
    · have : rest.isEmpty = false := by cases rest <;> simp_all
      simp [this]
  obtain ⟨h1, h2, _⟩ := pollRecv_at_eof { s with fresh := false } σ σ1 rest heof hr hav hf
  have hpoll : recvPollable s = true := by simp [recvPollable, heof]
  rcases hp : pollRecv { s with fresh := false } σ with ⟨s1, rp⟩
  rw [hp] at h1 h2
  simp only at h1 h2
  subst h1
  refine ⟨afterReply (emit s1 (.resolved req.id (.protocol (itemErr .unexpectedEof)))) (s1.now + TIMEOUT_MS), ?_, ?_⟩
  · obtain ⟨t, ht⟩ : ∃ t : St, t = { s with fresh := false } := ⟨_, rfl⟩
    rw [← ht] at hp
    unfold step
    rw [← ht, hpc]
    simp only [hpoll, Bool.not_true, Bool.false_eq_true, if_false]
    rw [hp, hitem]
  · obtain ⟨e, he⟩ := ext_afterReply (emit s1 (.resolved req.id (.protocol (itemErr .unexpectedEof)))) (s1.now + TIMEOUT_MS)
    rw [he]
    simp [emit, itemErr]

/-- while idling (no request pending): the event stream gets the closing event with the error -/
theorem C08_unclean_eof_reaches_events (s : St) (rf : Bool) (σ σ1 : Builder.BState) (rest : Bytes)
    (hpc : s.pc = .idling σ) (hq : s.queue = []) (hs : s.senders ≠ 0)
    (heof : s.eof = true) (hr : s.rerr = none) (hav : s.avail = [])
    (hf : Builder.feed σ s.buf = (σ1, rest, .pending))
    (hin : Builder.inProgress σ1 = true ∨ rest ≠ []) :
    ∃ s', step s rf = some s' ∧ Obs.closing (some .unexpectedEof) ∈ s'.obs ∧ s'.pc = .exited := by
  have hitem : Conn.eofItem σ1 rest = .unexpectedEof := by
    unfold Conn.eofItem
    rcases hin with h | h
    · simp [h]
    · have : rest.isEmpty = false := by cases rest <;> simp_all
      simp [this]
  obtain ⟨h1, h2, _⟩ := pollRecv_at_eof { s with fresh := false } σ σ1 rest heof hr hav hf
  have hpoll : recvPollable s = true := by simp [recvPollable, heof]
  rcases hp : pollRecv { s with fresh := false } σ with ⟨s1, rp⟩
  rw [hp] at h1 h2
  simp only at h1 h2
  subst h1
  refine ⟨exitLoop (emit s1 (.closing (some (itemErr .unexpectedEof)))), ?_, ?_, (exitLoop_spec _).1⟩
  · obtain ⟨t, ht⟩ : ∃ t : St, t = { s with fresh := false } := ⟨_, rfl⟩
    rw [← ht] at hp
    unfold step
    rw [← ht, hpc]
    simp only [hq, List.isEmpty_nil, Bool.not_true, hs, decide_false, Bool.or_self, Bool.false_and,
      Bool.false_eq_true, if_false, hpoll, if_true]
    rw [hp, hitem]
  · rw [(exitLoop_spec _).2.2]
    simp [emit, itemErr]

/-- ... and an end of stream on a response boundary while idling is a plain close: no closing event -/
theorem C08_clean_eof_no_error (s : St) (rf : Bool) (hpc : s.pc = .idling .initial) (hq : s.queue = [])
    (hs : s.senders ≠ 0) (heof : s.eof = true) (hr : s.rerr = none) (hav : s.avail = []) (hb : s.buf = []) :
    ∃ s', step s rf = some s' ∧ s'.pc = .exited ∧ closings s'.obs = closings s.obs := by
  have hf : Builder.feed .initial s.buf = (.initial, [], .pending) := by rw [hb]; exact C03.feed_nil .initial
  obtain ⟨h1, h2, _⟩ := pollRecv_at_eof { s with fresh := false } .initial .initial [] heof hr hav hf
  have hpoll : recvPollable s = true := by simp [recvPollable, heof]
  rcases hp : pollRecv { s with fresh := false } .initial with ⟨s1, rp⟩
  rw [hp] at h1 h2
  simp only at h1 h2
  subst h1
  refine ⟨exitLoop s1, ?_, (exitLoop_spec _).1, ?_⟩
  · obtain ⟨t, ht⟩ : ∃ t : St, t = { s with fresh := false } := ⟨_, rfl⟩
    rw [← ht] at hp
    unfold step
    rw [← ht, hpc]
    simp only [hq, List.isEmpty_nil, Bool.not_true, hs, decide_false, Bool.or_self, Bool.false_and,
      Bool.false_eq_true, if_false, hpoll, if_true]
    rw [hp]
    simp [Conn.eofItem, Builder.inProgress]
  · rw [closings_exitLoop, h2]

/-- **invalid data is final**: when a poll of the receive future has reported an invalid message, any
later state of the task that still has that receive buffer and builder state (nothing but a poll of a
receive future changes them) — whatever has arrived on the transport since, whether it ended or failed —
polls to an invalid message again, consuming nothing. After data outside the grammar the connection
cannot come back to life, and no later request is handed what was left of the rejected reply. -/
theorem C08_invalid_data_is_final (s : St) (σ : Builder.BState) (s1 : St)
    (h : pollRecv s σ = (s1, .ready .invalid))
    (s2 : St) (hb : s2.buf = s1.buf) (hs : s2.bstash = s1.bstash) :
    (pollRecv s2 s2.bstash).2 = .ready .invalid ∧ (pollRecv s2 s2.bstash).1.buf = s2.buf ∧
      (pollRecv s2 s2.bstash).1.bstash = s2.bstash := by
  rw [pollRecv_invalid_final s σ s1 h s2 hb hs]
  exact ⟨rfl, rfl, rfl⟩

end Mpd.C08
