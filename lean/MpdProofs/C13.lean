import Mpd.Command
import MpdSpec.Tokenizer
import MpdProofs.Lemmas.Tok
import MpdProofs.C07
/-!
# C13 — command lists are framed as one batch (framing half)

The typed-pairing half (i-th typed response from the i-th frame, empty typed list) is added to this
file by the owner of the `Typed` model; here: the bytes of a `CommandList` built through
`new` / `add` / `command` / `extend`.

* `C13_built` — the vector after any sequence of `add`/`command`/`extend` calls holds the first
  command followed by the added commands in call order (so it is never empty);
* `C13_frame` — the stream `send_list` writes splits into exactly `command_list_ok_begin`, the N
  command lines in order, `command_list_end` for N ≥ 2, and into the bare command for N = 1;
* `C13_one_block` — inside the block no line is read by MPD as a `command_list…` request.
-/
namespace Mpd.C13
open Mpd Mpd.Cmd Spec.Tok Mpd.TokL Mpd.C07

/-- the vector a `CommandList` holds after `new first` and the operations `ops` -/
def built (first : Bytes) (ops : List ListOp) : List Bytes := ops.foldl ListOp.apply (listNew first)

theorem foldl_apply (l : List Bytes) (ops : List ListOp) :
    ops.foldl ListOp.apply l = l ++ ops.flatMap ListOp.cmds := by
  induction ops generalizing l with
  | nil => simp
  | cons o os ih =>
    rw [List.foldl_cons, ih]
    cases o <;> simp [ListOp.apply, ListOp.cmds, listAdd, listExtend]

/-- commands are kept in call order, after the first; nothing is dropped or duplicated -/
theorem C13_built (first : Bytes) (ops : List ListOp) :
    built first ops = first :: ops.flatMap ListOp.cmds := by
  simp [built, foldl_apply, listNew]

/-- `render` on the vector is `renderList` on head and tail -/
theorem listRender_cons (first : Bytes) (rest : List Bytes) :
    listRender (first :: rest) = renderList first rest := by
  cases rest <;> rfl

/-- **framing, all list lengths.** -/
theorem C13_frame (first : Bytes) (ops : List ListOp)
    (h : ∀ c ∈ built first ops, Reachable c) :
    splitLines (listRender (built first ops)) =
      some (if (built first ops).length = 1 then [first]
            else BEGIN_LINE :: built first ops ++ [END_LINE]) := by
  rw [C13_built] at h ⊢
  rw [listRender_cons, C07_list first _ h]
  cases ops.flatMap ListOp.cmds <;> simp

/-- N ≥ 2: one `command_list_ok_begin … command_list_end` block holding the N lines in order -/
theorem C13_frame_many (cs : List Bytes) (h : ∀ c ∈ cs, Reachable c) (hN : 2 ≤ cs.length) :
    splitLines (listRender cs) = some (BEGIN_LINE :: cs ++ [END_LINE]) := by
  match cs, hN with
  | first :: second :: rest, _ =>
    rw [listRender_cons, C07_list first _ h, if_neg (by simp)]

/-- N = 1: the bare command -/
theorem C13_frame_one (c : Bytes) (h : Reachable c) :
    splitLines (listRender (listNew c)) = some [c] := by
  have := C07_list c [] (by simpa using h)
  simpa [listNew, listRender_cons] using this

/-- the block is *one* block: none of the N lines between begin and end can itself be read as a
`command_list_begin` / `command_list_ok_begin` / `command_list_end` request -/
theorem C13_one_block (first : Bytes) (ops : List ListOp)
    (h : ∀ c ∈ built first ops, Reachable c) :
    ∀ c ∈ built first ops, ∀ w as, tokenizeLine c = some (w, as) →
      startsWith w (str "command_list") = false :=
  C07_list_no_framing_inside _ h

/-! ## non-vacuity -/

example :
    built (str "status") [.add (str "play 1"), .extend [str "stop", str "next"], .command (str "ping"),
      .extend []] = [str "status", str "play 1", str "stop", str "next", str "ping"] := by decide

example : listRender (built (str "status") [.extend []]) = str "status\n" := by decide

example : listRender (built (str "status") [.command (str "ping")]) =
    str "command_list_ok_begin\nstatus\nping\ncommand_list_end\n" := by decide

end Mpd.C13
