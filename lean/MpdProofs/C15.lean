import Mpd.Commands
import MpdSpec.Requests
import MpdProofs.Lemmas.Commands
import MpdProofs.Lemmas.Requests
import MpdProofs.Lemmas.F64Round
/-!
# C15 — predefined commands render to the documented MPD request for all parameters

Property (full strength): *for every predefined command and every value of its parameters, the
request written is the MPD command documented for it with arguments denoting the same values:
positions and ranges denote the same set of queue positions as the Rust value (inclusive,
exclusive and open bounds, saturating at the integer maximum instead of overflowing), durations
are within the documented millisecond rounding, clamped values stay inside MPD's domain, and each
string parameter is sent as exactly one argument in the documented position.*

Model: `Mpd.Commands.command : PCmd → Outcome Bytes` (one `PCmd` constructor per builder path).
Specification: `Spec.Req.expect` (command word + meaning of each argument, written from the
protocol reference), `Spec.Req.ArgSem.accepts` (reads a token back), `Spec.Tok` (MPD's tokenizer).

Proved here, for **all** command values:

* `C15` — for every `safe` value: `command` does not panic, MPD's tokenizer splits the line (and
  the bytes `Connection::send` writes) into exactly the documented command word and one token per
  documented argument, and every token means what the specification says (`acceptsAll`).
  `safe` is a decidable predicate: numeric parameters are values of their Rust types, the
  constructor does not panic (documented panics), string parameters are accepted by the builder
  and outside the known-finding class K1 of C06, tags have a name `Tag::try_from` accepts, filters
  are as in `C11_partial` (built by the API, MPD-readable tags, outside K2, no LF/NUL), and every
  duration sent as a time is rendered within 1 ms (`durOk`; by `C15_seek_duration` this holds for
  every duration below 2^43 s, i.e. outside the known-finding class K4: `C15_safe_of_classes`).
* `C15_panic_iff` — `command` panics exactly on the documented constructor panics and when a
  string / tag / filter value contains LF or NUL (`Command::argument` is documented to panic).
* `C15_range`, `C15_range_at_max`, `C15_range_malformed_empty` + witnesses — range normalisation.
* `C15_setvol`, `C15_crossfade`, `C15_seek_duration` (full binary64 error analysis below 2^43 s),
  `C15_seek_duration_rounding`, `C15_K4_witness` — numeric clauses.
* `C15_single_spelling`, `C15_replay_gain_spelling`, `C15_sticker_op_spelling` — enum keywords.
-/
namespace Mpd.C15
open Mpd Mpd.Cmd Mpd.Commands Mpd.CmdsL Mpd.ReqL Spec.Req Spec.Tok Mpd.TokL

/-! ## the class of values the main theorem covers -/

/-- decidable precondition of `C15` (see the file header) -/
def safe (c : PCmd) : Bool :=
  c.typed && !(ctorPanics c) && c.strings.all strOk && c.tags.all tagOk &&
    c.filters.all filterOk && c.durs.all durOk

/-- what the parameter lists are, on a few constructors -/
example (a b v : Bytes) : (PCmd.stickerSet a b v).strings = [a, b, v] := rfl
example (u : Bytes) (t g : Tag) (f : FilterType) :
    (PCmd.list t (some f) [g]).tags = [t, g] ∧ (PCmd.list t (some f) [g]).filters = [f] ∧
    (PCmd.add u none).strings = [u] := ⟨rfl, rfl, rfl⟩
example (s : Song) (d : Dur) : (PCmd.seekTo s d).durs = [d] ∧ (PCmd.crossfade d).durs = [] := by
  cases s <;> exact ⟨rfl, rfl⟩

theorem parts_ok (c : PCmd) (hs : ∀ s ∈ c.strings, strOk s = true) (ht : ∀ t ∈ c.tags, tagOk t = true)
    (hf : ∀ f ∈ c.filters, filterOk f = true) : ∀ p ∈ (shape c).2, p.ok = true := by
  intro p hp
  cases p with
  | str s => exact hs s (List.mem_filterMap.mpr ⟨_, hp, rfl⟩)
  | kw w => simpa [kwOk, Part.ok] using List.all_eq_true.mp (shape_kwOk c) _ hp
  | tag t => exact ht t (List.mem_filterMap.mpr ⟨_, hp, rfl⟩)
  | sortTag t => exact ht t (List.mem_filterMap.mpr ⟨_, hp, rfl⟩)
  | filter f => exact hf f (List.mem_filterMap.mpr ⟨_, hp, rfl⟩)
  | _ => rfl

/-! ## the property -/

/-- **C15.** For every safe value of every predefined command:
1. `command()` does not panic and yields a line;
2. MPD's tokenizer reads that line as the documented command word and a token list `toks`
   (and the bytes `Connection::send` writes are exactly that one request);
3. there is one token per documented argument and each token means what the protocol reference
   says for this command and these parameters (`Spec.Req.acceptsAll`): numbers numerically, ranges as
   position sets, times within 1 ms, strings / tags / keywords byte for byte, filters through MPD's
   filter grammar. -/
theorem C15 (c : PCmd) (h : safe c = true) :
    ∃ line toks, command c = .ok line ∧
      tokenizeLine line = some ((expect c).1, toks) ∧
      tokenizeStream (sendBytes line) = some [some ((expect c).1, toks)] ∧
      acceptsAll (expect c).2 toks = true := by
  simp only [safe, Bool.and_eq_true, Bool.not_eq_true', List.all_eq_true] at h
  obtain ⟨⟨⟨⟨⟨hty, hctor⟩, hs⟩, ht⟩, hf⟩, hd⟩ := h
  obtain ⟨line, h1, h2, h3⟩ := assemble_tokenize (shape_nameOk c) (shape c).2 (parts_ok c hs ht hf)
  refine ⟨line, (shape c).2.map Part.tok, ?_, ?_, ?_, accepts_shape c hty hf hd⟩
  · rw [command_eq_assemble c hctor]; exact h1
  · rw [expect_name]; exact h2
  · rw [expect_name]; exact h3

/-- the same as one Boolean verdict (what the correspondence oracle evaluates on the
implementation's bytes) -/
theorem C15_verdict (c : PCmd) (h : safe c = true) :
    ∃ line name toks, command c = .ok line ∧
      tokenizeStream (sendBytes line) = some [some (name, toks)] ∧ satisfiedBy c name toks = true := by
  obtain ⟨line, toks, h1, _, h3, h4⟩ := C15 c h
  exact ⟨line, _, toks, h1, h3, by simp [satisfiedBy, h4]⟩

/-! ## panics -/

theorem bad_str (s : Bytes) : (Part.str s).bad ↔ ¬ C06.accepted s := by
  simp only [Part.bad, Part.render]
  exact not_congr (clean_escapeArgument s)

theorem bad_tag (t : Tag) : (Part.tag t).bad ↔ ¬ C06.accepted t.name := by
  simp only [Part.bad, Part.render]; rfl

theorem bad_sortTag (t : Tag) : (Part.sortTag t).bad ↔ ¬ C06.accepted t.name := by
  simp only [Part.bad, Part.render]
  exact not_congr (clean_escapeArgument t.name)

theorem bad_filter {f : FilterType} (h : Filter.wf f = true) :
    (Part.filter f).bad ↔ Filter.hasForbidden f = true := by
  obtain ⟨r, hr⟩ := C11.wf_render f h
  simp only [Part.bad, Part.render, Filter.render, hr]
  constructor
  · intro hc
    cases hfb : Filter.hasForbidden f with
    | true => rfl
    | false =>
      exfalso; apply hc
      apply clean_of_notForbidden
      intro b hb
      rcases List.mem_append.mp hb with hb | hb
      · rcases List.mem_cons.mp hb with rfl | hb
        · decide
        · exact C11.render_ok f hfb r hr b hb
      · rcases List.mem_singleton.mp hb with rfl
        decide
  · intro hfb hc
    obtain ⟨b, hb, hbf⟩ := C11.render_has_forbidden f hfb r hr
    have hmem : b ∈ QUOTE :: r ++ [QUOTE] := by simp [hb]
    simp only [Filter.isForbidden, Bool.or_eq_true, beq_iff_eq] at hbf
    rcases hbf with rfl | rfl
    · exact hc.1 hmem
    · exact hc.2 hmem

/-- **C15 (panics).** For filters the API can build, `command()` panics **iff** the constructor
panics (documented: `Move::range` with an open end, `TagTypes::enable` / `disable` with an empty
list) or some string parameter, tag name, or filter tag / value contains LF or NUL (documented
behaviour of `Command::argument`). -/
theorem C15_panic_iff (c : PCmd) (hwf : ∀ f ∈ c.filters, Filter.wf f = true) :
    command c = .panic ↔
      ctorPanics c = true ∨ (∃ s ∈ c.strings, ¬ C06.accepted s) ∨ (∃ t ∈ c.tags, ¬ C06.accepted t.name) ∨
        (∃ f ∈ c.filters, Filter.hasForbidden f = true) := by
  by_cases hc : ctorPanics c = true
  · simp [hc, command_ctorPanics c hc]
  · have hc' : ctorPanics c = false := by simpa using hc
    have hb : rawNew (shape c).1 = .ok (shape c).1 := by
      simp [rawNew, names_ok _ (shape_name_mem c)]
    rw [command_eq_assemble c hc', assemble, hb, foldl_addPart_panic_iff]
    simp only [hc', Bool.false_eq_true, false_or]
    constructor
    · rintro ⟨p, hp, hbad⟩
      cases p with
      | str s => exact .inl ⟨s, List.mem_filterMap.mpr ⟨_, hp, rfl⟩, (bad_str s).mp hbad⟩
      | tag t => exact .inr (.inl ⟨t, List.mem_filterMap.mpr ⟨_, hp, rfl⟩, (bad_tag t).mp hbad⟩)
      | sortTag t => exact .inr (.inl ⟨t, List.mem_filterMap.mpr ⟨_, hp, rfl⟩, (bad_sortTag t).mp hbad⟩)
      | filter f =>
        have hm : f ∈ c.filters := List.mem_filterMap.mpr ⟨_, hp, rfl⟩
        exact .inr (.inr ⟨f, hm, (bad_filter (hwf f hm)).mp hbad⟩)
      | kw w =>
        have hw : Plain w := by simpa [kwOk] using List.all_eq_true.mp (shape_kwOk c) _ hp
        exact absurd hbad (Part.ok_not_bad (p := .kw w) (by simpa [Part.ok] using hw))
      | nat n => exact absurd hbad (Part.ok_not_bad (p := .nat n) rfl)
      | pos q => exact absurd hbad (Part.ok_not_bad (p := .pos q) rfl)
      | range r => exact absurd hbad (Part.ok_not_bad (p := .range r) rfl)
      | dur d => exact absurd hbad (Part.ok_not_bad (p := .dur d) rfl)
      | seek m => exact absurd hbad (Part.ok_not_bad (p := .seek m) rfl)
      | bool b => exact absurd hbad (Part.ok_not_bad (p := .bool b) rfl)
    · rintro (⟨s, hs, hbad⟩ | ⟨t, ht, hbad⟩ | ⟨f, hf, hbad⟩)
      · obtain ⟨p, hp, hps⟩ := List.mem_filterMap.mp hs
        cases p <;> simp at hps
        subst hps
        exact ⟨_, hp, (bad_str _).mpr hbad⟩
      · obtain ⟨p, hp, hps⟩ := List.mem_filterMap.mp ht
        cases p <;> simp at hps
        · subst hps; exact ⟨_, hp, (bad_tag _).mpr hbad⟩
        · subst hps; exact ⟨_, hp, (bad_sortTag _).mpr hbad⟩
      · obtain ⟨p, hp, hps⟩ := List.mem_filterMap.mp hf
        cases p <;> simp at hps
        subst hps
        exact ⟨_, hp, (bad_filter (hwf _ hf)).mpr hbad⟩

/-! ## ranges -/

/-- what is rendered for a range is `lo:hi` / `lo:` of `SongRange::new_usize`, as the
specification's range reader sees it -/
theorem C15_range_rendered (s e : Bound) :
    readRange (SongRange.newUsize s e).render = some ((SongRange.newUsize s e).lo, (SongRange.newUsize s e).hi) ∧
    SongRange.new s e = SongRange.newUsize s e :=
  ⟨readRange_render _, new_eq_newUsize s e⟩

/-- **C15 (ranges).** For all four kinds of bound on each side (`Included` / `Excluded` /
`Unbounded` start × end, all 9 combinations; the fourth "kind", a plain position `p..=p`, is the
`Included`/`Included` case) and every position **below the integer maximum**: the position is in
the rendered `START:END` / `START:` (as MPD defines it) iff it is in the Rust range
(`RangeBounds::contains`).  Saturation can only matter at `p = usize::MAX`, see `C15_range_at_max`. -/
theorem C15_range (s e : Bound) (hs : s.typed = true) (he : e.typed = true) (p : Nat) (hp : p < U64MAX) :
    rangeDenote (SongRange.newUsize s e).lo (SongRange.newUsize s e).hi p ↔ boundsContain s e p := by
  cases s <;> cases e <;>
    simp only [Bound.typed, decide_eq_true_eq] at hs he <;>
    simp only [SongRange.newUsize, rangeDenote, boundsContain, satSucc] <;>
    generalize U64MAX = M at * <;>
    (repeat' split) <;> (try simp only [true_and, and_true, Nat.zero_le, iff_self]) <;> (try omega)

/-- the same for the `SongPosition` flavour (`SongRange::new`) -/
theorem C15_range_new (s e : Bound) (hs : s.typed = true) (he : e.typed = true) (p : Nat) (hp : p < U64MAX) :
    rangeDenote (SongRange.new s e).lo (SongRange.new s e).hi p ↔ boundsContain s e p := by
  rw [new_eq_newUsize]; exact C15_range s e hs he p hp

/-- **what happens at `p = usize::MAX`** (the only position saturation can affect): the rendered
range contains it iff the end is open; the Rust range contains it iff the end is open or
`..=MAX` and the start is not `Excluded(MAX)`.  So the two differ exactly for `(_, ..=MAX)` with a
start other than `Excluded(MAX)` (rendered `a:MAX` loses position MAX) and for
`(Excluded(MAX), ..)` (rendered `MAX:` gains it). -/
theorem C15_range_at_max (s e : Bound) (hs : s.typed = true) (he : e.typed = true) :
    (rangeDenote (SongRange.newUsize s e).lo (SongRange.newUsize s e).hi U64MAX ↔ e = .unbounded) ∧
    (boundsContain s e U64MAX ↔ s ≠ .excluded U64MAX ∧ (e = .unbounded ∨ e = .included U64MAX)) := by
  cases s <;> cases e <;>
    simp only [Bound.typed, decide_eq_true_eq] at hs he <;>
    simp only [SongRange.newUsize, rangeDenote, boundsContain, satSucc, ne_eq, Bound.excluded.injEq,
      Bound.included.injEq, reduceCtorEq, not_false_eq_true, true_and, and_true, or_false, false_or,
      iff_true, iff_false, and_false] <;>
    generalize U64MAX = M at * <;>
    (repeat' split) <;> (try simp only [true_and, Nat.zero_le, and_self]) <;> (try omega)

/-- the canonical-set form used by `Spec.Req.ArgSem.accepts`: equal position sets below the maximum -/
theorem C15_range_canon (s e : Bound) (hs : s.typed = true) (he : e.typed = true) :
    canon U64MAX (SongRange.newUsize s e).lo (SongRange.newUsize s e).hi =
      canon U64MAX (exactLo s) (exactHi e) := canon_newUsize s e hs he

theorem wellFormed_false_iff (lo : Nat) (hi : Option Nat) :
    wellFormedRange lo hi = false ↔ ∃ b, hi = some b ∧ b < lo := by
  cases hi <;> simp [wellFormedRange]

theorem wellFormed_true_iff (lo : Nat) (hi : Option Nat) :
    wellFormedRange lo hi = true ↔ ∀ b, hi = some b → lo ≤ b := by
  cases hi <;> simp [wellFormedRange]

/-- **inverted ranges.** A rendered range that MPD rejects as malformed (`END < START`) can only
come from a Rust range that contains no position at all (it is *not* turned into a different
non-empty set); but such empty Rust ranges are **not** normalised to a well-formed empty range:
see the witnesses below. -/
theorem C15_range_malformed_empty (s e : Bound) (hs : s.typed = true) (he : e.typed = true)
    (h : wellFormedRange (SongRange.newUsize s e).lo (SongRange.newUsize s e).hi = false) :
    ∀ p, ¬ boundsContain s e p := by
  intro p
  rw [wellFormed_false_iff] at h
  obtain ⟨b, hb, hlt⟩ := h
  cases s <;> cases e <;>
    simp only [Bound.typed, decide_eq_true_eq] at hs he <;>
    simp only [SongRange.newUsize, satSucc, Option.some.injEq, reduceCtorEq] at hb hlt <;>
    simp only [boundsContain] <;>
    generalize U64MAX = M at * <;>
    (try split at hb) <;> (try split at hlt) <;> (try simp only [true_and]) <;> omega

/-- a Rust range whose normalised start is not behind its end renders well-formed -/
theorem C15_range_wellFormed (s e : Bound) (hs : s.typed = true) (he : e.typed = true)
    (h : ∀ b, exactHi e = some b → exactLo s ≤ b) :
    wellFormedRange (SongRange.newUsize s e).lo (SongRange.newUsize s e).hi = true := by
  rw [wellFormed_true_iff]
  intro b hb
  cases s <;> cases e <;>
    simp only [Bound.typed, decide_eq_true_eq] at hs he <;>
    simp only [exactLo, exactHi, Option.some.injEq, forall_eq', reduceCtorEq, false_imp_iff, implies_true] at h <;>
    simp only [SongRange.newUsize, satSucc, Option.some.injEq, reduceCtorEq] at hb ⊢ <;>
    generalize U64MAX = M at * <;>
    (repeat' split) <;> (try split at hb) <;> omega

/-- witness: `5..3` is rendered `5:3` (MPD: "Malformed range"), `(Excluded(5), Excluded(5))` as `6:5` -/
theorem C15_range_inverted_witness :
    (SongRange.newUsize (.included 5) (.excluded 3)).render = str "5:3" ∧
    wellFormedRange 5 (some 3) = false ∧
    (SongRange.newUsize (.excluded 5) (.excluded 5)).render = str "6:5" ∧
    wellFormedRange 6 (some 5) = false ∧
    command (.deleteRange (.included 5) (.excluded 3)) = .ok (str "delete 5:3") := by decide +kernel

/-- witnesses for the boundary: `..=MAX` renders `0:MAX` (pinned by the crate's test `range_arg`),
`MAX..=MAX` renders the empty `MAX:MAX`, `(Excluded(MAX), ..)` renders `MAX:` -/
theorem C15_range_max_witness :
    (SongRange.newUsize .unbounded (.included U64MAX)).render = str "0:18446744073709551615" ∧
    (SongRange.newUsize (.included U64MAX) (.included U64MAX)).render =
      str "18446744073709551615:18446744073709551615" ∧
    (SongRange.newUsize (.excluded U64MAX) .unbounded).render = str "18446744073709551615:" := by
  decide +kernel

/-! ## clamping, whole seconds -/

/-- **C15 (setvol).** The rendered volume is at most 100, and is the given one when that is ≤ 100 -/
theorem C15_setvol (v : Nat) :
    ∃ n, command (.setVolume v) = .ok (str "setvol" ++ SPACE :: natToDec n) ∧ n ≤ 100 ∧ (v ≤ 100 → n = v) := by
  refine ⟨min v 100, ?_, Nat.min_le_right _ _, fun h => Nat.min_eq_left h⟩
  have := command_eq_assemble (.setVolume v) rfl
  rw [this]
  simp only [shape, assemble, List.foldl_cons, List.foldl_nil]
  have hb : rawNew (str "setvol") = .ok (str "setvol") := by decide
  rw [hb, addPart_ok (str "setvol") (p := .nat (min v 100)) rfl (plain_renderNat _).clean]
  rfl

/-- **C15 (crossfade).** The argument is the whole seconds `⌊d⌋` (`Duration::as_secs`) -/
theorem C15_crossfade (d : Dur) :
    command (.crossfade d) = .ok (str "crossfade" ++ SPACE :: natToDec d.secs) := by
  have := command_eq_assemble (.crossfade d) rfl
  rw [this]
  simp only [shape, assemble, List.foldl_cons, List.foldl_nil]
  have hb : rawNew (str "crossfade") = .ok (str "crossfade") := by decide
  rw [hb, addPart_ok (str "crossfade") (p := .nat d.secs) rfl (plain_renderNat _).clean]
  rfl

/-! ## durations -/

/-- the class of durations `C15` covers, as a decidable predicate: the thousandths printed by
`{:.3}` of `as_secs_f64()` are within 1 ms of the exact duration -/
theorem durOk_iff (d : Dur) : durOk d = true ↔
    F64.millisRendered d.secs d.nanos * 1000000 ≤ nanosOf d + 1000000 ∧
    nanosOf d ≤ F64.millisRendered d.secs d.nanos * 1000000 + 1000000 := by
  simp [durOk, within1ms]

/-- **C15 (durations, partial: the class `durOk`).** What is sent for a `Duration` is the decimal
`S.mmm` whose value in thousandths is `millisRendered`; for every duration in the decidable class
`durOk` the specification's reader accepts it as "the exact duration within 1 ms". -/
theorem C15_seek_duration_partial (d : Dur) (h : durOk d = true) :
    readDecimal d.render = some (F64.millisRendered d.secs d.nanos, 3) ∧
    (ArgSem.time none (nanosOf d)).accepts d.render = true :=
  ⟨readDecimal_renderDuration _ _, accepts_dur d h⟩

/-- **C15 (durations).** Every `Duration` below 2^43 s (≈ 279 000 years) — that is, every duration
outside the known-finding class K4 — is rendered within 1 ms of its exact value: the class
`durOk` of `C15` contains all of them.  This is the complete error analysis of
`write!("{:.3}", d.as_secs_f64())` on the exact binary64 emulation (`secs as f64` is exact,
`nanos as f64 / 1e9` is within 2^-54, the addition within 2^-11 s, the decimal rounding within
0.5 ms; `F64L.millisRendered_within`).  The bound 2^43 is sharp: `C15_K4_witness`. -/
theorem C15_seek_duration (d : Dur) (ht : d.typed = true) (hk : d.isK4 = false) : durOk d = true := by
  simp only [Dur.typed, Bool.and_eq_true, decide_eq_true_eq] at ht
  simp only [Dur.isK4, decide_eq_false_iff_not, ge_iff_le, Nat.not_le] at hk
  rw [durOk_iff]
  have := F64L.millisRendered_within d.secs d.nanos (by simpa using hk) ht.2
  simpa [nanosOf] using this

/-- `safe` from the class predicates alone: typed parameters, no documented constructor panic,
strings accepted and outside K1, tags with a `try_from` name, filters as in `C11_partial`,
durations outside K4 -/
theorem C15_safe_of_classes (c : PCmd) (ht : c.typed = true) (hp : ctorPanics c = false)
    (hs : ∀ s ∈ c.strings, C06.accepted s ∧ isK1 s = false) (htag : ∀ t ∈ c.tags, tagOk t = true)
    (hf : ∀ f ∈ c.filters, filterOk f = true) (hd : ∀ d ∈ c.durs, d.isK4 = false) : safe c = true := by
  simp only [safe, Bool.and_eq_true, Bool.not_eq_true', List.all_eq_true]
  refine ⟨⟨⟨⟨⟨ht, hp⟩, ?_⟩, htag⟩, hf⟩, ?_⟩
  · intro s hsm
    simp only [strOk, Bool.and_eq_true, decide_eq_true_eq, Bool.not_eq_true']
    exact hs s hsm
  · intro d hdm
    exact C15_seek_duration d (durs_typed c ht d hdm) (hd d hdm)

/-- **C15 (durations, the decimal rounding step, all durations).** The printed thousandths are the
round-half-even of 1000 × the binary64 value of `as_secs_f64()`: `|t − 1000·h| ≤ 1/2`.  (The
remaining step, `|h − exact seconds|`, is the binary64 rounding of `as_secs_f64`: below 2^43 s it
is at most 2^-11 s (`C15_seek_duration`); from 2^43 s on the binary spacing is 2^-9 s and the
total can exceed 1 ms — known finding K4.) -/
theorem C15_seek_duration_rounding (d : Dur) :
    let h := F64L.asSecsF64 d.secs d.nanos
    let t := F64.millisRendered d.secs d.nanos
    2 * (t * h.den) ≤ 2 * (h.num * 1000) + h.den ∧ 2 * (h.num * 1000) ≤ 2 * (t * h.den) + h.den :=
  F64L.rhe_error _ _ (F64L.den_pos _)

/-- the failure from 2^43 s on is real: `Duration::new(u64::MAX, 0)` is rendered
`18446744073709551616.000` (one second too much), `Duration::new(12564216744490, 928_849_251)`
(between 2^43 s and 2^44 s) as `12564216744490.930` (1.15 ms too much) -/
theorem C15_K4_witness :
    (Dur.mk U64MAX 0).render = str "18446744073709551616.000" ∧ durOk ⟨U64MAX, 0⟩ = false ∧
    (Dur.mk 12564216744490 928849251).render = str "12564216744490.930" ∧
    durOk ⟨12564216744490, 928849251⟩ = false ∧ Dur.isK4 ⟨12564216744490, 928849251⟩ = true ∧
    Dur.isK4 ⟨8796093022207, 999999999⟩ = false := by
  decide +kernel

/-! ## enum spellings -/

theorem SingleMode.mem_all (m : SingleMode) : m ∈ SingleMode.all := by cases m <;> decide
theorem ReplayGainMode.mem_all (m : ReplayGainMode) : m ∈ ReplayGainMode.all := by cases m <;> decide
theorem StickerFindOperator.mem_all (m : StickerFindOperator) : m ∈ StickerFindOperator.all := by
  cases m <;> decide

/-- `single`: MPD's keywords `0` / `1` / `oneshot`, pairwise different -/
theorem C15_single_spelling :
    command (.setSingle .disabled) = .ok (str "single 0") ∧
    command (.setSingle .enabled) = .ok (str "single 1") ∧
    command (.setSingle .oneshot) = .ok (str "single oneshot") ∧
    ∀ a ∈ SingleMode.all, ∀ b ∈ SingleMode.all, command (.setSingle a) = command (.setSingle b) → a = b := by
  decide +kernel

/-- `replay_gain_mode`: `off` / `track` / `album` / `auto`, pairwise different -/
theorem C15_replay_gain_spelling :
    command (.setReplayGainMode .off) = .ok (str "replay_gain_mode off") ∧
    command (.setReplayGainMode .track) = .ok (str "replay_gain_mode track") ∧
    command (.setReplayGainMode .album) = .ok (str "replay_gain_mode album") ∧
    command (.setReplayGainMode .auto) = .ok (str "replay_gain_mode auto") ∧
    ∀ a ∈ ReplayGainMode.all, ∀ b ∈ ReplayGainMode.all,
      command (.setReplayGainMode a) = command (.setReplayGainMode b) → a = b := by
  decide +kernel

/-- `sticker find … {= | < | >} VALUE`, pairwise different; booleans are `0` / `1` -/
theorem C15_sticker_op_spelling :
    command (.stickerFind (str "u") (str "n") (some (.equals, str "v"))) = .ok (str "sticker find song u n = v") ∧
    command (.stickerFind (str "u") (str "n") (some (.lessThan, str "v"))) = .ok (str "sticker find song u n < v") ∧
    command (.stickerFind (str "u") (str "n") (some (.greaterThan, str "v"))) = .ok (str "sticker find song u n > v") ∧
    (∀ a ∈ StickerFindOperator.all, ∀ b ∈ StickerFindOperator.all, a.keyword = b.keyword → a = b) ∧
    command (.setPause true) = .ok (str "pause 1") ∧ command (.setPause false) = .ok (str "pause 0") := by
  decide +kernel

/-! ## the driver's class predicate for documented panics -/

theorem hasLfNul_iff (s : Bytes) : hasLfNul s = true ↔ ¬ C06.accepted s := by
  simp only [hasLfNul, List.any_eq_true, Bool.or_eq_true, beq_iff_eq, C06.accepted]
  constructor
  · rintro ⟨b, hb, rfl | rfl⟩ h
    · exact h.1 hb
    · exact h.2 hb
  · intro h
    by_cases h1 : LF ∈ s
    · exact ⟨LF, h1, .inl rfl⟩
    · by_cases h2 : (0 : UInt8) ∈ s
      · exact ⟨0, h2, .inr rfl⟩
      · exact absurd ⟨h1, h2⟩ h

/-- `docPanic` (evaluated by the driver) is exactly the right-hand side of `C15_panic_iff` -/
theorem C15_panic_iff_docPanic (c : PCmd) (hwf : ∀ f ∈ c.filters, Filter.wf f = true) :
    command c = .panic ↔ docPanic c = true := by
  rw [C15_panic_iff c hwf]
  simp only [docPanic, Bool.or_eq_true, List.any_eq_true, hasLfNul_iff, or_assoc]

/-! ## non-vacuity -/

/-- `Find` with a filter value containing a blank, `sort` and an inclusive `window` -/
def exFind : PCmd :=
  .find (Filter.tag (.named .Artist) (str "foo bar")) (some (.named .Album)) (some (.included 2, .included 5))

example : safe exFind = true := by decide +kernel
example : command exFind = .ok (str "find \"(Artist == \\\"foo bar\\\")\" sort Album window 2:6") := by
  decide +kernel

/-- `Move` of a range to a position after the current song -/
def exMove : PCmd := .move (.range (.included 3) (.excluded 5)) (.afterCurrent 2)

example : safe exMove = true := by decide +kernel
example : command exMove = .ok (str "move 3:5 +2") := by decide +kernel

/-- `SeekTo` with 62.5 ms (a tie of the decimal rounding; binary64 holds 0.0625 exactly) -/
def exSeek : PCmd := .seekTo (.id 2) ⟨0, 62500000⟩

example : safe exSeek = true := by decide +kernel
example : command exSeek = .ok (str "seekid 2 0.062") := by decide +kernel

/-- strings with blanks, empty and non-ASCII; a sticker comparison -/
def exSticker : PCmd := .stickerFind (str "a b/c d.mp3") [] (some (.lessThan, [0xc3, 0xa9, 0x20]))

example : safe exSticker = true := by decide +kernel
example : command exSticker = .ok (str "sticker find song \"a b/c d.mp3\" \"\" < " ++ [34, 0xc3, 0xa9, 0x20, 34]) := by
  decide +kernel

/-- the hypotheses of `C15_panic_iff` and both sides of it -/
example : command (.add (str "a\nb") none) = .panic ∧ docPanic (.add (str "a\nb") none) = true ∧
    command (.move (.range (.included 1) .unbounded) (.absolute 0)) = .panic ∧
    command (.tagTypesEnable []) = .panic := by decide +kernel

/-- outside `safe`: a K1 string is sent backslash-escaped but unquoted (known finding of C06) -/
example : safe (.deletePlaylist (str "Joe's")) = false ∧
    command (.deletePlaylist (str "Joe's")) = .ok (str "rm Joe\\'s") := by decide +kernel

end Mpd.C15
