import Mpd.Typed.Song
import MpdSpec.Listing
import MpdProofs.Lemmas.Song
/-!
# C14 — song listings decode to the songs the server listed

Model: `Mpd/Typed/Song.lean` (branch-by-branch mirror of `responses/song.rs`); specification:
`MpdSpec/Listing.lean` (abstract listing = list of entries, each owning its lines; `Spec.songOf`
computes a song from its entry's own lines, independently of the decoder's fold).

Property theorems (all for arbitrary listings: any number of entries, any lines in any order and
multiplicity, directory / playlist entries anywhere; `ts` = the build's `Last-Modified` acceptance):

* `C14_queue`, `C14_songs`, `C14_commands` — well-formed listing ⇒ both `from_frame_multi` variants
  (and `Queue`, `QueueRange`, `Find`, `GetPlaylist`, `ListAllIn`) return exactly `Spec.songsOfQ` /
  `Spec.songsOf` of the listing; `C14_songs_eq_queue` — on EVERY frame the plain decoder returns the
  queue decoder's songs without their queue attributes;
* `C14_current`, `C14_current_none`, `C14_current_one` — `from_frame_single` (`CurrentSong`): no entry
  ⇒ none, one song ⇒ that song, in general only what is in progress at the END of the listing;
* `C14_bad_value`, `C14_stray_line` — an out-of-domain attribute value / a non-date line while no
  song is in progress is a typed-response error, never a wrong value;
* `C14_tags_canonical`, `C14_tags_canonical_songs`, `C14_tag_view_injective` — the name view of the
  tag map, through which songs are compared with the specification, loses nothing on decoder output;
* `C14_spec_append`, `C14_spec_entries`, `C14_spec_tags_sorted` — the specification has the shape the
  property text asks for (per entry, order preserving, nothing travels between entries).

Proof: the three decoders are `run` (thread the builder through the fields, collect completed songs)
followed by `finish`; `run` is compositional under `++`; induction over the entries with the builder
state generalised to the invariant `St` (default builder, or the lines of a well-formed song entry
read so far, `builderAbs b = Spec.songOf u ls`), the line step being `field_line`.
-/
namespace Mpd.C14
open Mpd Mpd.Typed Mpd.SongLemmas

/-! ## what an observer sees of the model's records (tags by protocol name) -/

def rangeAbs (r : SongRange) : Spec.Dur × Option Spec.Dur := (r.start, r.stop)

def songAbs (s : Song) : Spec.AbsSong :=
  { url := s.url, duration := s.duration, format := s.format, lastModified := s.lastModified,
    tags := absTags s.tags }

def qsongAbs (q : SongInQueue) : Spec.AbsQSong :=
  { pos := q.position, id := q.id, prio := q.priority, range := q.range.map rangeAbs,
    song := songAbs q.song }

/-- the song a builder would be converted into -/
def builderAbs (b : Builder) : Spec.AbsQSong :=
  { pos := b.position, id := b.id, prio := b.priority, range := b.range.map rangeAbs,
    song := { url := b.url, duration := b.duration, format := b.format,
              lastModified := b.lastModified, tags := absTags b.tags } }

/-- the record `into_song` builds -/
def builtSong (b : Builder) : SongInQueue :=
  { position := b.position, id := b.id, range := b.range, priority := b.priority,
    song := { url := b.url, duration := b.duration, tags := b.tags, format := b.format,
              lastModified := b.lastModified } }

theorem intoSong_ok (b : Builder) (h : b.url ≠ []) : b.intoSong = .ok (builtSong b) := by
  have he : b.url.isEmpty = false := by simpa using h
  simp only [Builder.intoSong, he, Bool.false_eq_true, if_false, builtSong]

theorem builtSong_abs (b : Builder) : qsongAbs (builtSong b) = builderAbs b := rfl

theorem durText_snoc (pre : List (Bytes × Bytes)) (k v : Bytes) :
    Spec.durText (pre ++ [(k, v)]) =
      if k = str "duration" then some v
      else if k = str "Time" then (Spec.durText pre).or (some v)
      else Spec.durText pre := by
  simp only [Spec.durText, lastOf_snoc, firstOf_snoc]
  by_cases h : k = str "duration"
  · simp [h]
  · simp only [h, if_false]
    by_cases h2 : k = str "Time"
    · cases Spec.lastOf (str "duration") pre <;> cases Spec.firstOf (str "Time") pre <;> simp [h2]
    · cases Spec.lastOf (str "duration") pre <;> cases Spec.firstOf (str "Time") pre <;> simp [h2]

/-- on well-formed lines the text the duration is read from has a numeric reading -/
theorem durText_wf (ts : Bytes → Bool) (pre : List (Bytes × Bytes)) (x : Bytes)
    (hpre : pre.all (Spec.wfLine ts) = true) (h : Spec.durText pre = some x) :
    (Spec.seconds x).isSome = true := by
  simp only [Spec.durText] at h
  rw [List.all_eq_true] at hpre
  cases hl : Spec.lastOf (str "duration") pre with
  | some y =>
    simp only [hl, Option.some.injEq] at h; subst h
    have := hpre _ (lastOf_mem _ _ _ hl)
    simp only [Spec.wfLine, true_or, if_true, Bool.and_eq_true] at this
    exact this.2
  | none =>
    simp only [hl] at h
    have := hpre _ (firstOf_mem _ _ _ h)
    simp only [Spec.wfLine, or_true, if_true, Bool.and_eq_true] at this
    exact this.2

set_option linter.unusedSimpArgs false in
/-- one more well-formed line of the song in progress: accepted, no song completed, and the builder
now stands for the entry with that line added -/
theorem field_line (ts : Bytes → Bool) (b : Builder) (u : Bytes) (pre : List (Bytes × Bytes)) (k v : Bytes)
    (hu : u ≠ []) (habs : builderAbs b = Spec.songOf u pre)
    (hpre : pre.all (Spec.wfLine ts) = true) (hl : Spec.wfLine ts (k, v) = true) :
    ∃ b', b.field ts k v = .ok (b', none) ∧ builderAbs b' = Spec.songOf u (pre ++ [(k, v)]) := by
  simp only [builderAbs, Spec.songOf, Spec.AbsQSong.mk.injEq, Spec.AbsSong.mk.injEq] at habs
  obtain ⟨hpos, hid, hprio, hrange, hurl, hdur, hfmt, hlm, htags⟩ := habs
  have hne : b.url.isEmpty = false := by rw [hurl]; simpa using hu
  simp only [Spec.wfLine, Bool.and_eq_true] at hl
  obtain ⟨⟨hkey, hnotentry⟩, hval⟩ := hl
  have hstart : isStartField k = false := by
    simpa [isStartField, Spec.entryKeys, kFile, kDirectory, kPlaylist, and_assoc] using hnotentry
  simp only [Builder.field, hne, Builder.handleSongField, hstart, Bool.false_eq_true, if_false,
    kDuration, kTime, kRange, kFormat, kLastModified, kPrio, kPos, kId]
  by_cases h1 : k = str "duration"
  · subst h1
    have hv : ∃ d, parseDuration v = some d := by
      simpa [seconds_eq, Option.isSome_iff_exists] using hval
    obtain ⟨d, hd⟩ := hv
    refine ⟨{ b with duration := some d }, by simp only [if_true, hd], ?_⟩
    simp +decide [builderAbs, Spec.songOf, lastOf_snoc, durText_snoc, tagsOf_snoc_attr, seconds_eq, rangeAbs, *]
  by_cases h2 : k = str "Time"
  · subst h2
    have hv : ∃ d, parseDuration v = some d := by
      simpa [seconds_eq, Option.isSome_iff_exists] using hval
    obtain ⟨d, hd⟩ := hv
    cases hx : Spec.durText pre with
    | none =>
      have hdn : b.duration = none := by rw [hdur, hx]; rfl
      refine ⟨{ b with duration := some d }, by simp +decide [hdn, hd], ?_⟩
      simp +decide [builderAbs, Spec.songOf, lastOf_snoc, durText_snoc, tagsOf_snoc_attr, seconds_eq, rangeAbs, *]
    | some x =>
      have hs := durText_wf ts pre x hpre hx
      rw [Option.isSome_iff_exists] at hs
      obtain ⟨d0, hd0⟩ := hs
      have hdn : b.duration = some d0 := by rw [hdur, hx]; exact hd0
      refine ⟨b, by simp +decide [hdn], ?_⟩
      simp +decide [builderAbs, Spec.songOf, lastOf_snoc, durText_snoc, tagsOf_snoc_attr, seconds_eq, rangeAbs, *]
  by_cases h3 : k = str "Range"
  · subst h3
    have hv : ∃ r, parseRange v = some r := by
      have : (Spec.rangeOf v).isSome = true := by simpa +decide using hval
      rw [rangeOf_eq] at this
      simpa [Option.isSome_iff_exists] using this
    obtain ⟨r, hr⟩ := hv
    refine ⟨{ b with range := some r }, by simp +decide [hr], ?_⟩
    simp +decide [builderAbs, Spec.songOf, lastOf_snoc, durText_snoc, tagsOf_snoc_attr, seconds_eq, rangeAbs, rangeOf_eq, hr, *]
  by_cases h4 : k = str "Format"
  · subst h4
    refine ⟨{ b with format := some v }, by simp +decide, ?_⟩
    simp +decide [builderAbs, Spec.songOf, lastOf_snoc, durText_snoc, tagsOf_snoc_attr, seconds_eq, rangeAbs, *]
  by_cases h5 : k = str "Last-Modified"
  · subst h5
    have hv : ts v = true := by simpa +decide using hval
    refine ⟨{ b with lastModified := some v }, by simp +decide [hv], ?_⟩
    simp +decide [builderAbs, Spec.songOf, lastOf_snoc, durText_snoc, tagsOf_snoc_attr, seconds_eq, rangeAbs, *]
  by_cases h6 : k = str "Prio"
  · subst h6
    have hv : ∃ n, Spec.decimalL v = some n ∧ n ≤ 255 := by
      have : (Spec.decimalL v).any (· ≤ 255) = true := by simpa +decide using hval
      cases hd : Spec.decimalL v with
      | none => simp [hd] at this
      | some n => exact ⟨n, rfl, by simpa [hd] using this⟩
    obtain ⟨n, hn, hle⟩ := hv
    have hp : parseU8 v = some n := parseUnsigned_decimal _ v n hn hle
    refine ⟨{ b with priority := n }, by simp +decide [hp], ?_⟩
    simp +decide [builderAbs, Spec.songOf, lastOf_snoc, durText_snoc, tagsOf_snoc_attr, seconds_eq, rangeAbs, hn, *]
  by_cases h7 : k = str "Pos"
  · subst h7
    have hv : ∃ n, Spec.decimalL v = some n ∧ n ≤ U64MAX := by
      have : (Spec.decimalL v).any (· ≤ U64MAX) = true := by simpa +decide using hval
      cases hd : Spec.decimalL v with
      | none => simp [hd] at this
      | some n => exact ⟨n, rfl, by simpa [hd] using this⟩
    obtain ⟨n, hn, hle⟩ := hv
    have hp : parseUsize v = some n := parseUnsigned_decimal _ v n hn hle
    refine ⟨{ b with position := n }, by simp +decide [hp], ?_⟩
    simp +decide [builderAbs, Spec.songOf, lastOf_snoc, durText_snoc, tagsOf_snoc_attr, seconds_eq, rangeAbs, hn, *]
  by_cases h8 : k = str "Id"
  · subst h8
    have hv : ∃ n, Spec.decimalL v = some n ∧ n ≤ U64MAX := by
      have : (Spec.decimalL v).any (· ≤ U64MAX) = true := by simpa +decide using hval
      cases hd : Spec.decimalL v with
      | none => simp [hd] at this
      | some n => exact ⟨n, rfl, by simpa [hd] using this⟩
    obtain ⟨n, hn, hle⟩ := hv
    have hp : parseU64 v = some n := parseUnsigned_decimal _ v n hn hle
    refine ⟨{ b with id := n }, by simp +decide [hp], ?_⟩
    simp +decide [builderAbs, Spec.songOf, lastOf_snoc, durText_snoc, tagsOf_snoc_attr, seconds_eq, rangeAbs, hn, *]
  -- any other line is a tag line
  obtain ⟨t, ht⟩ := tryFrom_ok_of_wfKey k hkey
  have hattr : Spec.isAttrKey k = false := by
    simp [Spec.isAttrKey, Spec.attrKeys, h1, h2, h3, h4, h5, h6, h7, h8]
  refine ⟨{ b with tags := b.tags.push t v }, by simp [h1, h2, h3, h4, h5, h6, h7, h8, ht], ?_⟩
  simp [builderAbs, Spec.songOf, lastOf_snoc, durText_snoc, tagsOf_snoc_tag _ _ _ hattr, absTags_push,
    name_of_tryFrom k t ht, h1, h2, h3, h4, h5, h6, h7, h8, *]

/-! ## the loop as "run, then finish"

`run` threads the builder through a field list and collects the songs `field` completes. All three
decoders are `run` followed by `finish`; `run` is compositional under concatenation, which lets the
induction go entry by entry. -/

def run (ts : Bytes → Bool) : Builder → List (Bytes × Bytes) → Outcome (Builder × List SongInQueue)
  | b, [] => .ok (b, [])
  | b, (k, v) :: rest =>
    match b.field ts k v with
    | .ok (b', o) =>
      match run ts b' rest with
      | .ok (bf, songs) => .ok (bf, o.toList ++ songs)
      | .terr => .terr
      | .panic => .panic
    | .terr => .terr
    | .panic => .panic

theorem multiLoop_eq_run {α : Type} (ts : Bytes → Bool) (proj : SongInQueue → α) (b : Builder)
    (out : List α) (fs : List (Bytes × Bytes)) :
    multiLoop ts proj b out fs =
      match run ts b fs with
      | .ok (bf, songs) =>
        (match bf.finish with
         | .ok o => .ok (out ++ (songs ++ o.toList).map proj)
         | .terr => .terr
         | .panic => .panic)
      | .terr => .terr
      | .panic => .panic := by
  induction fs generalizing b out with
  | nil =>
    simp only [multiLoop, run]
    cases b.finish with
    | ok o => cases o <;> simp
    | terr => rfl
    | panic => rfl
  | cons kv rest ih =>
    obtain ⟨k, v⟩ := kv
    simp only [multiLoop, run]
    cases hf : b.field ts k v with
    | terr => rfl
    | panic => rfl
    | ok r =>
      obtain ⟨b', o⟩ := r
      cases o with
      | none =>
        simp only [ih]
        cases run ts b' rest with
        | terr => rfl
        | panic => rfl
        | ok r2 => simp
      | some s =>
        simp only [ih]
        cases run ts b' rest with
        | terr => rfl
        | panic => rfl
        | ok r2 =>
          obtain ⟨bf, songs⟩ := r2
          simp only [Option.toList_some, List.cons_append, List.nil_append, List.map_cons, List.map_append]
          cases bf.finish <;> simp

theorem singleLoop_eq_run (ts : Bytes → Bool) (b : Builder) (fs : List (Bytes × Bytes)) :
    singleLoop ts b fs =
      match run ts b fs with
      | .ok (bf, _) => bf.finish
      | .terr => .terr
      | .panic => .panic := by
  induction fs generalizing b with
  | nil => simp [singleLoop, run]
  | cons kv rest ih =>
    obtain ⟨k, v⟩ := kv
    simp only [singleLoop, run]
    cases hf : b.field ts k v with
    | terr => rfl
    | panic => rfl
    | ok r =>
      obtain ⟨b', o⟩ := r
      simp only [ih]
      cases run ts b' rest with
      | terr => rfl
      | panic => rfl
      | ok r2 => rfl

theorem run_append (ts : Bytes → Bool) (b : Builder) (fs1 fs2 : List (Bytes × Bytes)) :
    run ts b (fs1 ++ fs2) =
      match run ts b fs1 with
      | .ok (b1, s1) =>
        (match run ts b1 fs2 with
         | .ok (b2, s2) => .ok (b2, s1 ++ s2)
         | .terr => .terr
         | .panic => .panic)
      | .terr => .terr
      | .panic => .panic := by
  induction fs1 generalizing b with
  | nil =>
    simp only [List.nil_append, run]
    cases run ts b fs2 with
    | ok r => simp
    | terr => rfl
    | panic => rfl
  | cons kv rest ih =>
    obtain ⟨k, v⟩ := kv
    simp only [List.cons_append, run]
    cases hf : b.field ts k v with
    | terr => rfl
    | panic => rfl
    | ok r =>
      obtain ⟨b', o⟩ := r
      simp only [ih]
      cases run ts b' rest with
      | terr => rfl
      | panic => rfl
      | ok r1 =>
        obtain ⟨b1, s1⟩ := r1
        simp only
        cases run ts b1 fs2 with
        | terr => rfl
        | panic => rfl
        | ok r2 => simp

/-- the lines of a well-formed song entry are absorbed by the builder without completing a song -/
theorem run_lines (ts : Bytes → Bool) (u : Bytes) (hu : u ≠ []) (ls : List (Bytes × Bytes)) :
    ∀ (b : Builder) (pre : List (Bytes × Bytes)), builderAbs b = Spec.songOf u pre →
      pre.all (Spec.wfLine ts) = true → ls.all (Spec.wfLine ts) = true →
      ∃ b', run ts b ls = .ok (b', []) ∧ builderAbs b' = Spec.songOf u (pre ++ ls) := by
  induction ls with
  | nil => intro b pre habs _ _; exact ⟨b, rfl, by simpa using habs⟩
  | cons kv rest ih =>
    intro b pre habs hpre hls
    obtain ⟨k, v⟩ := kv
    simp only [List.all_cons, Bool.and_eq_true] at hls
    obtain ⟨b1, hf, habs1⟩ := field_line ts b u pre k v hu habs hpre hls.1
    have hpre1 : (pre ++ [(k, v)]).all (Spec.wfLine ts) = true := by
      simp [List.all_append, hpre, hls.1]
    obtain ⟨b2, hr, habs2⟩ := ih b1 (pre ++ [(k, v)]) habs1 hpre1 hls.2
    refine ⟨b2, ?_, by simpa using habs2⟩
    simp [run, hf, hr]

/-! ## the invariant between two entries -/

/-- nothing in progress (then the builder is the default one), or the lines read so far are those of
a well-formed song entry -/
def St (ts : Bytes → Bool) (b : Builder) : Prop :=
  b = {} ∨ ∃ u ls, u ≠ [] ∧ ls.all (Spec.wfLine ts) = true ∧ builderAbs b = Spec.songOf u ls

/-- the song in progress, if any -/
def pending (b : Builder) : List Spec.AbsQSong := if b.url = [] then [] else [builderAbs b]

theorem url_of_abs {b : Builder} {u : Bytes} {ls : List (Bytes × Bytes)}
    (h : builderAbs b = Spec.songOf u ls) : b.url = u := by
  simp only [builderAbs, Spec.songOf, Spec.AbsQSong.mk.injEq, Spec.AbsSong.mk.injEq] at h
  exact h.2.2.2.2.1

theorem abs_start (u : Bytes) : builderAbs { url := u } = Spec.songOf u [] := by
  simp [builderAbs, Spec.songOf, Spec.lastOf, Spec.durText, Spec.firstOf, Spec.tagsOf, Spec.tagLines,
    Spec.tagsOfLines, Spec.sortNames, absTags]

/-- an entry line (`file` / `directory` / `playlist`) completes the song in progress, if any, and is
then handled by a fresh builder -/
theorem field_entry_line (ts : Bytes → Bool) (b : Builder) (hb : St ts b) (k p : Bytes)
    (hk : k = str "file" ∨ k = str "directory" ∨ k = str "playlist") :
    ∃ o, b.field ts k p = .ok ((if k = str "file" then { url := p } else {}), o) ∧
      o.toList.map qsongAbs = pending b := by
  have hstart : isStartField k = true := by
    rcases hk with rfl | rfl | rfl <;> decide
  have hhs : ({} : Builder).handleStartField k p = .ok (if k = str "file" then { url := p } else {}) := by
    rcases hk with rfl | rfl | rfl <;> simp +decide [Builder.handleStartField]
  rcases hb with rfl | ⟨u, ls, hu, _, habs⟩
  · refine ⟨none, ?_, by simp [pending]⟩
    simp only [Builder.field, List.isEmpty_nil, if_true, hhs]
  · have hurl := url_of_abs habs
    have hne : b.url ≠ [] := by rw [hurl]; exact hu
    have he : b.url.isEmpty = false := by simpa using hne
    refine ⟨some (builtSong b), ?_, by simp [pending, hne, builtSong_abs]⟩
    simp only [Builder.field, he, Bool.false_eq_true, if_false, Builder.handleSongField, hstart, if_true,
      intoSong_ok b hne, hhs]

/-- the modification dates of a directory / playlist entry are skipped -/
theorem run_skip (ts : Bytes → Bool) (ls : List (Bytes × Bytes))
    (h : ls.all (·.1 == str "Last-Modified") = true) : run ts {} ls = .ok ({}, []) := by
  induction ls with
  | nil => rfl
  | cons kv rest ih =>
    obtain ⟨k, v⟩ := kv
    simp only [List.all_cons, Bool.and_eq_true, beq_iff_eq] at h
    obtain ⟨rfl, hr⟩ := h
    simp +decide [run, Builder.field, Builder.handleStartField, ih hr]

/-- one well-formed entry: the song in progress (if any) is completed, and afterwards exactly the
entry's own song (if it is a song entry) is in progress -/
theorem run_entry (ts : Bytes → Bool) (b : Builder) (hb : St ts b) (e : Spec.Entry)
    (he : Spec.wfEntry ts e = true) :
    ∃ b' songs, run ts b (Spec.encEntry e) = .ok (b', songs) ∧ St ts b' ∧
      songs.map qsongAbs = pending b ∧ pending b' = Spec.songsOfQ [e] := by
  cases e with
  | song u ls =>
    simp only [Spec.wfEntry, Bool.and_eq_true, Bool.not_eq_true', List.isEmpty_eq_false_iff] at he
    obtain ⟨o, hf, ho⟩ := field_entry_line ts b hb (str "file") u (Or.inl rfl)
    simp only [if_true] at hf
    obtain ⟨b', hr, habs⟩ := run_lines ts u he.1 ls { url := u } [] (abs_start u) rfl he.2
    simp only [List.nil_append] at habs
    refine ⟨b', o.toList, ?_, Or.inr ⟨u, ls, he.1, he.2, habs⟩, ho, ?_⟩
    · simp [Spec.encEntry, run, hf, hr]
    · simp [pending, url_of_abs habs, he.1, habs, Spec.songsOfQ]
  | directory p ls =>
    simp only [Spec.wfEntry] at he
    obtain ⟨o, hf, ho⟩ := field_entry_line ts b hb (str "directory") p (Or.inr (Or.inl rfl))
    have : (str "directory" = str "file") = False := by decide
    simp only [this, if_false] at hf
    refine ⟨{}, o.toList, ?_, Or.inl rfl, ho, by simp [pending, Spec.songsOfQ]⟩
    simp [Spec.encEntry, run, hf, run_skip ts ls he]
  | playlist p ls =>
    simp only [Spec.wfEntry] at he
    obtain ⟨o, hf, ho⟩ := field_entry_line ts b hb (str "playlist") p (Or.inr (Or.inr rfl))
    have : (str "playlist" = str "file") = False := by decide
    simp only [this, if_false] at hf
    refine ⟨{}, o.toList, ?_, Or.inl rfl, ho, by simp [pending, Spec.songsOfQ]⟩
    simp [Spec.encEntry, run, hf, run_skip ts ls he]

theorem songsOfQ_cons (e : Spec.Entry) (l : Spec.Listing) :
    Spec.songsOfQ (e :: l) = Spec.songsOfQ [e] ++ Spec.songsOfQ l := by
  cases e <;> simp [Spec.songsOfQ]

theorem currentOf_cons (e : Spec.Entry) (l : Spec.Listing) :
    Spec.currentOf (e :: l) = if l = [] then (Spec.songsOfQ [e]).head? else Spec.currentOf l := by
  cases l with
  | nil => cases e <;> simp [Spec.currentOf, Spec.songsOfQ]
  | cons e' l' => simp [Spec.currentOf]

/-- a whole well-formed listing, from any state of the invariant -/
theorem run_listing (ts : Bytes → Bool) (l : Spec.Listing) (hl : Spec.WFlisting ts l = true) :
    ∀ b, St ts b → ∃ b' songs, run ts b (Spec.encListing l) = .ok (b', songs) ∧ St ts b' ∧
      songs.map qsongAbs ++ pending b' = pending b ++ Spec.songsOfQ l ∧
      (pending b').head? = if l = [] then (pending b).head? else Spec.currentOf l := by
  induction l with
  | nil => intro b hb; exact ⟨b, [], rfl, hb, by simp [Spec.songsOfQ], by simp⟩
  | cons e rest ih =>
    intro b hb
    simp only [Spec.WFlisting, List.all_cons, Bool.and_eq_true] at hl
    obtain ⟨b1, s1, hr1, hb1, hs1, hp1⟩ := run_entry ts b hb e hl.1
    obtain ⟨b2, s2, hr2, hb2, hs2, hc2⟩ := ih hl.2 b1 hb1
    refine ⟨b2, s1 ++ s2, ?_, hb2, ?_, ?_⟩
    · simp only [Spec.encListing, List.flatMap_cons]
      rw [run_append, hr1]
      simp only [Spec.encListing] at hr2
      simp [hr2]
    · rw [List.map_append, List.append_assoc, hs2, hs1, hp1, songsOfQ_cons e rest]
    · rw [hc2, hp1, currentOf_cons]
      simp

theorem finish_of_St (ts : Bytes → Bool) (b : Builder) (hb : St ts b) :
    ∃ o, b.finish = .ok o ∧ o.toList.map qsongAbs = pending b := by
  rcases hb with rfl | ⟨u, ls, hu, _, habs⟩
  · exact ⟨none, by simp [Builder.finish], by simp [pending]⟩
  · have hne : b.url ≠ [] := by rw [url_of_abs habs]; exact hu
    have he : b.url.isEmpty = false := by simpa using hne
    refine ⟨some (builtSong b), ?_, by simp [pending, hne, builtSong_abs]⟩
    simp [Builder.finish, he, intoSong_ok b hne]

theorem St_default (ts : Bytes → Bool) : St ts {} := Or.inl rfl

theorem pending_default : pending {} = [] := by simp [pending]

/-! ## C14: the property theorems -/

/-- **C14, songs in queue** (`playlistinfo` / `playlistid`: `Queue`, `QueueRange`). For every
well-formed listing the decoder succeeds and returns, in server order, exactly the songs the listing
denotes: one per `file` entry, each with the URL, duration (last `duration`, else first `Time`),
position / id / priority / range, format, last-modified text and tag values (per tag, in line order)
of its own lines. Directory and playlist entries contribute nothing, and their modification dates
reach no song. The binary part of the frame is irrelevant. -/
theorem C14_queue (ts : Bytes → Bool) (l : Spec.Listing) (bin : Option Bytes)
    (h : Spec.WFlisting ts l = true) :
    ∃ songs, SongInQueue.fromFrameMulti ts ⟨Spec.encListing l, bin⟩ = .ok songs ∧
      songs.map qsongAbs = Spec.songsOfQ l := by
  obtain ⟨b', songs, hr, hb', hs, _⟩ := run_listing ts l h {} (St_default ts)
  obtain ⟨o, hf, ho⟩ := finish_of_St ts b' hb'
  refine ⟨songs ++ o.toList, ?_, ?_⟩
  · simp [SongInQueue.fromFrameMulti, multiLoop_eq_run, hr, hf]
  · rw [List.map_append, ho, hs, pending_default, List.nil_append]

/-- **C14, plain songs** (`find`, `listplaylistinfo`, `listallinfo`: `Find`, `GetPlaylist`,
`ListAllIn`): the same songs without their queue attributes. -/
theorem C14_songs (ts : Bytes → Bool) (l : Spec.Listing) (bin : Option Bytes)
    (h : Spec.WFlisting ts l = true) :
    ∃ songs, Song.fromFrameMulti ts ⟨Spec.encListing l, bin⟩ = .ok songs ∧
      songs.map songAbs = Spec.songsOf l := by
  obtain ⟨b', songs, hr, hb', hs, _⟩ := run_listing ts l h {} (St_default ts)
  obtain ⟨o, hf, ho⟩ := finish_of_St ts b' hb'
  refine ⟨(songs ++ o.toList).map (·.song), ?_, ?_⟩
  · simp [Song.fromFrameMulti, multiLoop_eq_run, hr, hf]
  · have : (songs ++ o.toList).map qsongAbs = Spec.songsOfQ l := by
      rw [List.map_append, ho, hs, pending_default, List.nil_append]
    rw [Spec.songsOf, ← this]
    simp [List.map_map, Function.comp_def, qsongAbs]

/-- both multi-song decoders return the same songs (the plain one drops the queue attributes) -/
theorem C14_songs_eq_queue (ts : Bytes → Bool) (f : AFrame) :
    Song.fromFrameMulti ts f = (SongInQueue.fromFrameMulti ts f).map (List.map (·.song)) := by
  simp only [Song.fromFrameMulti, SongInQueue.fromFrameMulti, multiLoop_eq_run]
  cases run ts {} f.fields with
  | terr => rfl
  | panic => rfl
  | ok r =>
    obtain ⟨bf, songs⟩ := r
    simp only
    cases bf.finish <;> simp [Outcome.map, Outcome.bind]

/-- **C14, single song** (`currentsong`: `CurrentSong`). No entry ⇒ `None`; one song entry ⇒ that
song; in general the decoder keeps what is in progress at the end of the listing, i.e. the LAST entry
if it is a song and nothing otherwise (earlier songs are dropped silently). -/
theorem C14_current (ts : Bytes → Bool) (l : Spec.Listing) (bin : Option Bytes)
    (h : Spec.WFlisting ts l = true) :
    ∃ o, SongInQueue.fromFrameSingle ts ⟨Spec.encListing l, bin⟩ = .ok o ∧
      o.map qsongAbs = Spec.currentOf l := by
  obtain ⟨b', songs, hr, hb', _, hc⟩ := run_listing ts l h {} (St_default ts)
  obtain ⟨o, hf, ho⟩ := finish_of_St ts b' hb'
  refine ⟨o, ?_, ?_⟩
  · simp [SongInQueue.fromFrameSingle, singleLoop_eq_run, hr, hf]
  · have h1 : o.map qsongAbs = (pending b').head? := by
      rw [← ho]; cases o <;> simp
    rw [h1, hc]
    cases l with
    | nil => simp [pending_default, Spec.currentOf]
    | cons e rest => simp

theorem C14_current_none (ts : Bytes → Bool) (bin : Option Bytes) :
    SongInQueue.fromFrameSingle ts ⟨Spec.encListing [], bin⟩ = .ok none := by
  simp [SongInQueue.fromFrameSingle, Spec.encListing, singleLoop, Builder.finish]

theorem C14_current_one (ts : Bytes → Bool) (u : Bytes) (ls : List (Bytes × Bytes)) (bin : Option Bytes)
    (h : Spec.WFlisting ts [.song u ls] = true) :
    ∃ s, SongInQueue.fromFrameSingle ts ⟨Spec.encListing [.song u ls], bin⟩ = .ok (some s) ∧
      qsongAbs s = Spec.songOf u ls := by
  obtain ⟨o, ho, habs⟩ := C14_current ts _ bin h
  cases o with
  | none => simp [Spec.currentOf] at habs
  | some s => exact ⟨s, ho, by simpa [Spec.currentOf] using habs⟩

/-- the property for every song-returning predefined command -/
theorem C14_commands (ts : Bytes → Bool) (l : Spec.Listing) (bin : Option Bytes)
    (h : Spec.WFlisting ts l = true) :
    (∀ c ∈ [SongCmd.queue, .queuerange], ∃ songs,
        response ts c ⟨Spec.encListing l, bin⟩ = .ok (.queue songs) ∧
        songs.map qsongAbs = Spec.songsOfQ l) ∧
    (∀ c ∈ [SongCmd.find, .getplaylist, .listallinfo], ∃ songs,
        response ts c ⟨Spec.encListing l, bin⟩ = .ok (.songs songs) ∧
        songs.map songAbs = Spec.songsOf l) ∧
    (∃ o, response ts .currentsong ⟨Spec.encListing l, bin⟩ = .ok (.current o) ∧
        o.map qsongAbs = Spec.currentOf l) := by
  obtain ⟨q, hq, hqa⟩ := C14_queue ts l bin h
  obtain ⟨s, hs, hsa⟩ := C14_songs ts l bin h
  obtain ⟨o, ho, hoa⟩ := C14_current ts l bin h
  refine ⟨?_, ?_, ⟨o, by simp [response, ho, Outcome.map, Outcome.bind], hoa⟩⟩
  · intro c hc
    simp only [List.mem_cons, List.not_mem_nil, or_false] at hc
    rcases hc with rfl | rfl <;> exact ⟨q, by simp [response, hq, Outcome.map, Outcome.bind], hqa⟩
  · intro c hc
    simp only [List.mem_cons, List.not_mem_nil, or_false] at hc
    rcases hc with rfl | rfl | rfl <;> exact ⟨s, by simp [response, hs, Outcome.map, Outcome.bind], hsa⟩

/-! ## out-of-domain values and stray lines are errors, never wrong values -/

/-- the attribute line `(k, v)`, arriving after the lines `pre` of the same song entry, is outside
the domain of its attribute. (A legacy `Time` line is only consulted while no duration is known:
after a `duration` or `Time` line of the same song its value is not looked at.) -/
def badLine (ts : Bytes → Bool) (pre : List (Bytes × Bytes)) (k v : Bytes) : Prop :=
  (k = str "duration" ∧ parseDuration v = none) ∨
  (k = str "Time" ∧ parseDuration v = none ∧ ∀ e ∈ pre, e.1 ≠ str "duration" ∧ e.1 ≠ str "Time") ∨
  (k = str "Range" ∧ parseRange v = none) ∨
  (k = str "Prio" ∧ parseU8 v = none) ∨
  (k = str "Pos" ∧ parseUsize v = none) ∨
  (k = str "Id" ∧ parseU64 v = none) ∨
  (k = str "Last-Modified" ∧ ts v = false)

theorem durText_none (pre : List (Bytes × Bytes))
    (h : ∀ e ∈ pre, e.1 ≠ str "duration" ∧ e.1 ≠ str "Time") : Spec.durText pre = none := by
  simp [Spec.durText, lastOf_none _ _ (fun e he => (h e he).1), firstOf_none _ _ (fun e he => (h e he).2)]

theorem field_bad (ts : Bytes → Bool) (b : Builder) (u : Bytes) (pre : List (Bytes × Bytes)) (k v : Bytes)
    (hu : u ≠ []) (habs : builderAbs b = Spec.songOf u pre) (hbad : badLine ts pre k v) :
    b.field ts k v = .terr := by
  have hurl := url_of_abs habs
  have hne : b.url.isEmpty = false := by rw [hurl]; simpa using hu
  simp only [builderAbs, Spec.songOf, Spec.AbsQSong.mk.injEq, Spec.AbsSong.mk.injEq] at habs
  simp only [Builder.field, hne, Builder.handleSongField, Bool.false_eq_true, if_false,
    kDuration, kTime, kRange, kFormat, kLastModified, kPrio, kPos, kId]
  rcases hbad with ⟨rfl, hv⟩ | ⟨rfl, hv, hno⟩ | ⟨rfl, hv⟩ | ⟨rfl, hv⟩ | ⟨rfl, hv⟩ | ⟨rfl, hv⟩ | ⟨rfl, hv⟩
  · simp +decide [hv]
  · have : b.duration = none := by rw [habs.2.2.2.2.2.1, durText_none pre hno]; rfl
    simp +decide [hv, this]
  all_goals simp +decide [hv]

/-- the fields up to (not including) an out-of-domain line -/
theorem run_terr_after (ts : Bytes → Bool) (b b1 : Builder) (s1 : List SongInQueue)
    (fs1 rest : List (Bytes × Bytes)) (k v : Bytes)
    (h1 : run ts b fs1 = .ok (b1, s1)) (h2 : b1.field ts k v = .terr) :
    run ts b (fs1 ++ (k, v) :: rest) = .terr := by
  rw [run_append, h1]
  simp [run, h2]

theorem decoders_of_run_terr (ts : Bytes → Bool) (fs : List (Bytes × Bytes)) (bin : Option Bytes)
    (h : run ts {} fs = .terr) :
    SongInQueue.fromFrameMulti ts ⟨fs, bin⟩ = .terr ∧ Song.fromFrameMulti ts ⟨fs, bin⟩ = .terr ∧
    SongInQueue.fromFrameSingle ts ⟨fs, bin⟩ = .terr := by
  simp [SongInQueue.fromFrameMulti, Song.fromFrameMulti, SongInQueue.fromFrameSingle,
    multiLoop_eq_run, singleLoop_eq_run, h]

/-- **out-of-domain attribute value ⇒ typed-response error** (never a wrong value), wherever the
song entry stands in an otherwise arbitrary listing whose earlier part is well-formed -/
theorem C14_bad_value (ts : Bytes → Bool) (l1 l2 : Spec.Listing) (u : Bytes)
    (ls1 ls2 : List (Bytes × Bytes)) (k v : Bytes) (bin : Option Bytes)
    (h1 : Spec.WFlisting ts l1 = true) (hu : u ≠ []) (hls : ls1.all (Spec.wfLine ts) = true)
    (hbad : badLine ts ls1 k v) :
    let f : AFrame := ⟨Spec.encListing (l1 ++ [.song u (ls1 ++ (k, v) :: ls2)] ++ l2), bin⟩
    SongInQueue.fromFrameMulti ts f = .terr ∧ Song.fromFrameMulti ts f = .terr ∧
    SongInQueue.fromFrameSingle ts f = .terr := by
  intro f
  apply decoders_of_run_terr
  obtain ⟨b1, s1, hr1, hb1, _, _⟩ := run_listing ts l1 h1 {} (St_default ts)
  obtain ⟨o, hf, _⟩ := field_entry_line ts b1 hb1 (str "file") u (Or.inl rfl)
  simp only [if_true] at hf
  obtain ⟨b2, hr2, habs2⟩ := run_lines ts u hu ls1 { url := u } [] (abs_start u) rfl hls
  simp only [List.nil_append] at habs2
  have hfb := field_bad ts b2 u ls1 k v hu habs2 hbad
  have hpre : run ts {} (Spec.encListing l1 ++ (str "file", u) :: ls1) = .ok (b2, s1 ++ o.toList) := by
    rw [run_append, hr1]
    simp [run, hf, hr2]
  have : Spec.encListing (l1 ++ [.song u (ls1 ++ (k, v) :: ls2)] ++ l2) =
      (Spec.encListing l1 ++ (str "file", u) :: ls1) ++ (k, v) :: (ls2 ++ Spec.encListing l2) := by
    simp [Spec.encListing, Spec.encEntry]
  rw [this]
  exact run_terr_after ts {} b2 _ _ _ k v hpre hfb

theorem currentOf_snoc_nonsong (l0 : Spec.Listing) (e : Spec.Entry) (hne : ∀ u ls, e ≠ .song u ls) :
    Spec.currentOf (l0 ++ [e]) = none := by
  induction l0 with
  | nil => cases e <;> simp_all [Spec.currentOf]
  | cons e0 l0 ih =>
    cases l0 with
    | nil => simp only [List.nil_append] at ih; simp [Spec.currentOf, ih]
    | cons e1 l0 => simpa [Spec.currentOf] using ih

/-- a line that is neither an entry line nor a modification date, arriving while no song is in
progress (before the first entry, or among the lines of a directory / playlist entry), is a
typed-response error -/
theorem C14_stray_line (ts : Bytes → Bool) (l1 : Spec.Listing) (dates rest : List (Bytes × Bytes))
    (k v : Bytes) (bin : Option Bytes)
    (h1 : Spec.WFlisting ts l1 = true)
    (hlast : l1 = [] ∨ ∃ l0 e, l1 = l0 ++ [e] ∧ ∀ u ls, e ≠ .song u ls)
    (hdates : dates.all (·.1 == str "Last-Modified") = true)
    (hk : k ≠ str "file" ∧ k ≠ str "directory" ∧ k ≠ str "playlist" ∧ k ≠ str "Last-Modified") :
    let f : AFrame := ⟨Spec.encListing l1 ++ dates ++ (k, v) :: rest, bin⟩
    SongInQueue.fromFrameMulti ts f = .terr ∧ Song.fromFrameMulti ts f = .terr ∧
    SongInQueue.fromFrameSingle ts f = .terr := by
  intro f
  apply decoders_of_run_terr
  obtain ⟨b1, s1, hr1, hb1, _, hc⟩ := run_listing ts l1 h1 {} (St_default ts)
  -- after a listing that does not end in a song entry nothing is in progress
  have hb : b1 = {} := by
    rcases hb1 with rfl | ⟨u, ls, hu, _, habs⟩
    · rfl
    · exfalso
      have hurl := url_of_abs habs
      have hp : (pending b1).head? = some (builderAbs b1) := by simp [pending, hurl, hu]
      rw [hp] at hc
      rcases hlast with rfl | ⟨l0, e, rfl, hne⟩
      · simp [pending_default] at hc
      · have := currentOf_snoc_nonsong l0 e hne
        simp [this] at hc
  subst hb
  have hskip : run ts {} (Spec.encListing l1 ++ dates) = .ok ({}, s1 ++ []) := by
    rw [run_append, hr1]
    simp [run_skip ts dates hdates]
  have hfield : ({} : Builder).field ts k v = .terr := by
    simp [Builder.field, Builder.handleStartField, kFile, kDirectory, kPlaylist, kLastModified, hk.1,
      hk.2.1, hk.2.2.1, hk.2.2.2]
  exact run_terr_after ts {} {} _ _ _ k v hskip hfield

/-! ## the name view of the tag map loses nothing -/

/-- every key of the map is the tag `Tag::try_from` yields for its own protocol name (so the key is
determined by its name: `named v` for a known name, `other raw` otherwise) -/
def CanonTags (m : TagMap) : Prop := ∀ e ∈ m, Tag.tryFrom e.1.name = .ok e.1

theorem push_canon (m : TagMap) (t : Tag) (v : Bytes) (hm : CanonTags m)
    (ht : Tag.tryFrom t.name = .ok t) : CanonTags (m.push t v) := by
  induction m with
  | nil => intro e he; simp [TagMap.push] at he; subst he; exact ht
  | cons e0 rest ih =>
    obtain ⟨t', vs⟩ := e0
    have h0 : Tag.tryFrom t'.name = .ok t' := hm (t', vs) (by simp)
    have hrest : CanonTags rest := fun e he => hm e (by simp [he])
    simp only [TagMap.push]
    split
    · intro e he
      rcases List.mem_cons.mp he with rfl | he
      · exact h0
      · exact hrest e he
    · split
      · intro e he
        rcases List.mem_cons.mp he with rfl | he
        · exact ht
        · exact hm e he
      · intro e he
        rcases List.mem_cons.mp he with rfl | he
        · exact h0
        · exact ih hrest e he

theorem C14_tag_view_injective (m1 m2 : TagMap) (h1 : CanonTags m1) (h2 : CanonTags m2)
    (h : absTags m1 = absTags m2) : m1 = m2 := by
  induction m1 generalizing m2 with
  | nil => cases m2 <;> simp_all [absTags]
  | cons e1 r1 ih =>
    cases m2 with
    | nil => simp [absTags] at h
    | cons e2 r2 =>
      simp only [absTags, List.map_cons, List.cons.injEq, Prod.mk.injEq] at h
      obtain ⟨⟨hn, hv⟩, hr⟩ := h
      have a1 := h1 e1 (by simp)
      have a2 := h2 e2 (by simp)
      rw [hn, a2] at a1
      have : e1.1 = e2.1 := by simpa using a1.symm
      have he : e1 = e2 := Prod.ext this hv
      rw [he, ih r2 (fun e he => h1 e (by simp [he])) (fun e he => h2 e (by simp [he])) hr]

theorem handleStartField_tags (b b' : Builder) (k v : Bytes) (h : b.handleStartField k v = .ok b') :
    b'.tags = b.tags := by
  unfold Builder.handleStartField at h
  split at h
  · simp at h; subst h; rfl
  · split at h
    · simp at h; subst h; rfl
    · simp at h

theorem handleSongField_tags (ts : Bytes → Bool) (b b' : Builder) (k v : Bytes) (o : Option SongInQueue)
    (hs : isStartField k = false) (h : b.handleSongField ts k v = .ok (b', o)) :
    o = none ∧ (b'.tags = b.tags ∨ ∃ t, Tag.tryFrom k = .ok t ∧ b'.tags = b.tags.push t v) := by
  unfold Builder.handleSongField at h
  simp only [hs, Bool.false_eq_true, if_false] at h
  repeat' (split at h)
  all_goals first
    | (simp at h; done)
    | (simp only [Outcome.ok.injEq, Prod.mk.injEq] at h; obtain ⟨rfl, rfl⟩ := h; exact ⟨rfl, Or.inl rfl⟩)
    | (simp only [Outcome.ok.injEq, Prod.mk.injEq] at h; obtain ⟨rfl, rfl⟩ := h
       rename_i t ht; exact ⟨rfl, Or.inr ⟨t, ht, rfl⟩⟩)

theorem field_canon (ts : Bytes → Bool) (b b' : Builder) (k v : Bytes) (o : Option SongInQueue)
    (hb : CanonTags b.tags) (h : b.field ts k v = .ok (b', o)) :
    CanonTags b'.tags ∧ ∀ s, o = some s → CanonTags s.song.tags := by
  have hnil : CanonTags [] := fun e he => by simp at he
  unfold Builder.field at h
  cases hu : b.url.isEmpty with
  | true =>
    simp only [hu, if_true] at h
    cases hh : b.handleStartField k v with
    | terr => simp [hh] at h
    | panic => simp [hh] at h
    | ok b1 =>
      simp only [hh, Outcome.ok.injEq, Prod.mk.injEq] at h
      obtain ⟨rfl, rfl⟩ := h
      rw [handleStartField_tags _ _ k v hh]
      exact ⟨hb, by simp⟩
  | false =>
    simp only [hu, Bool.false_eq_true, if_false] at h
    have hne : b.url ≠ [] := by simpa using hu
    by_cases hs : isStartField k = true
    · unfold Builder.handleSongField at h
      simp only [hs, if_true] at h
      rw [intoSong_ok b hne] at h
      simp only at h
      cases hh : ({} : Builder).handleStartField k v with
      | terr => simp [hh] at h
      | panic => simp [hh] at h
      | ok b1 =>
        simp only [hh, Outcome.ok.injEq, Prod.mk.injEq] at h
        obtain ⟨rfl, rfl⟩ := h
        rw [handleStartField_tags _ _ k v hh]
        exact ⟨hnil, by intro s hs; simp only [Option.some.injEq] at hs; rw [← hs]; exact hb⟩
    · have hs' : isStartField k = false := by simpa using hs
      obtain ⟨rfl, ht⟩ := handleSongField_tags ts b b' k v o hs' h
      refine ⟨?_, by simp⟩
      rcases ht with ht | ⟨t, htk, ht⟩
      · rw [ht]; exact hb
      · rw [ht]; exact push_canon _ _ _ hb (C20.C20_roundtrip_producible k t htk)

theorem run_canon (ts : Bytes → Bool) (fs : List (Bytes × Bytes)) :
    ∀ (b b' : Builder) (songs : List SongInQueue), CanonTags b.tags → run ts b fs = .ok (b', songs) →
      CanonTags b'.tags ∧ ∀ s ∈ songs, CanonTags s.song.tags := by
  induction fs with
  | nil => intro b b' songs hb h; simp [run] at h; obtain ⟨rfl, rfl⟩ := h; exact ⟨hb, by simp⟩
  | cons kv rest ih =>
    intro b b' songs hb h
    obtain ⟨k, v⟩ := kv
    simp only [run] at h
    cases hf : b.field ts k v with
    | terr => simp [hf] at h
    | panic => simp [hf] at h
    | ok r =>
      obtain ⟨b1, o⟩ := r
      obtain ⟨hb1, ho⟩ := field_canon ts b b1 k v o hb hf
      simp only [hf] at h
      cases hr : run ts b1 rest with
      | terr => simp [hr] at h
      | panic => simp [hr] at h
      | ok r2 =>
        obtain ⟨b2, s2⟩ := r2
        simp only [hr, Outcome.ok.injEq, Prod.mk.injEq] at h
        obtain ⟨rfl, rfl⟩ := h
        obtain ⟨hb2, hs2⟩ := ih b1 b2 s2 hb1 hr
        refine ⟨hb2, ?_⟩
        intro s hs
        rcases List.mem_append.mp hs with hs | hs
        · cases o with
          | none => simp at hs
          | some s0 => simp at hs; rw [hs]; exact ho _ rfl
        · exact hs2 s hs

/-- **the decoded tag keys are canonical, for EVERY frame**: each key of each returned song's tag
map is the tag `Tag::try_from` yields for its own protocol name. Together with `C14_tag_view_injective`
this makes the name view used in `C14_queue` / `C14_songs` lossless: equal views ⇒ equal maps. -/
theorem C14_tags_canonical (ts : Bytes → Bool) (f : AFrame) (songs : List SongInQueue)
    (h : SongInQueue.fromFrameMulti ts f = .ok songs) : ∀ s ∈ songs, CanonTags s.song.tags := by
  have hnil : CanonTags ({} : Builder).tags := fun e he => by simp at he
  simp only [SongInQueue.fromFrameMulti, multiLoop_eq_run] at h
  cases hr : run ts {} f.fields with
  | terr => simp [hr] at h
  | panic => simp [hr] at h
  | ok r =>
    obtain ⟨bf, ss⟩ := r
    obtain ⟨hbf, hss⟩ := run_canon ts f.fields {} bf ss hnil hr
    simp only [hr] at h
    unfold Builder.finish at h
    cases hu : bf.url.isEmpty with
    | true => simp [hu] at h; rw [← h]; exact hss
    | false =>
      have hne : bf.url ≠ [] := by simpa using hu
      simp [hu, intoSong_ok bf hne] at h
      rw [← h]
      intro s hs
      rcases List.mem_append.mp hs with hs | hs
      · exact hss s hs
      · simp at hs; rw [hs]; exact hbf

theorem C14_tags_canonical_songs (ts : Bytes → Bool) (f : AFrame) (songs : List Song)
    (h : Song.fromFrameMulti ts f = .ok songs) : ∀ s ∈ songs, CanonTags s.tags := by
  rw [C14_songs_eq_queue] at h
  cases hq : SongInQueue.fromFrameMulti ts f with
  | terr => simp [hq, Outcome.map, Outcome.bind] at h
  | panic => simp [hq, Outcome.map, Outcome.bind] at h
  | ok qs =>
    simp only [hq, Outcome.map, Outcome.bind, Outcome.ok.injEq] at h
    intro s hs
    rw [← h] at hs
    obtain ⟨q, hq', rfl⟩ := List.mem_map.mp hs
    exact C14_tags_canonical ts f qs hq q hq'

/-! ## the specification has the shape the property text asks for

One song per `file` entry in listing order, computed from that entry alone: the denotation of a
listing is the concatenation of the denotations of its entries, so nothing (in particular no
modification date of a directory or playlist entry) can travel from one entry to another. -/

theorem C14_spec_append (l1 l2 : Spec.Listing) :
    Spec.songsOfQ (l1 ++ l2) = Spec.songsOfQ l1 ++ Spec.songsOfQ l2 := by
  induction l1 with
  | nil => simp [Spec.songsOfQ]
  | cons e rest ih => rw [List.cons_append, songsOfQ_cons, songsOfQ_cons e rest, ih, List.append_assoc]

theorem C14_spec_entries (e : Spec.Entry) :
    Spec.songsOfQ [e] = match e with
      | .song u ls => [Spec.songOf u ls]
      | .directory _ _ => []
      | .playlist _ _ => [] := by
  cases e <;> simp [Spec.songsOfQ]

/-- the tag map of every denoted song is in canonical form: strictly increasing protocol names -/
theorem C14_spec_tags_sorted (u : Bytes) (ls : List (Bytes × Bytes)) :
    Sorted ((Spec.songOf u ls).song.tags.map (·.1)) := by
  simp only [Spec.songOf, Spec.tagsOf, Spec.tagsOfLines, List.map_map]
  have : ((fun x : Bytes × List Bytes => x.1) ∘ fun n => (n, Spec.valuesOf (Spec.tagLines ls) n)) = id := by
    funext n; rfl
  rw [this, List.map_id]
  exact sortNames_sorted _

/-! ## non-vacuity -/

/-- default build of the crate: every `Last-Modified` text is accepted -/
def tsAll : Bytes → Bool := fun _ => true

/-- three entries, a directory with its own modification date in the middle; a repeated tag (in two
spellings); `Time` before `duration` in the first song and after it in the second -/
def exListing : Spec.Listing :=
  [ .song (str "a.flac")
      [(str "Time", str "5"), (str "duration", str "5.5"), (str "Artist", str "x"),
       (str "artist", str "y"), (str "Pos", str "0"), (str "Id", str "1"), (str "Title", str "t")],
    .directory (str "d") [(str "Last-Modified", str "dir-date")],
    .song (str "b.flac")
      [(str "duration", str "7.25"), (str "Time", str "7"), (str "Last-Modified", str "song-date"),
       (str "Range", str "1.5-")] ]

example : Spec.WFlisting tsAll exListing = true := by decide +kernel

/-- what the specification says the listing denotes -/
example : Spec.songsOfQ exListing =
    [ { pos := 0, id := 1, prio := 0, range := none,
        song := { url := str "a.flac", duration := some (5, 500000000), format := none,
                  lastModified := none,
                  tags := [(str "Artist", [str "x", str "y"]), (str "Title", [str "t"])] } },
      { pos := 0, id := 0, prio := 0, range := some ((1, 500000000), none),
        song := { url := str "b.flac", duration := some (7, 250000000), format := none,
                  lastModified := some (str "song-date"), tags := [] } } ] := by decide +kernel

/-- the theorem applies to it … -/
example : ∃ songs, SongInQueue.fromFrameMulti tsAll ⟨Spec.encListing exListing, none⟩ = .ok songs ∧
    songs.map qsongAbs = Spec.songsOfQ exListing := C14_queue _ _ _ (by decide +kernel)

/-- … and evaluating the model directly agrees -/
example : (SongInQueue.fromFrameMulti tsAll ⟨Spec.encListing exListing, none⟩).map (List.map qsongAbs)
    = .ok (Spec.songsOfQ exListing) := by decide +kernel

/-- `currentsong` on a longer listing: the last entry if it is a song … -/
example : Spec.currentOf exListing = some (Spec.songOf (str "b.flac")
    [(str "duration", str "7.25"), (str "Time", str "7"), (str "Last-Modified", str "song-date"),
     (str "Range", str "1.5-")]) := by decide +kernel
/-- … and nothing if a directory entry comes last -/
example : SongInQueue.fromFrameSingle tsAll
    ⟨Spec.encListing [.song (str "a") [], .directory (str "d") []], none⟩ = .ok none := by decide +kernel

/-- hypotheses of `C14_bad_value` are satisfiable: a 2^64-second duration after a valid prefix -/
example : badLine tsAll [(str "Title", str "t")] (str "duration") (str "18446744073709551616") :=
  Or.inl ⟨rfl, by decide +kernel⟩
example : badLine tsAll [(str "Title", str "t")] (str "Time") (str "abc") :=
  Or.inr (Or.inl ⟨rfl, by decide +kernel, by decide +kernel⟩)
example : Song.fromFrameMulti tsAll ⟨Spec.encListing
    [.song (str "a") [(str "Title", str "t"), (str "Prio", str "256")], .song (str "b") []], none⟩ = .terr := by
  decide +kernel
/-- a legacy `Time` value is not looked at once a duration is known: garbage there is NOT an error -/
example : (Song.fromFrameMulti tsAll ⟨Spec.encListing
    [.song (str "a") [(str "duration", str "1.5"), (str "Time", str "garbage")]], none⟩).map (List.map songAbs)
    = .ok [{ url := str "a", duration := some (1, 500000000), format := none, lastModified := none,
             tags := [] }] := by decide +kernel

/-- hypotheses of `C14_stray_line`: a tag line after a directory entry -/
example : Song.fromFrameMulti tsAll
    ⟨Spec.encListing [.song (str "a") [], .directory (str "d") []] ++
      [(str "Last-Modified", str "x")] ++ (str "Title", str "t") :: [], none⟩ = .terr :=
  (C14_stray_line tsAll _ _ _ _ _ none (by decide +kernel)
    (Or.inr ⟨[.song (str "a") []], .directory (str "d") [], rfl, by intro u ls h; cases h⟩)
    (by decide +kernel) (by decide +kernel)).2.1

/-- outside well-formedness: a `file` line with an EMPTY URL starts no song (empty URL = "no song in
progress"); if lines other than modification dates follow it, the reply is an error, otherwise the
entry is silently skipped -/
example : (Song.fromFrameMulti tsAll ⟨[(str "file", []), (str "file", str "b")], none⟩).map (List.map (·.url))
    = .ok [str "b"] := by decide +kernel
example : Song.fromFrameMulti tsAll ⟨[(str "file", []), (str "Title", str "t")], none⟩ = .terr := by
  decide +kernel

end Mpd.C14
