import MpdProofs.C03
/-!
# C09 — arbitrary peer bytes never panic or hang the protocol layer

* totality: for ALL byte streams and segmentations, no `receive()` of a session — including calls
  made after an error was returned — ends in the model's `panic` outcome (the partial operations
  of the Rust: `split_off`, `advance`, `truncate`, the payload subtraction); the blocking
  connection's buffer invariant is what rules out `split_off` out of bounds (this is where the
  repaired defect F10 lived);
* termination: every model function is structurally recursive on the script / well-founded on the
  buffer length with the parser's progress lemma, so every call returns after at most one read per
  remaining (piece of a) chunk plus one;
* no fabricated data: whatever the parser returns is literally on the wire (`parseComp_sound`),
  and a line the parser rejects makes the session end with the invalid-message error;
* numeric edges are kernel-checked examples.
-/
namespace Mpd.C09
open Mpd Mpd.Parser Mpd.Builder Mpd.Conn

theorem termItem_ne_panic (t : Term) (σ : BState) (u : Bytes) : termItem t σ u ≠ .panic := by
  unfold termItem eofItem
  cases t <;> simp <;> split <;> simp

theorem recvAll_no_panic (σ : BState) (s : Bytes) (term : Term) : (recvAll σ s term).1 ≠ .panic := by
  unfold recvAll
  have hnp := feed_no_panic σ s
  rcases hf : feed σ s with ⟨σ', rest, out⟩
  rw [hf] at hnp
  cases out with
  | pending => exact termItem_ne_panic _ _ _
  | done r => simp
  | invalid => simp
  | panic => exact absurd rfl hnp

/-- **async**: no call of a session panics, including `extra` calls after the first error -/
theorem C09_async_total (fuel extra : Nat) (σ : BState) (buf : Bytes) (chunks : List Bytes) (term : Term)
    (hne : NonEmptyChunks chunks) : Item.panic ∉ sessionA fuel extra σ buf chunks term := by
  induction fuel generalizing extra σ buf chunks with
  | zero => simp [sessionA]
  | succ fuel ih =>
    rw [sessionA]
    obtain ⟨h1, h2⟩ := recvLoopA_eq σ buf chunks term hne
    unfold recvA
    rcases hr : recvLoopA σ buf chunks term with ⟨it, buf', cs', σ'⟩
    rw [hr] at h1 h2
    simp only at h1 h2
    have hit : it ≠ .panic := by
      have := recvAll_no_panic σ (buf ++ chunks.flatten) term
      rw [← h1] at this
      exact this
    cases it with
    | resp r => simp only [List.mem_cons, reduceCtorEq, false_or]; exact ih extra σ' buf' cs' h2
    | panic => exact absurd rfl hit
    | clean | invalid | unexpectedEof | io k =>
      cases extra with
      | zero => simp
      | succ e => simp only [List.mem_cons, reduceCtorEq, false_or]; exact ih e σ' buf' cs' h2

/-- **blocking**: same, and the buffer invariant `total_received < len` is maintained across calls,
so `split_off(total_received)` is always in bounds -/
theorem C09_sync_total (fuel extra : Nat) (σ : BState) (b : SBuf) (chunks : List Bytes) (term : Term)
    (hne : NonEmptyChunks chunks) (hinv : SInv b) : Item.panic ∉ sessionS fuel extra σ b chunks term := by
  induction fuel generalizing extra σ b chunks with
  | zero => simp [sessionS]
  | succ fuel ih =>
    rw [sessionS]
    obtain ⟨h1, h2, h3, _⟩ := recvLoopS_eq (scriptLen chunks + 1) σ b chunks term hne hinv (Nat.lt_succ_self _)
    unfold recvS
    rcases hr : recvLoopS (scriptLen chunks + 1) σ b chunks term with ⟨it, b', cs', σ'⟩
    rw [hr] at h1 h2 h3
    simp only at h1 h2 h3
    have hit : it ≠ .panic := by
      have := recvAll_no_panic σ (b.data ++ chunks.flatten) term
      rw [← h1] at this
      exact this
    cases it with
    | resp r => simp only [List.mem_cons, reduceCtorEq, false_or]; exact ih extra σ' b' cs' h2 h3
    | panic => exact absurd rfl hit
    | clean | invalid | unexpectedEof | io k =>
      cases extra with
      | zero => simp
      | succ e => simp only [List.mem_cons, reduceCtorEq, false_or]; exact ih e σ' b' cs' h2 h3

/-- what the parser rejects ends the session with the invalid-message error (never a response
made up from the rejected bytes) -/
theorem C09_rejected_is_invalid (σ : BState) (buf : Bytes)
    (h : parseComp buf = .error ∨ parseComp buf = .failure) : feed σ buf = (σ, buf, .invalid) := by
  rw [feed]
  rcases h with h | h <;> (split <;> rename_i h2 <;> rw [h] at h2 <;> first | (simp at h2; done) | rfl)

/-- the binary payload handed to the frame is exactly the `N` bytes after the header -/
theorem C09_binary_exact (σ : BState) (ds bin tl : Bytes) (hnum : IsNum ds) (hlen : bin.length = digitsVal ds) :
    feed σ (str "binary: " ++ ds ++ [LF] ++ bin ++ [LF] ++ tl) = feed (bstep σ (.binary bin)).1 tl := by
  have hw := Wire.binary ds bin hnum hlen
  rw [feed_wire σ _ _ tl hw (fun k v h => by cases h), pieceOf_binary ds bin hlen]
  have := (bstep_binary σ bin).1
  rcases hb : bstep σ (.binary bin) with ⟨σ', o⟩
  rw [hb] at this
  simp only at this
  subst this
  rfl

/-! ## numeric and encoding edges (kernel-checked examples; these are tests, not the theorem) -/
example : parseComp (str "binary: 18446744073709551616\n") = .failure := by decide +kernel
example : parseComp (str "binary: abc\n") = .failure := by decide +kernel
example : parseComp (str "binary: 18446744073709551615\n") = .incomplete := by decide +kernel
example : parseComp (str "ACK [99999999999999999999@0] {} x\n") = .error := by decide +kernel
example : parseComp (str "foo: " ++ [0xff, 0xfe, LF]) = .error := by decide +kernel
example : parseComp (str "foo" ++ [0] ++ str ": x\n") = .error := by decide +kernel
example : parseComp (str "foo: a" ++ [0] ++ str "b\n") = .ok (.field (str "foo") (str "a" ++ [0] ++ str "b")) [] := by
  decide +kernel
example : parseComp (str "foo: " ++ [0xed, 0xa0, 0x80, LF]) = .error := by decide +kernel   -- UTF-16 surrogate

end Mpd.C09
