import Mpd.Command
import MpdSpec.Tokenizer
import MpdProofs.Lemmas.Tok
import MpdProofs.Lemmas.Utf8
/-!
# C07 — user-supplied strings can never add a request line or change list framing

* `C07_name` — exactly which names `Command::build` accepts; `C07_name_rejected`,
  `C07_name_is_word`, `C07_name_not_list` — the consequences the property spells out;
* `C07_arg_ok` / `C07_arg_err` / `C07_arg_lf` — `add_argument` for **arbitrary** rendered bytes `r`
  (this is the clause about user-defined `Argument` renderers): accepted ⇒ the buffer grows by
  exactly `' ' :: r` and `r` has no LF (and no NUL); rejected ⇒ the buffer is what it was;
* `Reachable` — every command value obtainable through the API (build, then any sequence of
  accepted or rejected `add_argument` calls); `C07_oneline`, `C07_first_word`;
* `C07_list` — the lines of a rendered command list (all lengths).

Assumption (stated in DESIGN.md §6 C07): a renderer only *appends* to the `BytesMut` it is handed.
-/
namespace Mpd.C07
open Mpd Mpd.Cmd Spec.Tok Mpd.TokL

/-! ## names -/

/-- `Command::build n` succeeds (and then holds exactly `n`) iff `n` is non-empty, starts with a
letter, consists of letters and `_` only and does not start with `command_list` -/
theorem C07_name (n c : Bytes) :
    build n = .ok c ↔
      c = n ∧ n ≠ [] ∧ (∃ b t, n = b :: t ∧ isAlpha b = true) ∧
      n.all (fun b => isAlpha b || b == USCORE) = true ∧
      startsWith n (str "command_list") = false := by
  rw [build_ok_iff]
  constructor
  · intro ⟨h, hn⟩; exact ⟨h, hn.ne, hn.first, hn.chars, hn.notList⟩
  · intro ⟨h, h1, h2, h3, h4⟩; exact ⟨h, ⟨h1, h2, h3, h4⟩⟩

theorem build_ok_or_error (n : Bytes) : (build n = .ok n ∧ NameOk n) ∨ ∃ e, build n = .error e := by
  cases h : build n with
  | ok c =>
    obtain ⟨rfl, hn⟩ := (build_ok_iff n c).mp h
    exact .inl ⟨rfl, hn⟩
  | error e => exact .inr ⟨e, rfl⟩

/-- the empty name, a name with any byte outside MPD's word alphabet `[A-Za-z0-9_]` (blank,
control character, quote, LF, non-ASCII …) and a name that would open or close a command list
are rejected -/
theorem C07_name_rejected (n : Bytes)
    (h : n = [] ∨ (∃ b ∈ n, validWordChar b = false) ∨ startsWith n (str "command_list") = true) :
    ∃ e, build n = .error e := by
  rcases build_ok_or_error n with ⟨_, hn⟩ | he
  · exfalso
    rcases h with h | ⟨b, hb, hw⟩ | h
    · exact hn.ne h
    · have := (cmdChar_facts b (List.all_eq_true.mp hn.chars b hb)).2.1
      rw [hw] at this; cases this
    · have := hn.notList
      rw [h] at this; cases this
  · exact he

theorem C07_name_empty : build [] = .error .empty := by decide

theorem startsWith_append (p s : Bytes) : startsWith (p ++ s) p = true := by
  induction p with
  | nil => cases s <;> rfl
  | cons b bs ih => simp [startsWith, ih]

/-- an accepted name is no command-list keyword, nor anything that begins like one -/
theorem C07_name_not_list (n c : Bytes) (h : build n = .ok c) :
    (∀ s, n ≠ str "command_list" ++ s) ∧ n ≠ str "command_list_begin" ∧
    n ≠ str "command_list_ok_begin" ∧ n ≠ str "command_list_end" := by
  obtain ⟨_, hn⟩ := (build_ok_iff n c).mp h
  have key : ∀ s, n ≠ str "command_list" ++ s := by
    intro s e
    have := hn.notList
    rw [e, startsWith_append] at this; cases this
  exact ⟨key, key (str "_begin"), key (str "_ok_begin"), key (str "_end")⟩

/-- an accepted name is one word of MPD's alphabet and is read back as itself -/
theorem C07_name_is_word (n c : Bytes) (h : build n = .ok c) :
    n.all validWordChar = true ∧ tokenizeLine n = some (n, []) := by
  obtain ⟨_, hn⟩ := (build_ok_iff n c).mp h
  refine ⟨List.all_eq_true.mpr fun b hb => (cmdChar_facts b (List.all_eq_true.mp hn.chars b hb)).2.1, ?_⟩
  unfold tokenizeLine
  rw [hn.endsNW.stripRight, cstr_of_no_nul n hn.no_nul]
  have := nextWord_name hn [] (.inl rfl)
  rw [List.append_nil] at this
  simp [this, stripLeft, params]

/-! ## arguments: arbitrary rendered bytes -/

theorem C07_arg_ok (c r c' b : Bytes) (h : addRendered c r = (.ok c', b)) :
    c' = c ++ SPACE :: r ∧ b = c' ∧ LF ∉ r ∧ (0 : UInt8) ∉ r := by
  by_cases hc : Clean r
  · rw [addRendered_clean c r hc] at h
    cases h
    exact ⟨rfl, rfl, hc.1, hc.2⟩
  · obtain ⟨i, hi⟩ := addRendered_unclean c r hc
    rw [hi] at h; cases h

theorem C07_arg_err (c r b : Bytes) (e : CmdErr) (h : addRendered c r = (.error e, b)) :
    b = c ∧ (LF ∈ r ∨ (0 : UInt8) ∈ r) := by
  by_cases hc : Clean r
  · rw [addRendered_clean c r hc] at h; cases h
  · obtain ⟨i, hi⟩ := addRendered_unclean c r hc
    rw [hi] at h
    cases h
    refine ⟨rfl, ?_⟩
    unfold Clean at hc
    by_cases h1 : LF ∈ r
    · exact .inl h1
    · by_cases h2 : (0 : UInt8) ∈ r
      · exact .inr h2
      · exact absurd ⟨h1, h2⟩ hc

/-- whatever a renderer emits: if it contains a line feed the argument is refused and the command
buffer is exactly what it was before the call -/
theorem C07_arg_lf (c r : Bytes) (h : LF ∈ r) : ∃ e, addRendered c r = (.error e, c) := by
  obtain ⟨i, hi⟩ := addRendered_unclean c r (fun hc => hc.1 h)
  exact ⟨_, hi⟩

/-- the buffer after the call, in both cases -/
theorem addRendered_snd (c r : Bytes) :
    (addRendered c r).2 = if Clean r then c ++ SPACE :: r else c := by
  by_cases hc : Clean r
  · simp [addRendered_clean c r hc, hc]
  · obtain ⟨i, hi⟩ := addRendered_unclean c r hc
    simp [hi, hc]

/-! ## every command value the API can produce -/

/-- `Command::build`, then any sequence of `add_argument` calls — accepted or rejected, with any
rendered bytes (`(addRendered c r).2` is the buffer after the call in either case) -/
inductive Reachable : Bytes → Prop
  | build {n c : Bytes} : build n = .ok c → Reachable c
  | add {c : Bytes} (r : Bytes) : Reachable c → Reachable (addRendered c r).2

/-- name followed by the accepted renderings, each after one blank -/
def shape (n : Bytes) (rs : List Bytes) : Bytes := n ++ rs.flatMap fun r => SPACE :: r

theorem Reachable.shape {c : Bytes} (h : Reachable c) :
    ∃ n rs, NameOk n ∧ (∀ r ∈ rs, Clean r) ∧ c = C07.shape n rs := by
  induction h with
  | build hb =>
    obtain ⟨rfl, hn⟩ := (build_ok_iff _ _).mp hb
    exact ⟨_, [], hn, by simp, by simp [C07.shape]⟩
  | add r _ ih =>
    obtain ⟨n, rs, hn, hrs, rfl⟩ := ih
    rw [addRendered_snd]
    by_cases hc : Clean r
    · refine ⟨n, rs ++ [r], hn, ?_, ?_⟩
      · intro x hx
        rcases List.mem_append.mp hx with hx | hx
        · exact hrs x hx
        · simp at hx; subst hx; exact hc
      · simp [hc, C07.shape]
    · exact ⟨n, rs, hn, hrs, by simp [hc]⟩

theorem Reachable.append {c : Bytes} (h : Reachable c) (rs : List Bytes) (hrs : ∀ r ∈ rs, Clean r) :
    Reachable (c ++ rs.flatMap fun r => SPACE :: r) := by
  induction rs generalizing c with
  | nil => simpa using h
  | cons r rs ih =>
    have hc : Clean r := hrs r (by simp)
    have h1 := Reachable.add r h
    rw [addRendered_snd, if_pos hc] at h1
    have := ih h1 fun x hx => hrs x (by simp [hx])
    simpa using this

/-- conversely every such value is reachable (so `Reachable` is not vacuous, and `shape` is exact) -/
theorem Reachable.of_shape {n : Bytes} (hn : NameOk n) (rs : List Bytes) (hrs : ∀ r ∈ rs, Clean r) :
    Reachable (C07.shape n rs) :=
  Reachable.append (Reachable.build ((build_ok_iff n n).mpr ⟨rfl, hn⟩)) rs hrs

theorem not_mem_shape (x : UInt8) (hx : x ≠ SPACE) (n : Bytes) (rs : List Bytes) (hn : x ∉ n)
    (hrs : ∀ r ∈ rs, x ∉ r) : x ∉ C07.shape n rs := by
  unfold C07.shape
  intro hm
  rcases List.mem_append.mp hm with hm | hm
  · exact hn hm
  · obtain ⟨r, hr, hxr⟩ := List.mem_flatMap.mp hm
    rcases List.mem_cons.mp hxr with h | h
    · exact hx h
    · exact hrs r hr h

theorem shape_no_lf {n : Bytes} (hn : NameOk n) (rs : List Bytes) (hrs : ∀ r ∈ rs, Clean r) :
    LF ∉ C07.shape n rs ∧ (0 : UInt8) ∉ C07.shape n rs :=
  ⟨not_mem_shape LF (by decide) n rs hn.no_lf fun r hr => (hrs r hr).1,
   not_mem_shape 0 (by decide) n rs hn.no_nul fun r hr => (hrs r hr).2⟩

/-- **one protocol line**: whatever was tried on a command, its buffer contains no line feed (and
no NUL); `Connection::send` therefore writes exactly one LF-terminated line, namely the buffer -/
theorem C07_oneline {c : Bytes} (h : Reachable c) :
    LF ∉ c ∧ (0 : UInt8) ∉ c ∧ splitLines (sendBytes c) = some [c] := by
  obtain ⟨n, rs, hn, hrs, rfl⟩ := h.shape
  obtain ⟨h1, h2⟩ := shape_no_lf hn rs hrs
  exact ⟨h1, h2, splitLines_one _ h1⟩

/-! ### the word MPD dispatches on is the validated name -/

theorem stripLeft_suffix (l : Bytes) : ∃ p, l = p ++ stripLeft l := by
  induction l with
  | nil => exact ⟨[], rfl⟩
  | cons b bs ih =>
    by_cases hb : isWs b = true
    · obtain ⟨p, hp⟩ := ih
      refine ⟨b :: p, ?_⟩
      rw [stripLeft_ws hb, List.cons_append, ← hp]
    · exact ⟨[], by simp [stripLeft, hb]⟩

theorem mem_stripRight {l : Bytes} {x : UInt8} (h : x ∈ stripRight l) : x ∈ l := by
  obtain ⟨p, hp⟩ := stripLeft_suffix l.reverse
  unfold stripRight at h
  have : x ∈ l.reverse := by
    rw [hp]; exact List.mem_append_right _ (List.mem_reverse.mp h)
  exact List.mem_reverse.mp this

theorem stripRight_blankTail (t : Bytes) : WsOrEnd (stripRight (SPACE :: t)) := by
  have h := stripRight_append [SPACE] t
  simp only [List.singleton_append] at h
  rw [h]
  split
  · left; decide
  · exact .inr ⟨SPACE, _, rfl, ws_SPACE⟩

theorem stripRight_shape {n : Bytes} (hn : NameOk n) (rs : List Bytes) :
    ∃ tail, stripRight (C07.shape n rs) = n ++ tail ∧ WsOrEnd tail := by
  unfold C07.shape
  rw [stripRight_append]
  split
  · exact ⟨[], by simp [hn.endsNW.stripRight], .inl rfl⟩
  · refine ⟨_, rfl, ?_⟩
    cases rs with
    | nil => exact .inl rfl
    | cons r rs =>
      simp only [List.flatMap_cons, List.cons_append]
      exact stripRight_blankTail _

/-- the command word MPD reads from a reachable command's line is the name given to `build` — a
word that passed `validate_command_part`, so never one that starts with `command_list` -/
theorem C07_first_word {c : Bytes} (h : Reachable c) :
    ∃ n rest, build n = .ok n ∧ nextWord (cstr (stripRight c)) = some (n, rest) ∧
      startsWith n (str "command_list") = false := by
  obtain ⟨n, rs, hn, hrs, rfl⟩ := h.shape
  obtain ⟨tail, ht, hw⟩ := stripRight_shape hn rs
  have hnul : (0 : UInt8) ∉ stripRight (C07.shape n rs) :=
    fun hm => (shape_no_lf hn rs hrs).2 (mem_stripRight hm)
  refine ⟨n, stripLeft tail, (build_ok_iff n n).mpr ⟨rfl, hn⟩, ?_, hn.notList⟩
  rw [cstr_of_no_nul _ hnul, ht, nextWord_name hn tail hw]

/-- in particular: if MPD accepts the line at all, its command is that name -/
theorem C07_tokenized_word {c : Bytes} (h : Reachable c) (w : Bytes) (as : List Bytes)
    (ht : tokenizeLine c = some (w, as)) :
    build w = .ok w ∧ startsWith w (str "command_list") = false := by
  obtain ⟨n, rest, hb, hw, hl⟩ := C07_first_word h
  unfold tokenizeLine at ht
  simp only [hw] at ht
  cases hp : params (rest.length + 1) rest with
  | none => simp [hp] at ht
  | some xs =>
    simp [hp] at ht
    obtain ⟨rfl, _⟩ := ht
    exact ⟨hb, hl⟩

/-! ## command lists -/

def BEGIN_LINE : Bytes := str "command_list_ok_begin"
def END_LINE : Bytes := str "command_list_end"

theorem list_begin_eq : LIST_BEGIN = BEGIN_LINE ++ [LF] := by decide
theorem list_end_eq : LIST_END = END_LINE ++ [LF] := by decide

/-- rendering ≥ 2 commands = the lines `begin, c₁ … c_N, end`, each followed by LF -/
theorem renderList_lines (first second : Bytes) (rest : List Bytes) :
    renderList first (second :: rest) =
      (BEGIN_LINE :: (first :: second :: rest) ++ [END_LINE]).flatMap fun l => l ++ [LF] := by
  simp [renderList, list_begin_eq, list_end_eq, List.flatMap_append]

/-- **framing**: the byte stream written for a list of reachable commands splits into exactly
the bare command (N = 1) or `command_list_ok_begin`, the N command buffers in order,
`command_list_end` (N ≥ 2) — no more and no fewer lines, for every N -/
theorem C07_list (first : Bytes) (rest : List Bytes)
    (h : ∀ c ∈ first :: rest, Reachable c) :
    splitLines (renderList first rest) =
      some (if rest = [] then [first] else BEGIN_LINE :: (first :: rest) ++ [END_LINE]) := by
  cases rest with
  | nil =>
    simp only [renderList, if_true]
    exact splitLines_one first (C07_oneline (h first (by simp))).1
  | cons second rest =>
    rw [renderList_lines, if_neg (by simp)]
    apply splitLines_lines
    intro l hl
    simp only [List.cons_append, List.mem_cons, List.mem_append, List.not_mem_nil, or_false] at hl
    rcases hl with rfl | rfl | rfl | hl | rfl
    · decide
    · exact (C07_oneline (h _ (by simp))).1
    · exact (C07_oneline (h _ (by simp))).1
    · exact (C07_oneline (h _ (by simp [hl]))).1
    · decide

/-- no line contributed by a command can be read by MPD as a `command_list…` request, so the
begin/end framing written by `render` is the only framing the server sees -/
theorem C07_list_no_framing_inside (cs : List Bytes) (h : ∀ c ∈ cs, Reachable c) :
    ∀ c ∈ cs, ∀ w as, tokenizeLine c = some (w, as) → startsWith w (str "command_list") = false :=
  fun c hc w as ht => (C07_tokenized_word (h c hc) w as ht).2

/-! ## non-vacuity -/

example : build (str "status") = .ok (str "status") := by decide
example : build (str "command_list_end") = .error .commandList := by decide
example : build (str "command_list_ok_begin") = .error .commandList := by decide
example : build (str "a b") = .error (.invalidChar 1) := by decide
example : build (str "_x") = .error (.invalidChar 0) := by decide
example : build (str "a\nstatus") = .error (.invalidChar 1) := by decide

/-- a renderer that tries to smuggle a second request and a list terminator -/
example : addRendered (str "play") (str "1\ncommand_list_end") = (.error (.invalidChar 1), str "play") := by
  decide

/-- rejected, accepted, rejected: the buffer holds the accepted one only -/
example :
    Reachable (addRendered (addRendered (addRendered (str "add") (str "x\ny")).2 (str "\"a b\"")).2 [0]).2 ∧
    (addRendered (addRendered (addRendered (str "add") (str "x\ny")).2 (str "\"a b\"")).2 [0]).2
      = str "add \"a b\"" :=
  ⟨.add _ (.add _ (.add _ (.build (n := str "add") (by decide)))), by decide⟩

/-- the hypotheses of `C07_list` on a concrete list: three reachable commands, one of them with
an argument and one after a rejected injection attempt -/
example : ∀ c ∈ [str "status", str "play 1", str "stop"], Reachable c := by
  have h1 : Reachable (str "status") := .build (n := str "status") (by decide)
  have h2 : Reachable (str "play 1") :=
    (by decide : (addRendered (str "play") (str "1")).2 = str "play 1") ▸
      Reachable.add (str "1") (.build (n := str "play") (by decide))
  have h3 : Reachable (str "stop") :=
    (by decide : (addRendered (str "stop") (str "x\ncommand_list_end")).2 = str "stop") ▸
      Reachable.add (str "x\ncommand_list_end") (.build (n := str "stop") (by decide))
  intro c hc
  simp only [List.mem_cons, List.not_mem_nil, or_false] at hc
  rcases hc with rfl | rfl | rfl <;> assumption

example : splitLines (renderList (str "status") [str "play 1", str "stop"]) =
    some [str "command_list_ok_begin", str "status", str "play 1", str "stop", str "command_list_end"] := by
  decide

/-! ## `validate_command_part` iterates `char_indices()`: the bytewise model agrees on every string -/

theorem C07_name_check_is_charwise (cs : List Nat) (h : ∀ c ∈ cs, Utf8.isScalar c = true) :
    validateCommandPart (Utf8.encodeStr cs) = Utf8.validateCommandPartC cs :=
  Utf8.validateCommandPart_encode cs (Utf8.chars_of_scalar cs h)

/-- non-vacuity: `stätus` is refused at byte offset 2, `é` at 0 -/
example : Utf8.validateCommandPartC [115, 116, 228, 116, 117, 115] = .error (.invalidChar 2) ∧
    Utf8.validateCommandPartC [233] = .error (.invalidChar 0) := by decide

end Mpd.C07
