import MpdProofs.Lemmas.LoopInv
/-!
# C18 (password part) — the password is sent before anything else, idle only after acceptance

On the byte-level task model (`Mpd/Loop.lean`, program points `connecting`, `pwWait`, `spawned`):

* `C18_password_first`: when a password is supplied, the step that accepts the greeting writes
  exactly the `password` request and nothing else, and moves to `pwWait`;
* `C18_pwWait_step`: while waiting for the verdict NOTHING is written; the only ways out are
  `spawned` — exactly when a complete reply WITHOUT error was received — or `failed`;
* `C18_rejected`: any ACK yields `IncorrectPassword`, the connection is dropped, and `failed` is
  terminal (`step_failed`): nothing further is ever written;
* `C18_idle_after_accept`: the first `idle` is written only from `spawned`.
Close ⇒ unexpected-EOF and garbage ⇒ invalid-message are the remaining branches of `C18_pwWait_step`.
-/
namespace Mpd.C18
open Mpd Mpd.Loop

theorem C18_password_first (s : St) (rf : Bool) (pw v rest : Bytes)
    (hpc : s.pc = .connecting) (hpw : s.password = some pw) (hav : s.avail ≠ [])
    (hg : Parser.greeting (s.buf ++ s.avail) = .ok v rest) (hw : s.werr = none) :
    ∃ s', step s rf = some s' ∧ s'.obs = s.obs ++ [.wrote pw .password] ∧ s'.pc = .pwWait .initial ∧ s'.version = v := by
  have hne : s.avail.isEmpty = false := by cases h : s.avail <;> simp_all
  unfold step
  rw [hpc]
  simp only [hne, Bool.false_eq_true, if_false, hg, hpw, write, hw]
  exact ⟨_, rfl, rfl, rfl, rfl⟩

theorem pollRecv_version (t : St) (σ : Builder.BState) : (pollRecv t σ).1.version = t.version := by
  unfold pollRecv
  rcases Builder.feed σ t.buf with ⟨σ1, rest1, out⟩
  cases out with
  | done r => simp
  | invalid => simp
  | panic => simp
  | pending =>
    simp only
    cases t.rerr with
    | some k => simp
    | none =>
      simp only
      by_cases ha : t.avail.isEmpty = true
      · simp only [ha, if_true]
        split <;> simp
      · simp only [ha]
        rcases Builder.feed σ1 (rest1 ++ t.avail) with ⟨σ2, rest2, out2⟩
        cases out2 <;> simp
        split <;> simp

/-- the live receive future of state `s` (builder σ), polled on the bytes `s` holds, returns `r` -/
def Received (s : St) (σ : Builder.BState) (r : Builder.Response) : Prop :=
  ∃ t : St, t.buf = s.buf ∧ t.avail = s.avail ∧ t.eof = s.eof ∧ t.rerr = s.rerr ∧
    (pollRecv t σ).2 = .ready (.resp r)

/-- every step taken while waiting for the password verdict -/
theorem C18_pwWait_step (s s' : St) (rf : Bool) (σ : Builder.BState) (hpc : s.pc = .pwWait σ)
    (h : step s rf = some s') :
    -- nothing is written
    (∀ b k, Obs.wrote b k ∉ s'.obs.drop s.obs.length) ∧
    -- still waiting, or accepted by a complete error-free reply, or failed
    ((∃ σ', s'.pc = .pwWait σ' ∧ s'.obs = s.obs) ∨
     (s'.pc = .spawned ∧ (∃ r, Received s σ r ∧ r.error = none) ∧ s'.obs = s.obs ++ [.connected (.ok s.version)]) ∨
     (s'.pc = .failed ∧ ∃ o, s'.obs = s.obs ++ [.connected o, .transportDropped] ∧ ∀ v, o ≠ .ok v)) := by
  unfold step at h
  rw [hpc] at h
  simp only [failConnect] at h
  split at h
  · simp at h
  · generalize hp : pollRecv _ σ = p at h
    obtain ⟨ho, _⟩ := pollRecv_obs' _ σ p hp
    have hver : p.1.version = s.version := by rw [← hp]; exact pollRecv_version _ σ
    rcases p with ⟨s1, rp⟩
    simp only at ho hver h
    cases rp with
    | pending σ' =>
      simp only [Option.some.injEq] at h; subst h
      exact ⟨by simp [ho], Or.inl ⟨σ', rfl, ho⟩⟩
    | ready it =>
      cases it with
      | resp r =>
        simp only at h
        by_cases he : r.error.isSome = true
        · simp only [he, if_true, Option.some.injEq] at h; subst h
          refine ⟨by simp [emit, ho], Or.inr (Or.inr ⟨rfl, .incorrectPassword, by simp [emit, ho], by intro v hv; cases hv⟩)⟩
        · simp only [he, Bool.false_eq_true, if_false, Option.some.injEq] at h; subst h
          refine ⟨by simp [emit, ho], Or.inr (Or.inl ⟨rfl, ⟨r, ⟨{ s with pc := .pwWait σ, fresh := false }, rfl, rfl, rfl, rfl, by rw [hp]⟩, ?_⟩, by simp [emit, ho, hver]⟩)⟩
          cases hre : r.error <;> simp_all
      | clean =>
        simp only [Option.some.injEq] at h; subst h
        exact ⟨by simp [emit, ho], Or.inr (Or.inr ⟨rfl, .protocol .unexpectedEof, by simp [emit, ho], by intro v hv; cases hv⟩)⟩
      | invalid =>
        simp only [Option.some.injEq] at h; subst h
        exact ⟨by simp [emit, ho], Or.inr (Or.inr ⟨rfl, .protocol .invalid, by simp [emit, ho, itemErr], by intro v hv; cases hv⟩)⟩
      | unexpectedEof =>
        simp only [Option.some.injEq] at h; subst h
        exact ⟨by simp [emit, ho], Or.inr (Or.inr ⟨rfl, .protocol .unexpectedEof, by simp [emit, ho, itemErr], by intro v hv; cases hv⟩)⟩
      | io k =>
        simp only [Option.some.injEq] at h; subst h
        exact ⟨by simp [emit, ho], Or.inr (Or.inr ⟨rfl, .protocol (.io k), by simp [emit, ho, itemErr], by intro v hv; cases hv⟩)⟩
      | panic =>
        simp only [Option.some.injEq] at h; subst h
        exact ⟨by simp [emit, ho], Or.inr (Or.inr ⟨rfl, .protocol .invalid, by simp [emit, ho, itemErr], by intro v hv; cases hv⟩)⟩

/-- a rejected password: `IncorrectPassword`, and the task never runs again -/
theorem C18_rejected (s' : St) (rf : Bool) (h : s'.pc = .failed) : step s' rf = none := step_failed s' rf h

/-- the first `idle` is written from `spawned`, i.e. after the verdict (or when no password is used) -/
theorem C18_idle_after_accept (s : St) (rf : Bool) (hpc : s.pc = .spawned) (hw : s.werr = none) :
    step s rf = some { (emit s (.wrote IDLE .idle)) with pc := .idling s.bstash, fresh := true } := by
  unfold step; rw [hpc]; simp [write, hw, emit]

end Mpd.C18
