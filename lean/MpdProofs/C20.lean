import Mpd.Tag
import MpdSpec.Names
import MpdProofs.Lemmas.Bytes
import MpdProofs.Lemmas.Utf8
/-!
# C20 — tags and subsystems compare, hash and parse by protocol name

Property theorems only; helper lemmas about byte strings are in `Lemmas/Bytes.lean`.
-/
namespace Mpd.C20
open Mpd

/-! ## comparison, order and hash are functions of the protocol name -/

theorem C20_tag_eq_iff_name (a b : Tag) : a.eq b = true ↔ a.name = b.name := by
  simp [Tag.eq]

theorem C20_tag_hash_congr (a b : Tag) (h : a.eq b = true) : a.hashInput = b.hashInput := by
  simp [Tag.hashInput, (C20_tag_eq_iff_name a b).mp h]

theorem C20_tag_hash_injective (a b : Tag) (h : a.hashInput = b.hashInput) : a.eq b = true := by
  simp only [Tag.hashInput] at h
  exact (C20_tag_eq_iff_name a b).mpr (List.append_cancel_right h)

/-- `Ord` agrees with `Eq`, is antisymmetric and transitive: a total order on names -/
theorem C20_tag_cmp_eq (a b : Tag) : a.cmp b = 0 ↔ a.eq b = true := by
  rw [C20_tag_eq_iff_name]; exact cmpBytes_eq_zero_iff _ _

theorem C20_tag_cmp_antisymm (a b : Tag) : a.cmp b = -b.cmp a := cmpBytes_antisymm _ _

theorem C20_tag_cmp_trans (a b c : Tag) : a.cmp b = -1 → b.cmp c = -1 → a.cmp c = -1 :=
  cmpBytes_trans _ _ _

theorem C20_tag_cmp_by_name (a b a' b' : Tag) (ha : a.eq a' = true) (hb : b.eq b' = true) :
    a.cmp b = a'.cmp b' := by
  simp [Tag.cmp, (C20_tag_eq_iff_name _ _).mp ha, (C20_tag_eq_iff_name _ _).mp hb]

/-- the catch-all holding a named variant's name is interchangeable with that variant -/
theorem C20_other_interchangeable (v : TagV) :
    (Tag.other v.name).eq (.named v) = true ∧ (Tag.other v.name).hashInput = (Tag.named v).hashInput ∧
    ∀ c : Tag, (Tag.other v.name).cmp c = (Tag.named v).cmp c := by
  simp [Tag.eq, Tag.hashInput, Tag.cmp, Tag.name]

theorem TagV.mem_all (v : TagV) : v ∈ TagV.all := by cases v <;> decide
theorem SubV.mem_all (v : SubV) : v ∈ SubV.all := by cases v <;> decide

/-- distinct named variants have distinct names (no typo collapses two variants) -/
theorem C20_name_injective (v w : TagV) : v.name = w.name → v = w := by
  have : ∀ v ∈ TagV.all, ∀ w ∈ TagV.all, v.name = w.name → v = w := by decide
  exact this v (TagV.mem_all v) w (TagV.mem_all w)

/-! ## parsing -/

theorem firstBad_none_iff (p : UInt8 → Bool) (l : Bytes) : firstBad p l = none ↔ l.all p = true := by
  induction l with
  | nil => simp [firstBad]
  | cons b bs ih =>
    simp only [firstBad, List.all_cons, Bool.and_eq_true]
    split
    · rename_i h; simp [h, ih]
    · rename_i h; simp [h]

/-- `firstBad` returns the first offending position -/
theorem firstBad_some (p : UInt8 → Bool) (l : Bytes) (n : Nat) (h : firstBad p l = some n) :
    (l.take n).all p = true ∧ ∃ b, l[n]? = some b ∧ p b = false := by
  induction l generalizing n with
  | nil => simp [firstBad] at h
  | cons b bs ih =>
    simp only [firstBad] at h
    split at h
    · rename_i hb
      cases hf : firstBad p bs with
      | none => simp [hf] at h
      | some m =>
        simp [hf] at h; subst h
        obtain ⟨h1, c, h2, h3⟩ := ih m hf
        exact ⟨by simp [List.take, hb, h1], c, by simpa using h2, h3⟩
    · rename_i hb
      simp at h; subst h
      exact ⟨by simp, b, by simp, by simpa using hb⟩

theorem C20_parse_rejects_empty : Tag.tryFrom [] = .error .empty := rfl

/-- any character the protocol cannot carry in a field name is rejected, at its position -/
theorem C20_parse_rejects_badchar (raw : Bytes) (hne : raw ≠ []) (hbad : raw.all isTagChar = false) :
    ∃ pos, Tag.tryFrom raw = .error (.invalidChar pos) ∧
      (raw.take pos).all isTagChar = true ∧ ∃ b, raw[pos]? = some b ∧ isTagChar b = false := by
  cases hf : firstBad isTagChar raw with
  | none => rw [firstBad_none_iff] at hf; simp [hf] at hbad
  | some pos =>
    refine ⟨pos, ?_, firstBad_some _ _ _ hf⟩
    cases raw with
    | nil => exact absurd rfl hne
    | cons b bs => simp [Tag.tryFrom, hf]

theorem C20_parse_accepts_iff (raw : Bytes) :
    (∃ t, Tag.tryFrom raw = .ok t) ↔ raw ≠ [] ∧ raw.all isTagChar = true := by
  cases raw with
  | nil => simp [Tag.tryFrom]
  | cons b bs =>
    cases hf : firstBad isTagChar (b :: bs) with
    | none =>
      have := (firstBad_none_iff _ _).mp hf
      simp only [Tag.tryFrom, hf, List.isEmpty_cons, Bool.false_eq_true, if_false]
      constructor
      · intro _; exact ⟨by simp, this⟩
      · intro _; split <;> exact ⟨_, rfl⟩
    | some pos =>
      have hall : (b :: bs).all isTagChar = false := by
        cases h : (b :: bs).all isTagChar with
        | false => rfl
        | true => rw [← firstBad_none_iff] at h; simp [h] at hf
      simp [Tag.tryFrom, hf, hall]

/-- lookup = first case-insensitive match in the table -/
theorem lookup_some (raw : Bytes) (tbl : List (String × TagV)) (v : TagV)
    (h : Tag.lookup raw tbl = some v) : ∃ p, (p, v) ∈ tbl ∧ eqIgnoreCase raw (str p) = true := by
  induction tbl with
  | nil => simp [Tag.lookup] at h
  | cons e rest ih =>
    obtain ⟨p, w⟩ := e
    simp only [Tag.lookup] at h
    split at h
    · rename_i hm; simp at h; subst h; exact ⟨p, by simp, hm⟩
    · obtain ⟨q, hq, hm⟩ := ih h; exact ⟨q, by simp [hq], hm⟩

theorem lookup_none (raw : Bytes) (tbl : List (String × TagV))
    (h : Tag.lookup raw tbl = none) : ∀ e ∈ tbl, eqIgnoreCase raw (str e.1) = false := by
  induction tbl with
  | nil => simp
  | cons e rest ih =>
    obtain ⟨p, w⟩ := e
    simp only [Tag.lookup] at h
    split at h
    · simp at h
    · rename_i hm
      intro e he
      simp only [List.mem_cons] at he
      rcases he with rfl | he
      · simpa using hm
      · exact ih h e he

/-- table facts, checked over the whole table by the kernel -/
theorem table_complete (v : TagV) : (v.nameStr, v) ∈ Tag.table := by
  have : ∀ v ∈ TagV.all, (v.nameStr, v) ∈ Tag.table := by decide
  exact this v (TagV.mem_all v)
theorem table_sound : ∀ e ∈ Tag.table, str e.1 = e.2.name := by decide
theorem names_ci_distinct (v w : TagV) : eqIgnoreCase v.name w.name = true → v = w := by
  have : ∀ v ∈ TagV.all, ∀ w ∈ TagV.all, eqIgnoreCase v.name w.name = true → v = w := by decide
  exact this v (TagV.mem_all v) w (TagV.mem_all w)
theorem names_valid (v : TagV) : v.name ≠ [] ∧ v.name.all isTagChar = true := by
  have : ∀ v ∈ TagV.all, v.name ≠ [] ∧ v.name.all isTagChar = true := by decide
  exact this v (TagV.mem_all v)

theorem forall_uint8 (P : UInt8 → Prop) (h : ∀ n, n < 256 → P (UInt8.ofNat n)) : ∀ a, P a := by
  intro a
  have := h a.toNat a.toNat_lt
  simpa using this

/-- the lower-cased image of a tag character -/
def lowTag (b : UInt8) : Bool := isLower b || b == USCORE || b == DASH

theorem lowTag_of_tagChar : ∀ b : UInt8, isTagChar b = true → lowTag (toLower b) = true := by
  apply forall_uint8; decide +kernel
theorem tagChar_of_lowTag : ∀ a : UInt8, lowTag (toLower a) = true → isTagChar a = true := by
  apply forall_uint8; decide +kernel

/-- a byte that lower-cases to the same value as a tag character is a tag character -/
theorem tagChar_of_toLower_eq (a b : UInt8) (h : toLower a = toLower b) (hb : isTagChar b = true) :
    isTagChar a = true :=
  tagChar_of_lowTag a (h ▸ lowTag_of_tagChar b hb)

theorem all_tagChar_of_ci (a b : Bytes) (h : eqIgnoreCase a b = true) (hb : b.all isTagChar = true) :
    a.all isTagChar = true := by
  induction a generalizing b with
  | nil => simp
  | cons x xs ih =>
    cases b with
    | nil => simp [eqIgnoreCase] at h
    | cons y ys =>
      simp only [eqIgnoreCase, Bool.and_eq_true, beq_iff_eq] at h
      simp only [List.all_cons, Bool.and_eq_true] at hb ⊢
      exact ⟨tagChar_of_toLower_eq x y h.1 hb.1, ih ys h.2 hb.2⟩

/-- parsing is case-insensitive for known names: any spelling of a named variant's protocol name
parses to exactly that variant -/
theorem C20_parse_known_case_insensitive (raw : Bytes) (v : TagV)
    (h : eqIgnoreCase raw v.name = true) : Tag.tryFrom raw = .ok (.named v) := by
  have hne : raw ≠ [] := by
    intro h0; subst h0
    have h1 := eqIgnoreCase_length h
    have h2 := (names_valid v).1
    cases hv : v.name with
    | nil => exact h2 hv
    | cons _ _ => rw [hv] at h1; simp at h1
  have hall := all_tagChar_of_ci raw v.name h (names_valid v).2
  have hfb := (firstBad_none_iff _ _).mpr hall
  cases hl : Tag.lookup raw Tag.table with
  | none =>
    have := lookup_none raw _ hl _ (table_complete v)
    rw [table_sound _ (table_complete v)] at this
    simp [h] at this
  | some w =>
    obtain ⟨p, hp, hm⟩ := lookup_some raw _ w hl
    have hpw := table_sound _ hp
    simp only at hpw
    rw [hpw] at hm
    have : eqIgnoreCase w.name v.name = true :=
      eqIgnoreCase_trans _ raw _ (by rw [eqIgnoreCase_symm]; exact hm) h
    have hwv := names_ci_distinct w v this
    subst hwv
    cases raw with
    | nil => exact absurd rfl hne
    | cons b bs => simp [Tag.tryFrom, hfb, hl]

/-- a valid candidate that is no spelling of a known name is preserved verbatim in the catch-all -/
theorem C20_parse_unknown_verbatim (raw : Bytes) (hne : raw ≠ []) (hall : raw.all isTagChar = true)
    (hunk : ∀ v : TagV, eqIgnoreCase raw v.name = false) : Tag.tryFrom raw = .ok (.other raw) := by
  have hfb := (firstBad_none_iff _ _).mpr hall
  cases hl : Tag.lookup raw Tag.table with
  | some w =>
    obtain ⟨p, hp, hm⟩ := lookup_some raw _ w hl
    have hpw := table_sound _ hp
    simp only at hpw
    rw [hpw, hunk w] at hm
    simp at hm
  | none =>
    cases raw with
    | nil => exact absurd rfl hne
    | cons b bs => simp [Tag.tryFrom, hfb, hl]

/-- every result of `tryFrom` is one of the two cases above (nothing else can come out) -/
theorem C20_parse_result (raw : Bytes) (t : Tag) (h : Tag.tryFrom raw = .ok t) :
    (∃ v, t = .named v ∧ eqIgnoreCase raw v.name = true) ∨
    (t = .other raw ∧ ∀ v : TagV, eqIgnoreCase raw v.name = false) := by
  have hacc := (C20_parse_accepts_iff raw).mp ⟨t, h⟩
  by_cases hk : ∃ v : TagV, eqIgnoreCase raw v.name = true
  · obtain ⟨v, hv⟩ := hk
    left
    rw [C20_parse_known_case_insensitive raw v hv] at h
    exact ⟨v, by simpa using h.symm, hv⟩
  · right
    have hunk : ∀ v : TagV, eqIgnoreCase raw v.name = false := by
      intro v
      cases hh : eqIgnoreCase raw v.name with
      | false => rfl
      | true => exact absurd ⟨v, hh⟩ hk
    rw [C20_parse_unknown_verbatim raw hacc.1 hacc.2 hunk] at h
    exact ⟨by simpa using h.symm, hunk⟩

/-- round trip: parsing the protocol name of any tag the API can produce (a named variant or a
result of `tryFrom`) gives back that very tag -/
theorem C20_roundtrip_named (v : TagV) : Tag.tryFrom (Tag.named v).name = .ok (.named v) :=
  C20_parse_known_case_insensitive _ v (eqIgnoreCase_refl _)

theorem C20_roundtrip_producible (raw : Bytes) (t : Tag) (h : Tag.tryFrom raw = .ok t) :
    Tag.tryFrom t.name = .ok t := by
  rcases C20_parse_result raw t h with ⟨v, rfl, _⟩ | ⟨rfl, _⟩
  · exact C20_roundtrip_named v
  · exact h

/-- exact characterisation for a hand-built catch-all (documented by the crate as unchecked):
the round trip yields an *equal* tag iff it is accepted at all and its text is not a differently
spelled known name -/
theorem C20_roundtrip_handbuilt (raw : Bytes) :
    (∃ t, Tag.tryFrom (Tag.other raw).name = .ok t ∧ t.eq (.other raw) = true) ↔
    (raw ≠ [] ∧ raw.all isTagChar = true ∧ ∀ v : TagV, eqIgnoreCase raw v.name = true → v.name = raw) := by
  constructor
  · rintro ⟨t, ht, heq⟩
    have hacc := (C20_parse_accepts_iff raw).mp ⟨t, ht⟩
    refine ⟨hacc.1, hacc.2, ?_⟩
    intro v hv
    have := C20_parse_known_case_insensitive raw v hv
    simp only [Tag.name] at ht
    rw [this] at ht
    have : t = .named v := by simpa using ht.symm
    subst this
    simpa [Tag.eq, Tag.name] using heq
  · rintro ⟨hne, hall, hk⟩
    by_cases hex : ∃ v : TagV, eqIgnoreCase raw v.name = true
    · obtain ⟨v, hv⟩ := hex
      exact ⟨.named v, C20_parse_known_case_insensitive raw v hv, by simp [Tag.eq, Tag.name, hk v hv]⟩
    · have hunk : ∀ v : TagV, eqIgnoreCase raw v.name = false := by
        intro v
        cases hh : eqIgnoreCase raw v.name with
        | false => rfl
        | true => exact absurd ⟨v, hh⟩ hex
      exact ⟨.other raw, C20_parse_unknown_verbatim raw hne hall hunk, by simp [Tag.eq]⟩

/-- the parser's field-name alphabet and the tag alphabet coincide (used by C12: a field name that
came out of the protocol parser is always an acceptable tag) -/
theorem tagChar_eq_fieldNameChar : isTagChar = Spec.fieldNameChar := rfl

/-! ## subsystems -/

theorem sub_lookup_some (raw : Bytes) (tbl : List (String × SubV)) (v : SubV)
    (h : Subsystem.lookup raw tbl = some v) : ∃ p, (p, v) ∈ tbl ∧ raw = str p := by
  induction tbl with
  | nil => simp [Subsystem.lookup] at h
  | cons e rest ih =>
    obtain ⟨p, w⟩ := e
    simp only [Subsystem.lookup] at h
    split at h
    · rename_i hm; simp at h; subst h; exact ⟨p, by simp, by simpa using hm⟩
    · obtain ⟨q, hq, hm⟩ := ih h; exact ⟨q, by simp [hq], hm⟩

theorem sub_table_sound : ∀ e ∈ Subsystem.table, str e.1 = e.2.name := by decide

/-- every subsystem name maps to a value whose protocol name is that name (unknown names are
preserved verbatim) -/
theorem C20_subsystem_name (raw : Bytes) : (Subsystem.fromName raw).name = raw := by
  unfold Subsystem.fromName
  cases h : Subsystem.lookup raw Subsystem.table with
  | none => rfl
  | some v =>
    obtain ⟨p, hp, rfl⟩ := sub_lookup_some raw _ v h
    exact (sub_table_sound _ hp).symm

/-- every named subsystem is reachable from its own name -/
theorem C20_subsystem_known (v : SubV) : Subsystem.fromName v.name = .named v := by
  have : ∀ v ∈ SubV.all, Subsystem.fromName v.name = .named v := by decide
  exact this v (SubV.mem_all v)

theorem C20_subsystem_eq_iff_name (a b : Subsystem) : a.eq b = true ↔ a.name = b.name := by
  simp [Subsystem.eq]

theorem C20_subsystem_hash_congr (a b : Subsystem) (h : a.eq b = true) : a.hashInput = b.hashInput := by
  simp [Subsystem.hashInput, (C20_subsystem_eq_iff_name a b).mp h]

theorem C20_subsystem_other_interchangeable (raw : Bytes) :
    (Subsystem.fromName raw).eq (.other raw) = true := by
  rw [C20_subsystem_eq_iff_name, C20_subsystem_name]; rfl

/-! ## non-vacuity -/
example : Tag.tryFrom (str "aLbUm") = .ok (.named .Album) :=
  C20_parse_known_case_insensitive _ _ (by decide)
example : Tag.tryFrom (str "x-custom") = .ok (.other (str "x-custom")) := by decide
example : (Tag.other (str "Album")).eq (.named .Album) = true := by decide
example : (Tag.other (str "album")).eq (.named .Album) = false := by decide
example : Subsystem.fromName (str "playlist") = .named .Queue := by decide

/-! ## `Tag::try_from` scans `char_indices()`: the bytewise model agrees on every string -/

theorem C20_scan_is_charwise (cs : List Nat) (h : ∀ c ∈ cs, Utf8.isScalar c = true) :
    firstBad isTagChar (Utf8.encodeStr cs) = Utf8.firstBadC Utf8.isTagCharC cs :=
  Utf8.firstBad_tag_encode cs (Utf8.chars_of_scalar cs h)

/-- non-vacuity: KELVIN SIGN (U+212A, three bytes) in `alKum` is refused at byte offset 2 -/
example : Utf8.firstBadC Utf8.isTagCharC [97, 108, 0x212A, 117, 109] = some 2 := by decide

end Mpd.C20
