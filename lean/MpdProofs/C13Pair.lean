import Mpd.Typed.CmdList
import Mpd.Client
/-!
# C13 (pairing half) — typed replies pair positionally

`responses` of `Vec<C>` and of tuples (after fix F4) hands the i-th frame of the reply to the
i-th command of the list, for every list length; an empty typed list sends nothing and yields the
empty result.
-/
namespace Mpd.C13
open Mpd Mpd.Typed

/-- what positional pairing means: the outcomes are the commands applied to the frames index-wise -/
def pairwise {ρ} (cmds : List (AFrame → Outcome ρ)) (frames : List AFrame) : List (Outcome ρ) :=
  List.zipWith (fun c f => c f) cmds frames

theorem zipResponses_ok {ρ} (cmds : List (AFrame → Outcome ρ)) (frames : List AFrame) (rs : List ρ)
    (hl : cmds.length = frames.length) (h : zipResponses cmds frames = .ok rs) :
    pairwise cmds frames = rs.map .ok := by
  induction cmds generalizing frames rs with
  | nil => cases frames <;> simp_all [zipResponses, pairwise]
  | cons c cs ih =>
    cases frames with
    | nil => simp at hl
    | cons f fs =>
      simp only [zipResponses] at h
      cases hc : c f with
      | ok r =>
        rw [hc] at h
        cases hz : zipResponses cs fs with
        | ok l =>
          rw [hz] at h
          simp only [Outcome.ok.injEq] at h
          subst h
          have := ih fs l (by simpa using hl) hz
          simp [pairwise, hc] at this ⊢
          exact this
        | terr => rw [hz] at h; simp at h
        | panic => rw [hz] at h; simp at h
      | terr => rw [hc] at h; simp at h
      | panic => rw [hc] at h; simp at h

/-- **Vec**: a successful typed result is, index by index, the i-th command's decoding of the
i-th frame; and the frame count must match -/
theorem C13_pair_vec {ρ} (cmds : List (AFrame → Outcome ρ)) (frames : List AFrame) (rs : List ρ)
    (h : vecResponses cmds frames = .ok rs) :
    cmds.length = frames.length ∧ pairwise cmds frames = rs.map .ok := by
  unfold vecResponses at h
  split at h
  · simp at h
  · rename_i hl
    have hl' : cmds.length = frames.length := by simpa using hl
    exact ⟨hl', zipResponses_ok cmds frames rs hl' h⟩

/-- conversely, if every command decodes its own frame, the list decodes to exactly those values -/
theorem C13_pair_vec_complete {ρ} (cmds : List (AFrame → Outcome ρ)) (frames : List AFrame) (rs : List ρ)
    (hl : cmds.length = frames.length) (h : pairwise cmds frames = rs.map .ok) :
    vecResponses cmds frames = .ok rs := by
  unfold vecResponses
  rw [if_neg (by simpa using hl)]
  induction cmds generalizing frames rs with
  | nil => cases frames <;> cases rs <;> simp_all [zipResponses, pairwise]
  | cons c cs ih =>
    cases frames with
    | nil => simp at hl
    | cons f fs =>
      cases rs with
      | nil => simp [pairwise] at h
      | cons r rest =>
        simp only [pairwise, List.zipWith_cons_cons, List.map_cons, List.cons.injEq] at h
        simp only [zipResponses, h.1]
        rw [ih fs rest (by simpa using hl) h.2]

/-- **tuples** (arity = number of commands): frames beyond the arity are ignored, fewer is an error -/
theorem C13_pair_tuple {ρ} (cmds : List (AFrame → Outcome ρ)) (frames : List AFrame) (rs : List ρ)
    (h : tupleResponses cmds frames = .ok rs) :
    cmds.length ≤ frames.length ∧ pairwise cmds frames = rs.map .ok := by
  induction cmds generalizing frames rs with
  | nil => simp_all [tupleResponses, pairwise]
  | cons c cs ih =>
    cases frames with
    | nil => simp [tupleResponses] at h
    | cons f fs =>
      simp only [tupleResponses] at h
      cases hc : c f with
      | ok r =>
        rw [hc] at h
        cases hz : tupleResponses cs fs with
        | ok l =>
          rw [hz] at h
          simp only [Outcome.ok.injEq] at h
          subst h
          obtain ⟨h1, h2⟩ := ih fs l hz
          exact ⟨by simp; omega, by simp [pairwise, hc] at h2 ⊢; exact h2⟩
        | terr => rw [hz] at h; simp at h
        | panic => rw [hz] at h; simp at h
      | terr => rw [hc] at h; simp at h
      | panic => rw [hc] at h; simp at h

/-- the client-level model used by the correspondence run (`Client::command_list` over echo
commands): the i-th item is built from the i-th name and the i-th frame -/
theorem C13_pair_client (isVec : Bool) (names : List Bytes) (frames : List AFrame) (items : List Bytes)
    (h : Client.typedResponses isVec names frames = some items) :
    names.length ≤ frames.length ∧ (isVec = true → names.length = frames.length) ∧
    items = List.zipWith (fun n f => n ++ [60] ++ ((f.find (str "line")).getD (str "?"))) names frames := by
  unfold Client.typedResponses at h
  split at h
  · simp at h
  · rename_i hv
    have key : ∀ (ns : List Bytes) (fs : List AFrame) (its : List Bytes),
        Client.typedResponses.go ns fs = some its →
        ns.length ≤ fs.length ∧ its = List.zipWith (fun n f => n ++ [60] ++ ((f.find (str "line")).getD (str "?"))) ns fs := by
      intro ns
      induction ns with
      | nil => intro fs its hg; simp [Client.typedResponses.go] at hg; simp [hg]
      | cons n rest ih =>
        intro fs its hg
        cases fs with
        | nil => simp [Client.typedResponses.go] at hg
        | cons f fs' =>
          simp only [Client.typedResponses.go, Client.echoResponse] at hg
          cases hr : Client.typedResponses.go rest fs' with
          | none => rw [hr] at hg; simp at hg
          | some l =>
            rw [hr] at hg
            simp only [Option.map_some, Option.some.injEq] at hg
            obtain ⟨h1, h2⟩ := ih fs' l hr
            exact ⟨by simp; omega, by rw [← hg, h2]; simp⟩
    obtain ⟨k1, k2⟩ := key names frames items h
    refine ⟨k1, ?_, k2⟩
    intro hv'
    simp only [hv', Bool.true_and, ne_eq, decide_not, Bool.not_eq_true', decide_eq_false_iff_not, Decidable.not_not] at hv
    exact hv

/-- an empty typed list writes nothing and yields the empty result (`Client::command_list`) -/
example (w : Client.World) (rid : Nat) (isVec : Bool) :
    (Client.apply w (.enqueueTyped rid isVec [])).st.queue = w.st.queue := by
  simp [Client.apply, Client.finish]

example : Client.typedResponses true [str "a", str "b"]
    [{ fields := [(str "line", str "1")] }, { fields := [(str "line", str "2")] }] = some [str "a<1", str "b<2"] := by
  decide +kernel

end Mpd.C13
