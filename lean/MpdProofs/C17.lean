import Mpd.Client
/-!
# C17 — album art is reassembled byte-exactly for any size and chunk limit

`Client.artNext` is the decision function of `Client::album_art` (what to request next / what to
return, given the decoded reply to the last request); the task-level model `Client.artStep`
executes exactly this function, so the theorems below are about what the correspondence run
exercises. `artRun` iterates it against a reply function and logs the requests.

For an honest server holding a picture of ANY size with ANY chunk limit ≥ 1 and either source:
the result is exactly the picture bytes with the MIME type the server gave (`C17_exact_embedded`,
`C17_exact_file`), every request goes to the same command at strictly increasing offsets that stay
below the size (`…_offsets`); the fall-back to the cover-file command happens exactly when the
embedded-picture command yields nothing or answers ACK 5 (`C17_fallback_iff`); absence of both is
reported as `None` (`C17_none`); any other error is propagated (`C17_error_propagated`).
The composition with concurrency (each request gets its own reply under every interleaving) is
C01. The real loop has no guard against zero-length chunks: `limit ≥ 1` is the hypothesis an
honest server satisfies.
-/
namespace Mpd.C17
open Mpd Mpd.Client

abbrev Decoded := Except CmdErr (Option (Nat × Option Bytes × Bytes))

/-- iterate `album_art` against a reply function; the log lists (embedded?, offset) per request -/
def artRun (ask : Bool → Nat → Decoded) : Nat → ArtDecision → Option Final × List (Bool × Nat)
  | 0, _ => (none, [])
  | _ + 1, .done r => (some r, [])
  | f + 1, .request emb off ph =>
    let (r, log) := artRun ask f (artNext ph (ask emb off))
    (r, (emb, off) :: log)

/-- the very first thing `album_art` does -/
def start : ArtDecision := .request true 0 .first

/-- an honest server's reply for a source holding `pic`, chunk limit `l` -/
def chunkAt (pic : Bytes) (mime : Option Bytes) (l off : Nat) : Decoded :=
  .ok (some (pic.length, mime, (pic.drop off).take l))

theorem take_append_chunk (pic : Bytes) (n l : Nat) :
    pic.take n ++ (pic.drop n).take l = pic.take (n + l) := by
  rw [List.take_add]

/-- the chunk loop: from `n` bytes already received to the whole picture -/
theorem loop_exact (ask : Bool → Nat → Decoded) (emb : Bool) (pic : Bytes) (mime mime' : Option Bytes) (l : Nat)
    (hl : 1 ≤ l) (hask : ∀ off, ask emb off = chunkAt pic mime' l off) :
    ∀ (k n fuel : Nat), pic.length - n ≤ k → n ≤ pic.length → k < fuel →
      (artRun ask fuel (artLoop emb pic.length mime (pic.take n))).1 = some (.art (some (pic, mime))) ∧
      ∀ eo ∈ (artRun ask fuel (artLoop emb pic.length mime (pic.take n))).2,
        eo.1 = emb ∧ n ≤ eo.2 ∧ eo.2 < pic.length := by
  intro k
  induction k with
  | zero =>
    intro n fuel hk hn hf
    have hnl : n = pic.length := by omega
    subst hnl
    cases fuel with
    | zero => omega
    | succ f => simp [artLoop, artRun]
  | succ k ih =>
    intro n fuel hk hn hf
    cases fuel with
    | zero => omega
    | succ f =>
      by_cases hlt : n < pic.length
      · have hlen : (pic.take n).length = n := by simp; omega
        simp only [artLoop, hlen, hlt, if_true, artRun, hask, chunkAt, artNext]
        rw [take_append_chunk]
        have hmin : pic.take (n + l) = pic.take (min (n + l) pic.length) := by
          simp [List.take_eq_take_iff]
        rw [hmin]
        have := ih (min (n + l) pic.length) f (by omega) (by omega) (by omega)
        refine ⟨this.1, ?_⟩
        intro eo heo
        simp only [List.mem_cons] at heo
        rcases heo with rfl | heo
        · exact ⟨rfl, Nat.le_refl _, hlt⟩
        · obtain ⟨h1, h2, h3⟩ := this.2 eo heo
          exact ⟨h1, by omega, h3⟩
      · have hnl : n = pic.length := by omega
        subst hnl
        simp [artLoop, artRun]

/-- offsets are strictly increasing along the whole run -/
theorem loop_increasing (ask : Bool → Nat → Decoded) (emb : Bool) (pic : Bytes) (mime mime' : Option Bytes) (l : Nat)
    (hl : 1 ≤ l) (hask : ∀ off, ask emb off = chunkAt pic mime' l off) :
    ∀ (k n fuel : Nat), pic.length - n ≤ k → n ≤ pic.length → k < fuel →
      ((artRun ask fuel (artLoop emb pic.length mime (pic.take n))).2.map (·.2)).Pairwise (· < ·) := by
  intro k
  induction k with
  | zero =>
    intro n fuel hk hn hf
    have hnl : n = pic.length := by omega
    subst hnl
    cases fuel with
    | zero => omega
    | succ f => simp [artLoop, artRun]
  | succ k ih =>
    intro n fuel hk hn hf
    cases fuel with
    | zero => omega
    | succ f =>
      by_cases hlt : n < pic.length
      · have hlen : (pic.take n).length = n := by simp; omega
        simp only [artLoop, hlen, hlt, if_true, artRun, hask, chunkAt, artNext]
        rw [take_append_chunk]
        have hmin : pic.take (n + l) = pic.take (min (n + l) pic.length) := by
          simp [List.take_eq_take_iff]
        rw [hmin]
        have h1 := ih (min (n + l) pic.length) f (by omega) (by omega) (by omega)
        have h2 := (loop_exact ask emb pic mime mime' l hl hask k (min (n + l) pic.length) f (by omega) (by omega) (by omega)).2
        simp only [List.map_cons, List.pairwise_cons]
        refine ⟨?_, h1⟩
        intro o ho
        simp only [List.mem_map] at ho
        obtain ⟨eo, heo, rfl⟩ := ho
        have := (h2 eo heo).2.1
        omega
      · have hnl : n = pic.length := by omega
        subst hnl
        simp [artLoop, artRun]

/-- **embedded picture present**: exact bytes and MIME type, requests only to `readpicture` -/
theorem C17_exact_embedded (ask : Bool → Nat → Decoded) (pic : Bytes) (mime : Option Bytes) (l : Nat)
    (hl : 1 ≤ l) (hask : ∀ off, ask true off = chunkAt pic mime l off) :
    (artRun ask (pic.length + 2) start).1 = some (.art (some (pic, mime))) ∧
    (∀ eo ∈ (artRun ask (pic.length + 2) start).2, eo.1 = true) ∧
    ((artRun ask (pic.length + 2) start).2.map (·.2)).Pairwise (· < ·) := by
  have hfirst : artNext .first (ask true 0) = artLoop true pic.length mime (pic.take (min l pic.length)) := by
    rw [hask]
    have : pic.take l = pic.take (min l pic.length) := by simp [List.take_eq_take_iff]
    simp [chunkAt, artNext, this]
  simp only [start, artRun, hfirst]
  have h1 := loop_exact ask true pic mime mime l hl hask pic.length (min l pic.length) (pic.length + 1) (by omega) (by omega) (by omega)
  have h2 := loop_increasing ask true pic mime mime l hl hask pic.length (min l pic.length) (pic.length + 1) (by omega) (by omega) (by omega)
  refine ⟨h1.1, ?_, ?_⟩
  · intro eo heo
    simp only [List.mem_cons] at heo
    rcases heo with rfl | heo
    · rfl
    · exact (h1.2 eo heo).1
  · simp only [List.map_cons, List.pairwise_cons]
    refine ⟨?_, h2⟩
    intro o ho
    simp only [List.mem_map] at ho
    obtain ⟨eo, heo, rfl⟩ := ho
    have := (h1.2 eo heo).2
    by_cases hp : pic.length = 0
    · omega
    · omega

/-- the fall-back happens exactly when `readpicture` yields nothing or is unknown (ACK 5) -/
theorem C17_fallback_iff (d : Decoded) :
    artNext .first d = .request false 0 .fallback ↔
      d = .ok none ∨ ∃ e fs, d = .error (.errorResponse e fs) ∧ e.code = 5 := by
  cases d with
  | ok o =>
    cases o with
    | none => simp [artNext]
    | some x =>
      obtain ⟨size, mime, data⟩ := x
      simp [artNext, artLoop]
      split <;> simp
  | error e =>
    cases e with
    | errorResponse e fs =>
      simp only [artNext]
      by_cases h5 : e.code = 5
      · simp [h5]
      · have : (e.code == 5) = false := by simpa using h5
        simp [this, h5]
    | closed => simp [artNext]
    | protocol p => simp [artNext]
    | invalidTyped => simp [artNext]

/-- **cover file after fall-back**: exact bytes, no MIME type, all further requests to `albumart` -/
theorem C17_exact_file (ask : Bool → Nat → Decoded) (pic : Bytes) (mime' : Option Bytes) (l : Nat)
    (hl : 1 ≤ l) (hfb : artNext .first (ask true 0) = .request false 0 .fallback)
    (hask : ∀ off, ask false off = chunkAt pic mime' l off) :
    (artRun ask (pic.length + 3) start).1 = some (.art (some (pic, none))) := by
  have hsecond : artNext .fallback (ask false 0) = artLoop false pic.length none (pic.take (min l pic.length)) := by
    rw [hask]
    have : pic.take l = pic.take (min l pic.length) := by simp [List.take_eq_take_iff]
    simp [chunkAt, artNext, this]
  simp only [start, artRun, hfb, hsecond]
  exact (loop_exact ask false pic none mime' l hl hask pic.length (min l pic.length) (pic.length + 1) (by omega) (by omega) (by omega)).1

/-- neither source has data: absence is reported -/
theorem C17_none (ask : Bool → Nat → Decoded)
    (hfb : artNext .first (ask true 0) = .request false 0 .fallback) (hfile : ask false 0 = .ok none) :
    artRun ask 3 start = (some (.art none), [(true, 0), (false, 0)]) := by
  simp only [start, artRun, hfb, hfile]
  simp [artNext, artRun]

/-- any other server error is propagated to the caller, at whatever request it occurs -/
theorem C17_error_propagated (ph : ArtPhase) (e : CmdErr)
    (hne : ∀ er fs, e = .errorResponse er fs → ph = .first → er.code ≠ 5) :
    artNext ph (.error e) = .done (.err e) := by
  cases ph with
  | first =>
    cases e with
    | errorResponse er fs =>
      have := hne er fs rfl rfl
      have h5 : (er.code == 5) = false := by simpa using this
      simp [artNext, h5]
    | closed => rfl
    | protocol p => rfl
    | invalidTyped => rfl
  | fallback => rfl
  | more emb ex mime out => rfl

/-! ## the same for a chunk limit that VARIES from request to request

A server may answer any request with a shorter chunk than the one before (`binarylimit` lowered by
another client in mid-download; a short read from a network mount). `l off` is the limit in force
when the chunk at offset `off` is requested (offsets strictly increase, so each is asked once):
any function with `1 ≤ l off`. -/

/-- an honest server's reply when the chunk limit at offset `off` is `l off` -/
def chunkAtV (pic : Bytes) (mime : Option Bytes) (l : Nat → Nat) (off : Nat) : Decoded :=
  .ok (some (pic.length, mime, (pic.drop off).take (l off)))

/-- the chunk loop: from `n` bytes already received to the whole picture -/
theorem loop_exact_v (ask : Bool → Nat → Decoded) (emb : Bool) (pic : Bytes) (mime mime' : Option Bytes) (l : Nat → Nat)
    (hl : ∀ off, 1 ≤ l off) (hask : ∀ off, ask emb off = chunkAtV pic mime' l off) :
    ∀ (k n fuel : Nat), pic.length - n ≤ k → n ≤ pic.length → k < fuel →
      (artRun ask fuel (artLoop emb pic.length mime (pic.take n))).1 = some (.art (some (pic, mime))) ∧
      ∀ eo ∈ (artRun ask fuel (artLoop emb pic.length mime (pic.take n))).2,
        eo.1 = emb ∧ n ≤ eo.2 ∧ eo.2 < pic.length := by
  intro k
  induction k with
  | zero =>
    intro n fuel hk hn hf
    have hnl : n = pic.length := by omega
    subst hnl
    cases fuel with
    | zero => omega
    | succ f => simp [artLoop, artRun]
  | succ k ih =>
    intro n fuel hk hn hf
    cases fuel with
    | zero => omega
    | succ f =>
      by_cases hlt : n < pic.length
      · have hlen : (pic.take n).length = n := by simp; omega
        simp only [artLoop, hlen, hlt, if_true, artRun, hask, chunkAtV, artNext]
        rw [take_append_chunk]
        have hmin : pic.take (n + l n) = pic.take (min (n + l n) pic.length) := by
          simp [List.take_eq_take_iff]
        rw [hmin]
        have := ih (min (n + l n) pic.length) f (by have := hl n; omega) (by omega) (by omega)
        refine ⟨this.1, ?_⟩
        intro eo heo
        simp only [List.mem_cons] at heo
        rcases heo with rfl | heo
        · exact ⟨rfl, Nat.le_refl _, hlt⟩
        · obtain ⟨h1, h2, h3⟩ := this.2 eo heo
          exact ⟨h1, by omega, h3⟩
      · have hnl : n = pic.length := by omega
        subst hnl
        simp [artLoop, artRun]

/-- offsets are strictly increasing along the whole run -/
theorem loop_increasing_v (ask : Bool → Nat → Decoded) (emb : Bool) (pic : Bytes) (mime mime' : Option Bytes) (l : Nat → Nat)
    (hl : ∀ off, 1 ≤ l off) (hask : ∀ off, ask emb off = chunkAtV pic mime' l off) :
    ∀ (k n fuel : Nat), pic.length - n ≤ k → n ≤ pic.length → k < fuel →
      ((artRun ask fuel (artLoop emb pic.length mime (pic.take n))).2.map (·.2)).Pairwise (· < ·) := by
  intro k
  induction k with
  | zero =>
    intro n fuel hk hn hf
    have hnl : n = pic.length := by omega
    subst hnl
    cases fuel with
    | zero => omega
    | succ f => simp [artLoop, artRun]
  | succ k ih =>
    intro n fuel hk hn hf
    cases fuel with
    | zero => omega
    | succ f =>
      by_cases hlt : n < pic.length
      · have hlen : (pic.take n).length = n := by simp; omega
        simp only [artLoop, hlen, hlt, if_true, artRun, hask, chunkAtV, artNext]
        rw [take_append_chunk]
        have hmin : pic.take (n + l n) = pic.take (min (n + l n) pic.length) := by
          simp [List.take_eq_take_iff]
        rw [hmin]
        have h1 := ih (min (n + l n) pic.length) f (by have := hl n; omega) (by omega) (by omega)
        have h2 := (loop_exact_v ask emb pic mime mime' l hl hask k (min (n + l n) pic.length) f (by have := hl n; omega) (by omega) (by omega)).2
        simp only [List.map_cons, List.pairwise_cons]
        refine ⟨?_, h1⟩
        intro o ho
        simp only [List.mem_map] at ho
        obtain ⟨eo, heo, rfl⟩ := ho
        have := (h2 eo heo).2.1
        have := hl n
        omega
      · have hnl : n = pic.length := by omega
        subst hnl
        simp [artLoop, artRun]

/-- **embedded picture present**: exact bytes and MIME type, requests only to `readpicture` -/
theorem C17_exact_embedded_varying (ask : Bool → Nat → Decoded) (pic : Bytes) (mime : Option Bytes) (l : Nat → Nat)
    (hl : ∀ off, 1 ≤ l off) (hask : ∀ off, ask true off = chunkAtV pic mime l off) :
    (artRun ask (pic.length + 2) start).1 = some (.art (some (pic, mime))) ∧
    (∀ eo ∈ (artRun ask (pic.length + 2) start).2, eo.1 = true) ∧
    ((artRun ask (pic.length + 2) start).2.map (·.2)).Pairwise (· < ·) := by
  have hfirst : artNext .first (ask true 0) = artLoop true pic.length mime (pic.take (min (l 0) pic.length)) := by
    rw [hask]
    have : pic.take (l 0) = pic.take (min (l 0) pic.length) := by simp [List.take_eq_take_iff]
    simp [chunkAtV, artNext, this]
  simp only [start, artRun, hfirst]
  have h1 := loop_exact_v ask true pic mime mime l hl hask pic.length (min (l 0) pic.length) (pic.length + 1) (by omega) (by omega) (by omega)
  have h2 := loop_increasing_v ask true pic mime mime l hl hask pic.length (min (l 0) pic.length) (pic.length + 1) (by omega) (by omega) (by omega)
  refine ⟨h1.1, ?_, ?_⟩
  · intro eo heo
    simp only [List.mem_cons] at heo
    rcases heo with rfl | heo
    · rfl
    · exact (h1.2 eo heo).1
  · simp only [List.map_cons, List.pairwise_cons]
    refine ⟨?_, h2⟩
    intro o ho
    simp only [List.mem_map] at ho
    obtain ⟨eo, heo, rfl⟩ := ho
    have := (h1.2 eo heo).2
    have := hl 0
    by_cases hp : pic.length = 0
    · omega
    · omega

/-- **cover file after fall-back**: exact bytes, no MIME type, all further requests to `albumart` -/
theorem C17_exact_file_varying (ask : Bool → Nat → Decoded) (pic : Bytes) (mime' : Option Bytes) (l : Nat → Nat)
    (hl : ∀ off, 1 ≤ l off) (hfb : artNext .first (ask true 0) = .request false 0 .fallback)
    (hask : ∀ off, ask false off = chunkAtV pic mime' l off) :
    (artRun ask (pic.length + 3) start).1 = some (.art (some (pic, none))) := by
  have hsecond : artNext .fallback (ask false 0) = artLoop false pic.length none (pic.take (min (l 0) pic.length)) := by
    rw [hask]
    have : pic.take (l 0) = pic.take (min (l 0) pic.length) := by simp [List.take_eq_take_iff]
    simp [chunkAtV, artNext, this]
  simp only [start, artRun, hfb, hsecond]
  exact (loop_exact_v ask false pic none mime' l hl hask pic.length (min (l 0) pic.length) (pic.length + 1) (by omega) (by omega) (by omega)).1

/-- non-vacuity: 20 bytes served as 8 + 3 + 8 + 1 (a short read in the middle) -/
example : artRun (fun _ off => chunkAtV (str "ABCDEFGHIJKLMNOPQRST") none (fun o => if o == 8 then 3 else 8) off) 22 start =
    (some (.art (some (str "ABCDEFGHIJKLMNOPQRST", none))), [(true, 0), (true, 8), (true, 11), (true, 19)]) := by
  decide +kernel

/-! ## non-vacuity: 7 bytes in chunks of 3 -/
example : artRun (fun _ off => chunkAt (str "ABCDEFG") (some (str "image/png")) 3 off) 9 start =
    (some (.art (some (str "ABCDEFG", some (str "image/png")))), [(true, 0), (true, 3), (true, 6)]) := by
  decide +kernel

end Mpd.C17
