import MpdProofs.Lemmas.Wire
import MpdProofs.Lemmas.Parser
import MpdProofs.Lemmas.Conn
/-!
# C18 — handshake (greeting part)

Connecting succeeds exactly when the peer's first line is a valid greeting `OK MPD <version>\n`
(version non-empty UTF-8), however the bytes are segmented, and reports the version verbatim;
a complete first line that is not a valid greeting yields the invalid-message error; a stream that
ends inside a so-far-valid greeting yields unexpected-EOF. Async connection; the blocking one
differs only in the read sizes (same `greeting` calls on growing prefixes).
The password dialogue is in `MpdProofs/C18Password.lean` (client level).
-/
namespace Mpd.C18
open Mpd Mpd.Parser Mpd.Conn

theorem all_ne_LF (v : Bytes) : v.all (fun b => b != LF) = true ↔ LF ∉ v := all_ne_LF_iff v

/-- the greeting grammar, exactly -/
theorem greeting_ok_iff (i v r : Bytes) :
    greeting i = .ok v r ↔ v ≠ [] ∧ LF ∉ v ∧ validUtf8 v = true ∧ i = str "OK MPD " ++ v ++ LF :: r := by
  unfold greeting
  rw [preceded_ok_iff]
  constructor
  · rintro ⟨_, r1, h1, h2⟩
    rw [tag_ok_iff] at h1
    rw [terminated_ok_iff] at h2
    obtain ⟨r2, _, h2, h3⟩ := h2
    rw [mapRes_ok_iff] at h2
    obtain ⟨v', h2, hu⟩ := h2
    rw [utf8_eq_some] at hu
    obtain ⟨hu, rfl⟩ := hu
    rw [takeWhile1_ok_iff] at h2
    rw [char_ok_iff] at h3
    obtain ⟨hne, hall, hi, _⟩ := h2
    exact ⟨hne, (all_ne_LF v).mp hall, hu, by simp only [h1, hi, h3, List.append_assoc]⟩
  · rintro ⟨hne, hlf, hu, rfl⟩
    refine ⟨(), v ++ LF :: r, (tag_ok_iff _ _ _).mpr (by simp [List.append_assoc]), ?_⟩
    rw [terminated_ok_iff]
    refine ⟨LF :: r, (), ?_, (char_ok_iff _ _ _).mpr rfl⟩
    rw [mapRes_ok_iff]
    exact ⟨v, (takeWhile1_ok_iff _ _ _ _).mpr ⟨hne, (all_ne_LF v).mpr hlf, rfl, LF, r, rfl, by decide⟩,
      (utf8_eq_some _ _).mpr ⟨hu, rfl⟩⟩

/-- a proper prefix of an input a stable parser accepts completely is `incomplete` -/
theorem prefix_incomplete {α} (f : P α) (hs : Stable f) (p q : Bytes) (v : α) (r : Bytes)
    (hfull : f (p ++ q) = .ok v r) (hlen : r.length < q.length) : f p = .incomplete := by
  obtain ⟨s1, s2, s3⟩ := hs p q
  cases h : f p with
  | ok v' r' =>
    have := s1 v' r' h
    rw [hfull] at this
    simp only [Res.ok.injEq] at this
    have := congrArg List.length this.2
    simp at this
    omega
  | incomplete => rfl
  | error => rw [s2 h] at hfull; simp at hfull
  | failure => rw [s3 h] at hfull; simp at hfull

def greetingLine (v : Bytes) : Bytes := str "OK MPD " ++ v ++ [LF]

/-- invariant of the connect loop on a stream that starts with a valid greeting -/
theorem connectA_accepts (v tl buf : Bytes) (chunks : List Bytes) (term : Term)
    (hne : NonEmptyChunks chunks) (hv : v ≠ []) (hlf : LF ∉ v) (hu : validUtf8 v = true)
    (hflat : buf ++ chunks.flatten = greetingLine v ++ tl) (hinc : greeting buf = .incomplete) :
    (connectA buf chunks term).1 = .ok v := by
  have hfull : greeting (greetingLine v ++ tl) = .ok v tl :=
    (greeting_ok_iff _ _ _).mpr ⟨hv, hlf, hu, by simp [greetingLine, List.append_assoc]⟩
  induction chunks generalizing buf with
  | nil =>
    simp only [List.flatten_nil, List.append_nil] at hflat
    rw [hflat, hfull] at hinc
    simp at hinc
  | cons c cs ih =>
    have hc : c ≠ [] := hne c (by simp)
    have hcs : NonEmptyChunks cs := fun x hx => hne x (by simp [hx])
    rw [connectA]
    have hce : c.isEmpty = false := by cases c <;> simp_all
    simp only [hce, Bool.false_eq_true, if_false]
    have hflat' : (buf ++ c) ++ cs.flatten = greetingLine v ++ tl := by
      simpa [List.append_assoc] using hflat
    obtain ⟨s1, s2, s3⟩ := greeting_stable (buf ++ c) cs.flatten
    cases hg : greeting (buf ++ c) with
    | ok v' r' =>
      have := s1 v' r' hg
      rw [hflat', hfull] at this
      simp only [Res.ok.injEq] at this
      simp [this.1]
    | incomplete => exact ih (buf ++ c) hcs hflat' hg
    | error => have := s2 hg; rw [hflat', hfull] at this; simp at this
    | failure => have := s3 hg; rw [hflat', hfull] at this; simp at this

/-- **C18 (accept)**: a stream whose first line is a valid greeting connects, whatever the
segmentation, and reports the version verbatim -/
theorem C18_greeting_accept (v tl : Bytes) (chunks : List Bytes) (term : Term)
    (hne : NonEmptyChunks chunks) (hv : v ≠ []) (hlf : LF ∉ v) (hu : validUtf8 v = true)
    (hflat : chunks.flatten = greetingLine v ++ tl) :
    (connectA [] chunks term).1 = .ok v :=
  connectA_accepts v tl [] chunks term hne hv hlf hu (by simpa using hflat) (by decide)

/-- **C18 (only if)**: connecting succeeds only if the bytes read so far start with a valid
greeting line, and the reported version is the one on the wire -/
theorem C18_greeting_sound (buf : Bytes) (chunks : List Bytes) (term : Term) (v : Bytes)
    (h : (connectA buf chunks term).1 = .ok v) :
    ∃ rest, buf ++ chunks.flatten = greetingLine v ++ rest ∧ v ≠ [] ∧ LF ∉ v ∧ validUtf8 v = true := by
  induction chunks generalizing buf with
  | nil => unfold connectA at h; cases term <;> simp at h
  | cons c cs ih =>
    rw [connectA] at h
    by_cases hce : c.isEmpty = true
    · simp [hce] at h
    · simp only [hce, Bool.false_eq_true, if_false] at h
      cases hg : greeting (buf ++ c) with
      | ok v' r' =>
        rw [hg] at h
        simp only [ConnectResult.ok.injEq] at h
        subst h
        rw [greeting_ok_iff] at hg
        obtain ⟨h1, h2, h3, h4⟩ := hg
        refine ⟨r' ++ cs.flatten, ?_, h1, h2, h3⟩
        simp only [List.flatten_cons, ← List.append_assoc, h4, greetingLine]
        simp [List.append_assoc]
      | incomplete =>
        rw [hg] at h
        obtain ⟨rest, h1, h2⟩ := ih (buf ++ c) h
        exact ⟨rest, by simpa [List.append_assoc] using h1, h2⟩
      | error => rw [hg] at h; simp at h
      | failure => rw [hg] at h; simp at h

/-- **C18/C10 (EOF inside the greeting)**: a stream that ends inside an otherwise valid greeting
line is an unexpected-EOF error, at every cut position and under every segmentation -/
theorem C18_greeting_eof (v g q : Bytes) (chunks : List Bytes)
    (hne : NonEmptyChunks chunks) (hv : v ≠ []) (hlf : LF ∉ v) (hu : validUtf8 v = true)
    (hcut : greetingLine v = g ++ q) (hq : q ≠ []) (buf : Bytes)
    (hflat : buf ++ chunks.flatten = g) :
    (connectA buf chunks .eof).1 = .unexpectedEof := by
  have hfull : greeting (greetingLine v) = .ok v [] := by
    have := (greeting_ok_iff (greetingLine v ++ []) v []).mpr ⟨hv, hlf, hu, by simp [greetingLine, List.append_assoc]⟩
    simpa using this
  induction chunks generalizing buf with
  | nil => rw [connectA]
  | cons c cs ih =>
    have hc : c ≠ [] := hne c (by simp)
    have hcs : NonEmptyChunks cs := fun x hx => hne x (by simp [hx])
    rw [connectA]
    have hce : c.isEmpty = false := by cases c <;> simp_all
    simp only [hce, Bool.false_eq_true, if_false]
    -- buf ++ c is a proper prefix of the greeting line, hence incomplete
    have hpre : greetingLine v = (buf ++ c) ++ (cs.flatten ++ q) := by
      rw [hcut, ← hflat]; simp [List.append_assoc]
    have hinc : greeting (buf ++ c) = .incomplete :=
      prefix_incomplete greeting greeting_stable (buf ++ c) (cs.flatten ++ q) v []
        (by rw [← hpre]; exact hfull) (by
          have : 0 < q.length := List.length_pos_iff.mpr hq
          simp; omega)
    rw [hinc]
    exact ih hcs (buf ++ c) (by rw [← hflat]; simp [List.append_assoc])

/-! ### a complete first line that is not a valid greeting is rejected -/

theorem greeting_incomplete_noLF (i : Bytes) (h : greeting i = .incomplete) : LF ∉ i := by
  unfold greeting preceded andThen at h
  cases ht : tag (str "OK MPD ") i with
  | ok u r1 =>
    rw [ht] at h
    simp only at h
    rw [tag_ok_iff] at ht
    unfold terminated andThen at h
    cases hm : mapRes (takeWhile1 fun x => x != LF) utf8 r1 with
    | ok v r2 =>
      rw [hm] at h
      simp only at h
      rw [mapRes_ok_iff] at hm
      obtain ⟨v', hm, _⟩ := hm
      rw [takeWhile1_ok_iff] at hm
      obtain ⟨_, _, _, b, r', hr, hb⟩ := hm
      have hbl : b = LF := by simpa using hb
      rw [hr, hbl] at h
      simp [pMap, char] at h
    | incomplete =>
      -- the run reached the end of the input: no LF in it
      have hr1 : LF ∉ r1 := by
        unfold mapRes at hm
        cases htw : takeWhile1 (fun x => x != LF) r1 with
        | ok v r2 => rw [htw] at hm; simp only at hm; split at hm <;> simp at hm
        | error => rw [htw] at hm; simp at hm
        | failure => rw [htw] at hm; simp at hm
        | incomplete =>
          clear hm h ht
          induction r1 with
          | nil => simp
          | cons b bs ih =>
            simp only [takeWhile1] at htw
            split at htw
            · rename_i hb
              cases h2 : takeWhile1 (fun x => x != LF) bs with
              | ok _ _ => rw [h2] at htw; simp at htw
              | incomplete =>
                have := ih h2
                simp only [List.mem_cons, not_or]
                exact ⟨fun h => by simp [← h] at hb, this⟩
              | error => rw [h2] at htw; simp at htw
              | failure => rw [h2] at htw; simp at htw
            · simp at htw
      rw [ht]
      simp only [List.mem_append, not_or]
      exact ⟨by decide, hr1⟩
    | error => rw [hm] at h; simp at h
    | failure => rw [hm] at h; simp at h
  | incomplete =>
    obtain ⟨s, hs⟩ := tag_incomplete_imp _ _ ht
    intro hmem
    have : LF ∈ str "OK MPD " := by rw [hs]; simp [hmem]
    exact absurd this (by decide)
  | error => rw [ht] at h; simp at h
  | failure => rw [ht] at h; simp at h

/-- **C18 (reject)**: if the first line is complete and is not `OK MPD <non-empty utf8>`, connect
reports the invalid-message error, under every segmentation -/
theorem C18_greeting_reject (l tl buf : Bytes) (chunks : List Bytes) (term : Term)
    (hne : NonEmptyChunks chunks) (hl : LF ∉ l)
    (hbad : ¬ ∃ v, l = str "OK MPD " ++ v ∧ v ≠ [] ∧ validUtf8 v = true)
    (hflat : buf ++ chunks.flatten = l ++ LF :: tl)
    (hinc : greeting buf = .incomplete) :
    (connectA buf chunks term).1 = .invalid := by
  -- the whole stream is not accepted, and (containing an LF) not incomplete either
  have hnotok : ∀ v r, greeting (l ++ LF :: tl) ≠ .ok v r := by
    intro v r hok
    rw [greeting_ok_iff] at hok
    obtain ⟨h1, h2, h3, h4⟩ := hok
    apply hbad
    refine ⟨v, ?_, h1, h3⟩
    -- both sides split at their first LF
    have key : ∀ (a b x y : Bytes), LF ∉ a → LF ∉ b → a ++ LF :: x = b ++ LF :: y → a = b := by
      intro a
      induction a with
      | nil =>
        intro b x y _ hb h
        cases b with
        | nil => rfl
        | cons c cs =>
          simp only [List.nil_append, List.cons_append, List.cons.injEq] at h
          exact absurd (by simp [h.1]) hb
      | cons a as ih =>
        intro b x y ha hb h
        cases b with
        | nil =>
          simp only [List.nil_append, List.cons_append, List.cons.injEq] at h
          exact absurd (by simp [h.1]) ha
        | cons c cs =>
          simp only [List.cons_append, List.cons.injEq] at h
          simp only [List.mem_cons, not_or] at ha hb
          rw [h.1, ih cs x y ha.2 hb.2 h.2]
    have hl2 : LF ∉ str "OK MPD " ++ v := by
      simp only [List.mem_append, not_or]; exact ⟨by decide, h2⟩
    exact key l (str "OK MPD " ++ v) tl r hl hl2 (by rw [h4, List.append_assoc])
  induction chunks generalizing buf with
  | nil =>
    simp only [List.flatten_nil, List.append_nil] at hflat
    have hno := greeting_incomplete_noLF buf hinc
    exact absurd (show LF ∈ l ++ LF :: tl by simp) (hflat ▸ hno)
  | cons c cs ih =>
    have hc : c ≠ [] := hne c (by simp)
    have hcs : NonEmptyChunks cs := fun x hx => hne x (by simp [hx])
    rw [connectA]
    have hce : c.isEmpty = false := by cases c <;> simp_all
    simp only [hce, Bool.false_eq_true, if_false]
    have hflat' : (buf ++ c) ++ cs.flatten = l ++ LF :: tl := by simpa [List.append_assoc] using hflat
    obtain ⟨s1, _, _⟩ := greeting_stable (buf ++ c) cs.flatten
    cases hg : greeting (buf ++ c) with
    | ok v' r' => have := s1 v' r' hg; rw [hflat'] at this; exact absurd this (hnotok _ _)
    | incomplete => exact ih (buf ++ c) hcs hflat' hg
    | error => rfl
    | failure => rfl

/-! ## non-vacuity -/
example : (connectA [] [str "OK M", str "PD 0.2", str "3.5\nOK\n"] .eof).1 = .ok (str "0.23.5") :=
  C18_greeting_accept (str "0.23.5") (str "OK\n") _ .eof
    (by intro c hc; simp only [List.mem_cons, List.mem_nil_iff, or_false] at hc; rcases hc with rfl | rfl | rfl <;> decide +kernel)
    (by decide +kernel) (by decide +kernel) (by decide +kernel) (by decide +kernel)

/-! ## a peer that is not MPD is rejected at once

`connect` does not wait for a line end: as soon as what has arrived can no longer be the beginning of
a greeting, the very read that brought it ends the call with the invalid-message error, and nothing
further is read (seeded change C18_m24 made it wait for a newline that never comes). -/

theorem C18_reject_without_waiting (buf c : Bytes) (cs : List Bytes) (term : Term) (hc : c.isEmpty = false)
    (hinc : greeting (buf ++ c) ≠ .incomplete) (hok : ∀ v r, greeting (buf ++ c) ≠ .ok v r) :
    connectA buf (c :: cs) term = (.invalid, cs) := by
  rw [connectA]
  simp only [hc]
  cases hg : greeting (buf ++ c) with
  | ok v r => exact absurd hg (hok v r)
  | incomplete => exact absurd hg hinc
  | error => rfl
  | failure => rfl

/-- a telnet negotiation, an FTP banner, a near miss: none contains a line end, all are refused by the
read that delivers them, whatever the script holds afterwards -/
example : (connectA [] [[0xff, 0xfb, 0x01], str "never read"] .eof) = (.invalid, [str "never read"]) ∧
    (connectA [] [str "220 ProFTPD Server ready"] (.ioerr 2)).1 = .invalid ∧
    (connectA [] [str "OK M", str "PX"] .eof).1 = .invalid := by decide +kernel

end Mpd.C18
