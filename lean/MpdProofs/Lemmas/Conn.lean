import Mpd.Conn
import MpdProofs.Lemmas.Builder
/-!
# One `receive()` call is independent of how the bytes arrive

`recvAll σ s term`: the outcome of a receive call when the whole remaining stream `s` is available
at once. Both the async loop (`recvLoopA`) and the blocking loop with its fixed, doubling buffer
(`recvLoopS`) compute exactly this, whatever the chunking.
-/
namespace Mpd.Conn
open Mpd Mpd.Parser Mpd.Builder

def recvAll (σ : BState) (s : Bytes) (term : Term) : Item × Bytes :=
  match feed σ s with
  | (_, rest, .done r) => (.resp r, rest)
  | (_, rest, .invalid) => (.invalid, rest)
  | (_, rest, .panic) => (.panic, rest)
  | (σ', rest, .pending) => (termItem term σ' rest, rest)

def NonEmptyChunks (cs : List Bytes) : Prop := ∀ c ∈ cs, c ≠ []

theorem recvAll_pending (σ : BState) (buf q : Bytes) (term : Term)
    (h : (feed σ buf).2.2 = .pending) :
    recvAll σ (buf ++ q) term = recvAll (feed σ buf).1 ((feed σ buf).2.1 ++ q) term := by
  unfold recvAll
  rw [feed_pending_append σ buf q h]

theorem recvAll_final (σ : BState) (buf q : Bytes) (term : Term)
    (h : (feed σ buf).2.2 ≠ .pending) :
    recvAll σ (buf ++ q) term = ((recvAll σ buf term).1, (recvAll σ buf term).2 ++ q) := by
  unfold recvAll
  rw [feed_final_append σ buf q h]
  rcases hf : feed σ buf with ⟨σ', rest, out⟩
  rw [hf] at h
  cases out <;> simp_all

/-- **async**: the receive loop equals the whole-stream call; what it leaves (buffer + unread
chunks) is what the whole-stream call leaves -/
theorem recvLoopA_eq (σ : BState) (buf : Bytes) (chunks : List Bytes) (term : Term)
    (hne : NonEmptyChunks chunks) :
    let res := recvLoopA σ buf chunks term
    (res.1, res.2.1 ++ res.2.2.1.flatten) = recvAll σ (buf ++ chunks.flatten) term ∧
    NonEmptyChunks res.2.2.1 := by
  induction chunks generalizing σ buf with
  | nil =>
    unfold recvLoopA recvAll
    rcases hf : feed σ buf with ⟨σ', rest, out⟩
    cases out <;> simp [hf, NonEmptyChunks]
  | cons c cs ih =>
    have hc : c ≠ [] := hne c (by simp)
    have hcs : NonEmptyChunks cs := fun x hx => hne x (by simp [hx])
    by_cases hp : (feed σ buf).2.2 = .pending
    · -- pending: append the chunk and continue
      have hstep : recvLoopA σ buf (c :: cs) term = recvLoopA (feed σ buf).1 ((feed σ buf).2.1 ++ c) cs term := by
        rw [recvLoopA]
        rcases hf : feed σ buf with ⟨σ', rest, out⟩
        rw [hf] at hp
        simp only at hp
        subst hp
        simp [hc]
      rw [hstep]
      have := ih (feed σ buf).1 ((feed σ buf).2.1 ++ c) hcs
      simp only [List.flatten_cons]
      rw [recvAll_pending σ buf (c ++ cs.flatten) term hp, ← List.append_assoc]
      exact this
    · -- final: nothing is read
      have hstep : recvLoopA σ buf (c :: cs) term = ((recvAll σ buf term).1, (recvAll σ buf term).2, c :: cs, (feed σ buf).1) := by
        rw [recvLoopA]
        unfold recvAll
        rcases hf : feed σ buf with ⟨σ', rest, out⟩
        rw [hf] at hp
        cases out <;> simp_all
      rw [hstep]
      exact ⟨by rw [recvAll_final σ buf _ term hp], hne⟩

/-! ### blocking -/

theorem readChunk_spec (space : Nat) (c : Bytes) (cs : List Bytes) (hs : 0 < space) (hc : c ≠ []) :
    ∃ got rest, readChunk space (c :: cs) = some (got, rest) ∧ got ≠ [] ∧ got.length ≤ space ∧
      got ++ rest.flatten = c ++ cs.flatten ∧ scriptLen rest < scriptLen (c :: cs) ∧
      (NonEmptyChunks cs → NonEmptyChunks rest) := by
  unfold readChunk
  by_cases hle : c.length ≤ space
  · refine ⟨c, cs, by simp [hle], hc, hle, rfl, ?_, fun h => h⟩
    have : 0 < c.length := List.length_pos_iff.mpr hc
    simp [scriptLen]; omega
  · have hlt : space < c.length := Nat.lt_of_not_le hle
    have htl : (c.take space).length = space := by simp; omega
    refine ⟨c.take space, c.drop space :: cs, by simp [hle], ?_, by omega,
      by simp [← List.append_assoc], ?_, ?_⟩
    · intro h
      rw [h] at htl
      simp at htl
      omega
    · simp [scriptLen]; omega
    · intro h x hx
      simp only [List.mem_cons] at hx
      rcases hx with rfl | hx
      · intro h0
        have := congrArg List.length h0
        simp at this
        omega
      · exact h x hx

/-- buffer invariant of the blocking connection: there is always free space to read into -/
def SInv (b : SBuf) : Prop := b.data.length < b.cap

theorem afterRead_inv (b : SBuf) (rest got : Bytes) (h : rest.length + got.length ≤ b.cap) (hc : 0 < b.cap) :
    SInv (afterRead b rest got) := by
  unfold SInv afterRead
  simp only [List.length_append]
  split <;> omega

/-- **blocking**: with enough fuel the receive loop equals the whole-stream call and keeps the
buffer invariant; no `panic` is introduced by the buffer bookkeeping -/
theorem recvLoopS_eq (fuel : Nat) (σ : BState) (b : SBuf) (chunks : List Bytes) (term : Term)
    (hne : NonEmptyChunks chunks) (hinv : SInv b) (hfuel : scriptLen chunks < fuel) :
    let res := recvLoopS fuel σ b chunks term
    (res.1, res.2.1.data ++ res.2.2.1.flatten) = recvAll σ (b.data ++ chunks.flatten) term ∧
    NonEmptyChunks res.2.2.1 ∧ SInv res.2.1 ∧ res.2.1.cap ≥ b.cap := by
  induction fuel generalizing σ b chunks with
  | zero => omega
  | succ fuel ih =>
    have hcap : ¬ b.cap < b.data.length := by unfold SInv at hinv; omega
    have hrl := feed_rest_length σ b.data
    by_cases hp : (feed σ b.data).2.2 = .pending
    · cases chunks with
      | nil =>
        rw [recvLoopS]
        unfold recvAll
        rcases hf : feed σ b.data with ⟨σ', rest, out⟩
        rw [hf] at hp hrl
        simp only at hp hrl
        subst hp
        simp only [hcap, if_false, readChunk, List.flatten_nil, List.append_nil, hf]
        refine ⟨trivial, by simp [NonEmptyChunks], ?_, Nat.le_refl _⟩
        unfold SInv at *; simp; omega
      | cons c cs =>
        have hc : c ≠ [] := hne c (by simp)
        have hcs : NonEmptyChunks cs := fun x hx => hne x (by simp [hx])
        rcases hf : feed σ b.data with ⟨σ', rest, out⟩
        rw [hf] at hp hrl
        simp only at hp hrl
        subst hp
        have hspace : 0 < b.cap - rest.length := by unfold SInv at hinv; omega
        obtain ⟨got, rs, hrc, hgot, hgl, hflat, hsl, hner⟩ := readChunk_spec (b.cap - rest.length) c cs hspace hc
        have hstep : recvLoopS (fuel + 1) σ b (c :: cs) term = recvLoopS fuel σ' (afterRead b rest got) rs term := by
          rw [recvLoopS]
          simp only [hcap, if_false, hf, hrc]
          have : got.isEmpty = false := by cases got <;> simp_all
          simp [this]
        rw [hstep]
        have hinv' : SInv (afterRead b rest got) := afterRead_inv b rest got (by omega) (by unfold SInv at hinv; omega)
        have := ih σ' (afterRead b rest got) rs (hner hcs) hinv' (by omega)
        obtain ⟨h1, h2, h3, h4⟩ := this
        refine ⟨?_, h2, h3, ?_⟩
        · rw [h1]
          have hpa := recvAll_pending σ b.data (c ++ cs.flatten) term (by rw [hf])
          simp only [List.flatten_cons]
          rw [hpa, hf]
          simp only [afterRead, List.append_assoc, hflat]
        · have : (afterRead b rest got).cap ≥ b.cap := by unfold afterRead; simp only; split <;> omega
          omega
    · have hstep : recvLoopS (fuel + 1) σ b chunks term =
          ((recvAll σ b.data term).1, { b with data := (recvAll σ b.data term).2 }, chunks, (feed σ b.data).1) := by
        rw [recvLoopS]
        unfold recvAll
        rcases hf : feed σ b.data with ⟨σ', rest, out⟩
        rw [hf] at hp
        cases out <;> simp_all <;> omega
      rw [hstep]
      refine ⟨by rw [recvAll_final σ b.data _ term hp], hne, ?_, Nat.le_refl _⟩
      unfold SInv at *
      have : (recvAll σ b.data term).2 = (feed σ b.data).2.1 := by
        unfold recvAll
        rcases hf : feed σ b.data with ⟨σ', rest, out⟩
        cases out <;> rfl
      simp only [this]
      omega

/-- a call that yields a response leaves the initial builder state behind -/
theorem recvLoopA_resp_initial (σ : BState) (buf : Bytes) (chunks : List Bytes) (term : Term) (r : Response)
    (h : (recvLoopA σ buf chunks term).1 = .resp r) : (recvLoopA σ buf chunks term).2.2.2 = .initial := by
  induction chunks generalizing σ buf with
  | nil =>
    unfold recvLoopA at h ⊢
    rcases hf : feed σ buf with ⟨σ', rest, out⟩
    have hd := feed_done_initial σ buf
    rw [hf] at h hd
    cases out with
    | done r' => simpa using hd r' rfl
    | invalid => simp at h
    | panic => simp at h
    | pending => simp only at h; exact absurd h (by unfold termItem eofItem; cases term <;> simp <;> split <;> simp)
  | cons c cs ih =>
    unfold recvLoopA at h ⊢
    rcases hf : feed σ buf with ⟨σ', rest, out⟩
    have hd := feed_done_initial σ buf
    rw [hf] at h hd
    cases out with
    | done r' => simpa using hd r' rfl
    | invalid => simp at h
    | panic => simp at h
    | pending =>
      simp only at h ⊢
      split
      · rename_i hc
        simp only [hc, if_true] at h
        exact absurd h (by unfold eofItem; split <;> simp)
      · rename_i hc
        simp only [hc] at h
        exact ih σ' (rest ++ c) h

theorem recvLoopS_resp_initial (fuel : Nat) (σ : BState) (b : SBuf) (chunks : List Bytes) (term : Term) (r : Response)
    (h : (recvLoopS fuel σ b chunks term).1 = .resp r) : (recvLoopS fuel σ b chunks term).2.2.2 = .initial := by
  induction fuel generalizing σ b chunks with
  | zero => simp [recvLoopS] at h
  | succ fuel ih =>
    unfold recvLoopS at h ⊢
    by_cases hcap : b.cap < b.data.length
    · simp [hcap] at h
    · simp only [hcap, if_false] at h ⊢
      rcases hf : feed σ b.data with ⟨σ', rest, out⟩
      have hd := feed_done_initial σ b.data
      rw [hf] at h hd
      cases out with
      | done r' => simpa using hd r' rfl
      | invalid => simp at h
      | panic => simp at h
      | pending =>
        simp only at h ⊢
        cases hrc : readChunk (b.cap - rest.length) chunks with
        | none =>
          rw [hrc] at h
          simp only at h
          exact absurd h (by unfold termItem eofItem; cases term <;> simp <;> split <;> simp)
        | some p =>
          obtain ⟨got, cs⟩ := p
          rw [hrc] at h
          simp only at h ⊢
          split
          · rename_i hg
            simp only [hg, if_true] at h
            exact absurd h (by unfold eofItem; split <;> simp)
          · rename_i hg
            simp only [hg] at h
            exact ih σ' _ cs h

end Mpd.Conn
