import Mpd.Filter
import MpdSpec.Tokenizer
import MpdSpec.FilterParse
/-!
Lemmas for C11: the two escaping levels of a filter value, the once-unescaped rendering `inner`
(what MPD's tokenizer hands to the filter parser), and the behaviour of the specification's
tokenizer / `ExpectQuoted` / `ExpectWord` on rendered text.
-/
namespace Mpd.Filter
open Mpd

/-! ## escaping levels -/

/-- the escaping undone by the request tokenizer inside `"…"`: a backslash before `\` and `"` -/
def esc1 : Bytes → Bytes
  | [] => []
  | b :: bs => if b == BSLASH || b == QUOTE then BSLASH :: b :: esc1 bs else b :: esc1 bs

/-- the escaping undone by `ExpectQuoted` (for values without `"`): a backslash before `\` -/
def escV : Bytes → Bytes
  | [] => []
  | b :: bs => if b == BSLASH then BSLASH :: BSLASH :: escV bs else b :: escV bs

@[simp] theorem esc1_nil : esc1 [] = [] := rfl
@[simp] theorem escV_nil : escV [] = [] := rfl

theorem esc1_append (a b : Bytes) : esc1 (a ++ b) = esc1 a ++ esc1 b := by
  induction a with
  | nil => rfl
  | cons x xs ih => simp only [List.cons_append, esc1, ih]; split <;> rfl

theorem esc1_id {a : Bytes} (h : ∀ b ∈ a, b ≠ BSLASH ∧ b ≠ QUOTE) : esc1 a = a := by
  induction a with
  | nil => rfl
  | cons x xs ih =>
    have hx := h x (by simp)
    rw [esc1, ih (fun b hb => h b (by simp [hb]))]
    simp [hx.1, hx.2]

theorem replaceByte_append (b : UInt8) (rep x y : Bytes) :
    replaceByte b rep (x ++ y) = replaceByte b rep x ++ replaceByte b rep y := by
  induction x with
  | nil => rfl
  | cons a as ih => simp only [List.cons_append, replaceByte, ih]; split <;> simp

theorem replaceByte_id {b : UInt8} {rep v : Bytes} (h : b ∉ v) : replaceByte b rep v = v := by
  induction v with
  | nil => rfl
  | cons x xs ih =>
    have hx : x ≠ b := fun e => h (by simp [e])
    rw [replaceByte, ih (fun hb => h (by simp [hb]))]
    simp [hx]

local notation "Q3" => [BSLASH, BSLASH, QUOTE]
local notation "B4" => [BSLASH, BSLASH, BSLASH, BSLASH]

/-- the `contains` guard of `escape_filter_value` is only an optimisation -/
theorem escapeFilterValue_eq (v : Bytes) :
    escapeFilterValue v = replaceByte QUOTE Q3 (replaceByte BSLASH B4 v) := by
  unfold escapeFilterValue
  split
  · rfl
  · rename_i h
    have h' : ∀ b ∈ v, ¬ b = QUOTE ∧ ¬ b = BSLASH := by simpa using h
    rw [replaceByte_id (fun hb => (h' _ hb).2 rfl), replaceByte_id (fun hb => (h' _ hb).1 rfl)]

/-- a value without `"`: the two `replace` calls are exactly two nested escaping levels -/
theorem escape_noquote {v : Bytes} (h : QUOTE ∉ v) :
    replaceByte QUOTE Q3 (replaceByte BSLASH B4 v) = esc1 (escV v) := by
  induction v with
  | nil => rfl
  | cons x xs ih =>
    have hx : x ≠ QUOTE := fun e => h (by simp [e])
    have ih' := ih (fun hb => h (by simp [hb]))
    by_cases hb : x = BSLASH
    · subst hb
      have hq : (BSLASH == QUOTE) = false := by decide
      simp [replaceByte, escV, esc1, ih', hq]
    · simp [replaceByte, escV, esc1, hb, hx, ih']

theorem escapeFilterValue_noquote {v : Bytes} (h : QUOTE ∉ v) : escapeFilterValue v = esc1 (escV v) := by
  rw [escapeFilterValue_eq, escape_noquote h]

/-- a value with a `"`: up to the first one everything is escaped twice, then comes `\\"` -/
theorem escapeFilterValue_quote {a b : Bytes} (h : QUOTE ∉ a) :
    escapeFilterValue (a ++ QUOTE :: b) = esc1 (escV a) ++ BSLASH :: BSLASH :: QUOTE :: escapeFilterValue b := by
  rw [escapeFilterValue_eq, escapeFilterValue_eq, replaceByte_append, replaceByte_append, escape_noquote h]
  have hq : (QUOTE == BSLASH) = false := by decide
  simp [replaceByte, hq]

/-! ## the request tokenizer on escaped text -/
section tokenizer
open Spec.Tok

theorem stringBody_bslash (c : UInt8) (cs : Bytes) :
    stringBody (BSLASH :: c :: cs) = (stringBody cs).map fun p => (c :: p.1, p.2) := by
  have hq : (BSLASH == QUOTE) = false := by decide
  rw [stringBody.eq_def]; simp [hq]

theorem stringBody_plain {b : UInt8} (h1 : b ≠ BSLASH) (h2 : b ≠ QUOTE) (bs : Bytes) :
    stringBody (b :: bs) = (stringBody bs).map fun p => (b :: p.1, p.2) := by
  rw [stringBody.eq_def]; simp [h1, h2]

theorem stringBody_quote_end : stringBody [QUOTE] = some ([], []) := by
  rw [stringBody.eq_def]; simp

theorem stringBody_quote_more (c : UInt8) (cs : Bytes) :
    stringBody (QUOTE :: c :: cs) = if isWs c then some ([], stripLeft (c :: cs)) else none := by
  rw [stringBody.eq_def]; simp

/-- the tokenizer removes exactly one `esc1` level and carries on behind it -/
theorem stringBody_esc1 (a k : Bytes) :
    stringBody (esc1 a ++ k) = (stringBody k).map fun p => (a ++ p.1, p.2) := by
  induction a with
  | nil => cases h : stringBody k <;> simp [h]
  | cons x xs ih =>
    by_cases h1 : x = BSLASH
    · subst h1
      simp only [esc1, beq_self_eq_true, Bool.true_or, if_true, List.cons_append, stringBody_bslash, ih]
      cases stringBody k <;> simp
    · by_cases h2 : x = QUOTE
      · subst h2
        simp only [esc1, beq_self_eq_true, Bool.or_true, if_true, List.cons_append, stringBody_bslash, ih]
        cases stringBody k <;> simp
      · have : (x == BSLASH || x == QUOTE) = false := by simp [h1, h2]
        simp only [esc1, this, List.cons_append, stringBody_plain h1 h2, ih, Bool.false_eq_true, if_false]
        cases stringBody k <;> simp

/-- a whole quoted parameter that ends the line -/
theorem stringBody_esc1_end (a : Bytes) : stringBody (esc1 a ++ [QUOTE]) = some (a, []) := by
  rw [stringBody_esc1, stringBody_quote_end]; simp

theorem stripRight_snoc (l : Bytes) {c : UInt8} (h : isWs c = false) : stripRight (l ++ [c]) = l ++ [c] := by
  simp [stripRight, stripLeft, h]

theorem cstr_id {l : Bytes} (h : ∀ b ∈ l, b ≠ 0) : cstr l = l := by
  induction l with
  | nil => rfl
  | cons x xs ih =>
    have hx := h x (by simp)
    rw [cstr, ih (fun b hb => h b (by simp [hb]))]
    simp [hx]

theorem str_find : str "find" = [102, 105, 110, 100] := by decide

/-- the request line `find "<e>"` as the server tokenizes it: the command word, then whatever
`NextString` makes of `<e>"` -/
theorem tokenizeLine_find (e : Bytes) (h0 : ∀ b ∈ e, b ≠ 0) :
    tokenizeLine (str "find" ++ SPACE :: QUOTE :: e ++ [QUOTE]) =
      (match stringBody (e ++ [QUOTE]) with
        | none => none
        | some (a, rest) => (params (e.length + 2) rest).map (a :: ·)).map fun as => (str "find", as) := by
  have hl : str "find" ++ SPACE :: QUOTE :: e ++ [QUOTE] = (str "find" ++ SPACE :: QUOTE :: e) ++ [QUOTE] := by simp
  have hc : ∀ b ∈ str "find" ++ SPACE :: QUOTE :: e ++ [QUOTE], b ≠ 0 := by
    intro b hb
    simp only [str_find, List.mem_append, List.mem_cons, List.not_mem_nil, or_false] at hb
    rcases hb with ((h | h | h | h) | h | h | h) | h
    all_goals first | exact h0 b h | (subst h; decide)
  unfold tokenizeLine
  rw [hl, stripRight_snoc _ (by decide), ← hl, cstr_id hc, str_find]
  simp [nextWord, wordBody, validWordFirst, validWordChar, isAlpha, isUpper, isLower, isDigit, isWs, SPACE,
    stripLeft, params, nextParam, QUOTE]
  cases stringBody (e ++ [34]) <;> simp

end tokenizer

/-! ## MPD's filter parser on once-unescaped text -/
section parser
open Spec.Filter

/-- model operator ↦ specification operator -/
def specOp : Operator → Op
  | .equal => .equal
  | .notEqual => .notEqual
  | .contain => .contain
  | .matches => .matches
  | .notMatch => .notMatches

theorem stripLeft_nonws {b : UInt8} (h : isWs b = false) (bs : Bytes) : stripLeft (b :: bs) = b :: bs := by
  simp [stripLeft, h]

theorem stripLeft_space (bs : Bytes) : stripLeft (SPACE :: bs) = stripLeft bs := by
  have : isWs SPACE = true := by decide
  simp [stripLeft, this]

theorem quotedBody_close (q : UInt8) (bs : Bytes) : quotedBody q (q :: bs) = some ([], stripLeft bs) := by
  rw [quotedBody.eq_def]; simp

theorem quotedBody_bslash {q : UInt8} (hq : BSLASH ≠ q) (c : UInt8) (cs : Bytes) :
    quotedBody q (BSLASH :: c :: cs) = (quotedBody q cs).map fun p => (c :: p.1, p.2) := by
  rw [quotedBody.eq_def]; simp [hq]

theorem quotedBody_plain {q b : UInt8} (h1 : b ≠ q) (h2 : b ≠ BSLASH) (bs : Bytes) :
    quotedBody q (b :: bs) = (quotedBody q bs).map fun p => (b :: p.1, p.2) := by
  rw [quotedBody.eq_def]; simp [h1, h2]

/-- `ExpectQuoted` removes exactly one `escV` level of a value without `"` -/
theorem quotedBody_escV {v : Bytes} (h : QUOTE ∉ v) (k : Bytes) :
    quotedBody QUOTE (escV v ++ QUOTE :: k) = some (v, stripLeft k) := by
  induction v with
  | nil => simp [quotedBody_close]
  | cons x xs ih =>
    have hx : x ≠ QUOTE := fun e => h (by simp [e])
    have ih' := ih (fun hb => h (by simp [hb]))
    by_cases hb : x = BSLASH
    · subst hb
      simp [escV, quotedBody_bslash hx, ih']
    · simp [escV, hb, quotedBody_plain hx hb, ih']

theorem wordTail_word {w : Bytes} (hw : ∀ b ∈ w, isWordChar b = true) {c : UInt8} (hc : isWordChar c = false)
    (r : Bytes) : wordTail (w ++ c :: r) = (w, c :: r) := by
  induction w with
  | nil => simp [wordTail, hc]
  | cons x xs ih =>
    have hx := hw x (by simp)
    simp [wordTail, hx, ih (fun b hb => hw b (by simp [hb]))]

theorem isWordChar_eq (b : UInt8) : isWordChar b = isTagChar b := rfl

/-- `ExpectWord` reads a word-shaped tag name that is followed by a blank -/
theorem expectWord_name {n : Bytes} (hn : isWord n = true) (r : Bytes) :
    expectWord (n ++ SPACE :: r) = some (n, stripLeft r) := by
  cases n with
  | nil => simp [isWord] at hn
  | cons b bs =>
    simp only [isWord, Bool.and_eq_true, List.all_eq_true] at hn
    have hs : isWordChar SPACE = false := by decide
    simp [expectWord, hn.1, wordTail_word (fun b hb => by rw [isWordChar_eq]; exact hn.2 b hb) hs, stripLeft_space]

theorem expectQuoted_escV {v : Bytes} (h : QUOTE ∉ v) (k : Bytes) :
    expectQuoted (QUOTE :: escV v ++ QUOTE :: k) = some (v, stripLeft k) := by
  simp [expectQuoted, quotedBody_escV h]

theorem str_contains_sp : str "contains " = [99, 111, 110, 116, 97, 105, 110, 115, 32] := by decide
theorem asStr_equal : Operator.asStr .equal = [61, 61] := by decide
theorem asStr_notEqual : Operator.asStr .notEqual = [33, 61] := by decide
theorem asStr_contain : Operator.asStr .contain = [99, 111, 110, 116, 97, 105, 110, 115] := by decide
theorem asStr_matches : Operator.asStr .matches = [61, 126] := by decide
theorem asStr_notMatch : Operator.asStr .notMatch = [33, 126] := by decide

/-- `ParseStringFilter` on `<op> "<escV v>"…` -/
theorem parseStringFilter_op (op : Operator) {v : Bytes} (h : QUOTE ∉ v) (k : Bytes) :
    parseStringFilter (op.asStr ++ SPACE :: QUOTE :: escV v ++ QUOTE :: k) = some (specOp op, v, stripLeft k) := by
  have hq : isWs QUOTE = false := by decide
  have e := expectQuoted_escV h k
  simp only [List.cons_append] at e
  have hs : (if (65 : UInt8) ≤ SPACE ∧ SPACE ≤ 90 then SPACE + 32 else SPACE) = 32 := by decide
  cases op
  all_goals
    simp [parseStringFilter, hs, str_contains_sp, asStr_equal, asStr_notEqual, asStr_contain, asStr_matches,
      asStr_notMatch, afterPrefixCI, toLower, isUpper, op2, BANG, EQUALS, TILDE, stripLeft_space,
      stripLeft_nonws hq, e, specOp]

/-! ### shapes of `ParseExpression` -/

local notation "LP" => Spec.Filter.LPAREN
local notation "RP" => Spec.Filter.RPAREN
theorem LPAREN_eq : Mpd.Filter.LPAREN = Spec.Filter.LPAREN := rfl
theorem RPAREN_eq : Mpd.Filter.RPAREN = Spec.Filter.RPAREN := rfl

theorem parseExpr_nested (fuel : Nat) {s1 s3 s4 : Bytes} {first : Expr} {c : UInt8}
    (h1 : parseExpr fuel (LP :: s1) = some (first, c :: s3)) (hc : c ≠ RP)
    (h2 : expectWord (c :: s3) = some (AND, s4)) :
    parseExpr (fuel + 1) (LP :: LP :: s1) = andLoop (parseExpr fuel) (s4.length + 1) [first] s4 := by
  have h : isWs LP = false := by decide
  rw [parseExpr]
  simp [stripLeft_nonws h, h1, hc, h2]

theorem parseExpr_not (fuel : Nat) {s2 s4 : Bytes} {e : Expr}
    (h1 : parseExpr fuel (LP :: s2) = some (e, RP :: s4)) :
    parseExpr (fuel + 1) (LP :: BANG :: LP :: s2) = some (.not e, stripLeft s4) := by
  have h : isWs LP = false := by decide
  have h' : isWs BANG = false := by decide
  have h2 : (BANG == LP) = false := by decide
  rw [parseExpr]
  simp [stripLeft_nonws h, stripLeft_nonws h', h2, h1]

theorem isAlpha_facts {b : UInt8} (hb : isAlpha b = true) :
    isWs b = false ∧ (b == LP) = false ∧ (b == BANG) = false := by
  refine ⟨?_, ?_, ?_⟩
  · simp only [isAlpha, isUpper, isLower, Bool.or_eq_true, Bool.and_eq_true, decide_eq_true_eq] at hb
    simp only [isWs, Bool.and_eq_false_iff, bne_eq_false_iff_eq, decide_eq_false_iff_not]
    right
    rcases hb with hb | hb
    · exact fun h => absurd (UInt8.le_trans hb.1 h) (by decide)
    · exact fun h => absurd (UInt8.le_trans hb.1 h) (by decide)
  · apply beq_false_of_ne; rintro rfl; revert hb; decide
  · apply beq_false_of_ne; rintro rfl; revert hb; decide

theorem parseExpr_tag (fuel : Nat) {b : UInt8} (hb : isAlpha b = true) {s1 s2 s4 w v : Bytes} {op : Op}
    (h1 : expectWord (b :: s1) = some (w, s2)) (hs : isSpecialType w = false)
    (h2 : parseStringFilter s2 = some (op, v, RP :: s4)) :
    parseExpr (fuel + 1) (LP :: b :: s1) = some (.tag w op v, stripLeft s4) := by
  obtain ⟨f1, f2, f3⟩ := isAlpha_facts hb
  rw [parseExpr]
  simp [stripLeft_nonws f1, f2, f3, h1, hs, h2]

theorem andLoop_last {pe : Bytes → Option (Expr × Bytes)} {t s2 : Bytes} {e : Expr}
    (h1 : pe (LP :: t) = some (e, RP :: s2)) (n : Nat) (acc : List Expr) :
    andLoop pe (n + 1) acc (LP :: t) = some (.and (acc ++ [e]), stripLeft s2) := by
  rw [andLoop]
  simp [h1]

theorem andLoop_more {pe : Bytes → Option (Expr × Bytes)} {t s2 s3 : Bytes} {e : Expr} {c : UInt8}
    (h1 : pe (LP :: t) = some (e, c :: s2)) (hc : c ≠ RP) (h2 : expectWord (c :: s2) = some (AND, s3))
    (n : Nat) (acc : List Expr) :
    andLoop pe (n + 1) acc (LP :: t) = andLoop pe n (acc ++ [e]) s3 := by
  rw [andLoop]
  simp [h1, hc, h2]

/-! ### the once-unescaped rendering and the mirror expression -/

mutual
/-- the filter expression as MPD's filter parser receives it (`renderType` with the tokenizer's
escaping level removed); total, the `assert!` is not part of it -/
def inner : FilterType → Bytes
  | .tag t op v => LP :: t.name ++ SPACE :: op.asStr ++ SPACE :: QUOTE :: escV v ++ [QUOTE, RP]
  | .not f => LP :: BANG :: inner f ++ [RP]
  | .and fs => LP :: innerAnd fs true ++ [RP]
def innerAnd : List FilterType → Bool → Bytes
  | [], _ => []
  | f :: fs, first => (if first then [] else SPACE :: AND ++ [SPACE]) ++ inner f ++ innerAnd fs false
end

mutual
/-- the expression a filter denotes, in the specification's vocabulary -/
def mirror : FilterType → Expr
  | .tag t op v => .tag t.name (specOp op) v
  | .not f => .not (mirror f)
  | .and fs => .and (mirrorList fs)
def mirrorList : List FilterType → List Expr
  | [] => []
  | f :: fs => mirror f :: mirrorList fs
end

theorem mirrorList_eq_map (fs : List FilterType) : mirrorList fs = fs.map mirror := by
  induction fs with
  | nil => rfl
  | cons f fs ih => simp [mirrorList, ih]

theorem inner_cons (f : FilterType) : ∃ t, inner f = LP :: t := by
  cases f <;> simp [inner]

theorem inner_le_innerAnd {f : FilterType} {fs : List FilterType} (h : f ∈ fs) (b : Bool) :
    (inner f).length ≤ (innerAnd fs b).length := by
  induction fs generalizing b with
  | nil => simp at h
  | cons g gs ih =>
    simp only [List.mem_cons] at h
    rcases h with rfl | h
    · simp [innerAnd]; omega
    · have := ih h false
      simp [innerAnd]; omega

theorem length_le_innerAnd (fs : List FilterType) (b : Bool) : fs.length ≤ (innerAnd fs b).length := by
  induction fs generalizing b with
  | nil => simp
  | cons g gs ih =>
    obtain ⟨t, ht⟩ := inner_cons g
    have := ih false
    simp [innerAnd, ht]; omega

theorem isWord_AND : isWord AND = true := by decide

/-- the `AND` loop on the rest of a rendered conjunction: `s0` is the operand under the cursor,
`fs` the operands still to come -/
theorem andLoop_inner {pe : Bytes → Option (Expr × Bytes)} (fs : List FilterType)
    (h : ∀ f ∈ fs, ∀ k, pe (inner f ++ k) = some (mirror f, stripLeft k)) :
    ∀ (n : Nat) (acc : List Expr) (e0 : Expr) (t0 k : Bytes),
      (∀ k', pe (LP :: t0 ++ k') = some (e0, stripLeft k')) → fs.length < n →
      andLoop pe n acc (LP :: t0 ++ innerAnd fs false ++ RP :: k) =
        some (.and (acc ++ e0 :: fs.map mirror), stripLeft k) := by
  have hrp : isWs RP = false := by decide
  induction fs with
  | nil =>
    intro n acc e0 t0 k h0 hn
    obtain ⟨n, rfl⟩ : ∃ m, n = m + 1 := ⟨n - 1, by omega⟩
    have := h0 (RP :: k)
    rw [stripLeft_nonws hrp] at this
    simp only [innerAnd, List.append_nil, List.map_nil]
    exact andLoop_last this n acc
  | cons f fs ih =>
    intro n acc e0 t0 k h0 hn
    obtain ⟨n, rfl⟩ : ∃ m, n = m + 1 := ⟨n - 1, by omega⟩
    obtain ⟨t, ht⟩ := inner_cons f
    have hA : isWs 65 = false := by decide
    have hLP : isWs LP = false := by decide
    have hAND : AND = [65, 78, 68] := by decide
    obtain ⟨X, hX⟩ : ∃ X, X = LP :: (t ++ innerAnd fs false ++ RP :: k) := ⟨_, rfl⟩
    have e1 : LP :: t0 ++ innerAnd (f :: fs) false ++ RP :: k = LP :: (t0 ++ (SPACE :: 65 :: 78 :: 68 :: SPACE :: X)) := by
      simp [innerAnd, hX, hAND, ht]
    -- the operand under the cursor, followed by ` AND <next operand> …`
    have h1 := h0 (SPACE :: 65 :: 78 :: 68 :: SPACE :: X)
    rw [stripLeft_space, stripLeft_nonws hA, List.cons_append] at h1
    have h2 : expectWord (65 :: 78 :: 68 :: SPACE :: X) = some (AND, X) := by
      have := expectWord_name isWord_AND X
      rw [hAND] at this
      rw [show stripLeft X = X by rw [hX]; exact stripLeft_nonws hLP _] at this
      simpa [hAND] using this
    rw [e1, andLoop_more h1 (by decide) h2 n acc, hX]
    have hrec := ih (fun g hg => h g (by simp [hg])) n (acc ++ [e0]) (mirror f) t k
      (fun k' => by rw [← ht]; exact h f (by simp) k') (by simpa using hn)
    simpa using hrec

/-! ### invariants of filters built through the public API, leaf predicates -/

def isAnd : FilterType → Bool
  | .and _ => true
  | _ => false

mutual
/-- every `And` node has at least two children and no `And` child -/
def wf : FilterType → Bool
  | .tag _ _ _ => true
  | .not f => wf f
  | .and fs => decide (2 ≤ fs.length) && wfList fs
def wfList : List FilterType → Bool
  | [] => true
  | f :: fs => wf f && !isAnd f && wfList fs
end

theorem wfList_iff (fs : List FilterType) : wfList fs = true ↔ ∀ f ∈ fs, wf f = true ∧ isAnd f = false := by
  induction fs with
  | nil => simp [wfList]
  | cons f fs ih => simp [wfList, ih, and_assoc]

theorem leaves_and (fs : List FilterType) : leaves (.and fs) = fs.flatMap leaves := by
  rw [leaves]
  induction fs with
  | nil => rfl
  | cons f fs ih => simp [leavesList, ih]

theorem wordTags_and (fs : List FilterType) : wordTags (.and fs) = true ↔ ∀ f ∈ fs, wordTags f = true := by
  simp only [wordTags, leaves_and, List.all_eq_true, List.mem_flatMap]
  constructor
  · intro h f hf l hl; exact h l ⟨f, hf, hl⟩
  · rintro h l ⟨f, hf, hl⟩; exact h f hf l hl

theorem K2_and (fs : List FilterType) : K2 (.and fs) = false ↔ ∀ f ∈ fs, K2 f = false := by
  simp only [K2, leaves_and, List.any_eq_false, List.mem_flatMap]
  constructor
  · intro h f hf l hl; exact h l ⟨f, hf, hl⟩
  · rintro h l ⟨f, hf, hl⟩; exact h f hf l hl

theorem hasForbidden_and (fs : List FilterType) : hasForbidden (.and fs) = false ↔ ∀ f ∈ fs, hasForbidden f = false := by
  simp only [hasForbidden, leaves_and, List.any_eq_false, List.mem_flatMap]
  constructor
  · intro h f hf l hl; exact h l ⟨f, hf, hl⟩
  · rintro h l ⟨f, hf, hl⟩; exact h f hf l hl

/-- induction over filters with the children of an `And` as a list -/
theorem FilterType.induct {P : FilterType → Prop} (tag : ∀ t op v, P (.tag t op v))
    (not : ∀ f, P f → P (.not f)) (and : ∀ fs, (∀ f ∈ fs, P f) → P (.and fs)) : ∀ f, P f := by
  intro f
  refine FilterType.rec (motive_1 := P) (motive_2 := fun fs => ∀ f ∈ fs, P f) tag not and ?_ ?_ f
  · simp
  · intro h t ph pt f hf
    simp only [List.mem_cons] at hf
    rcases hf with rfl | hf
    · exact ph
    · exact pt f hf

theorem asStr_cons (op : Operator) : ∃ c t, op.asStr = c :: t ∧ isWs c = false := by
  cases op
  · exact ⟨_, _, asStr_equal, by decide⟩
  · exact ⟨_, _, asStr_notEqual, by decide⟩
  · exact ⟨_, _, asStr_contain, by decide⟩
  · exact ⟨_, _, asStr_matches, by decide⟩
  · exact ⟨_, _, asStr_notMatch, by decide⟩

theorem specialTypes_eq : Mpd.Filter.specialTypes = Spec.Filter.specialTypes := rfl

/-- **second layer**: MPD's `ParseExpression` reads the once-unescaped rendering of a filter back
as the expression the filter denotes, for every sufficient fuel and whatever follows -/
theorem parseExpr_inner : ∀ (f : FilterType) (fuel : Nat) (k : Bytes),
    wf f = true → wordTags f = true → K2 f = false → (inner f).length ≤ fuel →
    parseExpr fuel (inner f ++ k) = some (mirror f, stripLeft k) := by
  have hrp : isWs RP = false := by decide
  intro f
  induction f using FilterType.induct with
  | tag t op v =>
    intro fuel k _ hw hk hfuel
    obtain ⟨fuel, rfl⟩ : ∃ m, fuel = m + 1 := ⟨fuel - 1, by simp [inner] at hfuel; omega⟩
    simp only [wordTags, leaves, List.all_cons, List.all_nil, Bool.and_true, isWordTag, Bool.and_eq_true,
      Bool.not_eq_true'] at hw
    have hq : QUOTE ∉ v := by simpa [K2, leaves] using hk
    obtain ⟨c, ct, hop, hc⟩ := asStr_cons op
    obtain ⟨hword, hspecial⟩ := hw
    cases hn : t.name with
    | nil => simp [hn, isWord] at hword
    | cons b bs =>
      have hb : isAlpha b = true := by simp [hn, isWord] at hword; exact hword.1
      have h1 := expectWord_name hword (op.asStr ++ SPACE :: QUOTE :: escV v ++ QUOTE :: RP :: k)
      have hR : stripLeft (op.asStr ++ SPACE :: QUOTE :: escV v ++ QUOTE :: RP :: k) =
          op.asStr ++ SPACE :: QUOTE :: escV v ++ QUOTE :: RP :: k := by
        rw [hop, List.cons_append]; exact stripLeft_nonws hc _
      rw [hn, hR, List.cons_append] at h1
      have h2 := parseStringFilter_op op hq (RP :: k)
      rw [stripLeft_nonws hrp] at h2
      have h3 := parseExpr_tag fuel hb h1 (by rw [isSpecialType, ← specialTypes_eq, ← hn]; exact hspecial) h2
      simp only [inner, mirror, hn]
      simpa using h3
  | not f ih =>
    intro fuel k hwf hw hk hfuel
    obtain ⟨fuel, rfl⟩ : ∃ m, fuel = m + 1 := ⟨fuel - 1, by simp [inner] at hfuel; omega⟩
    obtain ⟨t, ht⟩ := inner_cons f
    have h1 := ih fuel (RP :: k) (by simpa [wf] using hwf) (by simpa [wordTags, leaves] using hw)
      (by simpa [K2, leaves] using hk) (by simp [inner] at hfuel; omega)
    rw [stripLeft_nonws hrp, ht, List.cons_append] at h1
    have h2 := parseExpr_not fuel h1
    simp only [inner, mirror, ht]
    simpa using h2
  | and fs ih =>
    intro fuel k hwf hw hk hfuel
    obtain ⟨fuel, rfl⟩ : ∃ m, fuel = m + 1 := ⟨fuel - 1, by simp [inner] at hfuel; omega⟩
    simp only [wf, Bool.and_eq_true, decide_eq_true_eq, wfList_iff] at hwf
    rw [wordTags_and] at hw
    rw [K2_and] at hk
    have hlen : (innerAnd fs true).length ≤ fuel := by simp [inner] at hfuel; omega
    -- every operand parses (induction hypothesis, one level less fuel)
    have hall : ∀ f ∈ fs, ∀ k, parseExpr fuel (inner f ++ k) = some (mirror f, stripLeft k) := fun f hf k =>
      ih f hf fuel k (hwf.2 f hf).1 (hw f hf) (hk f hf) (Nat.le_trans (inner_le_innerAnd hf true) hlen)
    match fs, hwf, hall with
    | f1 :: f2 :: rest, _, hall =>
      obtain ⟨t1, ht1⟩ := inner_cons f1
      obtain ⟨t2, ht2⟩ := inner_cons f2
      have hA : isWs 65 = false := by decide
      have hLP : isWs LP = false := by decide
      have hAND : AND = [65, 78, 68] := by decide
      obtain ⟨X, hX⟩ : ∃ X, X = LP :: (t2 ++ innerAnd rest false ++ RP :: k) := ⟨_, rfl⟩
      have e1 : inner (.and (f1 :: f2 :: rest)) ++ k = LP :: LP :: (t1 ++ SPACE :: 65 :: 78 :: 68 :: SPACE :: X) := by
        simp [inner, innerAnd, ht1, ht2, hX, hAND]
      have h1 := hall f1 (by simp) (SPACE :: 65 :: 78 :: 68 :: SPACE :: X)
      rw [stripLeft_space, stripLeft_nonws hA, ht1, List.cons_append] at h1
      have h2 : expectWord (65 :: 78 :: 68 :: SPACE :: X) = some (AND, X) := by
        have := expectWord_name isWord_AND X
        rw [hAND] at this
        rw [show stripLeft X = X by rw [hX]; exact stripLeft_nonws hLP _] at this
        simpa [hAND] using this
      rw [e1, parseExpr_nested fuel h1 (by decide) h2, hX]
      have hloop := andLoop_inner (pe := parseExpr fuel) rest (fun g hg => hall g (by simp [hg]))
        ((LP :: (t2 ++ innerAnd rest false ++ RP :: k)).length + 1) [mirror f1] (mirror f2) t2 k
        (fun k' => by rw [← ht2]; exact hall f2 (by simp) k')
        (by have := length_le_innerAnd rest false; simp; omega)
      simp only [mirror, mirrorList, mirrorList_eq_map]
      simpa using hloop

/-! ### first layer: the rendering is the `esc1`-escaping of `inner` -/

theorem esc1_cons_plain {b : UInt8} (h1 : b ≠ BSLASH) (h2 : b ≠ QUOTE) (bs : Bytes) :
    esc1 (b :: bs) = b :: esc1 bs := by
  simp [esc1, h1, h2]

theorem esc1_cons_quote (bs : Bytes) : esc1 (QUOTE :: bs) = BSLASH :: QUOTE :: esc1 bs := by
  simp [esc1]

theorem isTagChar_plain {b : UInt8} (h : isTagChar b = true) : b ≠ BSLASH ∧ b ≠ QUOTE := by
  constructor <;> (rintro rfl; revert h; decide)

theorem isWord_plain {n : Bytes} (h : isWord n = true) : ∀ b ∈ n, b ≠ BSLASH ∧ b ≠ QUOTE := by
  cases n with
  | nil => simp
  | cons x xs =>
    simp only [isWord, Bool.and_eq_true, List.all_eq_true] at h
    intro b hb
    simp only [List.mem_cons] at hb
    rcases hb with rfl | hb
    · exact isTagChar_plain (by simp [isTagChar, h.1])
    · exact isTagChar_plain (h.2 b hb)

theorem esc1_asStr (op : Operator) : esc1 op.asStr = op.asStr := by
  cases op <;> decide

theorem str_sep : str " AND " = SPACE :: AND ++ [SPACE] := by decide
theorem str_open_not : str "(!" = [LP, BANG] := by decide

theorem renderAnd_eq (fs : List FilterType) (h : ∀ f ∈ fs, renderType f = some (esc1 (inner f))) (first : Bool) :
    renderAnd fs first = some (esc1 (innerAnd fs first)) := by
  induction fs generalizing first with
  | nil => simp [renderAnd, innerAnd]
  | cons f fs ih =>
    rw [renderAnd, h f (by simp), ih (fun g hg => h g (by simp [hg])) false]
    cases first
    · have e1 : esc1 (SPACE :: AND) = SPACE :: AND := by decide
      have e2 : esc1 [SPACE] = [SPACE] := by decide
      simp only [innerAnd, Bool.false_eq_true, if_false, esc1_append, e1, e2, str_sep]
    · simp only [innerAnd, if_true, esc1_append, esc1_nil]

/-- **first layer, rendering side**: for a filter built through the API (no panic), with word
tags and no `"` in a value, the rendered expression is `inner f` under one tokenizer escaping -/
theorem renderType_eq : ∀ (f : FilterType), wf f = true → wordTags f = true → K2 f = false →
    renderType f = some (esc1 (inner f)) := by
  have hlp : LP ≠ BSLASH ∧ LP ≠ QUOTE := by decide
  have hrp : RP ≠ BSLASH ∧ RP ≠ QUOTE := by decide
  have hsp : SPACE ≠ BSLASH ∧ SPACE ≠ QUOTE := by decide
  have hbang : BANG ≠ BSLASH ∧ BANG ≠ QUOTE := by decide
  intro f
  induction f using FilterType.induct with
  | tag t op v =>
    intro _ hw hk
    simp only [wordTags, leaves, List.all_cons, List.all_nil, Bool.and_true, isWordTag, Bool.and_eq_true] at hw
    have hq : QUOTE ∉ v := by simpa [K2, leaves] using hk
    simp only [renderType, inner, esc1_append, esc1_cons_plain hlp.1 hlp.2, esc1_cons_plain hsp.1 hsp.2,
      esc1_cons_plain hrp.1 hrp.2, esc1_cons_quote, esc1_id (isWord_plain hw.1), esc1_asStr, esc1_nil,
      escapeFilterValue_noquote hq, LPAREN_eq, RPAREN_eq]
    simp
  | not f ih =>
    intro hwf hw hk
    rw [renderType, ih (by simpa [wf] using hwf) (by simpa [wordTags, leaves] using hw)
      (by simpa [K2, leaves] using hk)]
    simp only [inner, esc1_append, esc1_cons_plain hlp.1 hlp.2, esc1_cons_plain hbang.1 hbang.2,
      esc1_cons_plain hrp.1 hrp.2, esc1_nil, str_open_not, RPAREN_eq]
    simp
  | and fs ih =>
    intro hwf hw hk
    simp only [wf, Bool.and_eq_true, decide_eq_true_eq, wfList_iff] at hwf
    rw [wordTags_and] at hw
    rw [K2_and] at hk
    rw [renderType, renderAnd_eq fs (fun f hf => ih f hf (hwf.2 f hf).1 (hw f hf) (hk f hf)) true]
    have : ¬ fs.length < 2 := by omega
    simp only [this, if_false, inner, esc1_append, esc1_cons_plain hlp.1 hlp.2, esc1_cons_plain hrp.1 hrp.2,
      esc1_nil, LPAREN_eq, RPAREN_eq]

end parser

end Mpd.Filter
