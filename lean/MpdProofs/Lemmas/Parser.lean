import Mpd.Parser
import Mpd.ParserProgress
/-!
# Prefix stability of the streaming parser model

`Stable f`: once `f` has decided on an input `p` (`ok`, `error` or `failure`), appending more
bytes `q` does not change the decision (only `incomplete` may turn into something else). This is
the fact that makes re-parsing after `Incomplete` safe, and it is compositional over the nom
combinators.
-/
namespace Mpd.Parser

def Stable {α} (f : P α) : Prop :=
  ∀ p q, (∀ v r, f p = .ok v r → f (p ++ q) = .ok v (r ++ q)) ∧
         (f p = .error → f (p ++ q) = .error) ∧ (f p = .failure → f (p ++ q) = .failure)

theorem tag_stable (t : Bytes) : Stable (tag t) := by
  intro p q
  induction t generalizing p with
  | nil => simp [tag]
  | cons t ts ih =>
    cases p with
    | nil => simp [tag]
    | cons b bs =>
      simp only [tag, List.cons_append]
      split
      · exact ih bs
      · simp

theorem char_stable (c : UInt8) : Stable (char c) := by
  intro p q
  cases p with
  | nil => simp [char]
  | cons b bs =>
    simp only [char, List.cons_append]
    split <;> simp

theorem takeWhile1_stable (pr : UInt8 → Bool) : Stable (takeWhile1 pr) := by
  intro p q
  induction p with
  | nil => simp [takeWhile1]
  | cons b bs ih =>
    simp only [takeWhile1, List.cons_append]
    by_cases hb : pr b = true
    · simp only [hb, if_true]
      obtain ⟨ih1, ih2, ih3⟩ := ih
      cases h : takeWhile1 pr bs with
      | ok v r => simp [ih1 v r h]
      | incomplete => simp
      | error => simp [ih2 h]
      | failure => simp [ih3 h]
    · simp [hb]

theorem takeWhile_stable (pr : UInt8 → Bool) : Stable (takeWhile pr) := by
  intro p q
  induction p with
  | nil => simp [takeWhile]
  | cons b bs ih =>
    simp only [takeWhile, List.cons_append]
    by_cases hb : pr b = true
    · simp only [hb, if_true]
      obtain ⟨ih1, ih2, ih3⟩ := ih
      cases h : takeWhile pr bs with
      | ok v r => simp [ih1 v r h]
      | incomplete => simp
      | error => simp [ih2 h]
      | failure => simp [ih3 h]
    · simp [hb]

theorem takeUntilLF_stable : Stable takeUntilLF := by
  intro p q
  induction p with
  | nil => simp [takeUntilLF]
  | cons b bs ih =>
    simp only [takeUntilLF, List.cons_append]
    by_cases hb : b = LF
    · simp [hb]
    · simp only [hb, if_false]
      obtain ⟨ih1, ih2, ih3⟩ := ih
      cases h : takeUntilLF bs with
      | ok v r => simp [ih1 v r h]
      | incomplete => simp
      | error => simp [ih2 h]
      | failure => simp [ih3 h]

theorem take_stable (n : Nat) : Stable (take n) := by
  intro p q
  simp only [take]
  refine ⟨?_, ?_, ?_⟩
  · intro v r h
    split at h
    · simp at h
    · rename_i hl
      simp only [Res.ok.injEq] at h
      obtain ⟨rfl, rfl⟩ := h
      have hle : n ≤ p.length := Nat.le_of_not_lt hl
      have : n ≤ p.length + q.length := by omega
      simp [this, List.take_append_of_le_length hle, List.drop_append_of_le_length hle]
  · intro h; split at h <;> simp at h
  · intro h; split at h <;> simp at h

theorem andThen_stable {α β} (f : P α) (g : α → P β)
    (hf : Stable f) (hg : ∀ a, Stable (g a)) : Stable (andThen f g) := by
  intro p q
  obtain ⟨f1, f2, f3⟩ := hf p q
  unfold andThen
  cases h : f p with
  | ok v r =>
    rw [f1 v r h]
    exact hg v r q
  | incomplete => simp
  | error => simp [f2 h]
  | failure => simp [f3 h]

theorem pMap_stable {α β} (p : P α) (f : α → β) (hp : Stable p) : Stable (pMap p f) := by
  intro a b
  obtain ⟨h1, h2, h3⟩ := hp a b
  unfold pMap
  cases h : p a with
  | ok v r => simp [h1 v r h]
  | incomplete => simp
  | error => simp [h2 h]
  | failure => simp [h3 h]

theorem mapRes_stable {α β} (p : P α) (f : α → Option β) (hp : Stable p) : Stable (mapRes p f) := by
  intro a b
  obtain ⟨h1, h2, h3⟩ := hp a b
  unfold mapRes
  cases h : p a with
  | ok v r =>
    simp only [h1 v r h]
    cases f v <;> simp
  | incomplete => simp
  | error => simp [h2 h]
  | failure => simp [h3 h]

theorem alt_stable {α} (f g : P α) (hf : Stable f) (hg : Stable g) : Stable (alt f g) := by
  intro p q
  obtain ⟨f1, f2, f3⟩ := hf p q
  obtain ⟨g1, g2, g3⟩ := hg p q
  unfold alt
  cases h : f p with
  | ok v r => simp [f1 v r h]
  | incomplete => simp
  | error => simp [f2 h]; exact ⟨g1, g2, g3⟩
  | failure => simp [f3 h]

theorem opt_stable {α} (p : P α) (hp : Stable p) : Stable (opt p) := by
  intro a b
  obtain ⟨h1, h2, h3⟩ := hp a b
  unfold opt
  cases h : p a with
  | ok v r => simp [h1 v r h]
  | incomplete => simp
  | error => simp [h2 h]
  | failure => simp [h3 h]

theorem cut_stable {α} (p : P α) (hp : Stable p) : Stable (cut p) := by
  intro a b
  obtain ⟨h1, h2, h3⟩ := hp a b
  unfold cut
  cases h : p a with
  | ok v r => simp [h1 v r h]
  | incomplete => simp
  | error => simp [h2 h]
  | failure => simp [h3 h]

theorem terminated_stable {α β} (p : P α) (q : P β) (hp : Stable p) (hq : Stable q) :
    Stable (terminated p q) :=
  andThen_stable _ _ hp fun _ => pMap_stable _ _ hq

theorem preceded_stable {α β} (p : P α) (q : P β) (hp : Stable p) (hq : Stable q) :
    Stable (preceded p q) :=
  andThen_stable _ _ hp fun _ => hq

theorem number_stable : Stable number := mapRes_stable _ _ (takeWhile1_stable _)

theorem errorCodeAndIndex_stable : Stable errorCodeAndIndex := by
  unfold errorCodeAndIndex
  apply preceded_stable _ _ (char_stable _)
  apply andThen_stable _ _ number_stable
  intro _
  apply preceded_stable _ _ (char_stable _)
  apply andThen_stable _ _ number_stable
  intro _
  exact pMap_stable _ _ (char_stable _)

theorem errorCurrentCommand_stable : Stable errorCurrentCommand := by
  unfold errorCurrentCommand
  apply preceded_stable _ _ (char_stable _)
  apply terminated_stable _ _ _ (char_stable _)
  exact opt_stable _ (mapRes_stable _ _ (takeWhile1_stable _))

theorem error_stable : Stable error := by
  unfold error
  apply preceded_stable _ _ (tag_stable _)
  apply andThen_stable _ _ (terminated_stable _ _ errorCodeAndIndex_stable (char_stable _))
  intro _
  apply andThen_stable _ _ (terminated_stable _ _ errorCurrentCommand_stable (char_stable _))
  intro _
  apply andThen_stable _ _ (mapRes_stable _ _ (takeWhile_stable _))
  intro _
  exact pMap_stable _ _ (char_stable _)

theorem fieldValue_stable : Stable fieldValue :=
  terminated_stable _ _ takeUntilLF_stable (char_stable _)

theorem keyValueField_stable : Stable keyValueField := by
  unfold keyValueField
  apply andThen_stable _ _ (mapRes_stable _ _ (takeWhile1_stable _))
  intro _
  apply preceded_stable _ _ (tag_stable _)
  exact pMap_stable _ _ (mapRes_stable _ _ fieldValue_stable)

theorem binaryPrefix_stable : Stable binaryPrefix := by
  unfold binaryPrefix
  apply preceded_stable _ _ (tag_stable _)
  exact cut_stable _ (terminated_stable _ _ number_stable (char_stable _))

theorem binaryField_stable : Stable binaryField := by
  unfold binaryField
  apply andThen_stable _ _ binaryPrefix_stable
  intro _
  exact cut_stable _ (terminated_stable _ _ (take_stable _) (char_stable _))

/-- **prefix stability of `ParsedComponent::parse`** -/
theorem parseComp_stable : Stable parseComp := by
  unfold parseComp
  apply alt_stable _ _ (pMap_stable _ _ (tag_stable _))
  apply alt_stable _ _ (pMap_stable _ _ (tag_stable _))
  apply alt_stable _ _ (pMap_stable _ _ error_stable)
  apply alt_stable _ _ (pMap_stable _ _ binaryField_stable)
  exact pMap_stable _ _ keyValueField_stable

theorem greeting_stable : Stable greeting := by
  unfold greeting
  apply preceded_stable _ _ (tag_stable _)
  exact terminated_stable _ _ (mapRes_stable _ _ (takeWhile1_stable _)) (char_stable _)

/-- every parser returns a suffix: the consumed bytes are a prefix of the input -/
def Suffix {α} (f : P α) : Prop := ∀ i v r, f i = .ok v r → ∃ c, i = c ++ r

end Mpd.Parser
