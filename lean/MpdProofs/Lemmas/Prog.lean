import Mpd.Typed.Prog
/-!
Lemmas about field-extraction programs (`Mpd/Typed/Prog.lean`):

* `Prog.run_eq_runF`: a program that never asks for the same key twice computes, on EVERY frame
  (duplicate keys included), the same outcome as looking each key up in the untouched frame —
  `Frame::get` removing the field is unobservable;
* `AFrame.find_perm`: on lines with pairwise distinct keys, lookup is invariant under permutation.
-/
namespace Mpd
open Mpd.Typed

namespace AFrame

theorem find_eq (l : List (Bytes × Bytes)) (b : Option Bytes) (k : Bytes) :
    (AFrame.mk l b).find k = (l.find? (·.1 == k)).map (·.2) := rfl

theorem find_eraseFirst_ne (k k' : Bytes) (h : k ≠ k') (l : List (Bytes × Bytes)) :
    ((eraseFirst k' l).find? (·.1 == k)) = (l.find? (·.1 == k)) := by
  induction l with
  | nil => rfl
  | cons p ps ih =>
    unfold eraseFirst
    by_cases hp : (p.1 == k') = true
    · have : (p.1 == k) = false := by
        have e : p.1 = k' := by simpa using hp
        simp [e, Ne.symm h]
      simp [hp, this]
    · simp only [hp, Bool.false_eq_true, if_false, List.find?_cons]
      cases hk : (p.1 == k) <;> simp [ih]

/-- `get k'` does not disturb the lookup of a different key -/
theorem find_get_ne (f : AFrame) (k k' : Bytes) (h : k ≠ k') : (f.get k').2.find k = f.find k := by
  unfold get
  cases hf : f.find k' with
  | none => rfl
  | some v => simp only [find]; rw [find_eraseFirst_ne k k' h]

theorem get_fst (f : AFrame) (k : Bytes) : (f.get k).1 = f.find k := by
  unfold get; cases f.find k <;> rfl

theorem get_binary (f : AFrame) (k : Bytes) : (f.get k).2.binary = f.binary := by
  unfold get; cases f.find k <;> rfl

/-- keys of the lines -/
def keys (l : List (Bytes × Bytes)) : List Bytes := l.map (·.1)

theorem find?_none_of_not_mem (k : Bytes) (l : List (Bytes × Bytes)) (h : k ∉ keys l) :
    l.find? (·.1 == k) = none := by
  induction l with
  | nil => rfl
  | cons p ps ih =>
    simp only [keys, List.map_cons, List.mem_cons, not_or] at h
    have : (p.1 == k) = false := by simpa using fun e => h.1 e.symm
    simp [this, ih h.2]

/-- lookup in lines with pairwise distinct keys does not depend on their order -/
theorem find?_perm {l₁ l₂ : List (Bytes × Bytes)} (hp : l₁.Perm l₂) (hd : (keys l₁).Nodup) (k : Bytes) :
    l₁.find? (·.1 == k) = l₂.find? (·.1 == k) := by
  induction hp with
  | nil => rfl
  | cons x _ ih =>
    simp only [keys, List.map_cons, List.nodup_cons] at hd
    simp only [List.find?_cons]
    cases (x.1 == k) <;> simp [ih hd.2]
  | swap x y l =>
    simp only [keys, List.map_cons, List.nodup_cons, List.mem_cons, not_or] at hd
    simp only [List.find?_cons]
    cases hx : (x.1 == k) <;> cases hy : (y.1 == k) <;> simp
    have ex : x.1 = k := by simpa using hx
    have ey : y.1 = k := by simpa using hy
    exact absurd (ey.trans ex.symm) hd.1.1
  | trans h₁ _ ih₁ ih₂ =>
    rw [ih₁ hd, ih₂ ((h₁.map _).nodup_iff.mp hd)]

theorem find_perm {l₁ l₂ : List (Bytes × Bytes)} (hp : l₁.Perm l₂) (hd : (keys l₁).Nodup)
    (b₁ b₂ : Option Bytes) (k : Bytes) :
    (AFrame.mk l₁ b₁).find k = (AFrame.mk l₂ b₂).find k := by
  simp only [find]; rw [find?_perm hp hd]

end AFrame

namespace Typed

/-- `f` answers every key outside `S` like `f0` (the keys in `S` have been taken out) -/
def Agree (S : List Bytes) (f0 f : AFrame) : Prop := ∀ k, k ∉ S → f.find k = f0.find k

theorem Agree.refl (f : AFrame) : Agree [] f f := fun _ _ => rfl

theorem Agree.get {S f0 f} (h : Agree S f0 f) (k : Bytes) : Agree (k :: S) f0 (f.get k).2 := by
  intro k' hk'
  simp only [List.mem_cons, not_or] at hk'
  rw [AFrame.find_get_ne f k' k hk'.1]
  exact h k' hk'.2

/-- the program never reads a key in `S`, and never reads a key twice -/
inductive Fresh {α} : List Bytes → Prog α → Prop where
  | ret (S o) : Fresh S (.ret o)
  | get (S k c) : k ∉ S → (∀ v, Fresh (k :: S) (c v)) → Fresh S (.get k c)

theorem Prog.run_eq_runF_aux {α} (p : Prog α) (S : List Bytes) (hf : Fresh S p) (f0 f : AFrame)
    (ha : Agree S f0 f) : p.run f = p.runF f0.find := by
  induction hf generalizing f with
  | ret S o => rfl
  | get S k c hk _ ih =>
    simp only [Prog.run, Prog.runF]
    rw [AFrame.get_fst, ha k hk]
    exact ih _ _ (ha.get k)

/-- removal of fields by `Frame::get` is unobservable for a program that reads each key at most
once: it computes a function of the first-occurrence lookup of the original frame -/
theorem Prog.run_eq_runF {α} (p : Prog α) (hf : Fresh [] p) (f : AFrame) : p.run f = p.runF f.find :=
  Prog.run_eq_runF_aux p [] hf f f (Agree.refl f)

/-! ### freshness of the helper combinators -/

theorem Fresh.mono {α} {S S' : List Bytes} {p : Prog α} (h : Fresh S' p) (hs : ∀ k, k ∈ S → k ∈ S') : Fresh S p := by
  induction h generalizing S with
  | ret S' o => exact Fresh.ret _ _
  | get S' k c hk _ ih =>
    refine Fresh.get _ _ _ (fun hm => hk (hs k hm)) (fun v => ih v ?_)
    intro k' hk'
    simp only [List.mem_cons] at hk' ⊢
    exact hk'.imp id (hs k')

theorem Fresh.pValue {α β} {S} {conv : Bytes → Option α} {k} {c : α → Prog β}
    (hk : k ∉ S) (hc : ∀ a, Fresh (k :: S) (c a)) : Fresh S (pValue conv k c) := by
  unfold Typed.pValue
  refine Fresh.get _ _ _ hk (fun v => ?_)
  cases v with
  | none => exact Fresh.ret _ _
  | some v => simp only []; cases conv v with
    | none => exact Fresh.ret _ _
    | some a => exact hc a

theorem Fresh.pOptional {α β} {S} {conv : Bytes → Option α} {k} {c : Option α → Prog β}
    (hk : k ∉ S) (hc : ∀ a, Fresh (k :: S) (c a)) : Fresh S (pOptional conv k c) := by
  unfold Typed.pOptional
  refine Fresh.get _ _ _ hk (fun v => ?_)
  cases v with
  | none => exact hc none
  | some v => simp only []; cases conv v with
    | none => exact Fresh.ret _ _
    | some a => exact hc _

theorem Fresh.pRaw {β} {S} {k} {c : Option Bytes → Prog β}
    (hk : k ∉ S) (hc : ∀ a, Fresh (k :: S) (c a)) : Fresh S (pRaw k c) :=
  Fresh.get _ _ _ hk hc

theorem Fresh.pSongIdentifier {β} {S} {pk ik} {c : Option (Nat × Nat) → Prog β}
    (hp : pk ∉ S) (hi : ik ∉ pk :: S) (hc : ∀ a, Fresh (ik :: pk :: S) (c a)) :
    Fresh S (pSongIdentifier pk ik c) := by
  unfold Typed.pSongIdentifier
  refine Fresh.pOptional hp (fun o => ?_)
  cases o with
  | none => exact (hc none).mono (fun k hk => List.mem_cons_of_mem _ hk)
  | some p => exact Fresh.pValue hi (fun i => hc _)

macro "fresh_step" : tactic => `(tactic| first
  | exact Fresh.ret _ _
  | (refine Fresh.pSongIdentifier (by decide) (by decide) (fun _ => ?_))
  | (refine Fresh.pValue (by decide) (fun _ => ?_))
  | (refine Fresh.pOptional (by decide) (fun _ => ?_))
  | (refine Fresh.pRaw (by decide) (fun _ => ?_))
  | (refine Fresh.get _ _ _ (by decide) (fun _ => ?_)))

/-! ### `runF` of the helper combinators -/

@[simp] theorem runF_ret {α} (o : Outcome α) (look) : (Prog.ret o).runF look = o := rfl
@[simp] theorem runF_get {α} (k) (c : Option Bytes → Prog α) (look) :
    (Prog.get k c).runF look = (c (look k)).runF look := rfl

theorem runF_pRaw {β} (k) (c : Option Bytes → Prog β) (look) :
    (pRaw k c).runF look = (c (look k)).runF look := rfl

theorem runF_pValue {α β} (conv : Bytes → Option α) (k) (c : α → Prog β) (look) :
    (pValue conv k c).runF look =
      match look k with
      | none => .terr
      | some v => match conv v with
        | none => .terr
        | some a => (c a).runF look := by
  unfold pValue
  simp only [runF_get]
  cases look k with
  | none => rfl
  | some v => simp only []; cases conv v <;> rfl

theorem runF_pOptional {α β} (conv : Bytes → Option α) (k) (c : Option α → Prog β) (look) :
    (pOptional conv k c).runF look =
      match look k with
      | none => (c none).runF look
      | some v => match conv v with
        | none => .terr
        | some a => (c (some a)).runF look := by
  unfold pOptional
  simp only [runF_get]
  cases look k with
  | none => rfl
  | some v => simp only []; cases conv v <;> rfl

/-- a required field whose line is present with a convertible value -/
theorem runF_pValue_some {α β} {conv : Bytes → Option α} {k} {c : α → Prog β} {look} {v a}
    (h : look k = some v) (hc : conv v = some a) : (pValue conv k c).runF look = (c a).runF look := by
  rw [runF_pValue, h]; simp [hc]

/-- an optional field: line absent, or present with a convertible value -/
theorem runF_pOptional_enc {α β} {conv : Bytes → Option α} {k} {c : Option α → Prog β} {look}
    {o : Option α} {render : α → Bytes} (h : look k = o.map render)
    (hc : ∀ a, o = some a → conv (render a) = some a) :
    (pOptional conv k c).runF look = (c o).runF look := by
  rw [runF_pOptional, h]
  cases o with
  | none => rfl
  | some a => simp [hc a rfl]

/-- the same with the decoded value given by a view `g` of the abstract value -/
theorem runF_pOptional_encv {α γ β} {conv : Bytes → Option α} {k} {c : Option α → Prog β} {look}
    {o : Option γ} {render : γ → Bytes} {g : γ → α} (h : look k = o.map render)
    (hc : ∀ a, o = some a → conv (render a) = some (g a)) :
    (pOptional conv k c).runF look = (c (o.map g)).runF look := by
  rw [runF_pOptional, h]
  cases o with
  | none => rfl
  | some a => simp [hc a rfl]

theorem runF_pSongIdentifier_enc {β} {posK idK} {c : Option (Nat × Nat) → Prog β} {look}
    {o : Option (Nat × Nat)} {render : Nat → Bytes}
    (hp : look posK = o.map (render ·.1)) (hi : look idK = o.map (render ·.2))
    (hcp : ∀ a, o = some a → parseUsize (render a.1) = some a.1)
    (hci : ∀ a, o = some a → parseU64 (render a.2) = some a.2) :
    (pSongIdentifier posK idK c).runF look = (c o).runF look := by
  unfold pSongIdentifier
  rw [runF_pOptional, hp]
  cases o with
  | none => rfl
  | some a =>
    simp only [Option.map_some, hcp a rfl]
    rw [runF_pValue, hi]
    simp [hci a rfl]

end Typed
end Mpd
