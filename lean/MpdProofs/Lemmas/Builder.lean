import Mpd.Builder
import MpdProofs.Lemmas.Parser
/-!
# Chunk independence of `ResponseBuilder::parse` (`feed`)

Feeding `buf ++ q` gives the same result as feeding `buf`, and — if that left the builder pending —
continuing with the unconsumed rest followed by `q`.
-/
namespace Mpd.Builder
open Mpd Mpd.Parser

/-- the bytes consumed by a successful component are a prefix, unaffected by appended bytes -/
theorem consumed_append (buf rest q : Bytes) (h : rest.length ≤ buf.length) :
    (buf ++ q).take ((buf ++ q).length - (rest ++ q).length) = buf.take (buf.length - rest.length) := by
  have : (buf ++ q).length - (rest ++ q).length = buf.length - rest.length := by simp; omega
  rw [this]
  exact List.take_append_of_le_length (by omega)

theorem feed_pending_append (σ : BState) (buf q : Bytes) :
    (feed σ buf).2.2 = .pending →
    feed σ (buf ++ q) = feed (feed σ buf).1 ((feed σ buf).2.1 ++ q) := by
  fun_induction feed σ buf with
  | case1 σ buf c rest h hlt hp => intro hh; simp at hh
  | case2 σ buf c rest h hlt pc hpc σ' r hb => intro hh; simp at hh
  | case3 σ buf c rest h hlt pc hpc σ' hb ih =>
    intro hh
    have hs := (parseComp_stable buf q).1 c rest h
    have hc := consumed_append buf rest q (Nat.le_of_lt hlt)
    rw [feed]
    split
    · rename_i c2 rest2 h2
      rw [hs] at h2
      simp only [Res.ok.injEq] at h2
      obtain ⟨rfl, rfl⟩ := h2
      simp only [hc, hpc, hb]
      exact ih hh
    all_goals (rename_i h2; rw [hs] at h2; simp at h2)
  | case4 σ buf h => intro _; simp
  | case5 σ buf h => intro hh; simp at hh
  | case6 σ buf h => intro hh; simp at hh

/-- a result other than `pending` is final: more bytes only extend the unconsumed rest -/
theorem feed_final_append (σ : BState) (buf q : Bytes) :
    (feed σ buf).2.2 ≠ .pending →
    feed σ (buf ++ q) = ((feed σ buf).1, (feed σ buf).2.1 ++ q, (feed σ buf).2.2) := by
  fun_induction feed σ buf with
  | case1 σ buf c rest h hlt hp =>
    intro _
    have hs := (parseComp_stable buf q).1 c rest h
    have hc := consumed_append buf rest q (Nat.le_of_lt hlt)
    rw [feed]
    split
    · rename_i c2 rest2 h2
      rw [hs] at h2
      simp only [Res.ok.injEq] at h2
      obtain ⟨rfl, rfl⟩ := h2
      simp only [hc, hp]
    all_goals (rename_i h2; rw [hs] at h2; simp at h2)
  | case2 σ buf c rest h hlt pc hpc σ' r hb =>
    intro _
    have hs := (parseComp_stable buf q).1 c rest h
    have hc := consumed_append buf rest q (Nat.le_of_lt hlt)
    rw [feed]
    split
    · rename_i c2 rest2 h2
      rw [hs] at h2
      simp only [Res.ok.injEq] at h2
      obtain ⟨rfl, rfl⟩ := h2
      simp only [hc, hpc, hb]
    all_goals (rename_i h2; rw [hs] at h2; simp at h2)
  | case3 σ buf c rest h hlt pc hpc σ' hb ih =>
    intro hh
    have hs := (parseComp_stable buf q).1 c rest h
    have hc := consumed_append buf rest q (Nat.le_of_lt hlt)
    rw [feed]
    split
    · rename_i c2 rest2 h2
      rw [hs] at h2
      simp only [Res.ok.injEq] at h2
      obtain ⟨rfl, rfl⟩ := h2
      simp only [hc, hpc, hb]
      exact ih hh
    all_goals (rename_i h2; rw [hs] at h2; simp at h2)
  | case4 σ buf h => intro hh; simp at hh
  | case5 σ buf h =>
    intro _
    have hs := (parseComp_stable buf q).2.1 h
    rw [feed]
    split <;> rename_i h2 <;> rw [hs] at h2 <;> first | (simp at h2; done) | rfl
  | case6 σ buf h =>
    intro _
    have hs := (parseComp_stable buf q).2.2 h
    rw [feed]
    split <;> rename_i h2 <;> rw [hs] at h2 <;> first | (simp at h2; done) | rfl

/-- what `feed` leaves unconsumed is a suffix of its input -/
theorem feed_rest_length (σ : BState) (buf : Bytes) : (feed σ buf).2.1.length ≤ buf.length := by
  fun_induction feed σ buf with
  | case1 σ buf c rest h hlt hp => simp; omega
  | case2 σ buf c rest h hlt pc hpc σ' r hb => simp; omega
  | case3 σ buf c rest h hlt pc hpc σ' hb ih => omega
  | case4 σ buf h => simp
  | case5 σ buf h => simp
  | case6 σ buf h => simp

/-- a completed response consumed at least one byte -/
theorem feed_done_progress (σ : BState) (buf : Bytes) (r : Response) :
    (feed σ buf).2.2 = .done r → (feed σ buf).2.1.length < buf.length := by
  fun_induction feed σ buf with
  | case1 σ buf c rest h hlt hp => intro hh; simp at hh
  | case2 σ buf c rest h hlt pc hpc σ' r hb => intro _; simpa using hlt
  | case3 σ buf c rest h hlt pc hpc σ' hb ih => intro hh; have := ih hh; omega
  | case4 σ buf h => intro hh; simp at hh
  | case5 σ buf h => intro hh; simp at hh
  | case6 σ buf h => intro hh; simp at hh

theorem bstep_some_initial (σ : BState) (pc : Piece) (r : Response) (h : (bstep σ pc).2 = some r) :
    (bstep σ pc).1 = .initial := by
  cases σ <;> cases pc <;> simp_all [bstep]

/-- a completed response leaves the builder in its initial state (`finish` / `error` reset it) -/
theorem feed_done_initial (σ : BState) (buf : Bytes) (r : Response) :
    (feed σ buf).2.2 = .done r → (feed σ buf).1 = .initial := by
  fun_induction feed σ buf with
  | case1 σ buf c rest h hlt hp => intro hh; simp at hh
  | case2 σ buf c rest h hlt pc hpc σ' r' hb =>
    intro _
    have := bstep_some_initial σ pc r' (by rw [hb])
    rw [hb] at this
    simpa using this
  | case3 σ buf c rest h hlt pc hpc σ' hb ih => intro hh; exact ih hh
  | case4 σ buf h => intro hh; simp at hh
  | case5 σ buf h => intro hh; simp at hh
  | case6 σ buf h => intro hh; simp at hh

end Mpd.Builder
