import Mpd.F64
/-!
# Lemmas about the binary64 emulation (`Mpd/F64.lean`) used by C15

`asSecsF64` names the value `millisRendered` formats; `rhe_error`: round-half-even is within one
half of the exact quotient.
-/
namespace Mpd.F64L
open Mpd Mpd.F64

/-- `Duration::as_secs_f64` in the emulation (the value `millisRendered` formats) -/
def asSecsF64 (secs nanos : Nat) : Val :=
  let a := round64 secs 1
  let b := round64 nanos 1000000000
  round64 (a.num * b.den + b.num * a.den) (a.den * b.den)

theorem millisRendered_eq (secs nanos : Nat) :
    millisRendered secs nanos = rhe ((asSecsF64 secs nanos).num * 1000) (asSecsF64 secs nanos).den := rfl

/-- round-half-even is within one half: `|rhe n d − n/d| ≤ 1/2` -/
theorem rhe_error (n d : Nat) (hd : 0 < d) :
    2 * (rhe n d * d) ≤ 2 * n + d ∧ 2 * n ≤ 2 * (rhe n d * d) + d := by
  have h1 := Nat.div_add_mod n d
  have h2 := Nat.mod_lt n hd
  have hq : d * (n / d) = n / d * d := Nat.mul_comm _ _
  unfold rhe
  simp only
  generalize hQ : n / d = q at *
  generalize hR : n % d = r at *
  have e1 : (q + 1) * d = q * d + d := by rw [Nat.add_mul, Nat.one_mul]
  split
  · omega
  · split
    · rw [e1]; omega
    · split
      · omega
      · rw [e1]; omega

theorem pow2_pos (k : Nat) : 0 < pow2 k := Nat.pow_pos (by decide)

theorem den_pos (v : Val) : 0 < v.den := by
  cases v with
  | inf => decide
  | fin m e => simp only [Val.den]; split <;> first | decide | exact pow2_pos _

end Mpd.F64L
