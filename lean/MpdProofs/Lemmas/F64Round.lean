import Mpd.F64
/-!
# Lemmas about the binary64 emulation (`Mpd/F64.lean`) used by C15

`asSecsF64` names the value `millisRendered` formats; `rhe_error`: round-half-even is within one
half of the exact quotient; `round64_spec`: one binary64 rounding as an integer rounding at scale
`2^K`; `millisRendered_within`: the complete error analysis of `{:.3}` of `as_secs_f64()` for
durations below 2^43 s (three binary roundings + one decimal rounding stay within 1 ms).
-/
namespace Mpd.F64L
open Mpd Mpd.F64

/-- `Duration::as_secs_f64` in the emulation (the value `millisRendered` formats) -/
def asSecsF64 (secs nanos : Nat) : Val :=
  let a := round64 secs 1
  let b := round64 nanos 1000000000
  round64 (a.num * b.den + b.num * a.den) (a.den * b.den)

theorem millisRendered_eq (secs nanos : Nat) :
    millisRendered secs nanos = rhe ((asSecsF64 secs nanos).num * 1000) (asSecsF64 secs nanos).den := rfl

/-- round-half-even is within one half: `|rhe n d − n/d| ≤ 1/2` -/
theorem rhe_error (n d : Nat) (hd : 0 < d) :
    2 * (rhe n d * d) ≤ 2 * n + d ∧ 2 * n ≤ 2 * (rhe n d * d) + d := by
  have h1 := Nat.div_add_mod n d
  have h2 := Nat.mod_lt n hd
  have hq : d * (n / d) = n / d * d := Nat.mul_comm _ _
  unfold rhe
  simp only
  generalize hQ : n / d = q at *
  generalize hR : n % d = r at *
  have e1 : (q + 1) * d = q * d + d := by rw [Nat.add_mul, Nat.one_mul]
  split
  · omega
  · split
    · rw [e1]; omega
    · split
      · omega
      · rw [e1]; omega

theorem pow2_pos (k : Nat) : 0 < pow2 k := Nat.pow_pos (by decide)

theorem den_pos (v : Val) : 0 < v.den := by
  cases v with
  | inf => decide
  | fin m e => simp only [Val.den]; split <;> first | decide | exact pow2_pos _

/-- the exponent `round64` works with -/
def expOf (n d : Nat) : Int := max (flog2 n d - 52) (-1074)

theorem round64_neg (n d K : Nat) (hn : n ≠ 0) (hK : expOf n d = -(K : Int)) (hK1 : 1 ≤ K) :
    round64 n d =
      (let m := rhe (n * pow2 K) d
       if m = pow2 53 then .fin (pow2 52) (-(K : Int) + 1)
       else if m = 0 then .fin 0 0 else .fin m (-(K : Int))) := by
  unfold round64
  simp only [hn, if_false]
  have he : max (flog2 n d - 52) (-1074) = -(K : Int) := hK
  simp only [he]
  have h1 : ¬ (-(K : Int) ≥ 0) := by omega
  have h2 : (-(-(K : Int))).toNat = K := by omega
  simp only [h1, if_false, h2]
  by_cases hm : rhe (n * pow2 K) d = pow2 53
  · simp only [hm, if_true]
    have : pow2 52 ≠ 0 := by decide
    have h3 : ¬ (-(K : Int) + 1 + 52 > 1023) := by omega
    simp [this, h3]
  · simp only [hm, if_false]
    by_cases h0 : rhe (n * pow2 K) d = 0
    · simp [h0]
    · have h3 : ¬ (-(K : Int) + 52 > 1023) := by omega
      simp [h0, h3]

/-- **one binary64 rounding** with a negative working exponent `-K`: the result, scaled by `2^K`,
is the integer `m0` = round-half-even of `n·2^K / d` (renormalisation and the zero case do not
change the value) -/
theorem round64_spec (n d K : Nat) (hn : n ≠ 0) (hd : 0 < d) (hK : expOf n d = -(K : Int)) (hK1 : 1 ≤ K) :
    ∃ m0, (round64 n d).num * 2 ^ K = m0 * (round64 n d).den ∧
      2 * (m0 * d) ≤ 2 * (n * 2 ^ K) + d ∧ 2 * (n * 2 ^ K) ≤ 2 * (m0 * d) + d := by
  refine ⟨rhe (n * pow2 K) d, ?_, rhe_error _ _ hd⟩
  rw [round64_neg n d K hn hK hK1]
  simp only
  by_cases hm : rhe (n * pow2 K) d = pow2 53
  · simp only [hm, if_true, Val.num, Val.den]
    by_cases hk : K = 1
    · subst hk; decide
    · have h1 : ¬ (-(K : Int) + 1 ≥ 0) := by omega
      have h2 : (-(-(K : Int) + 1)).toNat = K - 1 := by omega
      simp only [h1, if_false, h2, pow2]
      have : 2 ^ K = 2 * 2 ^ (K - 1) := by
        have : K = (K - 1) + 1 := by omega
        rw [this, Nat.pow_succ]; simp [Nat.mul_comm]
      rw [this]
      have e53 : (2 : Nat) ^ 53 = 2 * 2 ^ 52 := by decide
      rw [e53]; grind
  · simp only [hm, if_false]
    by_cases h0 : rhe (n * pow2 K) d = 0
    · simp [h0, Val.num, Val.den]
    · have h1 : ¬ (-(K : Int) ≥ 0) := by omega
      have h2 : (-(-(K : Int))).toNat = K := by omega
      rw [if_neg h0]
      simp only [Val.num, Val.den, h1, if_false, h2]
      rfl

/-! ## bounding the working exponent -/

theorem flog2_le (n d : Nat) : flog2 n d ≤ (Nat.log2 n : Int) - (Nat.log2 d : Int) + 1 := by
  unfold flog2
  simp only
  split
  · omega
  · split <;> omega

theorem flog2_ge (n d : Nat) : (Nat.log2 n : Int) - (Nat.log2 d : Int) - 1 ≤ flog2 n d := by
  unfold flog2
  simp only
  split
  · omega
  · split <;> omega

/-- `flog2` never overshoots: `n/d < 2^U` implies `flog2 n d < U` -/
theorem flog2_lt (n d U : Nat) (hn : n ≠ 0) (h : n < d * 2 ^ U) : flog2 n d < (U : Int) := by
  -- bit lengths: log2 n ≤ log2 d + U
  have hk : (Nat.log2 n : Int) - (Nat.log2 d : Int) ≤ U := by
    have h1 : d < 2 ^ (Nat.log2 d + 1) := Nat.lt_log2_self
    have h2 : n < 2 ^ (Nat.log2 d + 1 + U) := by
      rw [Nat.pow_add]
      exact Nat.lt_trans h (Nat.mul_lt_mul_of_pos_right h1 (Nat.pow_pos (by decide)))
    have := (Nat.log2_lt hn).mpr h2
    omega
  -- a successful comparison `d·2^j ≤ n` forces `j < U`
  have key : ∀ j : Int, (if j ≥ 0 then decide (d * pow2 j.toNat ≤ n) else decide (d ≤ n * pow2 (-j).toNat)) = true →
      j < (U : Int) := by
    intro j hj
    by_cases hj0 : j ≥ 0
    · simp only [hj0, if_true, decide_eq_true_eq] at hj
      have h3 : d * 2 ^ j.toNat < d * 2 ^ U := Nat.lt_of_le_of_lt hj h
      have h4 : 2 ^ j.toNat < 2 ^ U := Nat.lt_of_mul_lt_mul_left h3
      have h5 : j.toNat < U := (Nat.pow_lt_pow_iff_right (by decide)).mp h4
      omega
    · omega
  unfold flog2
  simp only
  generalize (Nat.log2 n : Int) - (Nat.log2 d : Int) = k at *
  by_cases h1 : (if k + 1 ≥ 0 then decide (d * pow2 (k + 1).toNat ≤ n)
      else decide (d ≤ n * pow2 (-(k + 1)).toNat)) = true
  · rw [if_pos h1]; exact key _ h1
  · rw [if_neg h1]
    by_cases h2 : (if k ≥ 0 then decide (d * pow2 k.toNat ≤ n) else decide (d ≤ n * pow2 (-k).toNat)) = true
    · rw [if_pos h2]; exact key _ h2
    · rw [if_neg h2]; omega

/-- if `n/d < 2^U` (`U ≤ 52`), `round64` works with an exponent `-K`, `K ≥ 53 - U`: the result is
a multiple of `2^-K` -/
theorem expOf_neg (n d U : Nat) (hn : n ≠ 0) (h : n < d * 2 ^ U) (hU : U ≤ 52) :
    ∃ K : Nat, expOf n d = -(K : Int) ∧ 53 ≤ K + U := by
  have h1 := flog2_lt n d U hn h
  refine ⟨(-(expOf n d)).toNat, ?_, ?_⟩ <;> unfold expOf <;> omega

theorem den_pow2 (v : Val) : ∃ k, v.den = 2 ^ k := by
  cases v with
  | inf => exact ⟨0, rfl⟩
  | fin m e =>
    simp only [Val.den]
    split
    · exact ⟨0, rfl⟩
    · exact ⟨_, rfl⟩

/-! ## rescaling an error bound to another denominator -/

/-- from `|x − N·k/D| ≤ 1/2` and `N/D = m/S`: `|x − m·k/S| ≤ 1/2` (upper half) -/
theorem rescale_le {x D N k S m : Nat} (hD : 0 < D) (hNS : N * S = m * D)
    (h : 2 * (x * D) ≤ 2 * (N * k) + D) : 2 * (x * S) ≤ 2 * (m * k) + S := by
  have h' := Nat.mul_le_mul_right S h
  have e0 : N * k * S = m * k * D := by
    calc N * k * S = (N * S) * k := by grind
      _ = (m * D) * k := by rw [hNS]
      _ = m * k * D := by grind
  have e1 : 2 * (x * D) * S = (2 * (x * S)) * D := by grind
  have e2 : (2 * (N * k) + D) * S = (2 * (m * k) + S) * D := by grind
  rw [e1, e2] at h'
  exact Nat.le_of_mul_le_mul_right h' hD

/-- (lower half) -/
theorem rescale_ge {x D N k S m : Nat} (hD : 0 < D) (hNS : N * S = m * D)
    (h : 2 * (N * k) ≤ 2 * (x * D) + D) : 2 * (m * k) ≤ 2 * (x * S) + S := by
  have h' := Nat.mul_le_mul_right S h
  have e0 : N * k * S = m * k * D := by
    calc N * k * S = (N * S) * k := by grind
      _ = (m * D) * k := by rw [hNS]
      _ = m * k * D := by grind
  have e1 : 2 * (N * k) * S = (2 * (m * k)) * D := by grind
  have e2 : (2 * (x * D) + D) * S = (2 * (x * S) + S) * D := by grind
  rw [e1, e2] at h'
  exact Nat.le_of_mul_le_mul_right h' hD

/-! ## the three roundings of `as_secs_f64` for durations below 2^43 s -/

theorem two_pow_ge (j K : Nat) (h : j ≤ K) : 2 ^ j ≤ 2 ^ K := Nat.pow_le_pow_right (by decide) h

/-- `secs as f64` is exact below 2^43 (indeed below 2^53) -/
theorem secs_exact (secs : Nat) (hs : secs < 2 ^ 43) :
    (round64 secs 1).num = secs * (round64 secs 1).den := by
  by_cases h0 : secs = 0
  · subst h0; decide
  · obtain ⟨K, hK, hK11⟩ := expOf_neg secs 1 43 h0 (by omega) (by omega)
    obtain ⟨m0, h1, h2, h3⟩ := round64_spec secs 1 K h0 (by decide) hK (by omega)
    have hm : m0 = secs * 2 ^ K := by omega
    rw [hm] at h1
    have hp : 0 < 2 ^ K := Nat.pow_pos (by decide)
    have : (round64 secs 1).num * 2 ^ K = secs * (round64 secs 1).den * 2 ^ K := by grind
    exact Nat.eq_of_mul_eq_mul_right hp this

/-- `nanos as f64 / 1e9`: a multiple of `1/S`, `S ≥ 2^53`, within `1/(2S)` of the exact quotient -/
theorem nanos_round (nanos : Nat) (hn : nanos < 1000000000) :
    ∃ m S, 2 ^ 53 ≤ S ∧ (round64 nanos 1000000000).num * S = m * (round64 nanos 1000000000).den ∧
      2 * (m * 1000000000) ≤ 2 * (nanos * S) + 1000000000 ∧
      2 * (nanos * S) ≤ 2 * (m * 1000000000) + 1000000000 := by
  by_cases h0 : nanos = 0
  · subst h0; exact ⟨0, 2 ^ 53, Nat.le_refl _, by decide, by decide, by decide⟩
  · obtain ⟨K, hK, hK11⟩ := expOf_neg nanos 1000000000 0 h0 (by omega) (by omega)
    obtain ⟨m0, h1, h2, h3⟩ := round64_spec nanos 1000000000 K h0 (by decide) hK (by omega)
    exact ⟨m0, 2 ^ K, two_pow_ge 53 K (by omega), h1, h2, h3⟩

/-- **error analysis of `{:.3}` of `Duration::as_secs_f64()`** for durations below 2^43 s
(≈ 279 000 years; the bound is false from 2^43 s on, `C15_K4_witness`): the
printed thousandths `t` satisfy `|t ms − exact duration| ≤ 1 ms` (in nanoseconds:
`|t·10^6 − (secs·10^9 + nanos)| ≤ 10^6`).  Three binary64 roundings (`secs as f64` — exact,
`nanos as f64 / 1e9` — within 2^-54, the addition — within 2^-11 s since the sum is below 2^43)
and one decimal rounding (within 0.5 ms): 0.5 + 1000·2^-11 + … < 1 ms. -/
theorem millisRendered_within (secs nanos : Nat) (hs : secs < 2 ^ 43) (hn : nanos < 1000000000) :
    millisRendered secs nanos * 1000000 ≤ secs * 1000000000 + nanos + 1000000 ∧
    secs * 1000000000 + nanos ≤ millisRendered secs nanos * 1000000 + 1000000 := by
  -- the three values
  have ha := secs_exact secs hs
  obtain ⟨mb, Sb, hSb, hb, hb1, hb2⟩ := nanos_round nanos hn
  rw [millisRendered_eq]
  unfold asSecsF64
  simp only
  generalize hA : round64 secs 1 = a at *
  generalize hB : round64 nanos 1000000000 = b at *
  have hadp := den_pos a
  have hbdp := den_pos b
  have hSb' : 9007199254740992 ≤ Sb := by simpa using hSb
  have hSbp : 0 < Sb := by omega
  -- b.num < b.den (the fraction stays below one second)
  have hmb : mb < Sb := by
    have : nanos * Sb ≤ 999999999 * Sb := Nat.mul_le_mul_right Sb (by omega)
    omega
  have hbn : b.num < b.den := by
    have : b.num * Sb < b.den * Sb := by
      rw [hb]; rw [Nat.mul_comm b.den Sb]; exact Nat.mul_lt_mul_of_pos_right hmb hbdp
    exact Nat.lt_of_mul_lt_mul_right this
  -- the sum as a fraction
  generalize hN : a.num * b.den + b.num * a.den = nh
  generalize hD : a.den * b.den = dh
  have hdhp : 0 < dh := by rw [← hD]; exact Nat.mul_pos hadp hbdp
  have hnS : nh * Sb = (secs * Sb + mb) * dh := by
    rw [← hN, ← hD, ha]
    have : b.num * a.den * Sb = mb * b.den * a.den := by
      calc b.num * a.den * Sb = (b.num * Sb) * a.den := by grind
        _ = (mb * b.den) * a.den := by rw [hb]
    grind
  have hnle : nh < (secs + 1) * dh := by
    rw [← hN, ← hD, ha]
    have : b.num * a.den < b.den * a.den := Nat.mul_lt_mul_of_pos_right hbn hadp
    have e : (secs + 1) * (a.den * b.den) = secs * a.den * b.den + b.den * a.den := by grind
    rw [e]; omega
  by_cases hn0 : nh = 0
  · -- everything is zero
    subst hn0
    have hq : secs * Sb + mb = 0 := by
      have : (secs * Sb + mb) * dh = 0 := by rw [← hnS]; simp
      rcases Nat.mul_eq_zero.mp this with h | h
      · exact h
      · omega
    have hsecs : secs = 0 := by
      rcases Nat.eq_zero_or_pos secs with h | h
      · exact h
      · have : 0 < secs * Sb := Nat.mul_pos h hSbp
        omega
    have hmb0 : mb = 0 := by omega
    subst hsecs; subst hmb0
    have hr : round64 0 dh = .fin 0 0 := by simp [round64]
    rw [hr]
    have : rhe ((Val.fin 0 0).num * 1000) (Val.fin 0 0).den = 0 := by decide
    rw [this]
    have : nanos * Sb ≥ nanos * 9007199254740992 := Nat.mul_le_mul_left _ hSb'
    omega
  · -- the sum is positive: one more rounding
    have hnlt : nh < dh * 2 ^ 43 := by
      have h1 : (secs + 1) * dh ≤ 2 ^ 43 * dh := Nat.mul_le_mul_right _ (by omega)
      rw [Nat.mul_comm dh]; omega
    obtain ⟨K, hK, hK11⟩ := expOf_neg nh dh 43 hn0 hnlt (by omega)
    obtain ⟨mh, hh, hh1, hh2⟩ := round64_spec nh dh K hn0 hdhp hK (by omega)
    generalize hH : round64 nh dh = h at *
    generalize hSh : 2 ^ K = Sh at *
    have hShge : 1024 ≤ Sh := by
      rw [← hSh]; have := two_pow_ge 10 K (by omega); simpa using this
    have hhdp := den_pos h
    obtain ⟨ht1, ht2⟩ := rhe_error (h.num * 1000) h.den hhdp
    generalize rhe (h.num * 1000) h.den = t at *
    -- T1: t against mh / Sh
    have T1a := rescale_le hhdp hh ht1
    have T1b := rescale_ge hhdp hh ht2
    -- T2: mh / Sh against (secs*Sb + mb) / Sb
    have T2a := rescale_le hdhp hnS hh1
    have T2b := rescale_ge hdhp hnS hh2
    -- products as atoms
    have hP1 : 1024 * Sb ≤ Sb * Sh := by rw [Nat.mul_comm 1024 Sb]; exact Nat.mul_le_mul_left _ hShge
    have hP2 : 9007199254740992 * Sh ≤ Sb * Sh := Nat.mul_le_mul_right _ hSb'
    have U1a := Nat.mul_le_mul_right Sb T1a
    have U1b := Nat.mul_le_mul_right Sb T1b
    have U3a := Nat.mul_le_mul_right Sh hb1
    have U3b := Nat.mul_le_mul_right Sh hb2
    have e1 : 2 * (t * Sh) * Sb = 2 * (t * (Sb * Sh)) := by grind
    have e2 : (2 * (mh * 1000) + Sh) * Sb = 2000 * (mh * Sb) + Sb * Sh := by grind
    have e3 : 2 * (mh * 1000) * Sb = 2000 * (mh * Sb) := by grind
    have e4 : (2 * (t * Sh) + Sh) * Sb = 2 * (t * (Sb * Sh)) + Sb * Sh := by grind
    have e5 : (secs * Sb + mb) * Sh = secs * (Sb * Sh) + mb * Sh := by grind
    have e6 : 2 * (mb * 1000000000) * Sh = 2000000000 * (mb * Sh) := by grind
    have e7 : (2 * (nanos * Sb) + 1000000000) * Sh = 2 * (nanos * (Sb * Sh)) + 1000000000 * Sh := by grind
    have e8 : 2 * (nanos * Sb) * Sh = 2 * (nanos * (Sb * Sh)) := by grind
    have e9 : (2 * (mb * 1000000000) + 1000000000) * Sh = 2000000000 * (mb * Sh) + 1000000000 * Sh := by grind
    rw [e1, e2] at U1a
    rw [e3, e4] at U1b
    rw [e6, e7] at U3a
    rw [e8, e9] at U3b
    rw [e5] at T2a T2b
    have f1 : t * 1000000 * (Sb * Sh) = 1000000 * (t * (Sb * Sh)) := by grind
    have f2 : (secs * 1000000000 + nanos + 1000000) * (Sb * Sh) =
        1000000000 * (secs * (Sb * Sh)) + nanos * (Sb * Sh) + 1000000 * (Sb * Sh) := by grind
    have f3 : (secs * 1000000000 + nanos) * (Sb * Sh) =
        1000000000 * (secs * (Sb * Sh)) + nanos * (Sb * Sh) := by grind
    have f4 : (t * 1000000 + 1000000) * (Sb * Sh) = 1000000 * (t * (Sb * Sh)) + 1000000 * (Sb * Sh) := by grind
    have hPp : 0 < Sb * Sh := Nat.mul_pos hSbp (by omega)
    constructor
    · apply Nat.le_of_mul_le_mul_right _ hPp
      rw [f1, f2]
      generalize t * (Sb * Sh) = A1 at *
      generalize mh * Sb = A2 at *
      generalize secs * (Sb * Sh) = A3 at *
      generalize mb * Sh = A4 at *
      generalize nanos * (Sb * Sh) = A5 at *
      generalize Sb * Sh = P at *
      omega
    · apply Nat.le_of_mul_le_mul_right _ hPp
      rw [f3, f4]
      generalize t * (Sb * Sh) = A1 at *
      generalize mh * Sb = A2 at *
      generalize secs * (Sb * Sh) = A3 at *
      generalize mb * Sh = A4 at *
      generalize nanos * (Sb * Sh) = A5 at *
      generalize Sb * Sh = P at *
      omega

end Mpd.F64L
