import MpdProofs.Lemmas.LoopInv
import MpdProofs.Lemmas.Builder
/-!
# The run loop decodes the byte stream independently of scheduling (after fix F12)

`resid s` is what the connection is committed to decode next: the builder state a receive future
polled now would work with (the live future's, or the one kept by the connection between futures)
and the bytes it would see (unparsed buffer ++ delivered-but-unread bytes).

`step_effect`: every step of the task after the greeting either
* leaves the decoding of ANY continuation of the stream unchanged (`silent`) — this includes the
  steps that DROP a live receive future because the command branch of the `select!` won, which is
  where the unfixed code lost the lines the future had already parsed (K3);
* or consumes exactly the next response of the stream and leaves the initial builder state
  (`consumed`);
* or the poll of the receive future ended with something else than a response (`broken`: end of
  stream, I/O error, invalid message).
-/
namespace Mpd.Loop
open Mpd Mpd.Builder Mpd.Conn

/-- the builder state a receive future polled now would work with -/
def σcur (s : St) : BState :=
  match s.pc with
  | .pwWait σ => σ
  | .idling σ => σ
  | .cancelWait _ σ => σ
  | .waiting _ σ => σ
  | _ => s.bstash

def resid (s : St) : BState × Bytes := (σcur s, s.buf ++ s.avail)

/-- the decoding the connection is committed to, for every continuation `q` of the stream -/
def future (s : St) (q : Bytes) : BState × Bytes × Out := feed (resid s).1 ((resid s).2 ++ q)

/-! ## one poll of the receive future -/

theorem feed_pending_append' (σ : BState) (buf q : Bytes) (σ' : BState) (rest : Bytes)
    (h : feed σ buf = (σ', rest, .pending)) : feed σ (buf ++ q) = feed σ' (rest ++ q) := by
  have := feed_pending_append σ buf q (by rw [h])
  rw [h] at this
  exact this

theorem feed_final_append' (σ : BState) (buf q : Bytes) (σ' : BState) (rest : Bytes) (o : Out)
    (h : feed σ buf = (σ', rest, o)) (ho : o ≠ .pending) : feed σ (buf ++ q) = (σ', rest ++ q, o) := by
  have := feed_final_append σ buf q (by rw [h]; exact ho)
  rw [h] at this
  exact this

theorem feed_done_initial' (σ : BState) (buf : Bytes) (σ' : BState) (rest : Bytes) (r : Response)
    (h : feed σ buf = (σ', rest, .done r)) : σ' = .initial := by
  have := feed_done_initial σ buf r (by rw [h])
  rw [h] at this
  exact this

/-- what one poll does to the stream: `pending` keeps the decoding of every continuation, a response
is exactly the next response of the stream -/
theorem pollRecv_stream (s : St) (σ : BState) :
    (∀ σ', (pollRecv s σ).2 = .pending σ' →
      ∀ q, feed σ' ((pollRecv s σ).1.buf ++ (pollRecv s σ).1.avail ++ q) = feed σ (s.buf ++ s.avail ++ q)) ∧
    (∀ r, (pollRecv s σ).2 = .ready (.resp r) →
      (pollRecv s σ).1.bstash = .initial ∧
      ∀ q, feed σ (s.buf ++ s.avail ++ q) = (.initial, (pollRecv s σ).1.buf ++ (pollRecv s σ).1.avail ++ q, .done r)) := by
  unfold pollRecv
  rcases hf : feed σ s.buf with ⟨σ1, rest1, out⟩
  cases out with
  | done r =>
    have h0 := feed_done_initial' σ s.buf σ1 rest1 r hf
    subst h0
    refine ⟨by intro σ' h; simp at h, ?_⟩
    intro r' h
    simp only [RecvPoll.ready.injEq, Item.resp.injEq] at h
    subst h
    refine ⟨rfl, fun q => ?_⟩
    simp only [List.append_assoc]
    exact feed_final_append' σ s.buf (s.avail ++ q) _ rest1 _ hf (by simp)
  | invalid => exact ⟨by intro σ' h; simp at h, by intro r h; simp at h⟩
  | panic => exact ⟨by intro σ' h; simp at h, by intro r h; simp at h⟩
  | pending =>
    simp only
    cases hr : s.rerr with
    | some k => exact ⟨by intro σ' h; simp at h, by intro r h; simp at h⟩
    | none =>
      simp only
      by_cases ha : s.avail.isEmpty = true
      · have hav : s.avail = [] := by cases h : s.avail <;> simp_all
        simp only [ha, if_true]
        by_cases he : s.eof = true
        · simp only [he, if_true]
          refine ⟨by intro σ' h; simp at h, ?_⟩
          intro r h
          simp only [RecvPoll.ready.injEq] at h
          unfold eofItem at h
          split at h <;> simp at h
        · simp only [he, Bool.false_eq_true, if_false]
          refine ⟨?_, by intro r h; simp at h⟩
          intro σ' h
          simp only [RecvPoll.pending.injEq] at h
          subst h
          intro q
          simp only [hav, List.append_nil, List.nil_append]
          exact (feed_pending_append' σ s.buf q _ rest1 hf).symm
      · simp only [ha, Bool.false_eq_true, if_false]
        have hstep : ∀ q, feed σ (s.buf ++ s.avail ++ q) = feed σ1 (rest1 ++ s.avail ++ q) := by
          intro q
          rw [List.append_assoc, feed_pending_append' σ s.buf (s.avail ++ q) _ rest1 hf, List.append_assoc]
        rcases hf2 : feed σ1 (rest1 ++ s.avail) with ⟨σ2, rest2, out2⟩
        cases out2 with
        | done r =>
          have h0 := feed_done_initial' σ1 _ σ2 rest2 r hf2
          subst h0
          refine ⟨by intro σ' h; simp at h, ?_⟩
          intro r' h
          simp only [RecvPoll.ready.injEq, Item.resp.injEq] at h
          subst h
          refine ⟨rfl, fun q => ?_⟩
          rw [hstep q]
          simp only [List.append_nil]
          exact feed_final_append' σ1 (rest1 ++ s.avail) q _ rest2 _ hf2 (by simp)
        | invalid => exact ⟨by intro σ' h; simp at h, by intro r h; simp at h⟩
        | panic => exact ⟨by intro σ' h; simp at h, by intro r h; simp at h⟩
        | pending =>
          simp only
          by_cases he : s.eof = true
          · simp only [he, if_true]
            refine ⟨by intro σ' h; simp at h, ?_⟩
            intro r h
            simp only [RecvPoll.ready.injEq] at h
            unfold eofItem at h
            split at h <;> simp at h
          · simp only [he, Bool.false_eq_true, if_false]
            refine ⟨?_, by intro r h; simp at h⟩
            intro σ' h
            simp only [RecvPoll.pending.injEq] at h
            subst h
            intro q
            rw [hstep q]
            simp only [List.append_nil]
            exact (feed_pending_append' σ1 (rest1 ++ s.avail) q _ rest2 hf2).symm

theorem pollRecv_bstash_pending (s : St) (σ : BState) :
    ∀ σ', (pollRecv s σ).2 = .pending σ' → (pollRecv s σ).1.bstash = s.bstash := by
  unfold pollRecv
  rcases feed σ s.buf with ⟨σ1, rest1, out⟩
  cases out with
  | done r => intro σ' h; simp at h
  | invalid => intro σ' h; simp at h
  | panic => intro σ' h; simp at h
  | pending =>
    simp only
    cases s.rerr with
    | some k => intro σ' h; simp at h
    | none =>
      simp only
      by_cases ha : s.avail.isEmpty = true
      · simp only [ha, if_true]
        by_cases he : s.eof = true
        · intro σ' h; simp [he] at h
        · intro σ' _; simp [he]
      · simp only [ha, Bool.false_eq_true, if_false]
        rcases feed σ1 (rest1 ++ s.avail) with ⟨σ2, rest2, out2⟩
        cases out2 with
        | done r => intro σ' h; simp at h
        | invalid => intro σ' h; simp at h
        | panic => intro σ' h; simp at h
        | pending =>
          simp only
          by_cases he : s.eof = true
          · intro σ' h; simp [he] at h
          · intro σ' _; simp [he]

/-! ## the sub-routines only write and log: stream position and kept builder state are untouched -/

/-- the connection-level part of the state the decoding depends on -/
def Same (s s' : St) : Prop := s'.bstash = s.bstash ∧ s'.buf = s.buf ∧ s'.avail = s.avail

theorem same_refl (s : St) : Same s s := ⟨rfl, rfl, rfl⟩
theorem same_trans {a b c : St} (h1 : Same a b) (h2 : Same b c) : Same a c :=
  ⟨h2.1.trans h1.1, h2.2.1.trans h1.2.1, h2.2.2.trans h1.2.2⟩

theorem same_emit (s : St) (o : Obs) : Same s (emit s o) := ⟨rfl, rfl, rfl⟩

theorem same_write (s : St) (b : Bytes) : Same s (write s b).1 := by
  unfold write; cases s.werr <;> exact ⟨rfl, rfl, rfl⟩

theorem same_foldl_emit (q : List Req) (s : St) :
    Same s (q.foldl (fun s r => emit s (.resolved r.id .closed)) s) := by
  induction q generalizing s with
  | nil => exact same_refl s
  | cons r rest ih => exact same_trans (same_emit s _) (ih _)

theorem same_exitLoop (s : St) : Same s (exitLoop s) := by
  unfold exitLoop
  have := same_foldl_emit s.queue s
  exact ⟨this.1, this.2.1, this.2.2⟩

theorem same_emitEvents (s : St) (f : AFrame) : Same s (emitEvents s f) := by
  unfold emitEvents
  generalize changedValues f = l
  induction l generalizing s with
  | nil => exact same_refl s
  | cons n rest ih => exact same_trans (same_emit s _) (ih _)

/-- a state reached by a sub-routine: the live future, if any, starts from the kept builder state -/
def Fresh (s' : St) : Prop := σcur s' = s'.bstash

theorem resid_of_same_fresh {s s' : St} (h : Same s s') (hf : Fresh s') : resid s' = (s.bstash, s.buf ++ s.avail) := by
  unfold resid; rw [hf, h.1, h.2.1, h.2.2]

theorem exitLoop_fresh (s : St) : Fresh (exitLoop s) := by unfold Fresh σcur exitLoop; rfl

theorem afterReply_same_fresh (s : St) (d : Nat) : Same s (afterReply s d) ∧ Fresh (afterReply s d) := by
  unfold afterReply write
  cases s.queue with
  | nil =>
    simp only
    by_cases hs : s.senders = 0
    · simp only [hs, if_true]; exact ⟨same_exitLoop s, exitLoop_fresh s⟩
    · simp only [hs, if_false]
      by_cases hd : s.now ≥ d
      · simp only [hd, if_true]
        cases s.werr with
        | none => exact ⟨⟨rfl, rfl, rfl⟩, rfl⟩
        | some k => exact ⟨same_trans (same_emit s _) (same_exitLoop _), exitLoop_fresh _⟩
      · simp only [hd, if_false]; exact ⟨⟨rfl, rfl, rfl⟩, rfl⟩
  | cons r q =>
    simp only
    cases s.werr with
    | none => exact ⟨⟨rfl, rfl, rfl⟩, rfl⟩
    | some k =>
      simp only
      refine ⟨?_, exitLoop_fresh _⟩
      exact ⟨(same_exitLoop _).1, (same_exitLoop _).2.1, (same_exitLoop _).2.2⟩

theorem startCancel_same_fresh (s : St) : Same s (startCancel s) ∧ Fresh (startCancel s) := by
  unfold startCancel write
  cases s.queue with
  | nil => exact ⟨same_exitLoop s, exitLoop_fresh s⟩
  | cons r q =>
    simp only
    cases s.werr with
    | none => exact ⟨⟨rfl, rfl, rfl⟩, rfl⟩
    | some k =>
      simp only
      refine ⟨?_, exitLoop_fresh _⟩
      exact ⟨(same_exitLoop _).1, (same_exitLoop _).2.1, (same_exitLoop _).2.2⟩

theorem idleResponse_same_fresh (s : St) (r : Response) : Same s (idleResponse s r) ∧ Fresh (idleResponse s r) := by
  unfold idleResponse
  cases intoSingleFrame r with
  | none => exact ⟨same_exitLoop s, exitLoop_fresh s⟩
  | some x =>
    cases x with
    | error e => exact ⟨same_trans (same_emit s _) (same_exitLoop _), exitLoop_fresh _⟩
    | ok f =>
      simp only
      unfold write
      have hs := same_emitEvents s f
      cases (emitEvents s f).werr with
      | none => exact ⟨⟨hs.1, hs.2.1, hs.2.2⟩, rfl⟩
      | some k => exact ⟨same_trans hs (same_trans (same_emit _ _) (same_exitLoop _)), exitLoop_fresh _⟩

/-! ## what the sub-routines log: no reply to a caller, no event (except `idleResponse`) -/

/-- the replies handed to callers, in order -/
def responses (obs : List Obs) : List (Nat × Response) :=
  obs.filterMap fun o => match o with | .resolved id (.response r) => some (id, r) | _ => none

/-- the subsystem-change events delivered, in order -/
def eventsOf (obs : List Obs) : List Bytes :=
  obs.filterMap fun o => match o with | .event n => some n | _ => none

@[simp] theorem responses_append (a b : List Obs) : responses (a ++ b) = responses a ++ responses b := by
  simp [responses, List.filterMap_append]
@[simp] theorem eventsOf_append (a b : List Obs) : eventsOf (a ++ b) = eventsOf a ++ eventsOf b := by
  simp [eventsOf, List.filterMap_append]

def Quiet (s s' : St) : Prop := responses s'.obs = responses s.obs ∧ eventsOf s'.obs = eventsOf s.obs

theorem quiet_refl (s : St) : Quiet s s := ⟨rfl, rfl⟩
theorem quiet_trans {a b c : St} (h1 : Quiet a b) (h2 : Quiet b c) : Quiet a c :=
  ⟨h2.1.trans h1.1, h2.2.trans h1.2⟩

def Obs.silent : Obs → Bool
  | .resolved _ (.response _) => false
  | .event _ => false
  | _ => true

theorem quiet_emit (s : St) (o : Obs) (ho : o.silent = true) : Quiet s (emit s o) := by
  unfold Quiet emit
  cases o with
  | resolved id r => cases r <;> simp_all [responses, eventsOf, Obs.silent]
  | event n => simp [Obs.silent] at ho
  | _ => simp [responses, eventsOf]

theorem quiet_write (s : St) (b : Bytes) : Quiet s (write s b).1 := by
  unfold write; cases s.werr
  · exact quiet_emit s _ rfl
  · exact quiet_refl s

theorem quiet_foldl_emit (q : List Req) (s : St) :
    Quiet s (q.foldl (fun s r => emit s (.resolved r.id .closed)) s) := by
  induction q generalizing s with
  | nil => exact quiet_refl s
  | cons r rest ih => exact quiet_trans (quiet_emit s _ rfl) (ih _)

theorem quiet_exitLoop (s : St) : Quiet s (exitLoop s) := by
  obtain ⟨_, _, h3⟩ := exitLoop_spec s
  unfold Quiet
  rw [h3]
  have : ∀ q : List Req, responses (q.map fun r => Obs.resolved r.id .closed) = [] ∧
      eventsOf (q.map fun r => Obs.resolved r.id .closed) = [] := by
    intro q; induction q <;> simp_all [responses, eventsOf]
  simp [this s.queue, responses, eventsOf]

theorem quiet_afterReply (s : St) (d : Nat) : Quiet s (afterReply s d) := by
  unfold afterReply write
  cases s.queue with
  | nil =>
    simp only
    by_cases hs : s.senders = 0
    · simp only [hs, if_true]; exact quiet_exitLoop s
    · simp only [hs, if_false]
      by_cases hd : s.now ≥ d
      · simp only [hd, if_true]
        cases s.werr with
        | none => exact quiet_emit s _ rfl
        | some k => exact quiet_trans (quiet_emit s _ rfl) (quiet_exitLoop _)
      · simp only [hd, if_false]; exact quiet_refl s
  | cons r q =>
    simp only
    cases s.werr with
    | none => exact quiet_emit s _ rfl
    | some k =>
      simp only
      refine ⟨((quiet_exitLoop _).1).trans ?_, ((quiet_exitLoop _).2).trans ?_⟩ <;> simp [emit, responses, eventsOf]

theorem quiet_startCancel (s : St) : Quiet s (startCancel s) := by
  unfold startCancel write
  cases s.queue with
  | nil => exact quiet_exitLoop s
  | cons r q =>
    simp only
    cases s.werr with
    | none => exact quiet_emit s _ rfl
    | some k =>
      simp only
      refine ⟨((quiet_exitLoop _).1).trans ?_, ((quiet_exitLoop _).2).trans ?_⟩ <;> simp [emit, responses, eventsOf]

theorem emitEvents_log (s : St) (f : AFrame) :
    responses (emitEvents s f).obs = responses s.obs ∧
    eventsOf (emitEvents s f).obs = eventsOf s.obs ++ changedValues f := by
  rw [(emitEvents_obs s f).1]
  have : ∀ l : List Bytes, responses (l.map Obs.event) = [] ∧ eventsOf (l.map Obs.event) = l := by
    intro l; induction l <;> simp_all [responses, eventsOf]
  simp [this]

/-- the events an idle reply stands for -/
def eventsOfReply (r : Response) : List Bytes :=
  match intoSingleFrame r with
  | some (.ok f) => changedValues f
  | _ => []

theorem idleResponse_log (s : St) (r : Response) :
    responses (idleResponse s r).obs = responses s.obs ∧
    eventsOf (idleResponse s r).obs = eventsOf s.obs ++ eventsOfReply r := by
  unfold idleResponse eventsOfReply
  cases intoSingleFrame r with
  | none => have := quiet_exitLoop s; simpa [Quiet] using this
  | some x =>
    cases x with
    | error e =>
      have := quiet_trans (quiet_emit s (.closing none) rfl) (quiet_exitLoop _)
      simpa [Quiet] using this
    | ok f =>
      simp only
      obtain ⟨e1, e2⟩ := emitEvents_log s f
      unfold write
      cases (emitEvents s f).werr with
      | none =>
        have := quiet_emit (emitEvents s f) (.wrote IDLE) rfl
        exact ⟨this.1.trans e1, this.2.trans e2⟩
      | some k =>
        have := quiet_trans (quiet_emit (emitEvents s f) (.closing (some (.io k))) rfl) (quiet_exitLoop _)
        exact ⟨this.1.trans e1, this.2.trans e2⟩

/-! ## the theorem -/

/-- who gets a consumed response: the caller whose request is in flight, or the event stream -/
def Delivery (s s' : St) (r : Response) : Prop :=
  match s.pc with
  | .waiting req _ => responses s'.obs = responses s.obs ++ [(req.id, r)] ∧ eventsOf s'.obs = eventsOf s.obs
  | .idling _ => responses s'.obs = responses s.obs ∧ eventsOf s'.obs = eventsOf s.obs ++ eventsOfReply r
  | .cancelWait _ _ => responses s'.obs = responses s.obs ∧ eventsOf s'.obs = eventsOf s.obs ++ eventsOfReply r
  | _ => Quiet s s'

/-- what one step of the task does to the decoding the connection is committed to -/
inductive Effect (s s' : St) : Prop
  | silent (h : ∀ q, future s' q = future s q) (hq : Quiet s s')
  | consumed (r : Response) (h : ∀ q, future s q = (.initial, (resid s').2 ++ q, .done r))
      (hσ : (resid s').1 = .initial) (hd : Delivery s s' r)
  | broken (it : Item) (hit : it.isResp = false)
      (hp : (pollRecv { s with fresh := false } (σcur s)).2 = .ready it) (hq : Quiet s s')

theorem silent_of_resid {s s' : St} (h : resid s' = resid s) (hq : Quiet s s') : Effect s s' :=
  .silent (by intro q; unfold future; rw [h]) hq

/-- a poll that stays pending, whatever happens to the future afterwards (kept or dropped) -/
theorem pollRecv_quiet (s s1 : St) (σ : BState) (rp : RecvPoll)
    (hp : pollRecv { s with fresh := false } σ = (s1, rp)) : s1.obs = s.obs := by
  have := (pollRecv_obs { s with fresh := false } σ).1
  rw [hp] at this
  exact this

theorem quiet_of_obs {s s1 s' : St} (h1 : s1.obs = s.obs) (h : Quiet s1 s') : Quiet s s' := by
  unfold Quiet at *; rw [← h1]; exact h

theorem effect_pending (s s1 s' : St) (σ σ' : BState) (hσ : σcur s = σ)
    (hp : pollRecv { s with fresh := false } σ = (s1, .pending σ'))
    (hr : resid s' = (σ', s1.buf ++ s1.avail)) (hq : Quiet s1 s') : Effect s s' := by
  refine .silent (fun q => ?_) (quiet_of_obs (pollRecv_quiet s s1 σ _ hp) hq)
  have := (pollRecv_stream { s with fresh := false } σ).1 σ' (by rw [hp]) q
  rw [hp] at this
  unfold future
  rw [hr]
  simp only [resid, hσ]
  exact this

theorem effect_resp (s s1 s' : St) (σ : BState) (r : Response) (hσ : σcur s = σ)
    (hp : pollRecv { s with fresh := false } σ = (s1, .ready (.resp r)))
    (hr : resid s' = (s1.bstash, s1.buf ++ s1.avail)) (hd : Delivery s s' r) : Effect s s' := by
  have := (pollRecv_stream { s with fresh := false } σ).2 r (by rw [hp])
  rw [hp] at this
  obtain ⟨h0, hq⟩ := this
  refine .consumed r (fun q => ?_) (by rw [hr]; exact h0) hd
  unfold future
  rw [hr]
  simp only [resid, hσ]
  exact hq q

theorem effect_broken (s s1 s' : St) (σ : BState) (it : Item) (hσ : σcur s = σ) (hit : it.isResp = false)
    (hp : pollRecv { s with fresh := false } σ = (s1, .ready it)) (hq : Quiet s1 s') : Effect s s' :=
  .broken it hit (by rw [hσ, hp]) (quiet_of_obs (pollRecv_quiet s s1 σ _ hp) hq)

theorem resid_sub {s1 x : St} (h : Same s1 x ∧ Fresh x) : resid x = (s1.bstash, s1.buf ++ s1.avail) :=
  resid_of_same_fresh h.1 h.2

/-- closes the `Quiet` side goals: the sub-routines log no reply and no event -/
macro "quiet_tac" : tactic => `(tactic| first
  | exact quiet_refl _
  | exact quiet_emit _ _ rfl
  | exact quiet_exitLoop _
  | exact quiet_afterReply _ _
  | exact quiet_startCancel _
  | exact quiet_trans (quiet_emit _ _ rfl) (quiet_exitLoop _)
  | exact quiet_trans (quiet_emit _ _ rfl) (quiet_afterReply _ _)
  | exact quiet_trans (quiet_emit _ _ rfl) (quiet_emit _ _ rfl)
  | exact quiet_trans (quiet_trans (quiet_emit _ _ rfl) (quiet_emit _ _ rfl)) (quiet_exitLoop _))

/-- **the run loop is cancel-safe**: every step after the greeting is silent, consumes exactly the
next response of the stream and hands it to the right consumer, or ends a poll with a non-response -/
theorem step_effect (s s' : St) (rf : Bool) (hc : s.pc ≠ .connecting) (h : step s rf = some s') : Effect s s' := by
  unfold step at h
  obtain ⟨t, ht⟩ : ∃ t : St, t = { s with fresh := false } := ⟨_, rfl⟩
  rw [← ht] at h
  cases hpc : s.pc with
  | connecting => exact absurd hpc hc
  | exited => rw [hpc] at h; simp at h
  | failed => rw [hpc] at h; simp at h
  | spawned =>
    rw [hpc] at h
    have hσ : σcur s = s.bstash := by simp [σcur, hpc]
    unfold write at h
    cases hw : s.werr with
    | none =>
      simp only [hw, Option.some.injEq] at h; subst h
      exact silent_of_resid (by simp [resid, σcur, hpc, emit]) (by quiet_tac)
    | some k =>
      simp only [hw, Option.some.injEq] at h; subst h
      refine silent_of_resid ?_ (by quiet_tac)
      rw [resid_sub ⟨same_exitLoop _, exitLoop_fresh _⟩]
      simp [resid, hσ, emit]
  | waitNext d =>
    rw [hpc] at h
    have hσ : σcur s = s.bstash := by simp [σcur, hpc]
    simp only at h
    split at h
    · simp only [Option.some.injEq] at h; subst h
      refine silent_of_resid ?_ (by quiet_tac)
      rw [resid_sub (afterReply_same_fresh s d)]
      simp [resid, hσ]
    · simp at h
  | pwWait σ =>
    rw [hpc] at h
    have hσ : σcur s = σ := by simp [σcur, hpc]
    simp only [failConnect] at h
    split at h
    · simp at h
    · rcases hp : pollRecv t σ with ⟨s1, rp⟩
      rw [hp] at h
      rw [ht] at hp
      have ho := pollRecv_quiet s s1 σ _ hp
      cases rp with
      | pending σ' =>
        simp only [Option.some.injEq] at h; subst h
        exact effect_pending s s1 _ σ σ' hσ hp (by simp [resid, σcur]) (by quiet_tac)
      | ready it =>
        cases it with
        | resp r =>
          simp only at h
          split at h <;> (simp only [Option.some.injEq] at h; subst h)
          · exact effect_resp s s1 _ σ r hσ hp (by simp [resid, σcur, emit])
              (by simp only [Delivery, hpc]; exact quiet_of_obs ho (by quiet_tac))
          · exact effect_resp s s1 _ σ r hσ hp (by simp [resid, σcur, emit])
              (by simp only [Delivery, hpc]; exact quiet_of_obs ho (by quiet_tac))
        | clean =>
          simp only [Option.some.injEq] at h; subst h
          exact effect_broken s s1 _ σ _ hσ rfl hp (by quiet_tac)
        | invalid =>
          simp only [Option.some.injEq] at h; subst h
          exact effect_broken s s1 _ σ _ hσ rfl hp (by quiet_tac)
        | unexpectedEof =>
          simp only [Option.some.injEq] at h; subst h
          exact effect_broken s s1 _ σ _ hσ rfl hp (by quiet_tac)
        | io k =>
          simp only [Option.some.injEq] at h; subst h
          exact effect_broken s s1 _ σ _ hσ rfl hp (by quiet_tac)
        | panic =>
          simp only [Option.some.injEq] at h; subst h
          exact effect_broken s s1 _ σ _ hσ rfl hp (by quiet_tac)
  | waiting r σ =>
    rw [hpc] at h
    have hσ : σcur s = σ := by simp [σcur, hpc]
    simp only at h
    split at h
    · simp at h
    · rcases hp : pollRecv t σ with ⟨s1, rp⟩
      rw [hp] at h
      rw [ht] at hp
      have ho := pollRecv_quiet s s1 σ _ hp
      cases rp with
      | pending σ' =>
        simp only [Option.some.injEq] at h; subst h
        exact effect_pending s s1 _ σ σ' hσ hp (by simp [resid, σcur]) (by quiet_tac)
      | ready it =>
        cases it with
        | resp resp =>
          simp only [Option.some.injEq] at h; subst h
          refine effect_resp s s1 _ σ resp hσ hp ?_ ?_
          · rw [resid_sub (afterReply_same_fresh _ _)]
            simp [emit]
          · simp only [Delivery, hpc]
            have hq := quiet_afterReply (emit s1 (.resolved r.id (.response resp))) (s1.now + TIMEOUT_MS)
            rw [hq.1, hq.2, ← ho]
            simp [emit, responses, eventsOf]
        | clean =>
          simp only [Option.some.injEq] at h; subst h
          exact effect_broken s s1 _ σ _ hσ rfl hp (by quiet_tac)
        | invalid =>
          simp only [Option.some.injEq] at h; subst h
          exact effect_broken s s1 _ σ _ hσ rfl hp (by quiet_tac)
        | unexpectedEof =>
          simp only [Option.some.injEq] at h; subst h
          exact effect_broken s s1 _ σ _ hσ rfl hp (by quiet_tac)
        | io k =>
          simp only [Option.some.injEq] at h; subst h
          exact effect_broken s s1 _ σ _ hσ rfl hp (by quiet_tac)
        | panic =>
          simp only [Option.some.injEq] at h; subst h
          exact effect_broken s s1 _ σ _ hσ rfl hp (by quiet_tac)
  | cancelWait r σ =>
    rw [hpc] at h
    have hσ : σcur s = σ := by simp [σcur, hpc]
    simp only at h
    split at h
    · simp at h
    · rcases hp : pollRecv t σ with ⟨s1, rp⟩
      rw [hp] at h
      rw [ht] at hp
      have ho := pollRecv_quiet s s1 σ _ hp
      cases rp with
      | pending σ' =>
        simp only [Option.some.injEq] at h; subst h
        exact effect_pending s s1 _ σ σ' hσ hp (by simp [resid, σcur]) (by quiet_tac)
      | ready it =>
        cases it with
        | resp resp =>
          simp only at h
          cases hsf : intoSingleFrame resp with
          | none =>
            rw [hsf] at h
            simp only [Option.some.injEq] at h; subst h
            refine effect_resp s s1 _ σ resp hσ hp ?_ ?_
            · rw [resid_sub ⟨same_exitLoop _, exitLoop_fresh _⟩]; simp [emit]
            · simp only [Delivery, hpc, eventsOfReply, hsf, List.append_nil]
              exact quiet_of_obs ho (by quiet_tac)
          | some ef =>
            rw [hsf] at h
            cases ef with
            | error e =>
              simp only [Option.some.injEq] at h; subst h
              refine effect_resp s s1 _ σ resp hσ hp ?_ ?_
              · rw [resid_sub ⟨same_exitLoop _, exitLoop_fresh _⟩]; simp [emit]
              · simp only [Delivery, hpc, eventsOfReply, hsf, List.append_nil]
                exact quiet_of_obs ho (by quiet_tac)
            | ok f =>
              simp only at h
              have hs := same_emitEvents s1 f
              obtain ⟨e1, e2⟩ := emitEvents_log s1 f
              unfold write at h
              cases hw : (emitEvents s1 f).werr with
              | none =>
                simp only [hw, Option.some.injEq] at h; subst h
                refine effect_resp s s1 _ σ resp hσ hp ?_ ?_
                · simp [resid, σcur, emit, hs.1, hs.2.1, hs.2.2]
                · simp only [Delivery, hpc, eventsOfReply, hsf]
                  have hq := quiet_emit (emitEvents s1 f) (.wrote r.bytes) rfl
                  exact ⟨by rw [← ho, ← e1]; exact hq.1, by rw [← ho, ← e2]; exact hq.2⟩
              | some k =>
                simp only [hw, Option.some.injEq] at h; subst h
                refine effect_resp s s1 _ σ resp hσ hp ?_ ?_
                · rw [resid_sub ⟨same_exitLoop _, exitLoop_fresh _⟩]; simp [emit, hs.1, hs.2.1, hs.2.2]
                · simp only [Delivery, hpc, eventsOfReply, hsf]
                  have hq := quiet_trans (quiet_emit (emitEvents s1 f) (.resolved r.id (.protocol (.io k))) rfl) (quiet_exitLoop _)
                  exact ⟨by rw [← ho, ← e1]; exact hq.1, by rw [← ho, ← e2]; exact hq.2⟩
        | clean =>
          simp only [Option.some.injEq] at h; subst h
          exact effect_broken s s1 _ σ _ hσ rfl hp (by quiet_tac)
        | invalid =>
          simp only [Option.some.injEq] at h; subst h
          exact effect_broken s s1 _ σ _ hσ rfl hp (by quiet_tac)
        | unexpectedEof =>
          simp only [Option.some.injEq] at h; subst h
          exact effect_broken s s1 _ σ _ hσ rfl hp (by quiet_tac)
        | io k =>
          simp only [Option.some.injEq] at h; subst h
          exact effect_broken s s1 _ σ _ hσ rfl hp (by quiet_tac)
        | panic =>
          simp only [Option.some.injEq] at h; subst h
          exact effect_broken s s1 _ σ _ hσ rfl hp (by quiet_tac)
  | idling σ =>
    rw [hpc] at h
    have hσ : σcur s = σ := by simp [σcur, hpc]
    simp only at h
    split at h
    · -- the command branch wins: the live future is dropped as it is
      simp only [Option.some.injEq] at h; subst h
      refine silent_of_resid ?_ (quiet_startCancel (dropFuture s σ))
      rw [resid_sub (startCancel_same_fresh _)]
      simp [resid, hσ, dropFuture]
    · split at h
      · rcases hp : pollRecv t σ with ⟨s1, rp⟩
        rw [hp] at h
        rw [ht] at hp
        have ho := pollRecv_quiet s s1 σ _ hp
        cases rp with
        | pending σ' =>
          simp only at h
          split at h
          · -- dropped right after consuming bytes
            simp only [Option.some.injEq] at h; subst h
            refine effect_pending s s1 _ σ σ' hσ hp ?_ (quiet_startCancel (dropFuture s1 σ'))
            rw [resid_sub (startCancel_same_fresh _)]
            simp [dropFuture]
          · simp only [Option.some.injEq] at h; subst h
            exact effect_pending s s1 _ σ σ' hσ hp (by simp [resid, σcur]) (by quiet_tac)
        | ready it =>
          cases it with
          | resp resp =>
            simp only [Option.some.injEq] at h; subst h
            refine effect_resp s s1 _ σ resp hσ hp ?_ ?_
            · rw [resid_sub (idleResponse_same_fresh _ _)]
            · simp only [Delivery, hpc]
              have := idleResponse_log s1 resp
              rw [ho] at this
              exact this
          | clean =>
            simp only [Option.some.injEq] at h; subst h
            exact effect_broken s s1 _ σ _ hσ rfl hp (by quiet_tac)
          | invalid =>
            simp only [Option.some.injEq] at h; subst h
            exact effect_broken s s1 _ σ _ hσ rfl hp (by quiet_tac)
          | unexpectedEof =>
            simp only [Option.some.injEq] at h; subst h
            exact effect_broken s s1 _ σ _ hσ rfl hp (by quiet_tac)
          | io k =>
            simp only [Option.some.injEq] at h; subst h
            exact effect_broken s s1 _ σ _ hσ rfl hp (by quiet_tac)
          | panic =>
            simp only [Option.some.injEq] at h; subst h
            exact effect_broken s s1 _ σ _ hσ rfl hp (by quiet_tac)
      · simp at h

end Mpd.Loop
