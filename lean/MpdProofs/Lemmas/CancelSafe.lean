import MpdProofs.Lemmas.LoopInv
import MpdProofs.Lemmas.Builder
/-!
# The run loop decodes the byte stream independently of scheduling (after fix F12)

`resid s` is what the connection is committed to decode next: the builder state a receive future
polled now would work with (the live future's, or the one kept by the connection between futures)
and the bytes it would see (unparsed buffer ++ delivered-but-unread bytes).

`step_effect`: every step of the task after the greeting either
* leaves the decoding of ANY continuation of the stream unchanged (`silent`) — this includes the
  steps that DROP a live receive future because the command branch of the `select!` won, which is
  where the unfixed code lost the lines the future had already parsed (K3);
* or consumes exactly the next response of the stream and leaves the initial builder state
  (`consumed`);
* or the poll of the receive future ended with something else than a response (`broken`: end of
  stream, I/O error, invalid message).
-/
namespace Mpd.Loop
open Mpd Mpd.Builder Mpd.Conn

/-- the builder state a receive future polled now would work with -/
def σcur (s : St) : BState :=
  match s.pc with
  | .pwWait σ => σ
  | .idling σ => σ
  | .cancelWait _ σ => σ
  | .waiting _ σ => σ
  | _ => s.bstash

def resid (s : St) : BState × Bytes := (σcur s, s.buf ++ s.avail)

/-- the decoding the connection is committed to, for every continuation `q` of the stream -/
def future (s : St) (q : Bytes) : BState × Bytes × Out := feed (resid s).1 ((resid s).2 ++ q)

/-! ## one poll of the receive future -/

theorem feed_pending_append' (σ : BState) (buf q : Bytes) (σ' : BState) (rest : Bytes)
    (h : feed σ buf = (σ', rest, .pending)) : feed σ (buf ++ q) = feed σ' (rest ++ q) := by
  have := feed_pending_append σ buf q (by rw [h])
  rw [h] at this
  exact this

theorem feed_final_append' (σ : BState) (buf q : Bytes) (σ' : BState) (rest : Bytes) (o : Out)
    (h : feed σ buf = (σ', rest, o)) (ho : o ≠ .pending) : feed σ (buf ++ q) = (σ', rest ++ q, o) := by
  have := feed_final_append σ buf q (by rw [h]; exact ho)
  rw [h] at this
  exact this

theorem feed_done_initial' (σ : BState) (buf : Bytes) (σ' : BState) (rest : Bytes) (r : Response)
    (h : feed σ buf = (σ', rest, .done r)) : σ' = .initial := by
  have := feed_done_initial σ buf r (by rw [h])
  rw [h] at this
  exact this

/-- what one poll does to the stream: `pending` keeps the decoding of every continuation, a response
is exactly the next response of the stream -/
theorem pollRecv_stream (s : St) (σ : BState) :
    (∀ σ', (pollRecv s σ).2 = .pending σ' →
      ∀ q, feed σ' ((pollRecv s σ).1.buf ++ (pollRecv s σ).1.avail ++ q) = feed σ (s.buf ++ s.avail ++ q)) ∧
    (∀ r, (pollRecv s σ).2 = .ready (.resp r) →
      (pollRecv s σ).1.bstash = .initial ∧
      ∀ q, feed σ (s.buf ++ s.avail ++ q) = (.initial, (pollRecv s σ).1.buf ++ (pollRecv s σ).1.avail ++ q, .done r)) := by
  unfold pollRecv
  rcases hf : feed σ s.buf with ⟨σ1, rest1, out⟩
  cases out with
  | done r =>
    have h0 := feed_done_initial' σ s.buf σ1 rest1 r hf
    subst h0
    refine ⟨by intro σ' h; simp at h, ?_⟩
    intro r' h
    simp only [RecvPoll.ready.injEq, Item.resp.injEq] at h
    subst h
    refine ⟨rfl, fun q => ?_⟩
    simp only [List.append_assoc]
    exact feed_final_append' σ s.buf (s.avail ++ q) _ rest1 _ hf (by simp)
  | invalid => exact ⟨by intro σ' h; simp at h, by intro r h; simp at h⟩
  | panic => exact ⟨by intro σ' h; simp at h, by intro r h; simp at h⟩
  | pending =>
    simp only
    cases hr : s.rerr with
    | some k => exact ⟨by intro σ' h; simp at h, by intro r h; simp at h⟩
    | none =>
      simp only
      by_cases ha : s.avail.isEmpty = true
      · have hav : s.avail = [] := by cases h : s.avail <;> simp_all
        simp only [ha, if_true]
        by_cases he : s.eof = true
        · simp only [he, if_true]
          refine ⟨by intro σ' h; simp at h, ?_⟩
          intro r h
          simp only [RecvPoll.ready.injEq] at h
          unfold eofItem at h
          split at h <;> simp at h
        · simp only [he, Bool.false_eq_true, if_false]
          refine ⟨?_, by intro r h; simp at h⟩
          intro σ' h
          simp only [RecvPoll.pending.injEq] at h
          subst h
          intro q
          simp only [hav, List.append_nil, List.nil_append]
          exact (feed_pending_append' σ s.buf q _ rest1 hf).symm
      · simp only [ha, Bool.false_eq_true, if_false]
        have hstep : ∀ q, feed σ (s.buf ++ s.avail ++ q) = feed σ1 (rest1 ++ s.avail ++ q) := by
          intro q
          rw [List.append_assoc, feed_pending_append' σ s.buf (s.avail ++ q) _ rest1 hf, List.append_assoc]
        rcases hf2 : feed σ1 (rest1 ++ s.avail) with ⟨σ2, rest2, out2⟩
        cases out2 with
        | done r =>
          have h0 := feed_done_initial' σ1 _ σ2 rest2 r hf2
          subst h0
          refine ⟨by intro σ' h; simp at h, ?_⟩
          intro r' h
          simp only [RecvPoll.ready.injEq, Item.resp.injEq] at h
          subst h
          refine ⟨rfl, fun q => ?_⟩
          rw [hstep q]
          simp only [List.append_nil]
          exact feed_final_append' σ1 (rest1 ++ s.avail) q _ rest2 _ hf2 (by simp)
        | invalid => exact ⟨by intro σ' h; simp at h, by intro r h; simp at h⟩
        | panic => exact ⟨by intro σ' h; simp at h, by intro r h; simp at h⟩
        | pending =>
          simp only
          by_cases he : s.eof = true
          · simp only [he, if_true]
            refine ⟨by intro σ' h; simp at h, ?_⟩
            intro r h
            simp only [RecvPoll.ready.injEq] at h
            unfold eofItem at h
            split at h <;> simp at h
          · simp only [he, Bool.false_eq_true, if_false]
            refine ⟨?_, by intro r h; simp at h⟩
            intro σ' h
            simp only [RecvPoll.pending.injEq] at h
            subst h
            intro q
            rw [hstep q]
            simp only [List.append_nil]
            exact (feed_pending_append' σ1 (rest1 ++ s.avail) q _ rest2 hf2).symm

theorem pollRecv_bstash_pending (s : St) (σ : BState) :
    ∀ σ', (pollRecv s σ).2 = .pending σ' → (pollRecv s σ).1.bstash = s.bstash := by
  unfold pollRecv
  rcases feed σ s.buf with ⟨σ1, rest1, out⟩
  cases out with
  | done r => intro σ' h; simp at h
  | invalid => intro σ' h; simp at h
  | panic => intro σ' h; simp at h
  | pending =>
    simp only
    cases s.rerr with
    | some k => intro σ' h; simp at h
    | none =>
      simp only
      by_cases ha : s.avail.isEmpty = true
      · simp only [ha, if_true]
        by_cases he : s.eof = true
        · intro σ' h; simp [he] at h
        · intro σ' _; simp [he]
      · simp only [ha, Bool.false_eq_true, if_false]
        rcases feed σ1 (rest1 ++ s.avail) with ⟨σ2, rest2, out2⟩
        cases out2 with
        | done r => intro σ' h; simp at h
        | invalid => intro σ' h; simp at h
        | panic => intro σ' h; simp at h
        | pending =>
          simp only
          by_cases he : s.eof = true
          · intro σ' h; simp [he] at h
          · intro σ' _; simp [he]

/-! ## the sub-routines only write and log: stream position and kept builder state are untouched -/

/-- the connection-level part of the state the decoding depends on -/
def Same (s s' : St) : Prop := s'.bstash = s.bstash ∧ s'.buf = s.buf ∧ s'.avail = s.avail

theorem same_refl (s : St) : Same s s := ⟨rfl, rfl, rfl⟩
theorem same_trans {a b c : St} (h1 : Same a b) (h2 : Same b c) : Same a c :=
  ⟨h2.1.trans h1.1, h2.2.1.trans h1.2.1, h2.2.2.trans h1.2.2⟩

theorem same_emit (s : St) (o : Obs) : Same s (emit s o) := ⟨rfl, rfl, rfl⟩

theorem same_write (s : St) (b : Bytes) (w : WKind) : Same s (write s b w).1 := by
  unfold write; cases s.werr <;> exact ⟨rfl, rfl, rfl⟩

theorem same_foldl_emit (q : List Req) (s : St) :
    Same s (q.foldl (fun s r => emit s (.resolved r.id .closed)) s) := by
  induction q generalizing s with
  | nil => exact same_refl s
  | cons r rest ih => exact same_trans (same_emit s _) (ih _)

theorem same_exitLoop (s : St) : Same s (exitLoop s) := by
  unfold exitLoop
  have := same_foldl_emit s.queue s
  exact ⟨this.1, this.2.1, this.2.2⟩

theorem same_emitEvents (s : St) (f : AFrame) : Same s (emitEvents s f) := by
  unfold emitEvents
  generalize changedValues f = l
  induction l generalizing s with
  | nil => exact same_refl s
  | cons n rest ih => exact same_trans (same_emit s _) (ih _)

/-- a state reached by a sub-routine: the live future, if any, starts from the kept builder state -/
def Fresh (s' : St) : Prop := σcur s' = s'.bstash

theorem resid_of_same_fresh {s s' : St} (h : Same s s') (hf : Fresh s') : resid s' = (s.bstash, s.buf ++ s.avail) := by
  unfold resid; rw [hf, h.1, h.2.1, h.2.2]

theorem exitLoop_fresh (s : St) : Fresh (exitLoop s) := by unfold Fresh σcur exitLoop; rfl

theorem afterReply_same_fresh (s : St) (d : Nat) : Same s (afterReply s d) ∧ Fresh (afterReply s d) := by
  unfold afterReply write
  cases s.queue with
  | nil =>
    simp only
    by_cases hs : s.senders = 0
    · simp only [hs, if_true]; exact ⟨same_exitLoop s, exitLoop_fresh s⟩
    · simp only [hs, if_false]
      by_cases hd : s.now ≥ d
      · simp only [hd, if_true]
        cases s.werr with
        | none => exact ⟨⟨rfl, rfl, rfl⟩, rfl⟩
        | some k => exact ⟨same_trans (same_emit s _) (same_exitLoop _), exitLoop_fresh _⟩
      · simp only [hd, if_false]; exact ⟨⟨rfl, rfl, rfl⟩, rfl⟩
  | cons r q =>
    simp only
    cases s.werr with
    | none => exact ⟨⟨rfl, rfl, rfl⟩, rfl⟩
    | some k =>
      simp only
      refine ⟨?_, exitLoop_fresh _⟩
      exact ⟨(same_exitLoop _).1, (same_exitLoop _).2.1, (same_exitLoop _).2.2⟩

theorem startCancel_same_fresh (s : St) : Same s (startCancel s) ∧ Fresh (startCancel s) := by
  unfold startCancel write
  cases s.queue with
  | nil => exact ⟨same_exitLoop s, exitLoop_fresh s⟩
  | cons r q =>
    simp only
    cases s.werr with
    | none => exact ⟨⟨rfl, rfl, rfl⟩, rfl⟩
    | some k =>
      simp only
      refine ⟨?_, exitLoop_fresh _⟩
      exact ⟨(same_exitLoop _).1, (same_exitLoop _).2.1, (same_exitLoop _).2.2⟩

theorem idleResponse_same_fresh (s : St) (r : Response) : Same s (idleResponse s r) ∧ Fresh (idleResponse s r) := by
  unfold idleResponse
  cases intoSingleFrame r with
  | none => exact ⟨same_exitLoop s, exitLoop_fresh s⟩
  | some x =>
    cases x with
    | error e => exact ⟨same_trans (same_emit s _) (same_exitLoop _), exitLoop_fresh _⟩
    | ok f =>
      simp only
      unfold write
      have hs := same_emitEvents s f
      cases (emitEvents s f).werr with
      | none => exact ⟨⟨hs.1, hs.2.1, hs.2.2⟩, rfl⟩
      | some k => exact ⟨same_trans hs (same_trans (same_emit _ _) (same_exitLoop _)), exitLoop_fresh _⟩

/-! ## what the sub-routines log: no reply to a caller, no event (except `idleResponse`) -/

/-- the replies handed to callers, in order -/
def responses (obs : List Obs) : List (Nat × Response) :=
  obs.filterMap fun o => match o with | .resolved id (.response r) => some (id, r) | _ => none

/-- the subsystem-change events delivered, in order -/
def eventsOf (obs : List Obs) : List Bytes :=
  obs.filterMap fun o => match o with | .event n => some n | _ => none

@[simp] theorem responses_append (a b : List Obs) : responses (a ++ b) = responses a ++ responses b := by
  simp [responses, List.filterMap_append]
@[simp] theorem eventsOf_append (a b : List Obs) : eventsOf (a ++ b) = eventsOf a ++ eventsOf b := by
  simp [eventsOf, List.filterMap_append]

def Quiet (s s' : St) : Prop := responses s'.obs = responses s.obs ∧ eventsOf s'.obs = eventsOf s.obs

theorem quiet_refl (s : St) : Quiet s s := ⟨rfl, rfl⟩
theorem quiet_trans {a b c : St} (h1 : Quiet a b) (h2 : Quiet b c) : Quiet a c :=
  ⟨h2.1.trans h1.1, h2.2.trans h1.2⟩

def Obs.silent : Obs → Bool
  | .resolved _ (.response _) => false
  | .event _ => false
  | _ => true

theorem quiet_emit (s : St) (o : Obs) (ho : o.silent = true) : Quiet s (emit s o) := by
  unfold Quiet emit
  cases o with
  | resolved id r => cases r <;> simp_all [responses, eventsOf, Obs.silent]
  | event n => simp [Obs.silent] at ho
  | _ => simp [responses, eventsOf]

theorem quiet_write (s : St) (b : Bytes) (w : WKind) : Quiet s (write s b w).1 := by
  unfold write; cases s.werr
  · exact quiet_emit s _ rfl
  · exact quiet_refl s

theorem quiet_foldl_emit (q : List Req) (s : St) :
    Quiet s (q.foldl (fun s r => emit s (.resolved r.id .closed)) s) := by
  induction q generalizing s with
  | nil => exact quiet_refl s
  | cons r rest ih => exact quiet_trans (quiet_emit s _ rfl) (ih _)

theorem quiet_exitLoop (s : St) : Quiet s (exitLoop s) := by
  obtain ⟨_, _, h3⟩ := exitLoop_spec s
  unfold Quiet
  rw [h3]
  have : ∀ q : List Req, responses (q.map fun r => Obs.resolved r.id .closed) = [] ∧
      eventsOf (q.map fun r => Obs.resolved r.id .closed) = [] := by
    intro q; induction q <;> simp_all [responses, eventsOf]
  simp [this s.queue, responses, eventsOf]

theorem quiet_afterReply (s : St) (d : Nat) : Quiet s (afterReply s d) := by
  unfold afterReply write
  cases s.queue with
  | nil =>
    simp only
    by_cases hs : s.senders = 0
    · simp only [hs, if_true]; exact quiet_exitLoop s
    · simp only [hs, if_false]
      by_cases hd : s.now ≥ d
      · simp only [hd, if_true]
        cases s.werr with
        | none => exact quiet_emit s _ rfl
        | some k => exact quiet_trans (quiet_emit s _ rfl) (quiet_exitLoop _)
      · simp only [hd, if_false]; exact quiet_refl s
  | cons r q =>
    simp only
    cases s.werr with
    | none => exact quiet_emit s _ rfl
    | some k =>
      simp only
      refine ⟨((quiet_exitLoop _).1).trans ?_, ((quiet_exitLoop _).2).trans ?_⟩ <;> simp [emit, responses, eventsOf]

theorem quiet_startCancel (s : St) : Quiet s (startCancel s) := by
  unfold startCancel write
  cases s.queue with
  | nil => exact quiet_exitLoop s
  | cons r q =>
    simp only
    cases s.werr with
    | none => exact quiet_emit s _ rfl
    | some k =>
      simp only
      refine ⟨((quiet_exitLoop _).1).trans ?_, ((quiet_exitLoop _).2).trans ?_⟩ <;> simp [emit, responses, eventsOf]

theorem emitEvents_log (s : St) (f : AFrame) :
    responses (emitEvents s f).obs = responses s.obs ∧
    eventsOf (emitEvents s f).obs = eventsOf s.obs ++ changedValues f := by
  rw [(emitEvents_obs s f).1]
  have : ∀ l : List Bytes, responses (l.map Obs.event) = [] ∧ eventsOf (l.map Obs.event) = l := by
    intro l; induction l <;> simp_all [responses, eventsOf]
  simp [this]

/-- the events an idle reply stands for -/
def eventsOfReply (r : Response) : List Bytes :=
  match intoSingleFrame r with
  | some (.ok f) => changedValues f
  | _ => []

theorem idleResponse_log (s : St) (r : Response) :
    responses (idleResponse s r).obs = responses s.obs ∧
    eventsOf (idleResponse s r).obs = eventsOf s.obs ++ eventsOfReply r := by
  unfold idleResponse eventsOfReply
  cases intoSingleFrame r with
  | none => have := quiet_exitLoop s; simpa [Quiet] using this
  | some x =>
    cases x with
    | error e =>
      have := quiet_trans (quiet_emit s (.closing none) rfl) (quiet_exitLoop _)
      simpa [Quiet] using this
    | ok f =>
      simp only
      obtain ⟨e1, e2⟩ := emitEvents_log s f
      unfold write
      cases (emitEvents s f).werr with
      | none =>
        have := quiet_emit (emitEvents s f) (.wrote IDLE .idle) rfl
        exact ⟨this.1.trans e1, this.2.trans e2⟩
      | some k =>
        have := quiet_trans (quiet_emit (emitEvents s f) (.closing (some (.io k))) rfl) (quiet_exitLoop _)
        exact ⟨this.1.trans e1, this.2.trans e2⟩

/-! ## write discipline: which reply-producing lines were written, and who waits for the replies -/

/-- who consumes a response -/
inductive Consumer where
  | verdict            -- `do_connect`: the reply to `password`
  | idle               -- the idle loop: the reply to `idle` (possibly provoked by `noidle`)
  | reply (id : Nat)   -- the caller of request `id`
deriving Repr, DecidableEq

/-- the consumer of the reply a written line provokes (`noidle` provokes none of its own) -/
def WKind.consumer : WKind → Option Consumer
  | .password => some .verdict
  | .idle => some .idle
  | .request id => some (.reply id)
  | .noidle => none

/-- the reply-producing lines written so far, as the consumers of their replies, in order -/
def replyWrites (obs : List Obs) : List Consumer :=
  obs.filterMap fun o => match o with | .wrote _ k => k.consumer | _ => none

@[simp] theorem replyWrites_append (a b : List Obs) : replyWrites (a ++ b) = replyWrites a ++ replyWrites b := by
  simp [replyWrites, List.filterMap_append]

/-- the reply the task is waiting for at this program point -/
def outstanding : Pc → List Consumer
  | .pwWait _ => [.verdict]
  | .idling _ => [.idle]
  | .cancelWait _ _ => [.idle]
  | .waiting r _ => [.reply r.id]
  | _ => []

def Terminal (s : St) : Prop := s.pc = .exited ∨ s.pc = .failed

theorem terminal_exitLoop (s : St) : Terminal (exitLoop s) := Or.inl (exitLoop_spec s).1

/-- a step that consumes nothing: what it writes (Δ) is what it now additionally waits for -/
def WSilent (s s' : St) : Prop :=
  Terminal s' ∨ ∃ Δ, replyWrites s'.obs = replyWrites s.obs ++ Δ ∧ outstanding s'.pc = outstanding s.pc ++ Δ

/-- a step that consumes a response: it was waiting for exactly one reply, and what it writes
afterwards is exactly what it waits for next -/
def WConsumed (s s' : St) : Prop :=
  (∃ c, outstanding s.pc = [c]) ∧ (Terminal s' ∨ replyWrites s'.obs = replyWrites s.obs ++ outstanding s'.pc)

theorem rw_emit_other (s : St) (o : Obs) (ho : ∀ b k, o ≠ .wrote b k) : replyWrites (emit s o).obs = replyWrites s.obs := by
  cases o <;> simp_all [replyWrites, emit]

theorem rw_foldl_emit (q : List Req) (s : St) :
    replyWrites (q.foldl (fun s r => emit s (.resolved r.id .closed)) s).obs = replyWrites s.obs := by
  induction q generalizing s with
  | nil => rfl
  | cons r rest ih => rw [List.foldl_cons, ih]; simp [replyWrites, emit]

theorem rw_emitEvents (s : St) (f : AFrame) : replyWrites (emitEvents s f).obs = replyWrites s.obs := by
  rw [(emitEvents_obs s f).1]
  have : ∀ l : List Bytes, replyWrites (l.map Obs.event) = [] := by
    intro l; induction l <;> simp_all [replyWrites]
  simp [this]

theorem write_cases' (s : St) (b : Bytes) (w : WKind) :
    write s b w = (emit s (.wrote b w), none) ∨ ∃ k, write s b w = (s, some k) := by
  unfold write
  cases s.werr with
  | none => left; rfl
  | some k => right; exact ⟨k, rfl⟩

/-- sub-routines that start with nothing outstanding: what they write is what they wait for -/
theorem w_afterReply (s : St) (d : Nat) :
    Terminal (afterReply s d) ∨ replyWrites (afterReply s d).obs = replyWrites s.obs ++ outstanding (afterReply s d).pc := by
  unfold afterReply
  cases s.queue with
  | nil =>
    simp only
    by_cases hs : s.senders = 0
    · simp only [hs, if_true]; exact Or.inl (terminal_exitLoop s)
    · simp only [hs, if_false]
      by_cases hd : s.now ≥ d
      · simp only [hd, if_true]
        rcases write_cases' s IDLE .idle with h | ⟨k, h⟩ <;> rw [h] <;> simp only
        · right; simp [replyWrites, emit, outstanding, WKind.consumer]
        · exact Or.inl (terminal_exitLoop _)
      · simp only [hd, if_false]; right; simp [outstanding]
  | cons r q =>
    simp only
    rcases write_cases' { s with queue := q } r.bytes (.request r.id) with h | ⟨k, h⟩ <;> rw [h] <;> simp only
    · right; simp [replyWrites, emit, outstanding, WKind.consumer]
    · exact Or.inl (terminal_exitLoop _)

theorem w_idleResponse (s : St) (r : Response) :
    Terminal (idleResponse s r) ∨
      replyWrites (idleResponse s r).obs = replyWrites s.obs ++ outstanding (idleResponse s r).pc := by
  unfold idleResponse
  cases intoSingleFrame r with
  | none => exact Or.inl (terminal_exitLoop s)
  | some x =>
    cases x with
    | error e => exact Or.inl (terminal_exitLoop _)
    | ok f =>
      simp only
      rcases write_cases' (emitEvents s f) IDLE .idle with h | ⟨k, h⟩ <;> rw [h] <;> simp only
      · right
        have := rw_emitEvents s f
        simp only [emit, replyWrites_append, outstanding]
        rw [this]; simp [replyWrites, WKind.consumer]
      · exact Or.inl (terminal_exitLoop _)

theorem w_startCancel (s : St) :
    Terminal (startCancel s) ∨
      (replyWrites (startCancel s).obs = replyWrites s.obs ∧ outstanding (startCancel s).pc = [.idle]) := by
  unfold startCancel
  cases s.queue with
  | nil => exact Or.inl (terminal_exitLoop s)
  | cons r q =>
    simp only
    rcases write_cases' { s with queue := q } NOIDLE .noidle with h | ⟨k, h⟩ <;> rw [h] <;> simp only
    · right; simp [replyWrites, emit, outstanding, WKind.consumer]
    · exact Or.inl (terminal_exitLoop _)

/-! ## the theorem -/

/-- who gets a consumed response: the caller whose request is in flight, or the event stream -/
def Delivery (s s' : St) (r : Response) : Prop :=
  match s.pc with
  | .waiting req _ => responses s'.obs = responses s.obs ++ [(req.id, r)] ∧ eventsOf s'.obs = eventsOf s.obs
  | .idling _ => responses s'.obs = responses s.obs ∧ eventsOf s'.obs = eventsOf s.obs ++ eventsOfReply r
  | .cancelWait _ _ => responses s'.obs = responses s.obs ∧ eventsOf s'.obs = eventsOf s.obs ++ eventsOfReply r
  | _ => Quiet s s'

/-- what one step of the task does to the decoding the connection is committed to -/
inductive Effect (s s' : St) : Prop
  | silent (h : ∀ q, future s' q = future s q) (hq : Quiet s s') (hw : WSilent s s')
  | consumed (r : Response) (h : ∀ q, future s q = (.initial, (resid s').2 ++ q, .done r))
      (hσ : (resid s').1 = .initial) (hd : Delivery s s' r) (hw : WConsumed s s')
  | broken (it : Item) (hit : it.isResp = false)
      (hp : (pollRecv { s with fresh := false } (σcur s)).2 = .ready it) (hq : Quiet s s')

theorem silent_of_resid {s s' : St} (h : resid s' = resid s) (hq : Quiet s s') (hw : WSilent s s') : Effect s s' :=
  .silent (by intro q; unfold future; rw [h]) hq hw

/-- a poll that stays pending, whatever happens to the future afterwards (kept or dropped) -/
theorem pollRecv_quiet (s s1 : St) (σ : BState) (rp : RecvPoll)
    (hp : pollRecv { s with fresh := false } σ = (s1, rp)) : s1.obs = s.obs := by
  have := (pollRecv_obs { s with fresh := false } σ).1
  rw [hp] at this
  exact this

theorem quiet_of_obs {s s1 s' : St} (h1 : s1.obs = s.obs) (h : Quiet s1 s') : Quiet s s' := by
  unfold Quiet at *; rw [← h1]; exact h

theorem effect_pending (s s1 s' : St) (σ σ' : BState) (hσ : σcur s = σ)
    (hp : pollRecv { s with fresh := false } σ = (s1, .pending σ'))
    (hr : resid s' = (σ', s1.buf ++ s1.avail)) (hq : Quiet s1 s') (hw : WSilent s s') : Effect s s' := by
  refine .silent (fun q => ?_) (quiet_of_obs (pollRecv_quiet s s1 σ _ hp) hq) hw
  have := (pollRecv_stream { s with fresh := false } σ).1 σ' (by rw [hp]) q
  rw [hp] at this
  unfold future
  rw [hr]
  simp only [resid, hσ]
  exact this

theorem effect_resp (s s1 s' : St) (σ : BState) (r : Response) (hσ : σcur s = σ)
    (hp : pollRecv { s with fresh := false } σ = (s1, .ready (.resp r)))
    (hr : resid s' = (s1.bstash, s1.buf ++ s1.avail)) (hd : Delivery s s' r) (hw : WConsumed s s') : Effect s s' := by
  have := (pollRecv_stream { s with fresh := false } σ).2 r (by rw [hp])
  rw [hp] at this
  obtain ⟨h0, hq⟩ := this
  refine .consumed r (fun q => ?_) (by rw [hr]; exact h0) hd hw
  unfold future
  rw [hr]
  simp only [resid, hσ]
  exact hq q

theorem effect_broken (s s1 s' : St) (σ : BState) (it : Item) (hσ : σcur s = σ) (hit : it.isResp = false)
    (hp : pollRecv { s with fresh := false } σ = (s1, .ready it)) (hq : Quiet s1 s') : Effect s s' :=
  .broken it hit (by rw [hσ, hp]) (quiet_of_obs (pollRecv_quiet s s1 σ _ hp) hq)

theorem resid_sub {s1 x : St} (h : Same s1 x ∧ Fresh x) : resid x = (s1.bstash, s1.buf ++ s1.avail) :=
  resid_of_same_fresh h.1 h.2

/-- closes the `Quiet` side goals: the sub-routines log no reply and no event -/
macro "quiet_tac" : tactic => `(tactic| first
  | exact quiet_refl _
  | exact quiet_emit _ _ rfl
  | exact quiet_exitLoop _
  | exact quiet_afterReply _ _
  | exact quiet_startCancel _
  | exact quiet_trans (quiet_emit _ _ rfl) (quiet_exitLoop _)
  | exact quiet_trans (quiet_emit _ _ rfl) (quiet_afterReply _ _)
  | exact quiet_trans (quiet_emit _ _ rfl) (quiet_emit _ _ rfl)
  | exact quiet_trans (quiet_trans (quiet_emit _ _ rfl) (quiet_emit _ _ rfl)) (quiet_exitLoop _))

/-- `WSilent` for a poll that stays pending with the same kind of program point -/
theorem wsilent_same {s s' : St} (ho : s'.obs = s.obs) (hp : outstanding s'.pc = outstanding s.pc) : WSilent s s' :=
  Or.inr ⟨[], by simp [ho], by simp [hp]⟩

/-- **the run loop is cancel-safe**: every step after the greeting is silent, consumes exactly the
next response of the stream and hands it to the right consumer, or ends a poll with a non-response;
and what it writes is exactly what it then waits for -/
theorem step_effect (s s' : St) (rf : Bool) (hc : s.pc ≠ .connecting) (h : step s rf = some s') : Effect s s' := by
  unfold step at h
  obtain ⟨t, ht⟩ : ∃ t : St, t = { s with fresh := false } := ⟨_, rfl⟩
  rw [← ht] at h
  cases hpc : s.pc with
  | connecting => exact absurd hpc hc
  | exited => rw [hpc] at h; simp at h
  | failed => rw [hpc] at h; simp at h
  | spawned =>
    rw [hpc] at h
    have hσ : σcur s = s.bstash := by simp [σcur, hpc]
    rcases write_cases' s IDLE .idle with hw | ⟨k, hw⟩ <;> rw [hw] at h <;>
      simp only [Option.some.injEq] at h <;> subst h
    · refine silent_of_resid (by simp [resid, σcur, hpc, emit]) (by quiet_tac) ?_
      exact Or.inr ⟨[.idle], by simp [replyWrites, emit, WKind.consumer], by simp [outstanding, hpc]⟩
    · refine silent_of_resid ?_ (by quiet_tac) (Or.inl (terminal_exitLoop _))
      rw [resid_sub ⟨same_exitLoop _, exitLoop_fresh _⟩]
      simp [resid, hσ, emit]
  | waitNext d =>
    rw [hpc] at h
    have hσ : σcur s = s.bstash := by simp [σcur, hpc]
    simp only at h
    split at h
    · simp only [Option.some.injEq] at h; subst h
      refine silent_of_resid ?_ (by quiet_tac) ?_
      · rw [resid_sub (afterReply_same_fresh s d)]
        simp [resid, hσ]
      · rcases w_afterReply s d with hw | hw
        · exact Or.inl hw
        · exact Or.inr ⟨_, hw, by simp [outstanding, hpc]⟩
    · simp at h
  | pwWait σ =>
    rw [hpc] at h
    have hσ : σcur s = σ := by simp [σcur, hpc]
    simp only [failConnect] at h
    split at h
    · simp at h
    · rcases hp : pollRecv t σ with ⟨s1, rp⟩
      rw [hp] at h
      rw [ht] at hp
      have ho := pollRecv_quiet s s1 σ _ hp
      cases rp with
      | pending σ' =>
        simp only [Option.some.injEq] at h; subst h
        exact effect_pending s s1 _ σ σ' hσ hp (by simp [resid, σcur]) (by quiet_tac)
          (wsilent_same ho (by simp [outstanding, hpc]))
      | ready it =>
        cases it with
        | resp r =>
          simp only at h
          split at h <;> (simp only [Option.some.injEq] at h; subst h)
          · exact effect_resp s s1 _ σ r hσ hp (by simp [resid, σcur, emit])
              (by simp only [Delivery, hpc]; exact quiet_of_obs ho (by quiet_tac))
              ⟨⟨.verdict, by simp [outstanding, hpc]⟩, Or.inl (Or.inr rfl)⟩
          · exact effect_resp s s1 _ σ r hσ hp (by simp [resid, σcur, emit])
              (by simp only [Delivery, hpc]; exact quiet_of_obs ho (by quiet_tac))
              ⟨⟨.verdict, by simp [outstanding, hpc]⟩, Or.inr (by simp [emit, replyWrites, ho, outstanding])⟩
        | clean =>
          simp only [Option.some.injEq] at h; subst h
          exact effect_broken s s1 _ σ _ hσ rfl hp (by quiet_tac)
        | invalid =>
          simp only [Option.some.injEq] at h; subst h
          exact effect_broken s s1 _ σ _ hσ rfl hp (by quiet_tac)
        | unexpectedEof =>
          simp only [Option.some.injEq] at h; subst h
          exact effect_broken s s1 _ σ _ hσ rfl hp (by quiet_tac)
        | io k =>
          simp only [Option.some.injEq] at h; subst h
          exact effect_broken s s1 _ σ _ hσ rfl hp (by quiet_tac)
        | panic =>
          simp only [Option.some.injEq] at h; subst h
          exact effect_broken s s1 _ σ _ hσ rfl hp (by quiet_tac)
  | waiting r σ =>
    rw [hpc] at h
    have hσ : σcur s = σ := by simp [σcur, hpc]
    simp only at h
    split at h
    · simp at h
    · rcases hp : pollRecv t σ with ⟨s1, rp⟩
      rw [hp] at h
      rw [ht] at hp
      have ho := pollRecv_quiet s s1 σ _ hp
      cases rp with
      | pending σ' =>
        simp only [Option.some.injEq] at h; subst h
        exact effect_pending s s1 _ σ σ' hσ hp (by simp [resid, σcur]) (by quiet_tac)
          (wsilent_same ho (by simp [outstanding, hpc]))
      | ready it =>
        cases it with
        | resp resp =>
          simp only [Option.some.injEq] at h; subst h
          refine effect_resp s s1 _ σ resp hσ hp ?_ ?_ ?_
          · rw [resid_sub (afterReply_same_fresh _ _)]
            simp [emit]
          · simp only [Delivery, hpc]
            have hq := quiet_afterReply (emit s1 (.resolved r.id (.response resp))) (s1.now + TIMEOUT_MS)
            rw [hq.1, hq.2, ← ho]
            simp [emit, responses, eventsOf]
          · refine ⟨⟨.reply r.id, by simp [outstanding, hpc]⟩, ?_⟩
            rcases w_afterReply (emit s1 (.resolved r.id (.response resp))) (s1.now + TIMEOUT_MS) with hw | hw
            · exact Or.inl hw
            · right
              rw [hw, ← ho]; simp [emit, replyWrites]
        | clean =>
          simp only [Option.some.injEq] at h; subst h
          exact effect_broken s s1 _ σ _ hσ rfl hp (by quiet_tac)
        | invalid =>
          simp only [Option.some.injEq] at h; subst h
          exact effect_broken s s1 _ σ _ hσ rfl hp (by quiet_tac)
        | unexpectedEof =>
          simp only [Option.some.injEq] at h; subst h
          exact effect_broken s s1 _ σ _ hσ rfl hp (by quiet_tac)
        | io k =>
          simp only [Option.some.injEq] at h; subst h
          exact effect_broken s s1 _ σ _ hσ rfl hp (by quiet_tac)
        | panic =>
          simp only [Option.some.injEq] at h; subst h
          exact effect_broken s s1 _ σ _ hσ rfl hp (by quiet_tac)
  | cancelWait r σ =>
    rw [hpc] at h
    have hσ : σcur s = σ := by simp [σcur, hpc]
    simp only at h
    split at h
    · simp at h
    · rcases hp : pollRecv t σ with ⟨s1, rp⟩
      rw [hp] at h
      rw [ht] at hp
      have ho := pollRecv_quiet s s1 σ _ hp
      cases rp with
      | pending σ' =>
        simp only [Option.some.injEq] at h; subst h
        exact effect_pending s s1 _ σ σ' hσ hp (by simp [resid, σcur]) (by quiet_tac)
          (wsilent_same ho (by simp [outstanding, hpc]))
      | ready it =>
        cases it with
        | resp resp =>
          simp only at h
          cases hsf : intoSingleFrame resp with
          | none =>
            rw [hsf] at h
            simp only [Option.some.injEq] at h; subst h
            refine effect_resp s s1 _ σ resp hσ hp ?_ ?_ ⟨⟨.idle, by simp [outstanding, hpc]⟩, Or.inl (terminal_exitLoop _)⟩
            · rw [resid_sub ⟨same_exitLoop _, exitLoop_fresh _⟩]; simp [emit]
            · simp only [Delivery, hpc, eventsOfReply, hsf, List.append_nil]
              exact quiet_of_obs ho (by quiet_tac)
          | some ef =>
            rw [hsf] at h
            cases ef with
            | error e =>
              simp only [Option.some.injEq] at h; subst h
              refine effect_resp s s1 _ σ resp hσ hp ?_ ?_ ⟨⟨.idle, by simp [outstanding, hpc]⟩, Or.inl (terminal_exitLoop _)⟩
              · rw [resid_sub ⟨same_exitLoop _, exitLoop_fresh _⟩]; simp [emit]
              · simp only [Delivery, hpc, eventsOfReply, hsf, List.append_nil]
                exact quiet_of_obs ho (by quiet_tac)
            | ok f =>
              simp only at h
              have hs := same_emitEvents s1 f
              obtain ⟨e1, e2⟩ := emitEvents_log s1 f
              rcases write_cases' (emitEvents s1 f) r.bytes (.request r.id) with hw | ⟨k, hw⟩ <;> rw [hw] at h <;>
                simp only [Option.some.injEq] at h <;> subst h
              · refine effect_resp s s1 _ σ resp hσ hp ?_ ?_ ?_
                · simp [resid, σcur, emit, hs.1, hs.2.1, hs.2.2]
                · simp only [Delivery, hpc, eventsOfReply, hsf]
                  have hq := quiet_emit (emitEvents s1 f) (.wrote r.bytes (.request r.id)) rfl
                  exact ⟨by rw [← ho, ← e1]; exact hq.1, by rw [← ho, ← e2]; exact hq.2⟩
                · refine ⟨⟨.idle, by simp [outstanding, hpc]⟩, Or.inr ?_⟩
                  have := rw_emitEvents s1 f
                  simp only [emit, replyWrites_append, outstanding]
                  rw [this, ho]; simp [replyWrites, WKind.consumer]
              · refine effect_resp s s1 _ σ resp hσ hp ?_ ?_ ⟨⟨.idle, by simp [outstanding, hpc]⟩, Or.inl (terminal_exitLoop _)⟩
                · rw [resid_sub ⟨same_exitLoop _, exitLoop_fresh _⟩]; simp [emit, hs.1, hs.2.1, hs.2.2]
                · simp only [Delivery, hpc, eventsOfReply, hsf]
                  have hq := quiet_trans (quiet_emit (emitEvents s1 f) (.resolved r.id (.protocol (.io k))) rfl) (quiet_exitLoop _)
                  exact ⟨by rw [← ho, ← e1]; exact hq.1, by rw [← ho, ← e2]; exact hq.2⟩
        | clean =>
          simp only [Option.some.injEq] at h; subst h
          exact effect_broken s s1 _ σ _ hσ rfl hp (by quiet_tac)
        | invalid =>
          simp only [Option.some.injEq] at h; subst h
          exact effect_broken s s1 _ σ _ hσ rfl hp (by quiet_tac)
        | unexpectedEof =>
          simp only [Option.some.injEq] at h; subst h
          exact effect_broken s s1 _ σ _ hσ rfl hp (by quiet_tac)
        | io k =>
          simp only [Option.some.injEq] at h; subst h
          exact effect_broken s s1 _ σ _ hσ rfl hp (by quiet_tac)
        | panic =>
          simp only [Option.some.injEq] at h; subst h
          exact effect_broken s s1 _ σ _ hσ rfl hp (by quiet_tac)
  | idling σ =>
    rw [hpc] at h
    have hσ : σcur s = σ := by simp [σcur, hpc]
    simp only at h
    split at h
    · -- the command branch wins: the live future is dropped as it is
      simp only [Option.some.injEq] at h; subst h
      refine silent_of_resid ?_ (quiet_startCancel (dropFuture s σ)) ?_
      · rw [resid_sub (startCancel_same_fresh _)]
        simp [resid, hσ, dropFuture]
      · rcases w_startCancel (dropFuture s σ) with hw | ⟨hw1, hw2⟩
        · exact Or.inl hw
        · exact Or.inr ⟨[], by rw [hw1]; simp [dropFuture], by rw [hw2, hpc]; rfl⟩
    · split at h
      · rcases hp : pollRecv t σ with ⟨s1, rp⟩
        rw [hp] at h
        rw [ht] at hp
        have ho := pollRecv_quiet s s1 σ _ hp
        cases rp with
        | pending σ' =>
          simp only at h
          split at h
          · -- dropped right after consuming bytes
            simp only [Option.some.injEq] at h; subst h
            refine effect_pending s s1 _ σ σ' hσ hp ?_ (quiet_startCancel (dropFuture s1 σ')) ?_
            · rw [resid_sub (startCancel_same_fresh _)]
              simp [dropFuture]
            · rcases w_startCancel (dropFuture s1 σ') with hw | ⟨hw1, hw2⟩
              · exact Or.inl hw
              · exact Or.inr ⟨[], by rw [hw1]; simp [dropFuture, ho], by rw [hw2, hpc]; rfl⟩
          · simp only [Option.some.injEq] at h; subst h
            exact effect_pending s s1 _ σ σ' hσ hp (by simp [resid, σcur]) (by quiet_tac)
              (wsilent_same ho (by simp [outstanding, hpc]))
        | ready it =>
          cases it with
          | resp resp =>
            simp only [Option.some.injEq] at h; subst h
            refine effect_resp s s1 _ σ resp hσ hp ?_ ?_ ?_
            · rw [resid_sub (idleResponse_same_fresh _ _)]
            · simp only [Delivery, hpc]
              have := idleResponse_log s1 resp
              rw [ho] at this
              exact this
            · refine ⟨⟨.idle, by simp [outstanding, hpc]⟩, ?_⟩
              rcases w_idleResponse s1 resp with hw | hw
              · exact Or.inl hw
              · exact Or.inr (by rw [hw, ho])
          | clean =>
            simp only [Option.some.injEq] at h; subst h
            exact effect_broken s s1 _ σ _ hσ rfl hp (by quiet_tac)
          | invalid =>
            simp only [Option.some.injEq] at h; subst h
            exact effect_broken s s1 _ σ _ hσ rfl hp (by quiet_tac)
          | unexpectedEof =>
            simp only [Option.some.injEq] at h; subst h
            exact effect_broken s s1 _ σ _ hσ rfl hp (by quiet_tac)
          | io k =>
            simp only [Option.some.injEq] at h; subst h
            exact effect_broken s s1 _ σ _ hσ rfl hp (by quiet_tac)
          | panic =>
            simp only [Option.some.injEq] at h; subst h
            exact effect_broken s s1 _ σ _ hσ rfl hp (by quiet_tac)
      · simp at h

end Mpd.Loop
