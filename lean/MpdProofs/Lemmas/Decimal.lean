import Mpd.Typed.Base
import MpdSpec.Records
/-!
The server's decimal printing (`Spec.decimal`, `%u`) is read back exactly by the model of Rust's
`uN::from_str` (`Typed.parseUnsigned`), for every number within the type's range.
-/
namespace Mpd
open Mpd.Typed

theorem digit_isDigit : ∀ m, m < 10 → isDigit (48 + m).toUInt8 = true := by decide
theorem digit_val : ∀ m, m < 10 → (48 + m).toUInt8.toNat - 48 = m := by decide
theorem digit_ne_sign : ∀ m, m < 10 → (48 + m).toUInt8 ≠ 43 ∧ (48 + m).toUInt8 ≠ 45 ∧ (48 + m).toUInt8 ≠ 46 := by decide

theorem spec_digit_isDigit (n : Nat) : isDigit (Spec.digit n) = true :=
  digit_isDigit _ (Nat.mod_lt _ (by decide))
theorem spec_digit_val (n : Nat) : (Spec.digit n).toNat - 48 = n % 10 :=
  digit_val _ (Nat.mod_lt _ (by decide))

theorem digitsVal_append_one (l : Bytes) (b : UInt8) : digitsVal (l ++ [b]) = digitsVal l * 10 + (b.toNat - 48) := by
  simp [digitsVal, List.foldl_append]

theorem foldl_digits (m : Bytes) : ∀ a : Nat,
    m.foldl (fun a b => a * 10 + (b.toNat - 48)) a = a * 10 ^ m.length + m.foldl (fun a b => a * 10 + (b.toNat - 48)) 0 := by
  induction m with
  | nil => intro a; simp
  | cons b t ih =>
    intro a
    simp only [List.foldl_cons, List.length_cons]
    rw [ih (a * 10 + (b.toNat - 48)), ih (0 * 10 + (b.toNat - 48))]
    simp only [Nat.zero_mul, Nat.zero_add, Nat.pow_succ, Nat.add_mul]
    rw [Nat.mul_assoc, Nat.mul_comm (10 ^ t.length) 10, Nat.add_assoc]

theorem digitsVal_append (l m : Bytes) : digitsVal (l ++ m) = digitsVal l * 10 ^ m.length + digitsVal m := by
  simp only [digitsVal, List.foldl_append]
  exact foldl_digits m _

theorem decimalAux_spec : ∀ fuel n, n < fuel →
    digitsVal (Spec.decimalAux fuel n) = n ∧ (Spec.decimalAux fuel n).all isDigit = true ∧
      Spec.decimalAux fuel n ≠ [] := by
  intro fuel
  induction fuel with
  | zero => intro n h; exact absurd h (Nat.not_lt_zero _)
  | succ fuel ih =>
    intro n h
    unfold Spec.decimalAux
    by_cases h10 : n < 10
    · simp only [h10, if_true]
      refine ⟨?_, by simp [spec_digit_isDigit], by simp⟩
      simp [digitsVal, spec_digit_val, Nat.mod_eq_of_lt h10]
    · simp only [h10, if_false]
      have hlt : n / 10 < fuel := by omega
      obtain ⟨h1, h2, _⟩ := ih (n / 10) hlt
      refine ⟨?_, by simp [h2, spec_digit_isDigit], by simp⟩
      rw [digitsVal_append_one, h1, spec_digit_val]
      omega

theorem decimal_val (n : Nat) : digitsVal (Spec.decimal n) = n := (decimalAux_spec (n + 1) n (Nat.lt_succ_self n)).1
theorem decimal_digits (n : Nat) : (Spec.decimal n).all isDigit = true := (decimalAux_spec (n + 1) n (Nat.lt_succ_self n)).2.1
theorem decimal_ne_nil (n : Nat) : Spec.decimal n ≠ [] := (decimalAux_spec (n + 1) n (Nat.lt_succ_self n)).2.2

theorem isDigit_ne_sign (b : UInt8) (h : isDigit b = true) : b ≠ 43 ∧ b ≠ 45 ∧ b ≠ 46 := by
  refine ⟨?_, ?_, ?_⟩ <;> (intro e; subst e; revert h; decide)

/-- a non-empty all-digit string is parsed to its value when that is in range -/
theorem parseUnsigned_digits (max : Nat) (s : Bytes) (hne : s ≠ []) (hd : s.all isDigit = true)
    (hm : digitsVal s ≤ max) : parseUnsigned max s = some (digitsVal s) := by
  cases s with
  | nil => exact absurd rfl hne
  | cons b t =>
    have hb : isDigit b = true := by simp only [List.all_cons, Bool.and_eq_true] at hd; exact hd.1
    have hs := (isDigit_ne_sign b hb).1
    unfold parseUnsigned
    split
    · rename_i t' heq
      simp only [List.cons.injEq] at heq
      exact absurd heq.1 hs
    · simp [hd, hm]

theorem parseUnsigned_decimal (max n : Nat) (h : n ≤ max) : parseUnsigned max (Spec.decimal n) = some n := by
  have := parseUnsigned_digits max (Spec.decimal n) (decimal_ne_nil n) (decimal_digits n) (by rw [decimal_val]; exact h)
  rw [this, decimal_val]

theorem parseU8_decimal (n : Nat) (h : n ≤ 255) : parseU8 (Spec.decimal n) = some n := parseUnsigned_decimal _ n h
theorem parseU32_decimal (n : Nat) (h : n ≤ 4294967295) : parseU32 (Spec.decimal n) = some n := parseUnsigned_decimal _ n h
theorem parseU64_decimal (n : Nat) (h : n ≤ 18446744073709551615) : parseU64 (Spec.decimal n) = some n :=
  parseUnsigned_decimal _ n h
theorem parseUsize_decimal (n : Nat) (h : n ≤ 18446744073709551615) : parseUsize (Spec.decimal n) = some n :=
  parseUnsigned_decimal _ n h

theorem parseBool_b01 (b : Bool) : parseBool (Spec.b01 b) = some b := by cases b <;> decide

end Mpd
