import MpdProofs.Lemmas.ParserInv
/-!
# The wire format accepted by each production of `parser.rs`, exactly

`p i = ok v r ↔ i = <wire form of v> ++ r ∧ <side conditions>` for every production. From these:
soundness (what was parsed is on the wire — nothing fabricated) and completeness (every line of
the grammar parses to itself) of `parseComp`.
-/
namespace Mpd.Parser

/-! ## combinators -/

theorem andThen_ok_iff {α β} (f : P α) (g : α → P β) (i : Bytes) (v : β) (r : Bytes) :
    andThen f g i = .ok v r ↔ ∃ a r1, f i = .ok a r1 ∧ g a r1 = .ok v r := by
  unfold andThen
  cases h : f i with
  | ok a r1 =>
    simp only [Res.ok.injEq]
    constructor
    · intro hg; exact ⟨a, r1, ⟨rfl, rfl⟩, hg⟩
    · rintro ⟨a', r1', ⟨rfl, rfl⟩, hg⟩; exact hg
  | incomplete => simp
  | error => simp
  | failure => simp

theorem pMap_ok_iff {α β} (p : P α) (f : α → β) (i : Bytes) (v : β) (r : Bytes) :
    pMap p f i = .ok v r ↔ ∃ a, p i = .ok a r ∧ f a = v := by
  unfold pMap
  cases h : p i <;> simp
  constructor
  · rintro ⟨rfl, rfl⟩; exact ⟨_, ⟨rfl, rfl⟩, rfl⟩
  · rintro ⟨a, ⟨rfl, rfl⟩, rfl⟩; exact ⟨rfl, rfl⟩

theorem mapRes_ok_iff {α β} (p : P α) (f : α → Option β) (i : Bytes) (v : β) (r : Bytes) :
    mapRes p f i = .ok v r ↔ ∃ a, p i = .ok a r ∧ f a = some v := by
  unfold mapRes
  cases h : p i with
  | ok a r' =>
    cases hf : f a with
    | none =>
      simp only [hf, reduceCtorEq, Res.ok.injEq, false_iff]
      rintro ⟨a', ⟨rfl, rfl⟩, h2⟩
      rw [hf] at h2; simp at h2
    | some w =>
      simp only [hf, Res.ok.injEq]
      constructor
      · rintro ⟨rfl, rfl⟩; exact ⟨a, ⟨rfl, rfl⟩, hf⟩
      · rintro ⟨a', ⟨rfl, rfl⟩, h2⟩; rw [hf] at h2; exact ⟨Option.some.inj h2, rfl⟩
  | incomplete => simp
  | error => simp
  | failure => simp

theorem alt_ok_iff {α} (f g : P α) (i : Bytes) (v : α) (r : Bytes) :
    alt f g i = .ok v r ↔ f i = .ok v r ∨ (f i = .error ∧ g i = .ok v r) := by
  unfold alt
  cases h : f i <;> simp

theorem opt_ok_iff {α} (p : P α) (i : Bytes) (v : Option α) (r : Bytes) :
    opt p i = .ok v r ↔ (∃ a, p i = .ok a r ∧ v = some a) ∨ (p i = .error ∧ v = none ∧ r = i) := by
  unfold opt
  cases h : p i <;> simp
  · constructor
    · rintro ⟨rfl, rfl⟩; exact ⟨_, ⟨rfl, rfl⟩, rfl⟩
    · rintro ⟨a, ⟨rfl, rfl⟩, rfl⟩; exact ⟨rfl, rfl⟩
  · constructor
    · rintro ⟨rfl, rfl⟩; exact ⟨rfl, rfl⟩
    · rintro ⟨rfl, rfl⟩; exact ⟨rfl, rfl⟩

theorem cut_ok_iff {α} (p : P α) (i : Bytes) (v : α) (r : Bytes) :
    cut p i = .ok v r ↔ p i = .ok v r := by
  unfold cut
  cases h : p i <;> simp

theorem terminated_ok_iff {α β} (p : P α) (q : P β) (i : Bytes) (v : α) (r : Bytes) :
    terminated p q i = .ok v r ↔ ∃ r1 b, p i = .ok v r1 ∧ q r1 = .ok b r := by
  unfold terminated
  rw [andThen_ok_iff]
  constructor
  · rintro ⟨a, r1, h1, h2⟩
    rw [pMap_ok_iff] at h2
    obtain ⟨b, h2, rfl⟩ := h2
    exact ⟨r1, b, h1, h2⟩
  · rintro ⟨r1, b, h1, h2⟩
    exact ⟨v, r1, h1, (pMap_ok_iff _ _ _ _ _).mpr ⟨b, h2, rfl⟩⟩

theorem preceded_ok_iff {α β} (p : P α) (q : P β) (i : Bytes) (v : β) (r : Bytes) :
    preceded p q i = .ok v r ↔ ∃ a r1, p i = .ok a r1 ∧ q r1 = .ok v r := by
  unfold preceded
  rw [andThen_ok_iff]

/-! ## productions -/

/-- a decimal number as the parser accepts it -/
def IsNum (ds : Bytes) : Prop := ds ≠ [] ∧ ds.all isDigit = true ∧ digitsVal ds ≤ U64MAX

theorem number_ok_iff (i : Bytes) (n : Nat) (r : Bytes) :
    number i = .ok n r ↔
      ∃ ds, IsNum ds ∧ n = digitsVal ds ∧ i = ds ++ r ∧ ∃ b r', r = b :: r' ∧ isDigit b = false := by
  unfold number
  rw [mapRes_ok_iff]
  constructor
  · rintro ⟨ds, h1, h2⟩
    rw [takeWhile1_ok_iff] at h1
    obtain ⟨hne, hall, hi, hnext⟩ := h1
    have h2 : (if digitsVal ds ≤ U64MAX then some (digitsVal ds) else none) = some n := h2
    split at h2
    · rename_i hle
      exact ⟨ds, ⟨hne, hall, hle⟩, (Option.some.inj h2).symm, hi, hnext⟩
    · exact absurd h2 (by intro h; cases h)
  · rintro ⟨ds, ⟨hne, hall, hle⟩, rfl, hi, hnext⟩
    refine ⟨ds, (takeWhile1_ok_iff _ _ _ _).mpr ⟨hne, hall, hi, hnext⟩, ?_⟩
    show (if digitsVal ds ≤ U64MAX then some (digitsVal ds) else none) = some (digitsVal ds)
    rw [if_pos hle]

theorem fieldValue_ok_iff (i v r : Bytes) : fieldValue i = .ok v r ↔ LF ∉ v ∧ i = v ++ LF :: r := by
  unfold fieldValue
  rw [terminated_ok_iff]
  constructor
  · rintro ⟨r1, b, h1, h2⟩
    rw [takeUntilLF_ok_iff] at h1
    rw [char_ok_iff] at h2
    obtain ⟨hv, hi, _⟩ := h1
    subst h2
    exact ⟨hv, hi⟩
  · rintro ⟨hv, rfl⟩
    exact ⟨LF :: r, (), (takeUntilLF_ok_iff _ _ _).mpr ⟨hv, rfl, r, rfl⟩, (char_ok_iff _ _ _).mpr rfl⟩

theorem utf8_eq_some (a b : Bytes) : utf8 a = some b ↔ validUtf8 a = true ∧ b = a := by
  unfold utf8
  split
  · rename_i h
    simp only [Option.some.injEq, h, true_and]
    exact eq_comm
  · rename_i h
    simp [h]

theorem isKeyChar_colon : isKeyChar COLON = false := by decide

/-- **key-value line** -/
theorem keyValueField_ok_iff (i : Bytes) (kv : Bytes × Bytes) (r : Bytes) :
    keyValueField i = .ok kv r ↔
      kv.1 ≠ [] ∧ kv.1.all isKeyChar = true ∧ validUtf8 kv.1 = true ∧ LF ∉ kv.2 ∧ validUtf8 kv.2 = true ∧
      i = kv.1 ++ str ": " ++ kv.2 ++ LF :: r := by
  obtain ⟨k, v⟩ := kv
  unfold keyValueField
  rw [andThen_ok_iff]
  constructor
  · rintro ⟨k', r1, h1, h2⟩
    rw [mapRes_ok_iff] at h1
    obtain ⟨k'', h1, hu⟩ := h1
    rw [utf8_eq_some] at hu
    obtain ⟨hku, rfl⟩ := hu
    rw [takeWhile1_ok_iff] at h1
    obtain ⟨hne, hall, hi, _⟩ := h1
    rw [preceded_ok_iff] at h2
    obtain ⟨_, r2, h2, h3⟩ := h2
    rw [tag_ok_iff] at h2
    rw [pMap_ok_iff] at h3
    obtain ⟨v', h3, hkv⟩ := h3
    simp only [Prod.mk.injEq] at hkv
    obtain ⟨rfl, rfl⟩ := hkv
    rw [mapRes_ok_iff] at h3
    obtain ⟨v'', h3, hu⟩ := h3
    rw [utf8_eq_some] at hu
    obtain ⟨hvu, rfl⟩ := hu
    rw [fieldValue_ok_iff] at h3
    obtain ⟨hv, h3⟩ := h3
    refine ⟨hne, hall, hku, hv, hvu, ?_⟩
    simp only [hi, h2, h3, List.append_assoc]
  · rintro ⟨hne, hall, hku, hv, hvu, rfl⟩
    simp only at *
    refine ⟨k, str ": " ++ v ++ LF :: r, ?_, ?_⟩
    · rw [mapRes_ok_iff]
      refine ⟨k, ?_, (utf8_eq_some _ _).mpr ⟨hku, rfl⟩⟩
      rw [takeWhile1_ok_iff]
      exact ⟨hne, hall, by simp [List.append_assoc], COLON, str " " ++ v ++ LF :: r, by rfl, isKeyChar_colon⟩
    · rw [preceded_ok_iff]
      refine ⟨(), v ++ LF :: r, (tag_ok_iff _ _ _).mpr (by simp [List.append_assoc]), ?_⟩
      rw [pMap_ok_iff]
      refine ⟨v, ?_, rfl⟩
      rw [mapRes_ok_iff]
      exact ⟨v, (fieldValue_ok_iff _ _ _).mpr ⟨hv, rfl⟩, (utf8_eq_some _ _).mpr ⟨hvu, rfl⟩⟩

theorem isDigit_LF : isDigit LF = false := by decide

/-- **binary header** (after F5) -/
theorem binaryPrefix_ok_iff (i : Bytes) (n : Nat) (r : Bytes) :
    binaryPrefix i = .ok n r ↔ ∃ ds, IsNum ds ∧ n = digitsVal ds ∧ i = str "binary: " ++ ds ++ LF :: r := by
  unfold binaryPrefix
  rw [preceded_ok_iff]
  constructor
  · rintro ⟨_, r1, h1, h2⟩
    rw [tag_ok_iff] at h1
    rw [cut_ok_iff, terminated_ok_iff] at h2
    obtain ⟨r2, _, h2, h3⟩ := h2
    rw [number_ok_iff] at h2
    rw [char_ok_iff] at h3
    obtain ⟨ds, hnum, hn, hi, _⟩ := h2
    exact ⟨ds, hnum, hn, by simp only [h1, hi, h3, List.append_assoc]⟩
  · rintro ⟨ds, hnum, rfl, rfl⟩
    refine ⟨(), ds ++ LF :: r, (tag_ok_iff _ _ _).mpr (by simp [List.append_assoc]), ?_⟩
    rw [cut_ok_iff, terminated_ok_iff]
    exact ⟨LF :: r, (), (number_ok_iff _ _ _).mpr ⟨ds, hnum, rfl, rfl, LF, r, rfl, isDigit_LF⟩,
      (char_ok_iff _ _ _).mpr rfl⟩

/-- **binary field**: header, exactly `n` payload bytes (never scanned), LF -/
theorem binaryField_ok_iff (i bin r : Bytes) :
    binaryField i = .ok bin r ↔
      ∃ ds, IsNum ds ∧ bin.length = digitsVal ds ∧ i = str "binary: " ++ ds ++ [LF] ++ bin ++ LF :: r := by
  unfold binaryField
  rw [andThen_ok_iff]
  constructor
  · rintro ⟨n, r1, h1, h2⟩
    rw [binaryPrefix_ok_iff] at h1
    obtain ⟨ds, hnum, rfl, hi⟩ := h1
    rw [cut_ok_iff, terminated_ok_iff] at h2
    obtain ⟨r2, _, h2, h3⟩ := h2
    rw [take_ok_iff] at h2
    rw [char_ok_iff] at h3
    exact ⟨ds, hnum, h2.1, by simp only [hi, h2.2, h3, List.append_assoc, List.cons_append, List.nil_append]⟩
  · rintro ⟨ds, hnum, hlen, rfl⟩
    refine ⟨digitsVal ds, bin ++ LF :: r, (binaryPrefix_ok_iff _ _ _).mpr ⟨ds, hnum, rfl, by simp [List.append_assoc]⟩, ?_⟩
    rw [cut_ok_iff, terminated_ok_iff]
    exact ⟨LF :: r, (), (take_ok_iff _ _ _ _).mpr ⟨hlen, rfl⟩, (char_ok_iff _ _ _).mpr rfl⟩

theorem errorCodeAndIndex_ok_iff (i : Bytes) (ci : Nat × Nat) (r : Bytes) :
    errorCodeAndIndex i = .ok ci r ↔
      ∃ c1 c2, IsNum c1 ∧ IsNum c2 ∧ ci = (digitsVal c1, digitsVal c2) ∧
        i = [91] ++ c1 ++ [64] ++ c2 ++ 93 :: r := by
  unfold errorCodeAndIndex
  rw [preceded_ok_iff]
  constructor
  · rintro ⟨_, r1, h1, h2⟩
    rw [char_ok_iff] at h1
    rw [andThen_ok_iff] at h2
    obtain ⟨code, r2, h2, h3⟩ := h2
    rw [number_ok_iff] at h2
    obtain ⟨c1, hn1, rfl, hi1, _⟩ := h2
    rw [preceded_ok_iff] at h3
    obtain ⟨_, r3, h3, h4⟩ := h3
    rw [char_ok_iff] at h3
    rw [andThen_ok_iff] at h4
    obtain ⟨idx, r4, h4, h5⟩ := h4
    rw [number_ok_iff] at h4
    obtain ⟨c2, hn2, rfl, hi2, _⟩ := h4
    rw [pMap_ok_iff] at h5
    obtain ⟨_, h5, rfl⟩ := h5
    rw [char_ok_iff] at h5
    exact ⟨c1, c2, hn1, hn2, rfl, by simp only [h1, hi1, h3, hi2, h5, List.append_assoc, List.cons_append, List.nil_append]⟩
  · rintro ⟨c1, c2, hn1, hn2, rfl, rfl⟩
    refine ⟨(), c1 ++ [64] ++ c2 ++ 93 :: r, (char_ok_iff _ _ _).mpr (by simp [List.append_assoc]), ?_⟩
    rw [andThen_ok_iff]
    refine ⟨digitsVal c1, 64 :: (c2 ++ 93 :: r), (number_ok_iff _ _ _).mpr ⟨c1, hn1, rfl, by simp [List.append_assoc], 64, _, rfl, by decide⟩, ?_⟩
    rw [preceded_ok_iff]
    refine ⟨(), c2 ++ 93 :: r, (char_ok_iff _ _ _).mpr rfl, ?_⟩
    rw [andThen_ok_iff]
    refine ⟨digitsVal c2, 93 :: r, (number_ok_iff _ _ _).mpr ⟨c2, hn2, rfl, rfl, 93, r, rfl, by decide⟩, ?_⟩
    rw [pMap_ok_iff]
    exact ⟨(), (char_ok_iff _ _ _).mpr rfl, rfl⟩

theorem errorCurrentCommand_ok_iff (i : Bytes) (c : Option Bytes) (r : Bytes) :
    errorCurrentCommand i = .ok c r ↔
      ∃ cmd, cmd.all isCmdNameChar = true ∧ validUtf8 cmd = true ∧
        c = (if cmd = [] then none else some cmd) ∧ i = [123] ++ cmd ++ 125 :: r := by
  unfold errorCurrentCommand
  rw [preceded_ok_iff]
  constructor
  · rintro ⟨_, r1, h1, h2⟩
    rw [char_ok_iff] at h1
    rw [terminated_ok_iff] at h2
    obtain ⟨r2, _, h2, h3⟩ := h2
    rw [char_ok_iff] at h3
    rw [opt_ok_iff] at h2
    rcases h2 with ⟨cmd, h2, rfl⟩ | ⟨_, rfl, rfl⟩
    · rw [mapRes_ok_iff] at h2
      obtain ⟨cmd', h2, hu⟩ := h2
      rw [utf8_eq_some] at hu
      obtain ⟨hu, rfl⟩ := hu
      rw [takeWhile1_ok_iff] at h2
      obtain ⟨hne, hall, hi, _⟩ := h2
      exact ⟨cmd, hall, hu, by simp [hne], by simp only [h1, hi, h3, List.cons_append, List.nil_append]⟩
    · exact ⟨[], by simp, by decide, by simp, by simp [h1, h3]⟩
  · rintro ⟨cmd, hall, hu, rfl, rfl⟩
    refine ⟨(), cmd ++ 125 :: r, (char_ok_iff _ _ _).mpr (by simp), ?_⟩
    rw [terminated_ok_iff]
    refine ⟨125 :: r, (), ?_, (char_ok_iff _ _ _).mpr rfl⟩
    rw [opt_ok_iff]
    by_cases hc : cmd = []
    · right
      subst hc
      refine ⟨?_, by simp, by simp⟩
      simp [mapRes, takeWhile1, isCmdNameChar, isAlpha, isUpper, isLower, USCORE]
    · left
      refine ⟨cmd, ?_, by simp [hc]⟩
      rw [mapRes_ok_iff]
      exact ⟨cmd, (takeWhile1_ok_iff _ _ _ _).mpr ⟨hc, hall, rfl, 125, r, rfl, by decide⟩, (utf8_eq_some _ _).mpr ⟨hu, rfl⟩⟩

/-- the wire form of an ACK line -/
def ackWire (c1 c2 cmd msg : Bytes) : Bytes :=
  str "ACK [" ++ c1 ++ [64] ++ c2 ++ str "] {" ++ cmd ++ str "} " ++ msg ++ [LF]

theorem all_ne_LF_iff (v : Bytes) : v.all (fun b => b != LF) = true ↔ LF ∉ v := by
  induction v with
  | nil => simp
  | cons b bs ih =>
    simp only [List.all_cons, Bool.and_eq_true, ih, List.mem_cons, not_or]
    constructor
    · rintro ⟨h1, h2⟩; exact ⟨fun h => by simp [← h] at h1, h2⟩
    · rintro ⟨h1, h2⟩; exact ⟨by simpa using fun h => h1 h.symm, h2⟩

/-- **ACK line** -/
theorem error_ok_iff (i : Bytes) (e : Err) (r : Bytes) :
    error i = .ok e r ↔
      ∃ c1 c2 cmd, IsNum c1 ∧ IsNum c2 ∧ cmd.all isCmdNameChar = true ∧ validUtf8 cmd = true ∧
        LF ∉ e.message ∧ validUtf8 e.message = true ∧
        e = { code := digitsVal c1, index := digitsVal c2,
              command := if cmd = [] then none else some cmd, message := e.message } ∧
        i = ackWire c1 c2 cmd e.message ++ r := by
  unfold error
  rw [preceded_ok_iff]
  constructor
  · rintro ⟨_, r1, h1, h2⟩
    rw [tag_ok_iff] at h1
    rw [andThen_ok_iff] at h2
    obtain ⟨ci, r2, h2, h3⟩ := h2
    rw [terminated_ok_iff] at h2
    obtain ⟨r2', _, h2, h2s⟩ := h2
    rw [errorCodeAndIndex_ok_iff] at h2
    rw [char_ok_iff] at h2s
    obtain ⟨c1, c2, hn1, hn2, rfl, hi2⟩ := h2
    rw [andThen_ok_iff] at h3
    obtain ⟨cmdo, r3, h3, h4⟩ := h3
    rw [terminated_ok_iff] at h3
    obtain ⟨r3', _, h3, h3s⟩ := h3
    rw [errorCurrentCommand_ok_iff] at h3
    rw [char_ok_iff] at h3s
    obtain ⟨cmd, hall, hu, rfl, hi3⟩ := h3
    rw [andThen_ok_iff] at h4
    obtain ⟨msg, r4, h4, h5⟩ := h4
    rw [mapRes_ok_iff] at h4
    obtain ⟨msg', h4, hmu⟩ := h4
    rw [utf8_eq_some] at hmu
    obtain ⟨hmu, rfl⟩ := hmu
    rw [takeWhile_ok_iff] at h4
    obtain ⟨hmall, hi4, _⟩ := h4
    rw [pMap_ok_iff] at h5
    obtain ⟨_, h5, rfl⟩ := h5
    rw [char_ok_iff] at h5
    refine ⟨c1, c2, cmd, hn1, hn2, hall, hu, (all_ne_LF_iff _).mp hmall, hmu, rfl, ?_⟩
    simp only [ackWire, h1, hi2, h2s, hi3, h3s, hi4, h5, str, List.append_assoc, List.cons_append, List.nil_append]
    rfl
  · rintro ⟨c1, c2, cmd, hn1, hn2, hall, hu, hml, hmu, he, rfl⟩
    refine ⟨(), [91] ++ c1 ++ [64] ++ c2 ++ 93 :: SPACE :: ([123] ++ cmd ++ 125 :: SPACE :: (e.message ++ LF :: r)),
      (tag_ok_iff _ _ _).mpr (by simp [ackWire, str, List.append_assoc]; rfl), ?_⟩
    rw [andThen_ok_iff]
    refine ⟨(digitsVal c1, digitsVal c2), [123] ++ cmd ++ 125 :: SPACE :: (e.message ++ LF :: r), ?_, ?_⟩
    · rw [terminated_ok_iff]
      exact ⟨_, (), (errorCodeAndIndex_ok_iff _ _ _).mpr ⟨c1, c2, hn1, hn2, rfl, rfl⟩, (char_ok_iff _ _ _).mpr rfl⟩
    rw [andThen_ok_iff]
    refine ⟨if cmd = [] then none else some cmd, e.message ++ LF :: r, ?_, ?_⟩
    · rw [terminated_ok_iff]
      exact ⟨_, (), (errorCurrentCommand_ok_iff _ _ _).mpr ⟨cmd, hall, hu, rfl, rfl⟩, (char_ok_iff _ _ _).mpr rfl⟩
    rw [andThen_ok_iff]
    refine ⟨e.message, LF :: r, ?_, ?_⟩
    · rw [mapRes_ok_iff]
      exact ⟨e.message, (takeWhile_ok_iff _ _ _ _).mpr ⟨(all_ne_LF_iff _).mpr hml, rfl, LF, r, rfl, by decide⟩,
        (utf8_eq_some _ _).mpr ⟨hmu, rfl⟩⟩
    · rw [pMap_ok_iff]
      exact ⟨(), (char_ok_iff _ _ _).mpr rfl, he.symm⟩

/-! ## `parseComp`: sound and complete w.r.t. the wire format -/

/-- the bytes that encode a component on the wire -/
inductive Wire : Comp → Bytes → Prop where
  | endOfResponse : Wire .endOfResponse (str "OK\n")
  | endOfFrame : Wire .endOfFrame (str "list_OK\n")
  | field (k v : Bytes) : k ≠ [] → k.all isKeyChar = true → LF ∉ v → validUtf8 v = true →
      Wire (.field k v) (k ++ str ": " ++ v ++ [LF])
  | binary (ds bin : Bytes) : IsNum ds → bin.length = digitsVal ds →
      Wire (.binary (digitsVal ds)) (str "binary: " ++ ds ++ [LF] ++ bin ++ [LF])
  | error (c1 c2 cmd msg : Bytes) : IsNum c1 → IsNum c2 → cmd.all isCmdNameChar = true →
      LF ∉ msg → validUtf8 msg = true →
      Wire (.error { code := digitsVal c1, index := digitsVal c2,
                     command := if cmd = [] then none else some cmd, message := msg })
           (ackWire c1 c2 cmd msg)

/-- **soundness**: whatever `parseComp` returns is literally on the wire (nothing is fabricated) -/
theorem parseComp_sound (i : Bytes) (c : Comp) (rest : Bytes) (h : parseComp i = .ok c rest) :
    ∃ msg, Wire c msg ∧ i = msg ++ rest := by
  unfold parseComp at h
  rw [alt_ok_iff] at h
  rcases h with h | ⟨_, h⟩
  · rw [pMap_ok_iff] at h
    obtain ⟨_, h, rfl⟩ := h
    rw [tag_ok_iff] at h
    exact ⟨_, .endOfResponse, h⟩
  rw [alt_ok_iff] at h
  rcases h with h | ⟨_, h⟩
  · rw [pMap_ok_iff] at h
    obtain ⟨_, h, rfl⟩ := h
    rw [tag_ok_iff] at h
    exact ⟨_, .endOfFrame, h⟩
  rw [alt_ok_iff] at h
  rcases h with h | ⟨_, h⟩
  · rw [pMap_ok_iff] at h
    obtain ⟨e, h, rfl⟩ := h
    rw [error_ok_iff] at h
    obtain ⟨c1, c2, cmd, hn1, hn2, hall, _, hml, hmu, he, hi⟩ := h
    rw [he]
    exact ⟨_, .error c1 c2 cmd e.message hn1 hn2 hall hml hmu, hi⟩
  rw [alt_ok_iff] at h
  rcases h with h | ⟨_, h⟩
  · rw [pMap_ok_iff] at h
    obtain ⟨bin, h, rfl⟩ := h
    rw [binaryField_ok_iff] at h
    obtain ⟨ds, hnum, hlen, hi⟩ := h
    rw [hlen]
    exact ⟨_, .binary ds bin hnum hlen, by simp only [hi, List.append_assoc, List.cons_append, List.nil_append]⟩
  · rw [pMap_ok_iff] at h
    obtain ⟨kv, h, rfl⟩ := h
    rw [keyValueField_ok_iff] at h
    obtain ⟨hne, hall, _, hv, hvu, hi⟩ := h
    exact ⟨_, .field kv.1 kv.2 hne hall hv hvu, by simp only [hi, List.append_assoc, List.cons_append, List.nil_append]⟩

/-! ### the earlier alternatives reject a key-value line -/

theorem tag_ne_failure (t i : Bytes) : tag t i ≠ .failure := by
  induction t generalizing i with
  | nil => simp [tag]
  | cons a ts ih =>
    cases i with
    | nil => simp [tag]
    | cons b bs => simp only [tag]; split; exact ih bs; simp

theorem tag_incomplete_imp (t i : Bytes) (h : tag t i = .incomplete) : ∃ s, t = i ++ s := by
  induction t generalizing i with
  | nil => simp [tag] at h
  | cons a ts ih =>
    cases i with
    | nil => exact ⟨_, rfl⟩
    | cons b bs =>
      simp only [tag] at h
      split at h
      · rename_i hab
        obtain ⟨s, hs⟩ := ih bs h
        exact ⟨s, by simp [hab, hs]⟩
      · simp at h

theorem takeWhile_key_append (a : Bytes) (c : UInt8) (b : Bytes) (ha : a.all isKeyChar = true)
    (hc : isKeyChar c = false) :
    (a ++ c :: b).takeWhile isKeyChar = a ∧ (a ++ c :: b).dropWhile isKeyChar = c :: b := by
  induction a with
  | nil => simp [hc]
  | cons x xs ih =>
    simp only [List.all_cons, Bool.and_eq_true] at ha
    simp [ha.1, ih ha.2]

/-- a tag whose first non-key byte is not a colon (or whose key part differs from `k`) rejects the
line `k: …` with a recoverable error — so `alt` moves on to the next alternative -/
theorem tag_error_of_keyline (t1 : Bytes) (c' : UInt8) (t2 k rest : Bytes)
    (ht1 : t1.all isKeyChar = true) (hc' : isKeyChar c' = false) (hk : k.all isKeyChar = true)
    (hdiff : c' ≠ COLON ∨ t1 ≠ k) :
    tag (t1 ++ c' :: t2) (k ++ COLON :: rest) = .error := by
  have key : ∀ x y : Bytes, t1 ++ c' :: x = k ++ COLON :: y → False := by
    intro x y hxy
    have h1 := takeWhile_key_append t1 c' x ht1 hc'
    have h2 := takeWhile_key_append k COLON y hk isKeyChar_colon
    rw [hxy] at h1
    have e1 : k = t1 := h2.1.symm.trans h1.1
    have e2 : COLON :: y = c' :: x := h2.2.symm.trans h1.2
    simp only [List.cons.injEq] at e2
    rcases hdiff with h | h
    · exact h e2.1.symm
    · exact h e1.symm
  cases h : tag (t1 ++ c' :: t2) (k ++ COLON :: rest) with
  | ok v r =>
    rw [tag_ok_iff] at h
    exact absurd (by rw [h]; simp [List.append_assoc]) (key (t2 ++ r) rest)
  | incomplete =>
    obtain ⟨s, hs⟩ := tag_incomplete_imp _ _ h
    exact absurd (by rw [hs]; simp [List.append_assoc]) (key t2 (rest ++ s))
  | error => rfl
  | failure => exact absurd h (tag_ne_failure _ _)

theorem andThen_error {α β} (f : P α) (g : α → P β) (i : Bytes) (h : f i = .error) :
    andThen f g i = .error := by
  unfold andThen; rw [h]

theorem pMap_error {α β} (p : P α) (f : α → β) (i : Bytes) (h : p i = .error) : pMap p f i = .error := by
  unfold pMap; rw [h]

theorem alt_of_error {α} (f g : P α) (i : Bytes) (h : f i = .error) : alt f g i = g i := by
  unfold alt; rw [h]

theorem alt_of_ok {α} (f g : P α) (i : Bytes) (v : α) (r : Bytes) (h : f i = .ok v r) :
    alt f g i = .ok v r := by
  unfold alt; rw [h]

/-- ASCII-only strings are valid UTF-8 -/
theorem validUtf8_of_ascii (l : Bytes) (h : ∀ b ∈ l, b < 0x80) : validUtf8 l = true := by
  induction l with
  | nil => rfl
  | cons b bs ih =>
    have hb : b < 0x80 := h b (by simp)
    rw [validUtf8.eq_def]
    simp only [hb, if_true]
    exact ih fun x hx => h x (by simp [hx])

theorem keyChar_ascii : ∀ b : UInt8, isKeyChar b = true → b < 0x80 := by
  intro b
  have : ∀ n, n < 256 → isKeyChar (UInt8.ofNat n) = true → UInt8.ofNat n < 0x80 := by decide +kernel
  have := this b.toNat b.toNat_lt
  simpa using this

theorem cmdChar_ascii : ∀ b : UInt8, isCmdNameChar b = true → b < 0x80 := by
  intro b
  have : ∀ n, n < 256 → isCmdNameChar (UInt8.ofNat n) = true → UInt8.ofNat n < 0x80 := by decide +kernel
  have := this b.toNat b.toNat_lt
  simpa using this

theorem validUtf8_of_keyChars (k : Bytes) (h : k.all isKeyChar = true) : validUtf8 k = true :=
  validUtf8_of_ascii k fun b hb => keyChar_ascii b (List.all_eq_true.mp h b hb)

theorem validUtf8_of_cmdChars (k : Bytes) (h : k.all isCmdNameChar = true) : validUtf8 k = true :=
  validUtf8_of_ascii k fun b hb => cmdChar_ascii b (List.all_eq_true.mp h b hb)

/-- **completeness**: every line of the grammar parses to itself, whatever follows it
(the key `binary` is reserved: `binary: …` is always a binary header) -/
theorem parseComp_complete (c : Comp) (msg tl : Bytes) (hw : Wire c msg)
    (hres : ∀ k v, c = .field k v → k ≠ str "binary") :
    parseComp (msg ++ tl) = .ok c tl := by
  unfold parseComp
  cases hw with
  | endOfResponse =>
    exact alt_of_ok _ _ _ _ _ ((pMap_ok_iff _ _ _ _ _).mpr ⟨(), (tag_ok_iff _ _ _).mpr rfl, rfl⟩)
  | endOfFrame =>
    rw [alt_of_error _ _ _ (pMap_error _ _ _ (by simp [str, tag]))]
    exact alt_of_ok _ _ _ _ _ ((pMap_ok_iff _ _ _ _ _).mpr ⟨(), (tag_ok_iff _ _ _).mpr rfl, rfl⟩)
  | error c1 c2 cmd m hn1 hn2 hall hml hmu =>
    rw [alt_of_error _ _ _ (pMap_error _ _ _ (by simp [ackWire, str, tag]))]
    rw [alt_of_error _ _ _ (pMap_error _ _ _ (by simp [ackWire, str, tag]))]
    apply alt_of_ok
    rw [pMap_ok_iff]
    refine ⟨_, (error_ok_iff _ _ _).mpr ⟨c1, c2, cmd, hn1, hn2, hall, validUtf8_of_cmdChars _ hall, hml, hmu, rfl, rfl⟩, rfl⟩
  | binary ds bin hnum hlen =>
    rw [alt_of_error _ _ _ (pMap_error _ _ _ (by simp [str, tag]))]
    rw [alt_of_error _ _ _ (pMap_error _ _ _ (by simp [str, tag]))]
    rw [alt_of_error _ _ _ (pMap_error _ _ _ (by unfold error preceded; exact andThen_error _ _ _ (by simp [str, tag])))]
    apply alt_of_ok
    rw [pMap_ok_iff]
    exact ⟨bin, (binaryField_ok_iff _ _ _).mpr ⟨ds, hnum, hlen, by simp [List.append_assoc]⟩, by rw [hlen]⟩
  | field k v hne hall hv hvu =>
    have hshape : k ++ str ": " ++ v ++ [LF] ++ tl = k ++ COLON :: (SPACE :: (v ++ LF :: tl)) := by
      simp [str, List.append_assoc]; exact ⟨rfl, rfl⟩
    rw [hshape]
    have hkb : k ≠ str "binary" := hres k v rfl
    have e1 : tag (str "OK\n") (k ++ COLON :: (SPACE :: (v ++ LF :: tl))) = .error :=
      tag_error_of_keyline (str "OK") LF [] k _ (by decide) (by decide) hall (Or.inl (by decide))
    have e2 : tag (str "list_OK\n") (k ++ COLON :: (SPACE :: (v ++ LF :: tl))) = .error :=
      tag_error_of_keyline (str "list_OK") LF [] k _ (by decide) (by decide) hall (Or.inl (by decide))
    have e3 : tag (str "ACK ") (k ++ COLON :: (SPACE :: (v ++ LF :: tl))) = .error :=
      tag_error_of_keyline (str "ACK") SPACE [] k _ (by decide) (by decide) hall (Or.inl (by decide))
    have e4 : tag (str "binary: ") (k ++ COLON :: (SPACE :: (v ++ LF :: tl))) = .error :=
      tag_error_of_keyline (str "binary") COLON [SPACE] k _ (by decide) (by decide) hall (Or.inr (Ne.symm hkb))
    rw [alt_of_error _ _ _ (pMap_error _ _ _ e1)]
    rw [alt_of_error _ _ _ (pMap_error _ _ _ e2)]
    rw [alt_of_error _ _ _ (pMap_error _ _ _ (by
      unfold error preceded
      exact andThen_error _ _ _ e3))]
    rw [alt_of_error _ _ _ (pMap_error _ _ _ (by
      unfold binaryField binaryPrefix preceded
      exact andThen_error _ _ _ (andThen_error _ _ _ e4)))]
    rw [pMap_ok_iff]
    refine ⟨(k, v), (keyValueField_ok_iff _ _ _).mpr ⟨hne, hall, validUtf8_of_keyChars k hall, hv, hvu, ?_⟩, rfl⟩
    simp [str, List.append_assoc]; exact ⟨rfl, rfl⟩

end Mpd.Parser
