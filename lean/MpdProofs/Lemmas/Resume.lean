import MpdProofs.Lemmas.Sticky
/-!
# A failed read is invisible (async connection)

If a `receive` call ends because a read failed (`.io k`), the connection state it leaves behind —
receive buffer and builder state (fix F12) — is such that going on with the rest of the transport's
script gives exactly what an uninterrupted call on the whole script gives. A recoverable read error
(time-out, `WouldBlock`) in the middle of a response therefore loses nothing and duplicates nothing.
-/
namespace Mpd.Conn
open Mpd Mpd.Parser Mpd.Builder

theorem eofItem_ne_io (σ : BState) (u : Bytes) (k : Nat) : eofItem σ u ≠ .io k := by
  unfold eofItem; split <;> simp

/-- **resumption after a failed read** -/
theorem recvLoopA_resume (k : Nat) (t : Term) (cs2 : List Bytes) (cs1 : List Bytes) (σ : BState) (buf : Bytes)
    (h : (recvLoopA σ buf cs1 (.ioerr k)).1 = .io k) :
    recvLoopA (recvLoopA σ buf cs1 (.ioerr k)).2.2.2 (recvLoopA σ buf cs1 (.ioerr k)).2.1 cs2 t =
      recvLoopA σ buf (cs1 ++ cs2) t := by
  induction cs1 generalizing σ buf with
  | nil =>
    have hid := feed_idem σ buf
    rw [List.nil_append]
    rcases hf : feed σ buf with ⟨σ', rest, out⟩
    rw [hf] at hid
    cases out with
    | done r => rw [recvLoopA_nil, hf] at h; simp at h
    | invalid => rw [recvLoopA_nil, hf] at h; simp at h
    | panic => rw [recvLoopA_nil, hf] at h; simp at h
    | pending =>
      have hL : recvLoopA σ buf [] (.ioerr k) = (.io k, rest, [], σ') := by
        rw [recvLoopA_nil, hf]; rfl
      rw [hL]
      have hid' := hid (Or.inl rfl)
      simp only at hid' ⊢
      rw [recvLoopA, hid']
      conv => rhs; rw [recvLoopA, hf]
  | cons c cs ih =>
    rw [List.cons_append]
    rcases hf : feed σ buf with ⟨σ', rest, out⟩
    cases out with
    | done r => rw [recvLoopA, hf] at h; simp at h
    | invalid => rw [recvLoopA, hf] at h; simp at h
    | panic => rw [recvLoopA, hf] at h; simp at h
    | pending =>
      by_cases hc : c.isEmpty
      · rw [recvLoopA, hf] at h
        simp only [hc, if_true] at h
        exact absurd h (eofItem_ne_io _ _ _)
      · have hL : recvLoopA σ buf (c :: cs) (.ioerr k) = recvLoopA σ' (rest ++ c) cs (.ioerr k) := by
          rw [recvLoopA, hf]; simp only [hc]; rfl
        have hR : recvLoopA σ buf (c :: (cs ++ cs2)) t = recvLoopA σ' (rest ++ c) (cs ++ cs2) t := by
          rw [recvLoopA, hf]; simp only [hc]; rfl
        rw [hL] at h ⊢
        rw [hR]
        exact ih σ' (rest ++ c) h

/-! ### blocking connection -/

theorem readChunk_append (space : Nat) (cs1 cs2 : List Bytes) (got : Bytes) (cs : List Bytes)
    (h : readChunk space cs1 = some (got, cs)) : readChunk space (cs1 ++ cs2) = some (got, cs ++ cs2) := by
  cases cs1 with
  | nil => simp [readChunk] at h
  | cons c cs' =>
    simp only [List.cons_append, readChunk] at h ⊢
    by_cases hle : c.length ≤ space
    · simp only [hle, if_true] at h ⊢
      cases h; rfl
    · simp only [hle, if_false] at h ⊢
      cases h; rfl

theorem readChunk_none (space : Nat) (cs : List Bytes) (h : readChunk space cs = none) : cs = [] := by
  cases cs with
  | nil => rfl
  | cons c cs' =>
    simp only [readChunk] at h
    by_cases hle : c.length ≤ space
    · simp [hle] at h
    · simp [hle] at h

/-- **resumption after a failed read** (blocking): with enough fuel for the whole script, the
uninterrupted call returns what the resumed call returns -/
theorem recvLoopS_resume (k : Nat) (t : Term) (cs2 : List Bytes) (f2 : Nat) (f1 : Nat) (cs1 : List Bytes)
    (σ : BState) (b : SBuf)
    (h : (recvLoopS f1 σ b cs1 (.ioerr k)).1 = .io k) :
    ∃ f, recvLoopS f σ b (cs1 ++ cs2) t =
      recvLoopS (f2 + 1) (recvLoopS f1 σ b cs1 (.ioerr k)).2.2.2 (recvLoopS f1 σ b cs1 (.ioerr k)).2.1 cs2 t := by
  induction f1 generalizing cs1 σ b with
  | zero => rw [recvLoopS] at h; simp at h
  | succ n ih =>
    by_cases hcap : b.cap < b.data.length
    · rw [recvLoopS] at h; simp [hcap] at h
    · have hid := feed_idem σ b.data
      have hrl := feed_rest_length σ b.data
      rcases hf : feed σ b.data with ⟨σ', rest, out⟩
      rw [hf] at hid hrl
      simp only at hrl
      cases out with
      | done r => rw [recvLoopS] at h; simp [hcap, hf] at h
      | invalid => rw [recvLoopS] at h; simp [hcap, hf] at h
      | panic => rw [recvLoopS] at h; simp [hcap, hf] at h
      | pending =>
        have hid' : feed σ' rest = (σ', rest, .pending) := hid (Or.inl rfl)
        cases hrc : readChunk (b.cap - rest.length) cs1 with
        | none =>
          have hnil := readChunk_none _ _ hrc
          subst hnil
          have hL : recvLoopS (n + 1) σ b [] (.ioerr k) = (.io k, { b with data := rest }, [], σ') := by
            rw [recvLoopS]; simp only [hcap, if_false, hf, hrc]; rfl
          rw [hL]
          refine ⟨f2 + 1, ?_⟩
          rw [List.nil_append]
          have hcap' : ¬ ({ b with data := rest } : SBuf).cap < ({ b with data := rest } : SBuf).data.length := by
            simp only; omega
          rw [recvLoopS, recvLoopS]
          simp only [hcap, hcap', if_false, hf, hid']
          rfl
        | some p =>
          obtain ⟨got, cs⟩ := p
          by_cases hg : got.isEmpty
          · rw [recvLoopS] at h
            simp only [hcap, if_false, hf, hrc, hg, if_true] at h
            exact absurd h (eofItem_ne_io _ _ _)
          · have hL : recvLoopS (n + 1) σ b cs1 (.ioerr k) = recvLoopS n σ' (afterRead b rest got) cs (.ioerr k) := by
              rw [recvLoopS]; simp only [hcap, if_false, hf, hrc, hg]; rfl
            rw [hL] at h ⊢
            obtain ⟨f, hfeq⟩ := ih cs σ' (afterRead b rest got) h
            refine ⟨f + 1, ?_⟩
            rw [← hfeq, recvLoopS]
            simp only [hcap, if_false, hf, readChunk_append _ _ cs2 _ _ hrc, hg]
            rfl

end Mpd.Conn
