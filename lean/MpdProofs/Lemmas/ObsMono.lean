import MpdProofs.Lemmas.CancelSafe
/-!
# The log only grows: a step appends to `obs`
-/
namespace Mpd.Loop
open Mpd Mpd.Builder Mpd.Conn

def Ext (s s' : St) : Prop := ∃ e, s'.obs = s.obs ++ e

theorem ext_refl (s : St) : Ext s s := ⟨[], by simp⟩
theorem ext_trans {a b c : St} (h1 : Ext a b) (h2 : Ext b c) : Ext a c := by
  obtain ⟨e1, h1⟩ := h1
  obtain ⟨e2, h2⟩ := h2
  exact ⟨e1 ++ e2, by rw [h2, h1, List.append_assoc]⟩
theorem ext_emit (s : St) (o : Obs) : Ext s (emit s o) := ⟨[o], rfl⟩
theorem ext_exitLoop (s : St) : Ext s (exitLoop s) := ⟨_, by rw [(exitLoop_spec s).2.2, List.append_assoc]⟩
theorem ext_emitEvents (s : St) (f : AFrame) : Ext s (emitEvents s f) := ⟨_, (emitEvents_obs s f).1⟩

theorem ext_write (s : St) (b : Bytes) (w : WKind) : Ext s (write s b w).1 := by
  rcases write_cases' s b w with h | ⟨k, h⟩ <;> rw [h]
  · exact ext_emit s _
  · exact ext_refl s

theorem ext_afterReply (s : St) (d : Nat) : Ext s (afterReply s d) := by
  unfold afterReply
  cases s.queue with
  | nil =>
    simp only
    by_cases hs : s.senders = 0
    · simp only [hs, if_true]; exact ext_exitLoop s
    · simp only [hs, if_false]
      by_cases hd : s.now ≥ d
      · simp only [hd, if_true]
        rcases write_cases' s IDLE .idle with h | ⟨k, h⟩ <;> rw [h] <;> simp only
        · exact ext_emit s _
        · exact ext_trans (ext_emit s _) (ext_exitLoop _)
      · simp only [hd, if_false]; exact ext_refl s
  | cons r q =>
    simp only
    rcases write_cases' { s with queue := q } r.bytes (.request r.id) with h | ⟨k, h⟩ <;> rw [h] <;> simp only
    · exact ⟨[.wrote r.bytes (.request r.id)], rfl⟩
    · exact ext_trans (b := emit { s with queue := q } (.resolved r.id (.protocol (.io k)))) ⟨[_], rfl⟩ (ext_exitLoop _)

theorem ext_startCancel (s : St) : Ext s (startCancel s) := by
  unfold startCancel
  cases s.queue with
  | nil => exact ext_exitLoop s
  | cons r q =>
    simp only
    rcases write_cases' { s with queue := q } NOIDLE .noidle with h | ⟨k, h⟩ <;> rw [h] <;> simp only
    · exact ⟨[.wrote NOIDLE .noidle], rfl⟩
    · exact ext_trans (b := emit { s with queue := q } (.resolved r.id (.protocol (.io k)))) ⟨[_], rfl⟩ (ext_exitLoop _)

theorem ext_idleResponse (s : St) (r : Response) : Ext s (idleResponse s r) := by
  unfold idleResponse
  cases intoSingleFrame r with
  | none => exact ext_exitLoop s
  | some x =>
    cases x with
    | error e => exact ext_trans (ext_emit s _) (ext_exitLoop _)
    | ok f =>
      simp only
      rcases write_cases' (emitEvents s f) IDLE .idle with h | ⟨k, h⟩ <;> rw [h] <;> simp only
      · exact ext_trans (ext_emitEvents s f) (ext_emit _ _)
      · exact ext_trans (ext_emitEvents s f) (ext_trans (ext_emit _ _) (ext_exitLoop _))

theorem ext_of_obs {s s1 x : St} (h : s1.obs = s.obs) (hx : Ext s1 x) : Ext s x := by
  obtain ⟨e, he⟩ := hx
  exact ⟨e, by rw [he, h]⟩

macro "ext_tac" : tactic => `(tactic| first
  | exact ext_refl _
  | exact ext_emit _ _
  | exact ext_exitLoop _
  | exact ext_afterReply _ _
  | exact ext_startCancel _
  | exact ext_idleResponse _ _
  | exact ext_trans (ext_emit _ _) (ext_exitLoop _)
  | exact ext_trans (ext_emit _ _) (ext_afterReply _ _)
  | exact ext_trans (ext_emit _ _) (ext_emit _ _)
  | exact ext_trans (ext_trans (ext_emit _ _) (ext_emit _ _)) (ext_exitLoop _))

/-- **the log only grows** -/
theorem step_ext (s s' : St) (rf : Bool) (hc : s.pc ≠ .connecting) (h : step s rf = some s') : Ext s s' := by
  unfold step at h
  obtain ⟨t, ht⟩ : ∃ t : St, t = { s with fresh := false } := ⟨_, rfl⟩
  rw [← ht] at h
  have hpoll : ∀ σ s1 rp, pollRecv t σ = (s1, rp) → s1.obs = s.obs := by
    intro σ s1 rp hp
    have := (pollRecv_obs t σ).1
    rw [hp] at this
    rw [this, ht]
  cases hpc : s.pc with
  | exited => rw [hpc] at h; simp at h
  | failed => rw [hpc] at h; simp at h
  | connecting => exact absurd hpc hc
  | spawned =>
    rw [hpc] at h
    rcases write_cases' s IDLE .idle with hw | ⟨k, hw⟩ <;> rw [hw] at h <;>
      simp only [Option.some.injEq] at h <;> subst h
    · exact ext_emit s _
    · ext_tac
  | waitNext d =>
    rw [hpc] at h
    simp only at h
    split at h
    · simp only [Option.some.injEq] at h; subst h; ext_tac
    · simp at h
  | pwWait σ =>
    rw [hpc] at h
    simp only [failConnect] at h
    split at h
    · simp at h
    · rcases hp : pollRecv t σ with ⟨s1, rp⟩
      rw [hp] at h
      have ho := hpoll σ s1 rp hp
      cases rp with
      | pending σ' => simp only [Option.some.injEq] at h; subst h; exact ext_of_obs ho (ext_refl _)
      | ready it =>
        cases it with
        | resp r =>
          simp only at h
          split at h <;> (simp only [Option.some.injEq] at h; subst h) <;> exact ext_of_obs ho (by ext_tac)
        | _ => simp only [Option.some.injEq] at h; subst h; exact ext_of_obs ho (by ext_tac)
  | waiting r σ =>
    rw [hpc] at h
    simp only at h
    split at h
    · simp at h
    · rcases hp : pollRecv t σ with ⟨s1, rp⟩
      rw [hp] at h
      have ho := hpoll σ s1 rp hp
      cases rp with
      | pending σ' => simp only [Option.some.injEq] at h; subst h; exact ext_of_obs ho (ext_refl _)
      | ready it =>
        cases it <;> (simp only [Option.some.injEq] at h; subst h; exact ext_of_obs ho (by ext_tac))
  | cancelWait r σ =>
    rw [hpc] at h
    simp only at h
    split at h
    · simp at h
    · rcases hp : pollRecv t σ with ⟨s1, rp⟩
      rw [hp] at h
      have ho := hpoll σ s1 rp hp
      cases rp with
      | pending σ' => simp only [Option.some.injEq] at h; subst h; exact ext_of_obs ho (ext_refl _)
      | ready it =>
        cases it with
        | resp resp =>
          simp only at h
          cases hsf : intoSingleFrame resp with
          | none =>
            rw [hsf] at h
            simp only [Option.some.injEq] at h; subst h; exact ext_of_obs ho (by ext_tac)
          | some ef =>
            rw [hsf] at h
            cases ef with
            | error e => simp only [Option.some.injEq] at h; subst h; exact ext_of_obs ho (by ext_tac)
            | ok f =>
              simp only at h
              rcases write_cases' (emitEvents s1 f) r.bytes (.request r.id) with hw | ⟨k, hw⟩ <;> rw [hw] at h <;>
                simp only [Option.some.injEq] at h <;> subst h
              · exact ext_of_obs ho (ext_trans (ext_emitEvents s1 f) (ext_emit _ _))
              · exact ext_of_obs ho (ext_trans (ext_emitEvents s1 f) (ext_trans (ext_emit _ _) (ext_exitLoop _)))
        | _ => simp only [Option.some.injEq] at h; subst h; exact ext_of_obs ho (by ext_tac)
  | idling σ =>
    rw [hpc] at h
    simp only at h
    split at h
    · simp only [Option.some.injEq] at h; subst h
      exact ext_startCancel (dropFuture s σ)
    · split at h
      · rcases hp : pollRecv t σ with ⟨s1, rp⟩
        rw [hp] at h
        have ho := hpoll σ s1 rp hp
        cases rp with
        | pending σ' =>
          simp only at h
          split at h <;> (simp only [Option.some.injEq] at h; subst h)
          · exact ext_of_obs ho (ext_startCancel (dropFuture s1 σ'))
          · exact ext_of_obs ho (ext_refl _)
        | ready it =>
          cases it <;> (simp only [Option.some.injEq] at h; subst h; exact ext_of_obs ho (by ext_tac))
      · simp at h

end Mpd.Loop
