import MpdProofs.Lemmas.Flaky
import MpdProofs.Lemmas.Conn
/-!
# Any number of failed reads is invisible (blocking connection)

The blocking connection keeps a fixed, doubling buffer; each `receive` is `recvS`. A caller that calls
again after every reported read failure gets, from each logical receive, what ONE call with the whole
remaining stream available at once returns (`recvAll`), and the session is `decodeAll` of the bytes
the peer sent.
-/
namespace Mpd.Conn
open Mpd Mpd.Parser Mpd.Builder

/-- what a blocking call that reports a read failure leaves behind: the script of the piece is used
up, and builder state and buffer are those of feeding everything that was delivered -/
theorem recvLoopS_io_state (fuel : Nat) (σ : BState) (b : SBuf) (cs : List Bytes) (k j : Nat)
    (hne : NonEmptyChunks cs) (hinv : SInv b)
    (h : (recvLoopS fuel σ b cs (.ioerr k)).1 = .io j) :
    (recvLoopS fuel σ b cs (.ioerr k)).2.2.1 = [] ∧ j = k ∧
    feed σ (b.data ++ cs.flatten) =
      ((recvLoopS fuel σ b cs (.ioerr k)).2.2.2, (recvLoopS fuel σ b cs (.ioerr k)).2.1.data, .pending) ∧
    SInv (recvLoopS fuel σ b cs (.ioerr k)).2.1 := by
  induction fuel generalizing σ b cs with
  | zero => rw [recvLoopS] at h; simp at h
  | succ n ih =>
    have hcap : ¬ b.cap < b.data.length := by unfold SInv at hinv; omega
    have hrl := feed_rest_length σ b.data
    rcases hf : feed σ b.data with ⟨σ', rest, out⟩
    rw [hf] at hrl
    simp only at hrl
    cases out with
    | done r => rw [recvLoopS] at h; simp [hcap, hf] at h
    | invalid => rw [recvLoopS] at h; simp [hcap, hf] at h
    | panic => rw [recvLoopS] at h; simp [hcap, hf] at h
    | pending =>
      cases cs with
      | nil =>
        have hL : recvLoopS (n + 1) σ b [] (.ioerr k) = (.io k, { b with data := rest }, [], σ') := by
          rw [recvLoopS]; simp only [hcap, if_false, hf, readChunk]; rfl
        rw [hL] at h ⊢
        simp only [Item.io.injEq] at h
        refine ⟨rfl, h.symm, ?_, ?_⟩
        · simp only [List.flatten_nil, List.append_nil]; exact hf
        · unfold SInv at *; simp only; omega
      | cons c cs' =>
        have hc : c ≠ [] := hne c (by simp)
        have hcs : NonEmptyChunks cs' := fun x hx => hne x (by simp [hx])
        have hspace : 0 < b.cap - rest.length := by unfold SInv at hinv; omega
        obtain ⟨got, rs, hrc, hgot, hgl, hflat, hsl, hner⟩ := readChunk_spec (b.cap - rest.length) c cs' hspace hc
        have hge : got.isEmpty = false := by cases got <;> simp_all
        have hstep : recvLoopS (n + 1) σ b (c :: cs') (.ioerr k) =
            recvLoopS n σ' (afterRead b rest got) rs (.ioerr k) := by
          rw [recvLoopS]; simp only [hcap, if_false, hf, hrc, hge]; rfl
        rw [hstep] at h ⊢
        have hinv' : SInv (afterRead b rest got) :=
          afterRead_inv b rest got (by omega) (by unfold SInv at hinv; omega)
        obtain ⟨h1, h2, h3, h4⟩ := ih σ' (afterRead b rest got) rs (hner hcs) hinv' h
        refine ⟨h1, h2, ?_, h4⟩
        rw [← h3]
        have := feed_pending_append σ b.data ((c :: cs').flatten) (by rw [hf])
        rw [this, hf]
        simp only [afterRead, List.flatten_cons, List.append_assoc, hflat]

theorem flatScript_flatten_cons (cs : List Bytes) (p : ScriptPiece) (more : List ScriptPiece) :
    (flatScript cs (p :: more)).flatten = cs.flatten ++ (flatScript p.1 more).flatten := by
  rw [flatScript_cons, List.flatten_append]

theorem nonEmpty_append {a b : List Bytes} (h : NonEmptyChunks (a ++ b)) : NonEmptyChunks a ∧ NonEmptyChunks b :=
  ⟨fun c hc => h c (by simp [hc]), fun c hc => h c (by simp [hc])⟩

theorem nonEmpty_append' {a b : List Bytes} (ha : NonEmptyChunks a) (hb : NonEmptyChunks b) : NonEmptyChunks (a ++ b) := by
  intro c hc
  rw [List.mem_append] at hc
  rcases hc with hc | hc
  · exact ha c hc
  · exact hb c hc

/-- **one logical receive on the blocking connection, any number of failed reads** -/
theorem recvRetryS_eq (more : List ScriptPiece) (σ : BState) (b : SBuf) (cs : List Bytes) (t : Term)
    (hio : IoChain t more) (hne : NonEmptyChunks (flatScript cs more)) (hinv : SInv b) :
    ((recvRetryS σ b cs t more).1,
      (recvRetryS σ b cs t more).2.1.data ++
        (flatScript (recvRetryS σ b cs t more).2.2.2.1 (recvRetryS σ b cs t more).2.2.2.2.2).flatten) =
      recvAll σ (b.data ++ (flatScript cs more).flatten) (lastTerm t more) ∧
    NonEmptyChunks (flatScript (recvRetryS σ b cs t more).2.2.2.1 (recvRetryS σ b cs t more).2.2.2.2.2) ∧
    SInv (recvRetryS σ b cs t more).2.1 ∧
    lastTerm (recvRetryS σ b cs t more).2.2.2.2.1 (recvRetryS σ b cs t more).2.2.2.2.2 = lastTerm t more ∧
    IoChain (recvRetryS σ b cs t more).2.2.2.2.1 (recvRetryS σ b cs t more).2.2.2.2.2 ∧
    (∀ r, (recvRetryS σ b cs t more).1 = .resp r → (recvRetryS σ b cs t more).2.2.1 = .initial) := by
  induction more generalizing σ b cs t with
  | nil =>
    have hne' : NonEmptyChunks cs := by simpa [flatScript] using hne
    obtain ⟨h1, h2, h3, _⟩ := recvLoopS_eq (scriptLen cs + 1) σ b cs t hne' hinv (Nat.lt_succ_self _)
    have h0 := recvLoopS_resp_initial (scriptLen cs + 1) σ b cs t
    simp only [recvRetryS, recvS, flatScript, List.flatMap_nil, List.append_nil, lastTerm, IoChain]
    exact ⟨h1, h2, h3, trivial, trivial, h0⟩
  | cons p more ih =>
    obtain ⟨⟨k, rfl⟩, hio'⟩ := hio
    rw [flatScript_cons] at hne
    obtain ⟨hne1, hne2⟩ := nonEmpty_append hne
    rw [flatScript_flatten_cons]
    simp only [lastTerm]
    obtain ⟨h1, h2, h3, _⟩ := recvLoopS_eq (scriptLen cs + 1) σ b cs (.ioerr k) hne1 hinv (Nat.lt_succ_self _)
    have h0 := recvLoopS_resp_initial (scriptLen cs + 1) σ b cs (.ioerr k)
    rcases hr : recvLoopS (scriptLen cs + 1) σ b cs (.ioerr k) with ⟨it, b', cs', σ'⟩
    have hr' : recvS σ b cs (.ioerr k) = (it, b', cs', σ') := hr
    rw [hr] at h1 h2 h3 h0
    dsimp only at h1 h2 h3 h0
    have notio : ∀ it : Item, (∀ j, it ≠ .io j) →
        recvRetryS σ b cs (.ioerr k) (p :: more) = (it, b', σ', cs', .ioerr k, p :: more) →
        (it, b'.data ++ cs'.flatten) = recvAll σ (b.data ++ cs.flatten) (.ioerr k) →
        (∀ r, it = .resp r → σ' = .initial) →
        ((recvRetryS σ b cs (.ioerr k) (p :: more)).1,
          (recvRetryS σ b cs (.ioerr k) (p :: more)).2.1.data ++
            (flatScript (recvRetryS σ b cs (.ioerr k) (p :: more)).2.2.2.1 (recvRetryS σ b cs (.ioerr k) (p :: more)).2.2.2.2.2).flatten) =
          recvAll σ (b.data ++ (cs.flatten ++ (flatScript p.1 more).flatten)) (lastTerm p.2 more) ∧
        NonEmptyChunks (flatScript (recvRetryS σ b cs (.ioerr k) (p :: more)).2.2.2.1 (recvRetryS σ b cs (.ioerr k) (p :: more)).2.2.2.2.2) ∧
        SInv (recvRetryS σ b cs (.ioerr k) (p :: more)).2.1 ∧
        lastTerm (recvRetryS σ b cs (.ioerr k) (p :: more)).2.2.2.2.1 (recvRetryS σ b cs (.ioerr k) (p :: more)).2.2.2.2.2 = lastTerm p.2 more ∧
        IoChain (recvRetryS σ b cs (.ioerr k) (p :: more)).2.2.2.2.1 (recvRetryS σ b cs (.ioerr k) (p :: more)).2.2.2.2.2 ∧
        (∀ r, (recvRetryS σ b cs (.ioerr k) (p :: more)).1 = .resp r → (recvRetryS σ b cs (.ioerr k) (p :: more)).2.2.1 = .initial) := by
      intro it hnio hstep h1 h0
      rw [hstep]
      dsimp only
      have hfin : (feed σ (b.data ++ cs.flatten)).2.2 ≠ .pending := by
        intro hp
        have : (recvAll σ (b.data ++ cs.flatten) (.ioerr k)).1 = .io k := by
          unfold recvAll
          rcases hf : feed σ (b.data ++ cs.flatten) with ⟨a, bb, o⟩
          rw [hf] at hp; simp only at hp; subst hp; rfl
        rw [← h1] at this
        exact hnio k this
      have hitem : ∀ t', recvAll σ (b.data ++ cs.flatten) t' = recvAll σ (b.data ++ cs.flatten) (.ioerr k) := by
        intro t'
        unfold recvAll
        rcases hf : feed σ (b.data ++ cs.flatten) with ⟨a, bb, o⟩
        rw [hf] at hfin
        cases o <;> simp_all
      refine ⟨?_, ?_, h3, by simp only [lastTerm], ⟨⟨k, rfl⟩, hio'⟩, h0⟩
      · rw [← List.append_assoc, recvAll_final σ (b.data ++ cs.flatten) _ _ hfin, hitem, ← h1]
        simp only [flatScript_flatten_cons, List.append_assoc]
      · rw [flatScript_cons]; exact nonEmpty_append' h2 hne2
    cases it with
    | io j =>
      obtain ⟨e1, e2, e3, e4⟩ := recvLoopS_io_state (scriptLen cs + 1) σ b cs k j hne1 hinv (by rw [hr])
      rw [hr] at e1 e3 e4
      dsimp only at e1 e3 e4
      have hstep : recvRetryS σ b cs (.ioerr k) (p :: more) = recvRetryS σ' b' p.1 p.2 more := by
        simp [recvRetryS, hr']
      rw [hstep]
      have hA : recvAll σ (b.data ++ (cs.flatten ++ (flatScript p.1 more).flatten)) (lastTerm p.2 more) =
          recvAll σ' (b'.data ++ (flatScript p.1 more).flatten) (lastTerm p.2 more) := by
        rw [← List.append_assoc, recvAll_pending σ (b.data ++ cs.flatten) _ _ (by rw [e3]), e3]
      rw [hA]
      exact ih σ' b' p.1 p.2 hio' hne2 h3
    | resp r => exact notio (.resp r) (by intro j; simp) (by simp [recvRetryS, hr']) h1 h0
    | clean => exact notio .clean (by intro j; simp) (by simp [recvRetryS, hr']) h1 h0
    | invalid => exact notio .invalid (by intro j; simp) (by simp [recvRetryS, hr']) h1 h0
    | unexpectedEof => exact notio .unexpectedEof (by intro j; simp) (by simp [recvRetryS, hr']) h1 h0
    | panic => exact notio .panic (by intro j; simp) (by simp [recvRetryS, hr']) h1 h0

end Mpd.Conn
