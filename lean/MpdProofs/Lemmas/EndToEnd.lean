import MpdProofs.C03
import MpdProofs.Lemmas.StreamRun
/-!
# End to end at byte level: with a peer that answers line by line, in order, every caller gets the
reply to its own request

The peer is abstracted to what matters on the wire: the stream it sends is the concatenation of the
encodings of its (well-formed) replies `srv = [reply₁, reply₂, …]`, `replyⱼ` being its answer to the
j-th reply-producing line it received; what has been delivered so far (`D`) is a prefix of that.

`pairing_end_to_end`: along every run of the task (any segmentation, any `select!` order, any
enqueue / cancel / clock / handle-drop events, up to the first broken poll) there is a list `cs` of
consumed responses such that
* the i-th consumed response is exactly `view replyᵢ` (C03) and nothing beyond `srv` is consumed,
* its consumer is the consumer of the i-th reply-producing line the task wrote (write discipline),
* callers' results and events are exactly what `cs` attributes to them (`Attr`).
So the response a caller gets for request `id` is `view replyⱼ` where j is the position of that
request among the reply-producing lines written: the reply to its own request.
-/
namespace Mpd.Loop
open Mpd Mpd.Builder Mpd.Conn

def viewResp (r : Spec.AbsResp) : Response := { frames := (Spec.view r).1, error := (Spec.view r).2 }

theorem decodes_enc (srv : List Spec.AbsResp) (hwf : ∀ r ∈ srv, Spec.WF r = true) (tl : Bytes)
    (rs : List Response) (fin : BState × Bytes × Out)
    (h : Decodes .initial (srv.flatMap Spec.enc ++ tl) rs fin) :
    ∀ i, i < rs.length → i < srv.length → rs[i]? = (srv.map viewResp)[i]? := by
  induction srv generalizing rs with
  | nil => intro i _ h2; simp at h2
  | cons r rest ih =>
    cases rs with
    | nil => intro i h1 _; simp at h1
    | cons x xs =>
      obtain ⟨rest', hf, hd⟩ := h
      simp only [List.flatMap_cons, List.append_assoc] at hf
      rw [C03.C03_response r _ (hwf r (by simp))] at hf
      simp only [Prod.mk.injEq, Out.done.injEq, true_and] at hf
      obtain ⟨hrest, hx⟩ := hf
      intro i h1 h2
      cases i with
      | zero => simp [viewResp, hx]
      | succ j =>
        simp only [List.getElem?_cons_succ, List.map_cons]
        rw [← hrest] at hd
        exact ih (fun y hy => hwf y (by simp [hy])) xs hd j (by simpa using h1) (by simpa using h2)

theorem decodes_enc_length (srv : List Spec.AbsResp) (hwf : ∀ r ∈ srv, Spec.WF r = true)
    (rs : List Response) (fin : BState × Bytes × Out)
    (h : Decodes .initial (srv.flatMap Spec.enc) rs fin) : rs.length ≤ srv.length := by
  induction srv generalizing rs with
  | nil =>
    cases rs with
    | nil => simp
    | cons x xs =>
      obtain ⟨rest', hf, _⟩ := h
      simp only [List.flatMap_nil] at hf
      rw [C03.feed_nil] at hf
      simp at hf
  | cons r rest ih =>
    cases rs with
    | nil => simp
    | cons x xs =>
      obtain ⟨rest', hf, hd⟩ := h
      simp only [List.flatMap_cons] at hf
      have := C03.C03_response r (rest.flatMap Spec.enc) (hwf r (by simp))
      rw [this] at hf
      simp only [Prod.mk.injEq, Out.done.injEq, true_and] at hf
      rw [← hf.1] at hd
      have := ih (fun y hy => hwf y (by simp [hy])) xs hd
      simp only [List.length_cons]; omega

/-- **pairing, end to end at byte level** -/
theorem pairing_end_to_end (s0 s : St) (D : Bytes) (h0 : AfterGreeting s0) (hr : Run s0 s D)
    (srv : List Spec.AbsResp) (hwf : ∀ r ∈ srv, Spec.WF r = true) (tail : Bytes)
    (hD : D ++ tail = srv.flatMap Spec.enc) :
    ∃ cs : List (Consumer × Response),
      Attr cs (responses s.obs) (eventsOf s.obs) ∧
      (Terminal s ∨ replyWrites s.obs = cs.map (·.1) ++ outstanding s.pc) ∧
      (∃ rest, replyWrites s.obs = cs.map (·.1) ++ rest) ∧
      cs.length ≤ srv.length ∧
      ∀ i, i < cs.length → (cs.map (·.2))[i]? = (srv.map viewResp)[i]? := by
  obtain ⟨cs, hd, ha, hw, hpre⟩ := (run_decodes s0 s D h0 hr).2
  have hdec := hd tail
  rw [hD] at hdec
  have hlen := decodes_enc_length srv hwf (cs.map (·.2)) _ hdec
  rw [List.length_map] at hlen
  refine ⟨cs, ha, hw, hpre, hlen, fun i hi => ?_⟩
  have hdec' : Decodes .initial (srv.flatMap Spec.enc ++ []) (cs.map (·.2)) (future s tail) := by
    rw [List.append_nil]; exact hdec
  exact decodes_enc srv hwf [] (cs.map (·.2)) _ hdec' i (by rw [List.length_map]; exact hi) (by omega)

theorem attr_reply_mem {cs : List (Consumer × Response)} {resp : List (Nat × Response)} {ev : List Bytes}
    (h : Attr cs resp ev) : ∀ p ∈ resp, ∃ i : Nat, cs[i]? = some (Consumer.reply p.1, p.2) := by
  induction h with
  | nil => intro p hp; simp at hp
  | @reply cs' resp' ev' id r _ ih =>
    intro p hp
    simp only [List.mem_append, List.mem_singleton] at hp
    rcases hp with hp | hp
    · obtain ⟨i, hi⟩ := ih p hp
      have hlt : i < cs'.length := by
        rcases Nat.lt_or_ge i cs'.length with h | h
        · exact h
        · rw [List.getElem?_eq_none h] at hi; cases hi
      exact ⟨i, by rw [List.getElem?_append_left hlt]; exact hi⟩
    · subst hp
      exact ⟨cs'.length, by simp⟩
  | @idle cs' resp' ev' r _ ih =>
    intro p hp
    obtain ⟨i, hi⟩ := ih p hp
    have hlt : i < cs'.length := by
      rcases Nat.lt_or_ge i cs'.length with h | h
      · exact h
      · rw [List.getElem?_eq_none h] at hi; cases hi
    exact ⟨i, by rw [List.getElem?_append_left hlt]; exact hi⟩
  | @verdict cs' resp' ev' r _ ih =>
    intro p hp
    obtain ⟨i, hi⟩ := ih p hp
    have hlt : i < cs'.length := by
      rcases Nat.lt_or_ge i cs'.length with h | h
      · exact h
      · rw [List.getElem?_eq_none h] at hi; cases hi
    exact ⟨i, by rw [List.getElem?_append_left hlt]; exact hi⟩

/-- **every caller gets the reply to its own request**: a response `r` handed to the caller of request
`id` is the view of the peer's i-th reply, where the i-th reply-producing line the task wrote is that
very request (also after the loop has returned) -/
theorem caller_gets_own_reply (s0 s : St) (D : Bytes) (h0 : AfterGreeting s0) (hr : Run s0 s D)
    (srv : List Spec.AbsResp) (hwf : ∀ r ∈ srv, Spec.WF r = true) (tail : Bytes)
    (hD : D ++ tail = srv.flatMap Spec.enc) (id : Nat) (r : Response) (hmem : (id, r) ∈ responses s.obs) :
    ∃ i : Nat, (srv.map viewResp)[i]? = some r ∧ (replyWrites s.obs)[i]? = some (Consumer.reply id) := by
  obtain ⟨cs, ha, _, hpre, hlen, hview⟩ := pairing_end_to_end s0 s D h0 hr srv hwf tail hD
  obtain ⟨i, hi⟩ := attr_reply_mem ha (id, r) hmem
  have hlt : i < cs.length := by
    rcases Nat.lt_or_ge i cs.length with h | h
    · exact h
    · rw [List.getElem?_eq_none h] at hi; cases hi
  refine ⟨i, ?_, ?_⟩
  · rw [← hview i hlt, List.getElem?_map, hi]; rfl
  · obtain ⟨rest, hrest⟩ := hpre
    rw [hrest, List.getElem?_append_left (by rw [List.length_map]; exact hlt), List.getElem?_map, hi]; rfl

end Mpd.Loop
