import Mpd.Basic
/-! Lemmas about byte-string helpers (`eqIgnoreCase`, `cmpBytes`, `firstBad` …). -/
namespace Mpd

theorem eqIgnoreCase_refl (a : Bytes) : eqIgnoreCase a a = true := by
  induction a with
  | nil => rfl
  | cons x xs ih => simp [eqIgnoreCase, ih]

theorem eqIgnoreCase_symm (a b : Bytes) : eqIgnoreCase a b = eqIgnoreCase b a := by
  induction a generalizing b with
  | nil => cases b <;> rfl
  | cons x xs ih =>
    cases b with
    | nil => rfl
    | cons y ys =>
      simp only [eqIgnoreCase, ih ys]
      congr 1
      exact Bool.eq_iff_iff.mpr ⟨fun h => by simpa using (by simpa using h : toLower x = toLower y).symm,
        fun h => by simpa using (by simpa using h : toLower y = toLower x).symm⟩

theorem eqIgnoreCase_trans (a b c : Bytes) :
    eqIgnoreCase a b = true → eqIgnoreCase b c = true → eqIgnoreCase a c = true := by
  induction a generalizing b c with
  | nil => cases b <;> cases c <;> simp [eqIgnoreCase]
  | cons x xs ih =>
    cases b with
    | nil => simp [eqIgnoreCase]
    | cons y ys =>
      cases c with
      | nil => simp [eqIgnoreCase]
      | cons z zs =>
        simp only [eqIgnoreCase, Bool.and_eq_true, beq_iff_eq]
        intro ⟨h1, h2⟩ ⟨h3, h4⟩
        exact ⟨h1.trans h3, ih ys zs h2 h4⟩

theorem eqIgnoreCase_of_eq {a b : Bytes} (h : a = b) : eqIgnoreCase a b = true := h ▸ eqIgnoreCase_refl a

theorem eqIgnoreCase_length {a b : Bytes} (h : eqIgnoreCase a b = true) : a.length = b.length := by
  induction a generalizing b with
  | nil => cases b <;> simp_all [eqIgnoreCase]
  | cons x xs ih =>
    cases b with
    | nil => simp [eqIgnoreCase] at h
    | cons y ys =>
      simp only [eqIgnoreCase, Bool.and_eq_true] at h
      simp [ih h.2]

/-! ### `cmpBytes` is a total order on byte strings with `0` exactly on equality -/

theorem cmpBytes_eq_zero_iff (a b : Bytes) : cmpBytes a b = 0 ↔ a = b := by
  induction a generalizing b with
  | nil => cases b <;> simp [cmpBytes]
  | cons x xs ih =>
    cases b with
    | nil => simp [cmpBytes]
    | cons y ys =>
      simp only [cmpBytes, List.cons.injEq]
      split
      · rename_i h
        constructor
        · intro h0; simp at h0
        · intro ⟨hxy, _⟩; subst hxy; exact absurd h (UInt8.lt_irrefl _)
      · split
        · rename_i _ h
          constructor
          · intro h0; simp at h0
          · intro ⟨hxy, _⟩; subst hxy; exact absurd h (UInt8.lt_irrefl _)
        · rename_i h1 h2
          have : x = y := UInt8.le_antisymm (UInt8.not_lt.mp h2) (UInt8.not_lt.mp h1)
          simp [this, ih]

theorem cmpBytes_antisymm (a b : Bytes) : cmpBytes a b = -cmpBytes b a := by
  induction a generalizing b with
  | nil => cases b <;> simp [cmpBytes]
  | cons x xs ih =>
    cases b with
    | nil => simp [cmpBytes]
    | cons y ys =>
      simp only [cmpBytes]
      by_cases h1 : x < y
      · have h2 : ¬ y < x := fun h => UInt8.lt_irrefl _ (UInt8.lt_trans h1 h)
        simp [h1, h2]
      · by_cases h2 : y < x
        · simp [h1, h2]
        · simp [h1, h2, ih]

theorem cmpBytes_range (a b : Bytes) : cmpBytes a b = -1 ∨ cmpBytes a b = 0 ∨ cmpBytes a b = 1 := by
  induction a generalizing b with
  | nil => cases b <;> simp [cmpBytes]
  | cons x xs ih =>
    cases b with
    | nil => simp [cmpBytes]
    | cons y ys =>
      simp only [cmpBytes]
      split
      · simp
      · split
        · simp
        · exact ih ys

/-- transitivity of the strict order -/
theorem cmpBytes_trans (a b c : Bytes) : cmpBytes a b = -1 → cmpBytes b c = -1 → cmpBytes a c = -1 := by
  induction a generalizing b c with
  | nil =>
    cases b with
    | nil => simp [cmpBytes]
    | cons y ys => cases c <;> simp [cmpBytes]
  | cons x xs ih =>
    cases b with
    | nil => simp [cmpBytes]
    | cons y ys =>
      cases c with
      | nil =>
        simp only [cmpBytes]
        intro _ h; simp at h
      | cons z zs =>
        simp only [cmpBytes]
        intro h1 h2
        by_cases hxy : x < y
        · by_cases hyz : y < z
          · simp [UInt8.lt_trans hxy hyz]
          · by_cases hzy : z < y
            · simp [hyz, hzy] at h2
            · have : y = z := UInt8.le_antisymm (UInt8.not_lt.mp hzy) (UInt8.not_lt.mp hyz)
              subst this; simp [hxy]
        · by_cases hyx : y < x
          · simp [hxy, hyx] at h1
          · have : x = y := UInt8.le_antisymm (UInt8.not_lt.mp hyx) (UInt8.not_lt.mp hxy)
            subst this
            simp only [hxy, if_false] at h1
            by_cases hxz : x < z
            · simp [hxz]
            · by_cases hzx : z < x
              · simp [hxz, hzx] at h2
              · simp only [hxz, hzx, if_false] at h2 ⊢
                exact ih ys zs h1 h2

/-! ### decimal rendering round trip -/

theorem digitsVal_append_single (ds : Bytes) (d : UInt8) :
    digitsVal (ds ++ [d]) = digitsVal ds * 10 + (d.toNat - 48) := by
  simp [digitsVal, List.foldl_append]

theorem isDigit_ofNat (k : Nat) (h : k < 10) : isDigit (UInt8.ofNat (48 + k)) = true := by
  have : ∀ k, k < 10 → isDigit (UInt8.ofNat (48 + k)) = true := by decide
  exact this k h

theorem toNat_ofNat_digit (k : Nat) (h : k < 10) : (UInt8.ofNat (48 + k)).toNat - 48 = k := by
  have : ∀ k, k < 10 → (UInt8.ofNat (48 + k)).toNat - 48 = k := by decide
  exact this k h

theorem natToDecFuel_spec (f n : Nat) (h : n < 10 ^ (f + 1)) :
    natToDecFuel (f + 1) n ≠ [] ∧ (natToDecFuel (f + 1) n).all isDigit = true ∧
      digitsVal (natToDecFuel (f + 1) n) = n := by
  induction f generalizing n with
  | zero =>
    have hn : n < 10 := by simpa using h
    unfold natToDecFuel
    rw [if_pos hn]
    refine ⟨List.cons_ne_nil _ _, ?_, ?_⟩
    · rw [List.all_cons, List.all_nil, Bool.and_true]; exact isDigit_ofNat n hn
    · unfold digitsVal
      rw [List.foldl_cons, List.foldl_nil, toNat_ofNat_digit n hn]; omega
  | succ f ih =>
    unfold natToDecFuel
    by_cases hn : n < 10
    · rw [if_pos hn]
      refine ⟨List.cons_ne_nil _ _, ?_, ?_⟩
      · rw [List.all_cons, List.all_nil, Bool.and_true]; exact isDigit_ofNat n hn
      · unfold digitsVal
        rw [List.foldl_cons, List.foldl_nil, toNat_ofNat_digit n hn]; omega
    · rw [if_neg hn]
      have hdiv : n / 10 < 10 ^ (f + 1) := by
        rw [Nat.pow_succ] at h
        exact Nat.div_lt_of_lt_mul (by omega)
      obtain ⟨h1, h2, h3⟩ := ih (n / 10) hdiv
      have hm : n % 10 < 10 := Nat.mod_lt _ (by omega)
      refine ⟨by intro h0; exact absurd (List.append_eq_nil_iff.mp h0).2 (List.cons_ne_nil _ _), ?_, ?_⟩
      · rw [List.all_append, h2, Bool.true_and, List.all_cons, List.all_nil, Bool.and_true]
        exact isDigit_ofNat _ hm
      · rw [digitsVal_append_single, h3, toNat_ofNat_digit _ hm]
        omega

theorem lt_ten_pow_succ (n : Nat) : n < 10 ^ (n + 1) := by
  have h1 : n < 10 ^ n := Nat.lt_pow_self (by omega)
  have h2 : 10 ^ n ≤ 10 ^ (n + 1) := Nat.pow_le_pow_right (by omega) (by omega)
  omega

/-- the decimal rendering is a non-empty digit string that reads back as the number -/
theorem natToDec_spec (n : Nat) :
    natToDec n ≠ [] ∧ (natToDec n).all isDigit = true ∧ digitsVal (natToDec n) = n :=
  natToDecFuel_spec n n (lt_ten_pow_succ n)

end Mpd
